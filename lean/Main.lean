import Fs.Drv.Fetch
/-! Line-protocol driver: `<model>\t<op>\t<args…>` per line in, one reply line out. No Mathlib imports. -/
open Fs.Wire

def dispatch (line : String) : String :=
  match fields line with
  | "fetch" :: rest => Fs.Drv.Fetch.handle rest
  | _ => "bad-model"

partial def loop (h : IO.FS.Stream) (out : IO.FS.Stream) : IO Unit := do
  let line ← h.getLine
  if line.isEmpty then return ()
  out.putStrLn (dispatch line)
  out.flush
  loop h out

def main : IO Unit := do loop (← IO.getStdin) (← IO.getStdout)
