/-!
# Session context and name resolution (model of the code behind C03)

`Impl`: what fakesnow does — the four connection fields of `conn.py:44-48`, DuckDB's per-connection search path
(`SET schema`, `conn.py:89,100`, `transforms.py:854 set_schema`), the qualification check of `checks.py:6`
(first table of the statement only), the 90105/90106 guards of `cursor.py:227-240`, the post-execution context
update of `cursor.py:272-281` and the DROP SCHEMA reset of `cursor.py:321-335` (as repaired by the `fix:` commits).

`Spec`: what the property demands — one `Ctx` (current database, current schema) per connection; every name is
resolved to a fully qualified name from that context alone and the statement then acts on that object.

Both share `Cat`, the catalog with its operations on *fully qualified* names: this is the modelled engine
(DuckDB: which exception class each way of being wrong produces), validated by the correspondence check only.
Names are natural numbers (the harness maps the identifiers it generates to numbers); `mainS` is DuckDB's default
schema `main`, which exists in every database, `memoryDb` is DuckDB's initial catalog `memory`.
-/
namespace Fs.Names

abbrev Name := Nat
def mainS : Name := 0
def memoryDb : Name := 1

inductive Kind | table | view
  deriving DecidableEq, Repr

structure Obj where
  db : Name
  schema : Name
  name : Name
  kind : Kind
  rows : List Nat
  deriving DecidableEq, Repr

/-- the shared catalog of one fakesnow instance (user schemas only; `main` is implicit in every database) -/
structure Cat where
  dbs : List Name
  schemas : List (Name × Name)
  objs : List Obj
  deriving DecidableEq, Repr

inductive Err
  | noDb      -- 90105 / 22000
  | noSchema  -- 90106 / 22000
  | binder    -- duckdb.BinderException  → 2043 / 02000
  | catalog   -- duckdb.CatalogException → 2003 / 42S02
  | raw       -- an exception fakesnow does not translate (e.g. duckdb.ParserException)
  deriving DecidableEq, Repr

inductive Res
  | ok                                        -- statement succeeded (status row / empty result)
  | rows (l : List Nat)                       -- result of a query
  | ctx (d : Option Name) (s : Option Name)   -- result of SELECT CURRENT_DATABASE(), CURRENT_SCHEMA()
  | err (e : Err)
  deriving DecidableEq, Repr

/-- table / view reference at the three qualification levels -/
inductive TRef
  | q1 (n : Name)
  | q2 (s n : Name)
  | q3 (d s n : Name)
  deriving DecidableEq, Repr

/-- schema reference, qualified or not -/
inductive SRef
  | q1 (s : Name)
  | q2 (d s : Name)
  deriving DecidableEq, Repr

inductive TOp
  | create (k : Kind) (v : Nat) (ifx : Bool)   -- CREATE TABLE|VIEW [IF NOT EXISTS] r (x int) / … AS SELECT v AS x
  | drop (k : Kind) (ifx : Bool)               -- DROP TABLE|VIEW [IF EXISTS] r
  | insert (v : Nat)              -- INSERT INTO r VALUES (v)
  | select                        -- SELECT x FROM r
  deriving DecidableEq, Repr

/-- statements with a target and a source table -/
inductive COp
  | insertSelect   -- INSERT INTO a SELECT x FROM b
  | ctas           -- CREATE TABLE a AS SELECT x FROM b        (also with the source wrapped in a CTE)
  | clone          -- CREATE TABLE a CLONE b
  | updateFrom     -- UPDATE a SET x = a.x + 1000 FROM b WHERE a.x = b.x
  | deleteUsing    -- DELETE FROM a USING b WHERE a.x = b.x
  | merge          -- MERGE INTO a USING b ON a.x = b.x WHEN NOT MATCHED THEN INSERT (x) VALUES (b.x)
  deriving DecidableEq, Repr

inductive SOp
  | create (ifx : Bool)   -- CREATE SCHEMA [IF NOT EXISTS]
  | drop (ifx : Bool)     -- DROP SCHEMA [IF EXISTS]
  | use
  deriving DecidableEq, Repr

def SOp.isDrop : SOp → Bool | .drop _ => true | _ => false

inductive Stmt
  | createDb (d : Name) (ifx : Bool)   -- CREATE DATABASE [IF NOT EXISTS] d
  | dropDb (d : Name)
  | useDb (d : Name)
  | useBare (x : Name)            -- `USE x` without DATABASE/SCHEMA
  | sch (op : SOp) (r : SRef)
  | tab (op : TOp) (r : TRef)
  | join (r1 r2 : TRef)           -- SELECT count(*) FROM r1 a, r2 b
  | two (op : COp) (a b : TRef)   -- target a, source b
  | tabI (op : TOp) (r : TRef)    -- the statement of `tab` with its table named through IDENTIFIER('<r>') / IDENTIFIER($var)
  | writePandas (v : Nat) (r : TRef)   -- write_pandas(conn, df, table, database=?, schema=?) with one row (v)
  | selectCtx
  deriving DecidableEq, Repr

/-! ## The catalog on fully qualified names (modelled engine) -/

def Cat.hasDb (c : Cat) (d : Name) : Bool := c.dbs.contains d
def Cat.hasSchema (c : Cat) (d s : Name) : Bool := c.hasDb d && (s == mainS || c.schemas.contains (d, s))

def Obj.at (o : Obj) (d s n : Name) : Bool := o.db == d && o.schema == s && o.name == n
def Cat.find (c : Cat) (d s n : Name) : Option Obj := c.objs.find? (·.at d s n)

def Cat.createDb (c : Cat) (d : Name) (ifx : Bool) : Res × Cat :=
  if c.hasDb d then (if ifx then (.ok, c) else (.err .binder, c)) else (.ok, { c with dbs := c.dbs ++ [d] })

/-- what `connect` does when the database / schema it names is missing (conn.py:54-78) -/
def Cat.ensureDb (c : Cat) (d : Name) : Cat := if c.hasDb d then c else { c with dbs := c.dbs ++ [d] }
def Cat.ensureSchema (c : Cat) (d s : Name) : Cat :=
  if c.hasSchema d s then c else { c with schemas := c.schemas ++ [(d, s)] }

/-- the catalog after the "create database / schema if needed" rungs of connect -/
def Cat.connDb (c : Cat) (d : Name) (cd : Bool) : Cat := if cd then c.ensureDb d else c
def Cat.connSchema (c : Cat) (d s : Name) (cs : Bool) : Cat := if cs && c.hasDb d then c.ensureSchema d s else c

/-- CREATE / DROP (CASCADE) / SET schema on a fully qualified schema -/
def Cat.applyS (c : Cat) (op : SOp) (d s : Name) : Res × Cat :=
  if !c.hasDb d then (.err .binder, c) else
  match op with
  | .create ifx =>
    if c.hasSchema d s then (if ifx then (.ok, c) else (.err .catalog, c))
    else (.ok, { c with schemas := c.schemas ++ [(d, s)] })
  | .drop ifx =>
    if s == mainS then (.err .catalog, c)
    else if !c.hasSchema d s then (if ifx then (.ok, c) else (.err .catalog, c))
    else (.ok, { c with schemas := c.schemas.filter (· != (d, s)),
                        objs := c.objs.filter fun o => !(o.db == d && o.schema == s) })
  | .use => if c.hasSchema d s then (.ok, c) else (.err .catalog, c)

/-- the four table-level statements on a fully qualified object name -/
def Cat.applyT (c : Cat) (op : TOp) (d s n : Name) : Res × Cat :=
  if !c.hasDb d then (.err .binder, c) else
  match op with
  | .create k v ifx =>
    if !c.hasSchema d s then (.err .catalog, c) else
    match c.find d s n with
    | some o =>
      -- IF NOT EXISTS: a view "is created" over anything of that name, a table only over a table
      if ifx && (k = .view || o.kind = .table) then (.ok, c) else (.err .catalog, c)
    | none => (.ok, { c with objs := c.objs ++ [⟨d, s, n, k, if k = .view then [v] else []⟩] })
  | .drop k ifx =>
    match c.find d s n with
    | none => if ifx then (.ok, c) else (.err .catalog, c)
    | some o => if o.kind = k then (.ok, { c with objs := c.objs.filter fun o => !o.at d s n }) else (.err .catalog, c)
  | .insert v =>
    match c.find d s n with
    | none => (.err .catalog, c)
    | some o =>
      if o.kind = .view then (.err .catalog, c)
      else (.ok, { c with objs := c.objs.map fun o => if o.at d s n then { o with rows := o.rows ++ [v] } else o })
  | .select =>
    match c.find d s n with
    | none => (.err .catalog, c)
    | some o => (.rows o.rows, c)

/-- rows of a fully qualified object, or the engine's error -/
def Cat.read (c : Cat) (d s n : Name) : Except Err (List Nat) :=
  if !c.hasDb d then .error .binder else
  match c.find d s n with
  | none => .error .catalog
  | some o => .ok o.rows

/-- `SELECT count(*) FROM a, b` on two fully qualified names; the left one is bound first -/
def Cat.joinCount (c : Cat) (a b : Name × Name × Name) : Res :=
  match c.read a.1 a.2.1 a.2.2 with
  | .error e => .err e
  | .ok ra =>
    match c.read b.1 b.2.1 b.2.2 with
    | .error e => .err e
    | .ok rb => .rows [ra.length * rb.length]

def COp.creates : COp → Bool | .ctas | .clone => true | _ => false

/-- what is wrong with the target of a two-table statement (modelled engine) -/
def Cat.targetErr (c : Cat) (op : COp) (d s n : Name) : Option Err :=
  if !c.hasDb d then some .binder else
  match op with
  | .ctas | .clone => if !c.hasSchema d s || (c.find d s n).isSome then some .catalog else none
  | .insertSelect =>
    match c.find d s n with
    | none => some .catalog
    | some o => if o.kind = .view then some .catalog else none
  | .updateFrom | .deleteUsing | .merge =>
    match c.find d s n with
    | none => some .catalog
    | some o => if o.kind = .view then some .binder else none

/-- new rows of the target, given the source's rows -/
def COp.rows (op : COp) (old src : List Nat) : List Nat :=
  match op with
  | .insertSelect => old ++ src
  | .ctas | .clone => src
  | .updateFrom => old.map fun v => if src.contains v then v + 1000 else v
  | .deleteUsing => old.filter fun v => !src.contains v
  | .merge => old ++ src.filter fun v => !old.contains v

/-- a two-table statement on fully qualified names: the target is checked first, then the source is read -/
def Cat.applyTwo (c : Cat) (op : COp) (a b : Name × Name × Name) : Res × Cat :=
  match c.targetErr op a.1 a.2.1 a.2.2 with
  | some e => (.err e, c)
  | none =>
    match c.read b.1 b.2.1 b.2.2 with
    | .error e => (.err e, c)
    | .ok rb =>
      if op.creates then (.ok, { c with objs := c.objs ++ [⟨a.1, a.2.1, a.2.2, .table, op.rows [] rb⟩] })
      else (.ok, { c with objs := c.objs.map fun o =>
                     if o.at a.1 a.2.1 a.2.2 then { o with rows := op.rows o.rows rb } else o })

/-! ## Impl: the connection as fakesnow keeps it -/

structure Session where
  database : Option Name
  schema : Option Name
  databaseSet : Bool
  schemaSet : Bool
  path : Name × Name        -- DuckDB's current (catalog, schema) of this connection's cursor
  deriving DecidableEq, Repr

structure World where
  cat : Cat
  sessions : List Session
  deriving DecidableEq, Repr

def TRef.needDb : TRef → Bool | .q3 .. => false | _ => true
def TRef.needSchema : TRef → Bool | .q1 _ => true | _ => false
def SRef.needDb : SRef → Bool | .q1 _ => true | .q2 .. => false

/-- `checks.is_unqualified_table_expression` on the FIRST table of the statement -/
def Stmt.needs : Stmt → Bool × Bool
  | .createDb _ _ | .dropDb _ | .useDb _ | .selectCtx => (false, false)
  | .useBare _ => (true, true)
  | .sch .use _ => (false, false)   -- `set_schema` has already turned USE into a SET command without a table
  | .sch _ r => (r.needDb, false)
  | .tab _ r => (r.needDb, r.needSchema)
  | .join r1 _ => (r1.needDb, r1.needSchema)
  -- MERGE is decomposed; its first statement creates the unqualified temporary table `merge_candidates`
  | .two .merge _ _ => (true, true)
  | .two _ a _ => (a.needDb, a.needSchema)
  -- `transforms.identifier` puts the whole dotted name into ONE identifier: the table looks unqualified
  | .tabI _ _ => (true, true)
  -- write_pandas talks to DuckDB directly: no 90105 / 90106 guard at all
  | .writePandas _ _ => (false, false)

/-- statements fakesnow cannot build at all: MERGE with a schema- or database-qualified source makes the decomposition
    produce `… FROM merge_candidates AS db.s.t`, a sqlglot ParseError before anything runs (C12's finding) -/
def Stmt.rawFails : Stmt → Bool
  | .two .merge _ (.q1 _) => false
  | .two .merge _ _ => true
  | _ => false

/-- `cursor.py:229-240` -/
def Session.guard (s : Session) (need : Bool × Bool) : Option Err :=
  if need.1 && !s.databaseSet then some .noDb
  else if need.2 && !s.schemaSet then some .noSchema
  else none

def TOp.isCreate : TOp → Bool | .create .. => true | _ => false

/-- DuckDB's resolution of a partially qualified object name from the connection's search path: a one-part
    name of an existing object is looked up in the current schema and then in the current catalog's `main`;
    a new object goes to the current schema -/
def duckResolve (c : Cat) (path : Name × Name) (create : Bool) : TRef → Name × Name × Name
  | .q3 d s n => (d, s, n)
  | .q2 s n => (path.1, s, n)
  | .q1 n =>
    if create then (path.1, path.2, n)
    else if (c.find path.1 path.2 n).isSome then (path.1, path.2, n)
    else if (c.find path.1 mainS n).isSome then (path.1, mainS, n)
    else (path.1, path.2, n)

/-- one statement on one connection, after the guards passed: DuckDB call + `cursor.py:272-335` -/
def exec (c : Cat) (ss : Session) : Stmt → Res × Cat × Session
  | .createDb d ifx => let r := c.createDb d ifx; (r.1, r.2, ss)
  | .dropDb _ => (.err .raw, c, ss)   -- DuckDB has no DROP DATABASE: ParserException reaches the caller
  | .useDb d =>
    if c.hasDb d then (.ok, c, { ss with database := some d, databaseSet := true, path := (d, mainS) })
    else (.err .binder, c, ss)
  | .useBare x =>
    if c.hasDb x then (.ok, c, { ss with path := (x, mainS) }) else (.err .catalog, c, ss)
  | .sch .use r =>
    -- set_schema: an unqualified schema is qualified with conn.database
    match (match r with | .q2 d s => some (d, s, true) | .q1 s => ss.database.map fun d => (d, s, false)) with
    | none => (.err .binder, c, ss)   -- MISSING_DATABASE
    | some (d, s, qualified) =>
      let a := c.applyS .use d s
      if a.1 = .ok then
        (.ok, c, { database := if qualified then some d else ss.database,
                   databaseSet := if qualified then true else ss.databaseSet,
                   schema := some s, schemaSet := true, path := (d, s) })
      else (a.1, c, ss)
  | .sch (.create ifx) r =>
    let ds := match r with | .q2 d s => (d, s) | .q1 s => (ss.path.1, s)
    let r := c.applyS (.create ifx) ds.1 ds.2
    (r.1, r.2, ss)
  | .sch (.drop ifx) r =>
    let ds := match r with | .q2 d s => (d, s) | .q1 s => (ss.path.1, s)
    let a := c.applyS (.drop ifx) ds.1 ds.2
    if a.1 = .ok then
      -- DuckDB itself falls back to `main` when the dropped schema was written with its catalog and is current
      let path1 := match r with | .q2 d s => if ss.path == (d, s) then (d, mainS) else ss.path | .q1 _ => ss.path
      -- cursor.py: same name as conn.schema and (explicit database or conn.database) = conn.database
      let mine := ss.schema == some ds.2 && (match r with | .q2 d _ => ss.database == some d | .q1 _ => true)
      if mine then
        (.ok, a.2, { ss with schema := none, schemaSet := false,
                             path := match ss.database with | some d => (d, mainS) | none => path1 })
      else (.ok, a.2, { ss with path := path1 })
    else (a.1, c, ss)
  | .tab op r =>
    let q := duckResolve c ss.path op.isCreate r
    let r := c.applyT op q.1 q.2.1 q.2.2
    (r.1, r.2, ss)
  | .join r1 r2 => (c.joinCount (duckResolve c ss.path false r1) (duckResolve c ss.path false r2), c, ss)
  | .two op a b =>
    let r := c.applyTwo op (duckResolve c ss.path op.creates a) (duckResolve c ss.path false b)
    (r.1, r.2, ss)
  | .tabI op r =>
    let q := duckResolve c ss.path op.isCreate r
    let r := c.applyT op q.1 q.2.1 q.2.2
    (r.1, r.2, ss)
  | .writePandas v r =>
    -- `INSERT INTO <name> SELECT * FROM df` on the DuckDB connection (no 9010x guard); since /repo fba55e9 DuckDB's
    -- Binder / Catalog exceptions are translated to 2043 / 2003 like everywhere else
    let q := duckResolve c ss.path false r
    let a := c.applyT (.insert v) q.1 q.2.1 q.2.2
    (a.1, a.2, ss)
  | .selectCtx => (.ctx (some ss.path.1) (some ss.path.2), c, ss)

namespace Impl

def step (w : World) (i : Nat) (st : Stmt) : Res × World :=
  match w.sessions[i]? with
  | none => (.err .raw, w)
  | some ss =>
    if st.rawFails then (.err .raw, w) else
    match ss.guard st.needs with
    | some e => (.err e, w)
    | none =>
      let r := exec w.cat ss st
      (r.1, { cat := r.2.1, sessions := w.sessions.set i r.2.2 })

/-- `connect(database=d, schema=s)` on an instance with `create_database_on_connect = cd`,
    `create_schema_on_connect = cs` (conn.py:44-107): the named objects are created when allowed, the names are
    recorded in any case, the `*_set` flags and DuckDB's search path only for what exists afterwards -/
def newSession (c : Cat) (d s : Option Name) (cd cs : Bool) : Cat × Session :=
  match d with
  | none => (c, ⟨none, s, false, false, (memoryDb, mainS)⟩)
  | some d =>
    let c1 : Cat := c.connDb d cd
    match s with
    | none =>
      (c1, if c1.hasDb d then ⟨some d, none, true, false, (d, mainS)⟩ else ⟨some d, none, false, false, (memoryDb, mainS)⟩)
    | some s =>
      let c2 : Cat := c1.connSchema d s cs
      (c2, if c2.hasSchema d s then ⟨some d, some s, true, true, (d, s)⟩
           else if c2.hasDb d then ⟨some d, some s, true, false, (d, mainS)⟩
           else ⟨some d, some s, false, false, (memoryDb, mainS)⟩)

def connect (w : World) (d s : Option Name) (cd cs : Bool) : World :=
  let r := newSession w.cat d s cd cs
  { cat := r.1, sessions := w.sessions ++ [r.2] }

end Impl

def World.init : World := { cat := { dbs := [memoryDb], schemas := [], objs := [] }, sessions := [] }

/-! ## Spec: one context per connection, names resolved from it alone -/

structure Ctx where
  db : Option Name
  schema : Option Name
  deriving DecidableEq, Repr

structure SWorld where
  cat : Cat
  ctxs : List Ctx
  deriving DecidableEq, Repr

def Ctx.resolveT (x : Ctx) : TRef → Except Err (Name × Name × Name)
  | .q3 d s n => .ok (d, s, n)
  | .q2 s n => match x.db with | none => .error .noDb | some d => .ok (d, s, n)
  | .q1 n =>
    match x.db, x.schema with
    | none, _ => .error .noDb
    | some _, none => .error .noSchema
    | some d, some s => .ok (d, s, n)

def Ctx.resolveS (x : Ctx) : SRef → Except Err (Name × Name)
  | .q2 d s => .ok (d, s)
  | .q1 s => match x.db with | none => .error .noDb | some d => .ok (d, s)

/-- sessions whose current schema was just dropped have no current schema any more -/
def Ctx.clear (dropped : Option (Name × Name)) (x : Ctx) : Ctx :=
  match dropped with
  | none => x
  | some (d, s) => if x.db = some d ∧ x.schema = some s then { x with schema := none } else x

/-- result, new catalog, new context of the issuing connection, schema dropped (if any) -/
def sexec (c : Cat) (x : Ctx) : Stmt → Res × Cat × Ctx × Option (Name × Name)
  | .createDb d ifx => let r := c.createDb d ifx; (r.1, r.2, x, none)
  | .dropDb d =>
    -- the catalog of this model cannot forget a database; the specification of DROP DATABASE is only
    -- "not an untranslated error" — every DROP DATABASE is in the finding region
    if c.hasDb d then (.ok, c, x, none) else (.err .catalog, c, x, none)
  | .useDb d | .useBare d =>
    if c.hasDb d then (.ok, c, ⟨some d, none⟩, none) else (.err .binder, c, x, none)
  | .sch op r =>
    match x.resolveS r with
    | .error e => (.err e, c, x, none)
    | .ok (d, s) =>
      let a := c.applyS op d s
      if a.1 = .ok then
        match op with
        | .use => (.ok, a.2, ⟨some d, some s⟩, none)
        | .drop _ => (.ok, a.2, x, some (d, s))
        | .create _ => (.ok, a.2, x, none)
      else (a.1, a.2, x, none)
  | .tab op r =>
    match x.resolveT r with
    | .error e => (.err e, c, x, none)
    | .ok (d, s, n) => let r := c.applyT op d s n; (r.1, r.2, x, none)
  | .join r1 r2 =>
    match x.resolveT r1 with
    | .error e => (.err e, c, x, none)
    | .ok a =>
      match x.resolveT r2 with
      | .error e => (.err e, c, x, none)
      | .ok b => (c.joinCount a b, c, x, none)
  | .two op r1 r2 =>
    match x.resolveT r1 with
    | .error e => (.err e, c, x, none)
    | .ok a =>
      match x.resolveT r2 with
      | .error e => (.err e, c, x, none)
      | .ok b => let r := c.applyTwo op a b; (r.1, r.2, x, none)
  | .tabI op r =>
    match x.resolveT r with
    | .error e => (.err e, c, x, none)
    | .ok (d, s, n) => let r := c.applyT op d s n; (r.1, r.2, x, none)
  | .writePandas v r =>
    match x.resolveT r with
    | .error e => (.err e, c, x, none)
    | .ok (d, s, n) => let r := c.applyT (.insert v) d s n; (r.1, r.2, x, none)
  | .selectCtx => (.ctx x.db x.schema, c, x, none)

namespace Spec

def step (w : SWorld) (i : Nat) (st : Stmt) : Res × SWorld :=
  match w.ctxs[i]? with
  | none => (.err .raw, w)
  | some x =>
    let r := sexec w.cat x st
    (r.1, { cat := r.2.1, ctxs := (w.ctxs.set i r.2.2.1).map (Ctx.clear r.2.2.2) })

/-- the specification of connect: the same objects are created; the new connection's context is the named
    database / schema as far as they exist afterwards -/
def connect (w : SWorld) (d s : Option Name) (cd cs : Bool) : SWorld :=
  match d with
  | none => { w with ctxs := w.ctxs ++ [⟨none, none⟩] }
  | some d =>
    let c1 : Cat := w.cat.connDb d cd
    match s with
    | none => { cat := c1, ctxs := w.ctxs ++ [⟨if c1.hasDb d then some d else none, none⟩] }
    | some s =>
      let c2 : Cat := c1.connSchema d s cs
      { cat := c2, ctxs := w.ctxs ++ [⟨if c2.hasDb d then some d else none, if c2.hasSchema d s then some s else none⟩] }

end Spec

/-! ## Abstraction, coherence, finding regions -/

/-- the context a connection reports (conn.database / conn.schema count only when the `*_set` flag is up) -/
def Session.abs (s : Session) : Ctx :=
  ⟨if s.databaseSet then s.database else none, if s.schemaSet then s.schema else none⟩

def World.abs (w : World) : SWorld := ⟨w.cat, w.sessions.map Session.abs⟩

/-- the reported names, the `*_set` flags, DuckDB's search path and the catalog agree -/
def Session.coherent (c : Cat) (s : Session) : Bool :=
  match s.database, s.schema, s.databaseSet, s.schemaSet with
  | none, none, false, false => s.path == (memoryDb, mainS)
  | some d, none, true, false => c.hasDb d && s.path == (d, mainS)
  | some d, some sc, true, true => c.hasSchema d sc && s.path == (d, sc)
  | _, _, _, _ => false

def World.coherent (w : World) : Bool := w.sessions.all (·.coherent w.cat)

inductive Key
  | useDatabaseStaleSchema | dropDatabaseUnsupported | useWithoutKind | schemaDroppedByOtherConnection
  | nonFirstTableUnqualified | unqualifiedFallsBackToMain | currentSchemaMainWhenNone | useSchemaWithoutDatabase
  | connectNamesMissingContext | mergeQualifiedSource | identifierFunctionUnqualified | writePandasBypassesGuards
  deriving DecidableEq, Repr

def Key.name : Key → String
  | .useDatabaseStaleSchema => "C03/use-database-stale-schema"
  | .dropDatabaseUnsupported => "C03/drop-database-unsupported"
  | .useWithoutKind => "C03/use-without-kind"
  | .schemaDroppedByOtherConnection => "C03/schema-dropped-by-other-connection"
  | .nonFirstTableUnqualified => "C03/non-first-table-unqualified"
  | .unqualifiedFallsBackToMain => "C03/unqualified-falls-back-to-main"
  | .currentSchemaMainWhenNone => "C03/current-schema-main-when-none"
  | .useSchemaWithoutDatabase => "C03/use-schema-without-database-2043"
  | .connectNamesMissingContext => "C03/connect-names-missing-context"
  | .mergeQualifiedSource => "C03/merge-qualified-source"
  | .identifierFunctionUnqualified => "C03/identifier-function-treated-as-unqualified"
  | .writePandasBypassesGuards => "C03/write-pandas-bypasses-guards"

/-- a one-part lookup that DuckDB answers from the current catalog's `main` schema -/
def fallsBack (c : Cat) (path : Name × Name) : TRef → Bool
  | .q1 n => path.2 != mainS && (c.find path.1 path.2 n).isNone && (c.find path.1 mainS n).isSome
  | _ => false

/-- the statement shapes on which the code is known to deviate from the specification, as far as they can be
    recognised from the issuing connection alone (one key per shape) -/
def localRegion (c : Cat) (ss : Session) : Stmt → Option Key
  | .dropDb _ => some .dropDatabaseUnsupported
  | .useBare _ => some .useWithoutKind
  | .useDb _ => if ss.schemaSet then some .useDatabaseStaleSchema else none
  | .selectCtx => if ss.schemaSet then none else some .currentSchemaMainWhenNone
  | .sch .use (.q1 _) => if ss.databaseSet then none else some .useSchemaWithoutDatabase
  | .tab op r => if !op.isCreate && fallsBack c ss.path r then some .unqualifiedFallsBackToMain else none
  | .join r1 r2 =>
    if (ss.guard (r1.needDb, r1.needSchema)).isNone && (ss.guard (r2.needDb, r2.needSchema)).isSome
    then some .nonFirstTableUnqualified
    else if fallsBack c ss.path r1 || fallsBack c ss.path r2 then some .unqualifiedFallsBackToMain
    else none
  | .tabI op r =>
    if (ss.guard (true, true)).isSome && (ss.guard (r.needDb, r.needSchema)).isNone then some .identifierFunctionUnqualified
    else if !op.isCreate && fallsBack c ss.path r then some .unqualifiedFallsBackToMain else none
  | .writePandas _ r =>
    if (ss.guard (r.needDb, r.needSchema)).isSome then some .writePandasBypassesGuards
    else if fallsBack c ss.path r then some .unqualifiedFallsBackToMain else none
  | .two op a b =>
    if (Stmt.two op a b).rawFails then some .mergeQualifiedSource
    else if (ss.guard (Stmt.two op a b).needs).isNone && (ss.guard (b.needDb, b.needSchema)).isSome
    then some .nonFirstTableUnqualified
    else if (!op.creates && fallsBack c ss.path a) || fallsBack c ss.path b then some .unqualifiedFallsBackToMain
    else none
  | _ => none

/-- some connection other than `i` has `d.s` as its current schema -/
def othersHold (w : World) (i : Nat) (d s : Name) : Bool :=
  (List.range w.sessions.length).any fun j =>
    j != i && (match w.sessions[j]? with
               | some sj => sj.abs.db == some d && sj.abs.schema == some s
               | none => false)

/-- the complete classifier: everything outside must satisfy the specification -/
def region (w : World) (i : Nat) (st : Stmt) : Option Key :=
  match w.sessions[i]? with
  | none => none
  | some ss =>
    match localRegion w.cat ss st with
    | some k => some k
    | none =>
      match st with
      | .sch (.drop _) r =>
        match ss.abs.resolveS r with
        | .error _ => none
        | .ok (d, s) => if othersHold w i d s then some .schemaDroppedByOtherConnection else none
      | _ => none

/-- a connect whose new connection reports a database / schema it does not have (named but missing and not
    created: `create_*_on_connect = False`, or a schema without a database) -/
def connectRegion (w : World) (d s : Option Name) (cd cs : Bool) : Option Key :=
  let r := Impl.newSession w.cat d s cd cs
  if r.2.coherent r.1 then none else some .connectNamesMissingContext

def TRef.bare : TRef → Name | .q1 n => n | .q2 _ n => n | .q3 _ _ n => n

/-- UPDATE…FROM / DELETE…USING / MERGE whose target and source have the same bare name: DuckDB rejects the duplicate
    alias; the correspondence check does not explore these (the driver flags them, the history ends) -/
def Stmt.unexplored : Stmt → Bool
  | .two op a b => (op == .updateFrom || op == .deleteUsing || op == .merge) && a.bare == b.bare
  | _ => false

/-- both target and source are faulty with different exception classes: which one DuckDB reports first is not
    modelled; the check only requires *an* error and an unchanged world -/
def Stmt.doubleFault (c : Cat) (path : Name × Name) : Stmt → Bool
  | .two op a b =>
    let ta := duckResolve c path op.creates a
    let tb := duckResolve c path false b
    match c.targetErr op ta.1 ta.2.1 ta.2.2, c.read tb.1 tb.2.1 tb.2.2 with
    | some e1, .error e2 => e1 != e2
    | _, _ => false
  | _ => false

/-! ## Histories -/

inductive Op
  | connect (d s : Option Name) (cd cs : Bool)
  | stmt (i : Nat) (st : Stmt)
  deriving DecidableEq, Repr

def Impl.run (w : World) : List Op → List Res × World
  | [] => ([], w)
  | .connect d s cd cs :: ops => Impl.run (Impl.connect w d s cd cs) ops
  | .stmt i st :: ops =>
    let r := Impl.step w i st
    let rest := Impl.run r.2 ops
    (r.1 :: rest.1, rest.2)

def Spec.run (w : SWorld) : List Op → List Res × SWorld
  | [] => ([], w)
  | .connect d s cd cs :: ops => Spec.run (Spec.connect w d s cd cs) ops
  | .stmt i st :: ops =>
    let r := Spec.step w i st
    let rest := Spec.run r.2 ops
    (r.1 :: rest.1, rest.2)

/-- the envelope of the partial theorems: no step of the history (judged in the state the code is in at that
    step) lies in a finding region, and no connect names a database / schema that is missing and not created -/
def clean (w : World) : List Op → Bool
  | [] => true
  | .connect d s cd cs :: ops => (connectRegion w d s cd cs).isNone && clean (Impl.connect w d s cd cs) ops
  | .stmt i st :: ops => (region w i st).isNone && clean (Impl.step w i st).2 ops

end Fs.Names
