<<<<<<< HEAD
/-!
# Model of fakesnow's type mapping and of the copy statements — property C01

1. `Kind` = sqlglot's `DataType.Type` as the Snowflake dialect parses a column type; the four fakesnow rewrites
   `semi_structured_types`, `timestamp_ntz`, `float_to_double`, `integer_precision`
   (`transforms.py:1262,1205,524,625`, applied in this order by `cursor.py:155-213`); `duckOf` = the DuckDB
   generator's spelling of the kind *and what DuckDB makes of that spelling* (`INT` is 32-bit, `REAL` is binary32,
   `VARIANT`/`OBJECT` are unknown type names) — engine behaviour, trusted base.
2. value domains of the Snowflake types (`dom`) and of the DuckDB storage types (`duckDom`).
3. Python types: `pyOf` (pyarrow `to_pylist` of the DuckDB column — what the fake cursor returns) and `connPy`
   (what the Snowflake connector returns for the column type, as the property lists them).
4. `Copy`: a tiny relational model for CLONE (= `create_clone`, `transforms.py:94`), CTAS and INSERT … SELECT.
5. `_insert_df` cell preparation (`pandas_tools.py:84-107`).
No Mathlib.
-/
namespace Fs.Types

/-! ## 1. type mapping -/

inductive Kind
  | boolean | decimal (p s : Nat) | int | bigint | smallint | tinyint | float | double
  | varchar | char | text | date | time | timestamp | timestampNtz | datetime | timestampTz
  | binary | varbinary | variant | object | array | json
  deriving DecidableEq, Repr

/-- Snowflake type spellings of the property's list, as sqlglot 25.24 parses them (parameterless NUMBER/DECIMAL/NUMERIC
    arrive as DECIMAL(38,0)) -/
def parseSf : String → Option Kind
  | "BOOLEAN" => some .boolean
  | "NUMBER" | "DECIMAL" | "NUMERIC" => some (.decimal 38 0)
  | "INT" | "INTEGER" | "BYTEINT" => some .int
  | "BIGINT" => some .bigint | "SMALLINT" => some .smallint | "TINYINT" => some .tinyint
  | "FLOAT" | "FLOAT4" | "REAL" => some .float
  | "FLOAT8" | "DOUBLE" | "DOUBLE PRECISION" => some .double
  | "VARCHAR" => some .varchar | "CHAR" | "CHARACTER" => some .char | "STRING" | "TEXT" => some .text
  | "DATE" => some .date | "TIME" => some .time | "TIMESTAMP" => some .timestamp
  | "TIMESTAMP_NTZ" => some .timestampNtz | "DATETIME" => some .datetime | "TIMESTAMP_TZ" => some .timestampTz
  | "BINARY" => some .binary | "VARBINARY" => some .varbinary
  | "VARIANT" => some .variant | "OBJECT" => some .object | "ARRAY" => some .array
  | _ => none

def semiStructured : Kind → Kind
  | .array | .object | .variant => .json
  | k => k

def timestampNtz : Kind → Kind
  | .timestampNtz => .timestamp
  | k => k

def floatToDouble : Kind → Kind
  | .float => .double
  | k => k

/-- `DECIMAL` without parameters, `INT`, `SMALLINT`, `TINYINT` ↦ `BIGINT` (a parsed Snowflake NUMBER always has its
    parameters, so only the integer kinds are hit) -/
def integerPrecision : Kind → Kind
  | .int | .smallint | .tinyint => .bigint
  | k => k

def pipeline (k : Kind) : Kind := integerPrecision (floatToDouble (timestampNtz (semiStructured k)))

inductive Duck
  | boolean | tinyint | smallint | integer | bigint | decimal (p s : Nat) | float4 | double | varchar
  | date | time | timestamp | timestamptz | blob | json | unknown
  deriving DecidableEq, Repr

/-- sqlglot's DuckDB spelling of a kind, read by DuckDB 1.0 -/
def duckOf : Kind → Duck
  | .boolean => .boolean | .decimal p s => .decimal p s
  | .int => .integer | .bigint => .bigint | .smallint => .smallint | .tinyint => .tinyint
  | .float => .float4          -- rendered REAL
  | .double => .double
  | .varchar | .char | .text => .varchar   -- rendered TEXT
  | .date => .date | .time => .time
  | .timestamp | .timestampNtz | .datetime => .timestamp
  | .timestampTz => .timestamptz
  | .binary | .varbinary => .blob
  | .json => .json
  | .variant | .object | .array => .unknown    -- `VARIANT`, `OBJECT`, `[]`: not DuckDB types

def toDuck (k : Kind) : Duck := duckOf (pipeline k)

/-! ## 2. value domains -/

inductive Val
  | bool (b : Bool)
  | num (m : Int) (scale : Nat)       -- the number m · 10^(-scale)
  | dbl (bits : Nat)                  -- an IEEE binary64 bit pattern
  | str (s : List Char)
  | date (days : Int)                 -- days since 1970-01-01
  | time (us : Nat)                   -- µs since midnight
  | ts (us : Int)                     -- µs since the epoch (wall clock for NTZ, instant for TZ)
  | bin (bytes : List Nat)
  | json (text : List Char)
  deriving DecidableEq, Repr

def isIntFamily : Kind → Bool
  | .int | .bigint | .smallint | .tinyint => true
  | _ => false

def tsMin : Int := -62135596800000000      -- 0001-01-01 00:00:00
def tsMax : Int := 253402300799999999      -- 9999-12-31 23:59:59.999999

/-- values *exactly representable* in a Snowflake column of the kind.  The integer family are synonyms of
    NUMBER(38,0); FLOAT/FLOAT4/REAL/DOUBLE are all 64-bit. -/
def dom : Kind → Val → Prop
  | .boolean, .bool _ => True
  | .decimal p s, .num m sc => sc = s ∧ p ≤ 38 ∧ -(10 ^ p : Int) < m ∧ m < 10 ^ p
  | .int, .num m sc | .bigint, .num m sc | .smallint, .num m sc | .tinyint, .num m sc =>
      sc = 0 ∧ -(10 ^ 38 : Int) < m ∧ m < 10 ^ 38
  | .float, .dbl b | .double, .dbl b => b < 2 ^ 64
  | .varchar, .str _ | .char, .str _ | .text, .str _ => True
  | .date, .date d => -719162 ≤ d ∧ d ≤ 2932896
  | .time, .time us => us < 86400000000
  | .timestamp, .ts us | .timestampNtz, .ts us | .datetime, .ts us | .timestampTz, .ts us => tsMin ≤ us ∧ us ≤ tsMax
  | .binary, .bin bs | .varbinary, .bin bs => ∀ b ∈ bs, b < 256
  | .variant, .json _ | .object, .json _ | .array, .json _ | .json, .json _ => True
  | _, _ => False

/-- what a DuckDB column of the storage type can hold.  `float4`: a *necessary* condition only (the low 29 mantissa
    bits of the double are zero) — used for the negative witness, never to claim a fit. -/
def duckDom : Duck → Val → Prop
  | .boolean, .bool _ => True
  | .tinyint, .num m sc => sc = 0 ∧ -128 ≤ m ∧ m < 128
  | .smallint, .num m sc => sc = 0 ∧ -32768 ≤ m ∧ m < 32768
  | .integer, .num m sc => sc = 0 ∧ -2147483648 ≤ m ∧ m < 2147483648
  | .bigint, .num m sc => sc = 0 ∧ -9223372036854775808 ≤ m ∧ m < 9223372036854775808
  | .decimal p s, .num m sc => sc = s ∧ p ≤ 38 ∧ -(10 ^ p : Int) < m ∧ m < 10 ^ p
  | .float4, .dbl b => b < 2 ^ 64 ∧ b % 2 ^ 29 = 0
  | .double, .dbl b => b < 2 ^ 64
  | .varchar, .str _ => True
  | .date, .date d => -2147483648 ≤ d ∧ d < 2147483648
  | .time, .time us => us ≤ 86400000000
  | .timestamp, .ts us | .timestamptz, .ts us => -9223372036854775808 < us ∧ us < 9223372036854775807
  | .blob, .bin bs => ∀ b ∈ bs, b < 256
  | .json, .json _ => True
  | _, _ => False

def int64 : Val → Prop
  | .num m _ => -9223372036854775808 ≤ m ∧ m < 9223372036854775808
  | _ => True

/-! ## 3. Python types -/

inductive Py | bool | int | decimal | float | str | date | time | naive | aware | bytes | none
  deriving DecidableEq, Repr

/-- pyarrow `to_pylist` of the arrow column DuckDB returns -/
def pyOf : Duck → Py
  | .boolean => .bool | .tinyint | .smallint | .integer | .bigint => .int | .decimal _ _ => .decimal
  | .float4 | .double => .float | .varchar => .str | .date => .date | .time => .time
  | .timestamp => .naive | .timestamptz => .aware | .blob => .bytes | .json => .str | .unknown => .none

/-- the connector's type for a column of the kind, as the property lists them: FIXED scale 0 → int, scale > 0 →
    Decimal, REAL → float, TEXT → str, DATE/TIME, TIMESTAMP_NTZ naive, TIMESTAMP_TZ aware, BINARY → bytes,
    VARIANT/OBJECT/ARRAY → JSON text (str) -/
def connPy : Kind → Py
  | .boolean => .bool
  | .decimal _ 0 => .int | .decimal _ _ => .decimal
  | .int | .bigint | .smallint | .tinyint => .int
  | .float | .double => .float
  | .varchar | .char | .text => .str
  | .date => .date | .time => .time
  | .timestamp | .timestampNtz | .datetime => .naive
  | .timestampTz => .aware
  | .binary | .varbinary => .bytes
  | .variant | .object | .array | .json => .str

/-- Python's `str(Decimal)` switches to scientific notation iff the exponent is positive or the adjusted exponent
    (`exp + digits − 1`) is below −6 (`decimal.py` `__str__`) -/
def pyDecimalStrSci (digits : Nat) (exp : Int) : Bool := decide (exp > 0) || decide (exp + digits - 1 < -6)

/-- the pyformat path binds a `Decimal` client-side as the quoted text `str(d)` (connector `to_snowflake`); DuckDB's
    VARCHAR → DECIMAL cast accepts plain notation only (engine behaviour) -/
def pyformatDecimalAccepted (digits : Nat) (exp : Int) : Bool := !pyDecimalStrSci digits exp

/-! ## 4. copy statements on a tiny relational model -/

abbrev Cell := Option Int            -- a stored value (abstract) or NULL
abbrev Row := List Cell
structure Table where
  cols : List String
  rows : List Row
  deriving DecidableEq, Repr
abbrev Db := List (String × Table)   -- normalised name ↦ table

def get (db : Db) (n : String) : Option Table := (db.find? (·.1 == n)).map (·.2)
def put (db : Db) (n : String) (t : Table) : Db := (n, t) :: db.filter (fun p => !(p.1 == n))

/-- a query `SELECT <proj> FROM src WHERE <pred>`; `star` = `SELECT *` -/
structure Query where
  src : String
  pred : Row → Bool
  proj : Row → Row
  projCols : List String → List String

def star (src : String) : Query := { src := src, pred := fun _ => true, proj := id, projCols := id }

def evalQuery (db : Db) (q : Query) : Option Table :=
  (get db q.src).map fun t => { cols := q.projCols t.cols, rows := (t.rows.filter q.pred).map q.proj }

/-- engine: `CREATE [OR REPLACE] TABLE new AS <query>` -/
def ctas (db : Db) (new : String) (orReplace : Bool) (q : Query) : Option Db :=
  match evalQuery db q with
  | none => none
  | some t => if (get db new).isSome && !orReplace then none else some (put db new t)

/-- `create_clone`: `CREATE TABLE new CLONE src` is rewritten to `CREATE TABLE new AS SELECT * FROM src`
    (the rewrite drops OR REPLACE, `transforms.py:101-111`) -/
def clone (db : Db) (new src : String) : Option Db := ctas db new false (star src)

/-- engine: `INSERT INTO tgt <query>`; returns the new database and the reported count -/
def insertSelect (db : Db) (tgt : String) (q : Query) : Option (Db × Nat) :=
  match get db tgt, evalQuery db q with
  | some t, some r => some (put db tgt { t with rows := t.rows ++ r.rows }, r.rows.length)
  | _, _ => none

/-! ## 5. `_insert_df` cell preparation -/

inductive PCell
  | null | int (i : Int) | float (bits : Nat) | str (s : List Char) | dict (j : List Char) | list (j : List Char)
  deriving DecidableEq, Repr

/-- `json.dumps(x) if isinstance(x, (dict, list)) else x` on object columns; `j` stands for the document, the
    produced text is `dumps j` for an abstract injective `dumps` -/
def prepCell (dumps : List Char → List Char) (objectCol : Bool) : PCell → PCell
  | .dict j => if objectCol then .str (dumps j) else .dict j
  | .list j => if objectCol then .str (dumps j) else .list j
  | c => c

/-- column list of the generated `INSERT INTO t("c1","c2") SELECT * FROM df` -/
def quoteCols (cols : List (List Char)) : List (List Char) := cols.map fun c => ['"'] ++ c ++ ['"']
=======
/-
Model of `fakesnow/types.py` (`duckdb_to_sf_type`, `describe_as_rowtype`) and of what `cursor.description`
re-describes (`cursor.py:113-123, 353`), for C06.  Text is `List Char` (no opaque `String` functions).
-/
namespace Fs.Types

/-- Snowflake result type names of the connector (`FIELD_NAME_TO_ID`) -/
inductive SfType
  | fixed | real | text | date | timestamp_ntz | timestamp_tz | variant | binary | time | boolean
deriving DecidableEq, Repr

/-- the connector's type codes -/
def SfType.code : SfType → Nat
  | .fixed => 0 | .real => 1 | .text => 2 | .date => 3 | .variant => 5 | .timestamp_tz => 7
  | .timestamp_ntz => 8 | .binary => 11 | .time => 12 | .boolean => 13

structure ColumnInfo where
  type : SfType
  precision : Option Nat := none
  scale : Option Nat := none
  length : Option Nat := none        -- `internal_size` of ResultMetadata
  byteLength : Option Nat := none
deriving DecidableEq, Repr

def isDigit (c : Char) : Bool := '0'.toNat ≤ c.toNat && c.toNat ≤ '9'.toNat
def digitVal (c : Char) : Nat := c.toNat - '0'.toNat
/-- `int(text)` on a run of ASCII digits -/
def valOf (cs : List Char) : Nat := cs.foldl (fun a c => a * 10 + digitVal c) 0

/-- the longest prefix of digits and the rest -/
def spanDigits : List Char → List Char × List Char
  | [] => ([], [])
  | c :: cs => if isDigit c then let r := spanDigits cs; (c :: r.1, r.2) else ([], c :: cs)

/-- try to match `\((\d+),(\d+)\)` at the head of the text -/
def matchHere : List Char → Option (Nat × Nat)
  | '(' :: rest =>
    match spanDigits rest with
    | ([], _) => none
    | (p, ',' :: rest2) =>
      match spanDigits rest2 with
      | ([], _) => none
      | (s, ')' :: _) => some (valOf p, valOf s)
      | _ => none
    | _ => none
  | _ => none

/-- `re.search(r"\((\d+),(\d+)\)", text)`: leftmost match -/
def searchDec : List Char → Option (Nat × Nat)
  | [] => none
  | c :: cs =>
    match matchHere (c :: cs) with
    | some r => some r
    | none => searchDec cs

def startsWith : List Char → List Char → Bool
  | _, [] => true
  | [], _ :: _ => false
  | c :: cs, p :: ps => c == p && startsWith cs ps

/-- the dictionary `duckdb_to_sf_type` (after the HUGEINT `fix:`) -/
def table : List (String × SfType) :=
  [("BIGINT", .fixed), ("BLOB", .binary), ("BOOLEAN", .boolean), ("DATE", .date), ("DECIMAL", .fixed), ("DOUBLE", .real),
   ("HUGEINT", .fixed), ("INTEGER", .fixed), ("JSON", .variant), ("TIME", .time), ("TIMESTAMP WITH TIME ZONE", .timestamp_tz),
   ("TIMESTAMP_NS", .timestamp_ntz), ("TIMESTAMP", .timestamp_ntz), ("VARCHAR", .text)]

def lookup (key : List Char) : List (String × SfType) → Option SfType
  | [] => none
  | (k, v) :: rest => if k.toList = key then some v else lookup key rest

/-- the text `DECIMAL` -/
def decimalWord : List Char := ['D', 'E', 'C', 'I', 'M', 'A', 'L']

def isDecimal (columnType : List Char) : Bool := startsWith columnType decimalWord

/-- `as_column_info`: `none` = `NotImplementedError(f"for column type {column_type}")` -/
def asColumnInfo (columnType : List Char) : Option ColumnInfo :=
  match lookup (if isDecimal columnType then decimalWord else columnType) table with
  | none => none
  | some t =>
    if isDecimal columnType then
      match searchDec columnType with
      | some (p, s) => some { type := t, precision := some p, scale := some s }
      | none => some { type := t, precision := some 38, scale := some 0 }
    else match t with
      | .fixed => some { type := t, precision := some 38, scale := some 0 }
      | .text => some { type := t, length := some 16777216, byteLength := some 16777216 }
      | .time | .timestamp_ntz | .timestamp_tz => some { type := t, precision := some 0, scale := some 9 }
      | .binary => some { type := t, length := some 8388608, byteLength := some 8388608 }
      | _ => some { type := t }

/-- decimal digits of a number, most significant first (`str(n)`) -/
def digitsAux : Nat → Nat → List Char → List Char
  | 0, _, acc => acc
  | fuel + 1, n, acc =>
    let acc' := Char.ofNat ('0'.toNat + n % 10) :: acc
    if n / 10 = 0 then acc' else digitsAux fuel (n / 10) acc'

def digits (n : Nat) : List Char := digitsAux (n + 1) n []

/-- how DuckDB's DESCRIBE prints a decimal type -/
def renderDecimal (p s : Nat) : List Char := decimalWord ++ ('(' :: (digits p ++ [','] ++ digits s ++ [')']))

/-! ### the Python type of a fetched value, per DuckDB type (pyarrow `to_pylist`, modelled) -/

inductive PyType | int | decimal | float | str | date | time | datetime | datetimeTz | bytes | bool
deriving DecidableEq, Repr

/-- DuckDB result type ↦ Python type of the fetched value (`none` = not in this model) -/
def pyOf (columnType : List Char) : Option PyType :=
  if isDecimal columnType then some .decimal
  else match String.ofList columnType with
    | "BIGINT" | "INTEGER" => some .int
    | "HUGEINT" => some .decimal          -- pyarrow decimal128(38,0)
    | "DOUBLE" => some .float
    | "VARCHAR" | "JSON" => some .str
    | "DATE" => some .date
    | "TIME" => some .time
    | "TIMESTAMP" | "TIMESTAMP_NS" => some .datetime
    | "TIMESTAMP WITH TIME ZONE" => some .datetimeTz
    | "BLOB" => some .bytes
    | "BOOLEAN" => some .bool
    | _ => none

/-- what the property says about type code / scale vs Python type -/
def agrees (ci : ColumnInfo) (py : PyType) : Bool :=
  match ci.type, py with
  | .fixed, .int => ci.scale == some 0
  | .fixed, .decimal => (ci.scale.getD 0) > 0
  | .real, .float | .text, .str | .variant, .str | .date, .date | .time, .time
  | .timestamp_ntz, .datetime | .timestamp_tz, .datetimeTz | .binary, .bytes | .boolean, .bool => true
  | _, _ => false

/-! ### what `description` describes -/

/-- the statement kinds of the sweep, by what `_last_sql` holds after them -/
inductive Kind
  | query                 -- SELECT / WITH / VALUES / SHOW rewritten to a select / DESCRIBE TABLE: `_last_sql` is the query
  | statusSelect          -- DML, DDL, SET/UNSET, no-op'd, COMMIT/ROLLBACK outside a transaction, TRUNCATE, COMMENT: `_last_sql` = result_sql
  | seededQuery           -- SELECT … RANDOM(seed): `_last_sql` = "SELECT setseed(..); <query>" (SAMPLE … SEED stays a plain query)
  | txControl             -- BEGIN, COMMIT / ROLLBACK inside a transaction
  | use                   -- USE DATABASE / USE SCHEMA
  | rawCommand            -- SHOW DATABASES, EXPLAIN …: passed through, `DESCRIBE <text>` does not parse
  | beforeExecute         -- no statement yet: `_last_sql` is None
deriving DecidableEq, Repr

inductive Described
  | ofResult              -- one entry per result column of the statement, in order
  | ofOther               -- entries of a different statement
  | raises
deriving DecidableEq, Repr

/-- `DESCRIBE <_last_sql>` through sqlglot's duckdb dialect and DuckDB -/
def describeLast : Kind → Described
  | .query | .statusSelect => .ofResult
  | .seededQuery => .ofOther          -- DESCRIBE of a two-statement string describes the first: `setseed(..)`
  | _ => .raises

end Fs.Types

/-! ### purity of `description` / `describe` (cursor.py:100-123) -/
namespace Fs.Types

/-- the per-cursor fields (`cursor.py:64-73`); result rows and SQL texts are opaque here -/
structure Cur (R Q : Type) where
  result : Option R := none          -- `_arrow_table`
  fetchIndex : Option Nat := none    -- `_arrow_table_fetch_index`
  rowcount : Option Nat := none
  sqlstate : Option String := none
  lastSql : Option Q := none
  lastParams : Option Q := none

structure Conn (D S R Q : Type) where
  duck : D
  session : S
  cursors : List (Cur R Q)

/-- `DESCRIBE <sql>` on the engine: new engine state and either rows or an error; `descSql` builds the text -/
structure Engine (D R Q : Type) where
  describe : D → Option Q → D × Option R

/-- `cursor.description` on cursor `i`: a throw-away cursor executes `DESCRIBE <last sql>`; its fields die with it -/
def description {D S R Q} (e : Engine D R Q) (c : Conn D S R Q) (i : Nat) : Conn D S R Q × Option R :=
  match c.cursors[i]? with
  | none => (c, none)
  | some cur =>
    let r := e.describe c.duck cur.lastSql
    -- the temporary cursor `tmp` gets result/rowcount/lastSql; it is not in `c.cursors` and is dropped
    ({ c with duck := r.1 }, r.2)

/-- `cursor.describe(q)` on cursor `i`: `self.execute("DESCRIBE q")` on the cursor itself, then `fetchall()` -/
def describe {D S R Q} (e : Engine D R Q) (descOf : Q → Q) (c : Conn D S R Q) (i : Nat) (q : Q) : Conn D S R Q × Option R :=
  match c.cursors[i]? with
  | none => (c, none)
  | some cur =>
    let r := e.describe c.duck (some q)
    let cur' : Cur R Q := match r.2 with
      | some rows => { cur with result := some rows, fetchIndex := some 0, rowcount := some 0, sqlstate := none,
                                 lastSql := some (descOf q), lastParams := none }
      | none => { cur with result := none, fetchIndex := none, rowcount := none }
    ({ c with duck := r.1, cursors := c.cursors.set i cur' }, r.2)
>>>>>>> build-C

end Fs.Types
