/-!
# Model of fakesnow's type mapping and of the copy statements — property C01

1. `Kind` = sqlglot's `DataType.Type` as the Snowflake dialect parses a column type; the four fakesnow rewrites
   `semi_structured_types`, `timestamp_ntz`, `float_to_double`, `integer_precision`
   (`transforms.py:1262,1205,524,625`, applied in this order by `cursor.py:155-213`); `duckOf` = the DuckDB
   generator's spelling of the kind *and what DuckDB makes of that spelling* (`INT` is 32-bit, `REAL` is binary32,
   `VARIANT`/`OBJECT` are unknown type names) — engine behaviour, trusted base.
2. value domains of the Snowflake types (`dom`) and of the DuckDB storage types (`duckDom`).
3. Python types: `pyOf` (pyarrow `to_pylist` of the DuckDB column — what the fake cursor returns) and `connPy`
   (what the Snowflake connector returns for the column type, as the property lists them).
4. `Copy`: a tiny relational model for CLONE (= `create_clone`, `transforms.py:94`), CTAS and INSERT … SELECT.
5. `_insert_df` cell preparation (`pandas_tools.py:84-107`).
No Mathlib.
-/
namespace Fs.Types

/-! ## 1. type mapping -/

inductive Kind
  | boolean | decimal (p s : Nat) | int | bigint | smallint | tinyint | float | double
  | varchar | char | text | date | time | timestamp | timestampNtz | datetime | timestampTz
  | binary | varbinary | variant | object | array | json
  deriving DecidableEq, Repr

/-- Snowflake type spellings of the property's list, as sqlglot 25.24 parses them (parameterless NUMBER/DECIMAL/NUMERIC
    arrive as DECIMAL(38,0)) -/
def parseSf : String → Option Kind
  | "BOOLEAN" => some .boolean
  | "NUMBER" | "DECIMAL" | "NUMERIC" => some (.decimal 38 0)
  | "INT" | "INTEGER" | "BYTEINT" => some .int
  | "BIGINT" => some .bigint | "SMALLINT" => some .smallint | "TINYINT" => some .tinyint
  | "FLOAT" | "FLOAT4" | "REAL" => some .float
  | "FLOAT8" | "DOUBLE" | "DOUBLE PRECISION" => some .double
  | "VARCHAR" => some .varchar | "CHAR" | "CHARACTER" => some .char | "STRING" | "TEXT" => some .text
  | "DATE" => some .date | "TIME" => some .time | "TIMESTAMP" => some .timestamp
  | "TIMESTAMP_NTZ" => some .timestampNtz | "DATETIME" => some .datetime | "TIMESTAMP_TZ" => some .timestampTz
  | "BINARY" => some .binary | "VARBINARY" => some .varbinary
  | "VARIANT" => some .variant | "OBJECT" => some .object | "ARRAY" => some .array
  | _ => none

def semiStructured : Kind → Kind
  | .array | .object | .variant => .json
  | k => k

def timestampNtz : Kind → Kind
  | .timestampNtz => .timestamp
  | k => k

def floatToDouble : Kind → Kind
  | .float => .double
  | k => k

/-- `DECIMAL` without parameters, `INT`, `SMALLINT`, `TINYINT` ↦ `BIGINT` (a parsed Snowflake NUMBER always has its
    parameters, so only the integer kinds are hit) -/
def integerPrecision : Kind → Kind
  | .int | .smallint | .tinyint => .bigint
  | k => k

def pipeline (k : Kind) : Kind := integerPrecision (floatToDouble (timestampNtz (semiStructured k)))

inductive Duck
  | boolean | tinyint | smallint | integer | bigint | decimal (p s : Nat) | float4 | double | varchar
  | date | time | timestamp | timestamptz | blob | json | unknown
  deriving DecidableEq, Repr

/-- sqlglot's DuckDB spelling of a kind, read by DuckDB 1.0 -/
def duckOf : Kind → Duck
  | .boolean => .boolean | .decimal p s => .decimal p s
  | .int => .integer | .bigint => .bigint | .smallint => .smallint | .tinyint => .tinyint
  | .float => .float4          -- rendered REAL
  | .double => .double
  | .varchar | .char | .text => .varchar   -- rendered TEXT
  | .date => .date | .time => .time
  | .timestamp | .timestampNtz | .datetime => .timestamp
  | .timestampTz => .timestamptz
  | .binary | .varbinary => .blob
  | .json => .json
  | .variant | .object | .array => .unknown    -- `VARIANT`, `OBJECT`, `[]`: not DuckDB types

def toDuck (k : Kind) : Duck := duckOf (pipeline k)

/-! ## 2. value domains -/

inductive Val
  | bool (b : Bool)
  | num (m : Int) (scale : Nat)       -- the number m · 10^(-scale)
  | dbl (bits : Nat)                  -- an IEEE binary64 bit pattern
  | str (s : List Char)
  | date (days : Int)                 -- days since 1970-01-01
  | time (us : Nat)                   -- µs since midnight
  | ts (us : Int)                     -- µs since the epoch (wall clock for NTZ, instant for TZ)
  | bin (bytes : List Nat)
  | json (text : List Char)
  deriving DecidableEq, Repr

def isIntFamily : Kind → Bool
  | .int | .bigint | .smallint | .tinyint => true
  | _ => false

def tsMin : Int := -62135596800000000      -- 0001-01-01 00:00:00
def tsMax : Int := 253402300799999999      -- 9999-12-31 23:59:59.999999

/-- values *exactly representable* in a Snowflake column of the kind.  The integer family are synonyms of
    NUMBER(38,0); FLOAT/FLOAT4/REAL/DOUBLE are all 64-bit. -/
def dom : Kind → Val → Prop
  | .boolean, .bool _ => True
  | .decimal p s, .num m sc => sc = s ∧ p ≤ 38 ∧ -(10 ^ p : Int) < m ∧ m < 10 ^ p
  | .int, .num m sc | .bigint, .num m sc | .smallint, .num m sc | .tinyint, .num m sc =>
      sc = 0 ∧ -(10 ^ 38 : Int) < m ∧ m < 10 ^ 38
  | .float, .dbl b | .double, .dbl b => b < 2 ^ 64
  | .varchar, .str _ | .char, .str _ | .text, .str _ => True
  | .date, .date d => -719162 ≤ d ∧ d ≤ 2932896
  | .time, .time us => us < 86400000000
  | .timestamp, .ts us | .timestampNtz, .ts us | .datetime, .ts us | .timestampTz, .ts us => tsMin ≤ us ∧ us ≤ tsMax
  | .binary, .bin bs | .varbinary, .bin bs => ∀ b ∈ bs, b < 256
  | .variant, .json _ | .object, .json _ | .array, .json _ | .json, .json _ => True
  | _, _ => False

/-- what a DuckDB column of the storage type can hold.  `float4`: a *necessary* condition only (the low 29 mantissa
    bits of the double are zero) — used for the negative witness, never to claim a fit. -/
def duckDom : Duck → Val → Prop
  | .boolean, .bool _ => True
  | .tinyint, .num m sc => sc = 0 ∧ -128 ≤ m ∧ m < 128
  | .smallint, .num m sc => sc = 0 ∧ -32768 ≤ m ∧ m < 32768
  | .integer, .num m sc => sc = 0 ∧ -2147483648 ≤ m ∧ m < 2147483648
  | .bigint, .num m sc => sc = 0 ∧ -9223372036854775808 ≤ m ∧ m < 9223372036854775808
  | .decimal p s, .num m sc => sc = s ∧ p ≤ 38 ∧ -(10 ^ p : Int) < m ∧ m < 10 ^ p
  | .float4, .dbl b => b < 2 ^ 64 ∧ b % 2 ^ 29 = 0
  | .double, .dbl b => b < 2 ^ 64
  | .varchar, .str _ => True
  | .date, .date d => -2147483648 ≤ d ∧ d < 2147483648
  | .time, .time us => us ≤ 86400000000
  | .timestamp, .ts us | .timestamptz, .ts us => -9223372036854775808 < us ∧ us < 9223372036854775807
  | .blob, .bin bs => ∀ b ∈ bs, b < 256
  | .json, .json _ => True
  | _, _ => False

def int64 : Val → Prop
  | .num m _ => -9223372036854775808 ≤ m ∧ m < 9223372036854775808
  | _ => True

/-! ## 3. Python types -/

inductive Py | bool | int | decimal | float | str | date | time | naive | aware | bytes | none
  deriving DecidableEq, Repr

/-- pyarrow `to_pylist` of the arrow column DuckDB returns -/
def pyOf : Duck → Py
  | .boolean => .bool | .tinyint | .smallint | .integer | .bigint => .int | .decimal _ _ => .decimal
  | .float4 | .double => .float | .varchar => .str | .date => .date | .time => .time
  | .timestamp => .naive | .timestamptz => .aware | .blob => .bytes | .json => .str | .unknown => .none

/-- the connector's type for a column of the kind, as the property lists them: FIXED scale 0 → int, scale > 0 →
    Decimal, REAL → float, TEXT → str, DATE/TIME, TIMESTAMP_NTZ naive, TIMESTAMP_TZ aware, BINARY → bytes,
    VARIANT/OBJECT/ARRAY → JSON text (str) -/
def connPy : Kind → Py
  | .boolean => .bool
  | .decimal _ 0 => .int | .decimal _ _ => .decimal
  | .int | .bigint | .smallint | .tinyint => .int
  | .float | .double => .float
  | .varchar | .char | .text => .str
  | .date => .date | .time => .time
  | .timestamp | .timestampNtz | .datetime => .naive
  | .timestampTz => .aware
  | .binary | .varbinary => .bytes
  | .variant | .object | .array | .json => .str

/-- what `cursor.description` reports for a column of the storage type (`types.py:21-85`): Snowflake type name,
    precision, scale.  The `DECIMAL(p,s)` text DuckDB prints is parsed back to (p, s) — any number of digits each. -/
inductive SfName | fixed | real | text | boolean | date | time | timestampNtz | timestampTz | binary | variant | unmapped
  deriving DecidableEq, Repr

def sfDescr : Duck → SfName × Option Nat × Option Nat
  | .decimal p s => (.fixed, some p, some s)
  | .bigint | .integer => (.fixed, some 38, some 0)
  | .double => (.real, none, none)
  | .varchar => (.text, none, none)
  | .boolean => (.boolean, none, none)
  | .date => (.date, none, none)
  | .time => (.time, some 0, some 9)
  | .timestamp => (.timestampNtz, some 0, some 9)
  | .timestamptz => (.timestampTz, some 0, some 9)
  | .blob => (.binary, none, none)
  | .json => (.variant, none, none)
  | .tinyint | .smallint | .float4 | .unknown => (.unmapped, none, none)

/-- what the Snowflake connector's description says for the *declared* column kind (numbers, the part the property's
    "type the connector uses" depends on: FIXED with the declared precision and scale; integer family = NUMBER(38,0)) -/
def declDescr : Kind → Option (SfName × Option Nat × Option Nat)
  | .decimal p s => some (.fixed, some p, some s)
  | .int | .bigint | .smallint | .tinyint => some (.fixed, some 38, some 0)
  | .float | .double => some (.real, none, none)
  | _ => none

/-- Python's `str(Decimal)` switches to scientific notation iff the exponent is positive or the adjusted exponent
    (`exp + digits − 1`) is below −6 (`decimal.py` `__str__`) -/
def pyDecimalStrSci (digits : Nat) (exp : Int) : Bool := decide (exp > 0) || decide (exp + digits - 1 < -6)

/-- the pyformat path binds a `Decimal` client-side as the quoted text `str(d)` (connector `to_snowflake`); DuckDB's
    VARCHAR → DECIMAL cast accepts plain notation only (engine behaviour) -/
def pyformatDecimalAccepted (digits : Nat) (exp : Int) : Bool := !pyDecimalStrSci digits exp

/-! ## 4. copy statements on a tiny relational model -/

abbrev Cell := Option Int            -- a stored value (abstract) or NULL
abbrev Row := List Cell
structure Table where
  cols : List String
  rows : List Row
  deriving DecidableEq, Repr
abbrev Db := List (String × Table)   -- normalised name ↦ table

def get (db : Db) (n : String) : Option Table := (db.find? (·.1 == n)).map (·.2)
def put (db : Db) (n : String) (t : Table) : Db := (n, t) :: db.filter (fun p => !(p.1 == n))

/-- a query `SELECT <proj> FROM src WHERE <pred>`; `star` = `SELECT *` -/
structure Query where
  src : String
  pred : Row → Bool
  proj : Row → Row
  projCols : List String → List String

def star (src : String) : Query := { src := src, pred := fun _ => true, proj := id, projCols := id }

def evalQuery (db : Db) (q : Query) : Option Table :=
  (get db q.src).map fun t => { cols := q.projCols t.cols, rows := (t.rows.filter q.pred).map q.proj }

/-- engine: `CREATE [OR REPLACE] TABLE new AS <query>` -/
def ctas (db : Db) (new : String) (orReplace : Bool) (q : Query) : Option Db :=
  match evalQuery db q with
  | none => none
  | some t => if (get db new).isSome && !orReplace then none else some (put db new t)

/-- `create_clone`: `CREATE TABLE new CLONE src` is rewritten to `CREATE TABLE new AS SELECT * FROM src`
    (the rewrite drops OR REPLACE, `transforms.py:101-111`) -/
def clone (db : Db) (new src : String) : Option Db := ctas db new false (star src)

/-- engine: `INSERT INTO tgt <query>`; returns the new database and the reported count -/
def insertSelect (db : Db) (tgt : String) (q : Query) : Option (Db × Nat) :=
  match get db tgt, evalQuery db q with
  | some t, some r => some (put db tgt { t with rows := t.rows ++ r.rows }, r.rows.length)
  | _, _ => none

/-! ## 5. `_insert_df` cell preparation -/

inductive PCell
  | null | int (i : Int) | float (bits : Nat) | str (s : List Char) | dict (j : List Char) | list (j : List Char)
  deriving DecidableEq, Repr

/-- `json.dumps(x) if isinstance(x, (dict, list)) else x` on object columns; `j` stands for the document, the
    produced text is `dumps j` for an abstract injective `dumps` -/
def prepCell (dumps : List Char → List Char) (objectCol : Bool) : PCell → PCell
  | .dict j => if objectCol then .str (dumps j) else .dict j
  | .list j => if objectCol then .str (dumps j) else .list j
  | c => c

/-- column list of the generated `INSERT INTO t("c1","c2") SELECT * FROM df` -/
def quoteCols (cols : List (List Char)) : List (List Char) := cols.map fun c => ['"'] ++ c ++ ['"']

end Fs.Types
