/-!
# Metadata side tables and the metadata surfaces (model of the code behind C09)

DuckDB cannot store a table comment or the declared length of a VARCHAR column, so fakesnow keeps them in two
per-database side tables, `_fs_tables_ext` and `_fs_columns_ext` (`info_schema.py:8-32`), written by
`extract_comment_on_table` / `extract_text_length` + `cursor.py:329-344` — **upsert only, never deleted or renamed** —
and read back by `_fs_columns_snowflake` (`info_schema.py:36`), `describe_table` (`transforms.py:194`) and the
`information_schema.tables` join (`transforms.py:601`).

One `World` carries both sides (ghost-state refinement):
* the **live catalog** `tabs`, in which every column keeps its *declared* type (`Ty.text n`) and every table its
  declared `comment` — this is what the property demands the surfaces to show (`Spec` surfaces read only this);
* the **side tables** `tExt`, `cExt` as the code maintains them — `Impl` surfaces read the catalog with declared lengths
  and comments *erased* (what DuckDB stores) plus the side tables.
`region` recognises the statements whose effect on the side tables is known to lose or resurrect metadata.
Names and comments are numbers; every statement is on fully qualified keys (resolution is C03's subject).
-/
namespace Fs.Meta

abbrev Name := Nat
abbrev Key := Name × Name × Name     -- database, schema, object

def defaultLen : Nat := 16777216

inductive Ty
  | int                    -- INT/INTEGER/BIGINT … → NUMBER(38,0)
  | num (p s : Nat)        -- NUMBER(p,s)
  | text (len : Nat)       -- VARCHAR(len) / VARCHAR / STRING / TEXT (len = 16777216 when undeclared)
  | float | bool | date | tsNtz
  deriving DecidableEq, Repr

structure Col where
  name : Name
  ty : Ty
  deriving DecidableEq, Repr

structure Tab where
  key : Key
  isView : Bool
  cols : List Col
  comment : Option Nat
  pk : Option Name          -- column declared PRIMARY KEY (DuckDB keeps constraints in the catalog: no side table involved)
  deriving DecidableEq, Repr

structure World where
  tabs : List Tab
  tExt : List (Key × Nat)              -- _fs_tables_ext: newest row first
  cExt : List (Key × Name × Nat)       -- _fs_columns_ext: newest row first
  deriving DecidableEq, Repr

def World.init : World := ⟨[], [], []⟩

inductive Op
  | createTable (k : Key) (cols : List Col) (comment : Option Nat) (orReplace : Bool) (pk : Option Name)
  | ctas (k src : Key) (sel : List Name) (orReplace : Bool)     -- CREATE TABLE k AS SELECT sel FROM src
  | clone (k src : Key) (orReplace : Bool)                      -- CREATE TABLE k CLONE src
  | createView (k src : Key) (sel : List Name) (orReplace : Bool)
  | addCol (k : Key) (c : Col)
  | dropCol (k : Key) (n : Name)
  | renameCol (k : Key) (a b : Name)
  | renameTable (k : Key) (n : Name)
  | setComment (k : Key) (c : Nat)       -- COMMENT ON TABLE k IS c / ALTER TABLE k SET COMMENT = c
  | dropTable (k : Key)
  | dropView (k : Key)
  | nop     -- a statement fakesnow answers with its success no-op (SET var, SET TAG, CREATE TAG, CLUSTER BY, column COMMENT, …) or USE SCHEMA
  deriving DecidableEq, Repr

def World.find (w : World) (k : Key) : Option Tab := w.tabs.find? (·.key == k)
def lookupT (e : List (Key × Nat)) (k : Key) : Option Nat := (e.find? (·.1 == k)).map (·.2)
def lookupC (e : List (Key × Name × Nat)) (k : Key) (c : Name) : Option Nat :=
  (e.find? fun r => r.1 == k && r.2.1 == c).map (·.2.2)

def Ty.isText : Ty → Bool | .text _ => true | _ => false
def Col.textLen (c : Col) : Option Nat := match c.ty with | .text n => some n | _ => none

/-- rows `extract_text_length` records for a column list -/
def textRows (k : Key) (cols : List Col) : List (Key × Name × Nat) :=
  cols.filterMap fun c => c.textLen.map fun n => (k, c.name, n)

def distinctNames (cols : List Col) : Bool := decide (cols.map (·.name)).Nodup

/-- the columns named by `sel`, in that order (none if a name is missing or repeated) -/
def selectCols (src : List Col) : List Name → Option (List Col)
  | [] => some []
  | n :: ns =>
    match src.find? (·.name == n), selectCols src ns with
    | some c, some rest => if rest.any (·.name == n) then none else some (c :: rest)
    | _, _ => none

/-- a declared PRIMARY KEY names one of the columns -/
def pkOk (cols : List Col) : Option Name → Bool
  | some p => cols.any (·.name == p)
  | none => true

def World.remove (w : World) (k : Key) : List Tab := w.tabs.filter (·.key != k)

/-- may an object be created under `k`?  CREATE TABLE: free, or OR REPLACE over a table; CREATE VIEW: free, or OR
    REPLACE over a view (modelled engine: DuckDB refuses to replace an object of the other kind) -/
def canCreate (w : World) (k : Key) (asView orReplace : Bool) : Bool :=
  match w.find k with
  | none => true
  | some t => orReplace && t.isView == asView

/-- one DDL statement: success flag and new world.  A failed statement changes nothing. -/
def step (w : World) : Op → Bool × World
  | .createTable k cols comment orReplace pk =>
    if cols.isEmpty || !distinctNames cols || !canCreate w k false orReplace
       || !pkOk cols pk then (false, w) else
    (true, { tabs := w.remove k ++ [⟨k, false, cols, comment, pk⟩],
             cExt := textRows k cols ++ w.cExt,
             tExt := match comment with | some c => (k, c) :: w.tExt | none => w.tExt })
  | .ctas k src sel orReplace =>
    match w.find src with
    | none => (false, w)
    | some s =>
      match selectCols s.cols sel with
      | none => (false, w)
      | some cols =>
        if cols.isEmpty || !canCreate w k false orReplace then (false, w) else
        (true, { w with tabs := w.remove k ++ [⟨k, false, cols, none, none⟩] })   -- nothing is recorded, constraints are not copied
  | .clone k src orReplace =>
    match w.find src with
    | none => (false, w)
    | some s =>
      if !canCreate w k false orReplace then (false, w) else
      (true, { w with tabs := w.remove k ++ [⟨k, false, s.cols, s.comment, none⟩] })   -- `create_clone` = CTAS of `*`
  | .createView k src sel orReplace =>
    match w.find src with
    | none => (false, w)
    | some s =>
      match selectCols s.cols sel with
      | none => (false, w)
      | some cols =>
        if cols.isEmpty || !canCreate w k true orReplace || k == src then (false, w) else
        (true, { w with tabs := w.remove k ++ [⟨k, true, cols, none, none⟩] })
  | .addCol k c =>
    match w.find k with
    | some t =>
      if t.isView || t.cols.any (·.name == c.name) then (false, w) else
      (true, { w with tabs := w.tabs.map fun x => if x.key == k then { x with cols := x.cols ++ [c] } else x,
                      cExt := textRows k [c] ++ w.cExt })
    | none => (false, w)
  | .dropCol k n =>
    match w.find k with
    | some t =>
      if t.isView || !t.cols.any (·.name == n) || t.cols.length ≤ 1 then (false, w) else
      (true, { w with tabs := w.tabs.map fun x => if x.key == k then { x with cols := x.cols.filter (·.name != n) } else x })
    | none => (false, w)
  | .renameCol k a b =>
    match w.find k with
    | some t =>
      if t.isView || !t.cols.any (·.name == a) then (false, w)
      else if a == b then (true, w)            -- renaming a column to its own name succeeds and changes nothing
      else if t.cols.any (·.name == b) then (false, w) else
      (true, { w with tabs := w.tabs.map fun x =>
        if x.key == k then { x with cols := x.cols.map fun c => if c.name == a then { c with name := b } else c } else x })
    | none => (false, w)
  | .renameTable k n =>
    match w.find k with
    | some t =>
      if t.isView then (false, w)
      else if n == k.2.2 then (true, w)          -- renaming a table to its own name succeeds and changes nothing
      else if (w.find (k.1, k.2.1, n)).isSome then (false, w) else
      (true, { w with tabs := w.tabs.map fun x => if x.key == k then { x with key := (k.1, k.2.1, n) } else x })
    | none => (false, w)
  | .setComment k c =>
    -- the statement becomes a no-op for DuckDB and the row is upserted whether or not the table exists
    (true, { w with tabs := w.tabs.map fun x => if x.key == k && !x.isView then { x with comment := some c } else x,
                    tExt := (k, c) :: w.tExt })
  | .dropTable k =>
    match w.find k with
    | some t => if t.isView then (false, w) else (true, { w with tabs := w.remove k })
    | none => (false, w)
  | .dropView k =>
    match w.find k with
    | some t => if t.isView then (true, { w with tabs := w.remove k }) else (false, w)
    | none => (false, w)
  | .nop => (true, w)     -- no metadata effect at all

def run (w : World) : List Op → World
  | [] => w
  | o :: os => run (step w o).2 os

/-! ## Surfaces.  A reported type is a `Ty` (for text columns: with the length that is shown). -/

/-- DESCRIBE TABLE / VIEW — what the property demands: declared types -/
def describeS (w : World) (k : Key) : Option (List Col) := (w.find k).map (·.cols)

/-- DESCRIBE as the code computes it: DuckDB's column list joined with `_fs_columns_ext`, `coalesce(len, 16777216)` -/
def describeI (w : World) (k : Key) : Option (List Col) :=
  (w.find k).map fun t => t.cols.map fun c =>
    match c.ty with
    | .text _ => { c with ty := .text ((lookupC w.cExt k c.name).getD defaultLen) }
    | _ => c

/-- information_schema.columns: (column, character_maximum_length) of one object -/
def infoColumnsS (w : World) (k : Key) : Option (List (Name × Option Nat)) :=
  (w.find k).map fun t => t.cols.map fun c => (c.name, c.textLen)
def infoColumnsI (w : World) (k : Key) : Option (List (Name × Option Nat)) :=
  (w.find k).map fun t => t.cols.map fun c => (c.name, if c.ty.isText then lookupC w.cExt k c.name else none)

/-- information_schema.tables restricted to one schema: (name, is view, comment) -/
def infoTablesS (w : World) (d s : Name) : List (Name × Bool × Option Nat) :=
  (w.tabs.filter fun t => t.key.1 == d && t.key.2.1 == s).map fun t => (t.key.2.2, t.isView, t.comment)
def infoTablesI (w : World) (d s : Name) : List (Name × Bool × Option Nat) :=
  (w.tabs.filter fun t => t.key.1 == d && t.key.2.1 == s).map fun t => (t.key.2.2, t.isView, lookupT w.tExt t.key)

/-- SHOW TABLES / OBJECTS / information_schema.views / description of SELECT *: read the live catalog only -/
def showObjects (w : World) (d s : Name) (tablesOnly : Bool) : List (Name × Bool) :=
  (w.tabs.filter fun t => t.key.1 == d && t.key.2.1 == s && (!tablesOnly || !t.isView)).map fun t => (t.key.2.2, t.isView)

/-- SHOW PRIMARY KEYS IN SCHEMA d.s: (table, key column) of the live tables of that schema that declare a key -/
def showKeys (w : World) (d s : Name) : List (Name × Name) :=
  (w.tabs.filter fun t => t.key.1 == d && t.key.2.1 == s).filterMap fun t => t.pk.map fun p => (t.key.2.2, p)

/-- VARCHAR(n) octet length (`info_schema.insert_text_lengths_sql`) -/
def octetLen (n : Nat) : Nat := min (n * 4) 16777216

/-! ## Agreement and finding regions -/

/-- the side tables say, for every live object, exactly what was declared -/
def Tab.agrees (w : World) (t : Tab) : Bool :=
  (lookupT w.tExt t.key == t.comment) && t.cols.all fun c =>
    match c.ty with
    | .text n => lookupC w.cExt t.key c.name == some n
    | _ => true

def World.agree (w : World) : Bool := w.tabs.all (·.agrees w)

inductive Finding
  | staleComment | lengthLostOnRenameColumn | lengthLostOnRenameTable | lengthLostOnCtas | lengthLostOnClone
  | lengthLostOnView | commentOnMissingTable
  deriving DecidableEq, Repr

def Finding.name : Finding → String
  | .staleComment => "C09/stale-comment"
  | .lengthLostOnRenameColumn => "C09/length-lost-on-rename-column"
  | .lengthLostOnRenameTable => "C09/metadata-lost-on-rename-table"
  | .lengthLostOnCtas => "C09/length-lost-on-ctas"
  | .lengthLostOnClone => "C09/metadata-lost-on-clone"
  | .lengthLostOnView => "C09/length-lost-on-view"
  | .commentOnMissingTable => "C09/comment-on-missing-table-recorded"

def hasText (cols : List Col) : Bool := cols.any (·.ty.isText)

/-- statements on which the side-table bookkeeping is known to go wrong (judged in the state before the statement) -/
def region (w : World) : Op → Option Finding
  | .createTable k _ comment _ _ =>
    -- a comment row survives DROP / OR REPLACE / a COMMENT on a missing table and is shown for the new table
    if comment.isNone && (lookupT w.tExt k).isSome then some .staleComment else none
  | .ctas k src sel _ =>
    match w.find src with
    | some s =>
      if hasText ((selectCols s.cols sel).getD []) then some .lengthLostOnCtas
      else if (lookupT w.tExt k).isSome then some .staleComment else none
    | none => none
  | .clone k src _ =>
    match w.find src with
    | some s =>
      if hasText s.cols || s.comment.isSome then some .lengthLostOnClone
      else if (lookupT w.tExt k).isSome then some .staleComment else none
    | none => none
  | .createView k src sel _ =>
    match w.find src with
    | some s =>
      if hasText ((selectCols s.cols sel).getD []) then some .lengthLostOnView
      else if (lookupT w.tExt k).isSome then some .staleComment else none
    | none => none
  | .renameCol k a b =>
    match w.find k with
    | some t => if a != b && t.cols.any (fun c => c.name == a && c.ty.isText) then some .lengthLostOnRenameColumn else none
    | none => none
  | .renameTable k n =>
    match w.find k with
    | some t =>
      if n == k.2.2 then none
      else if hasText t.cols || t.comment.isSome then some .lengthLostOnRenameTable
      else if (lookupT w.tExt (k.1, k.2.1, n)).isSome then some .staleComment else none
    | none => none
  | .setComment k _ =>
    match w.find k with
    | some t => if t.isView then some .commentOnMissingTable else none
    | none => some .commentOnMissingTable
  | _ => none

/-- statements the correspondence check does not explore: a *view* as the source of CTAS / CLONE / CREATE VIEW
    (DuckDB re-binds the view's text, which fails once the view's own source was renamed, dropped or changed) -/
def Op.viewSource (w : World) : Op → Bool
  | .ctas _ src _ _ | .clone _ src _ | .createView _ src _ _ => match w.find src with | some s => s.isView | none => false
  | _ => false

/-- envelope of the partial theorems: no statement of the history lies in a finding region -/
def clean (w : World) : List Op → Bool
  | [] => true
  | o :: os => (region w o).isNone && clean (step w o).2 os

/-- keys are unique in the live catalog -/
def World.uniq (w : World) : Prop := (w.tabs.map (·.key)).Nodup

end Fs.Meta
