/-
Model of `fakesnow.patch` (fakesnow/__init__.py:18-96): the re-entry guard, the FakeSnow instance, the
pre-import of not-yet-loaded target modules, the loop entering one `mock.patch` context per target on an
`ExitStack`, the body, and `finally: stack.close(); fs.duck_conn.close()`.

The Python environment is first-order data: `env` lists the attributes of the loaded modules
(`module.__dict__`), `importable` the modules that an `import` would find, with their top-level bindings.
`unittest.mock.patch` / `ExitStack` / `importlib` are modelled (trusted base, exercised by the correspondence).

`Variant` selects the code as repaired (`fixed`) or as shipped (`shipped`, `afterFirstFix`) so that the
regression witnesses can be stated.
-/
namespace Fs.Patch

inductive Fake | connect | writePandas
deriving DecidableEq, Repr

/-- what a module attribute can hold -/
inductive Obj
  | real (f : Fake)              -- snowflake.connector.connect / pandas_tools.write_pandas: the keys of `fake_fns`
  | other (k : Nat)              -- any other truthy object (a non-snowflake function)
  | falsy                        -- None / 0 / "" …: `assert fn` fails like a missing attribute
  | mock (inst : Nat) (f : Fake) -- the MagicMock made by patch() of FakeSnow instance `inst`, side_effect = its fake of `f`
  | userMock                     -- a MagicMock fakesnow did not make
deriving DecidableEq, Repr

def Obj.isMock : Obj → Bool
  | .mock _ _ => true
  | .userMock => true
  | _ => false

/-- (module, attribute) -/
abbrev Slot := Nat × Nat

/-- `snowflake.connector` is module 0, `snowflake.connector.pandas_tools` module 1 -/
def stdSlot : Fake → Slot
  | .connect => (0, 0)
  | .writePandas => (1, 0)

/-- a top-level binding of a module that is not imported yet -/
inductive Bind
  | other (k : Nat)       -- def / constant
  | falsy
  | userMock
  | fromStd (f : Fake)    -- `from snowflake.connector import connect` etc.: whatever the standard target holds at import time
deriving DecidableEq, Repr

abbrev Env := List (Slot × Obj)

def get : Env → Slot → Option Obj
  | [], _ => none
  | (k, v) :: e, s => if k = s then some v else get e s

/-- `setattr(module, name, o)` on an existing attribute -/
def set (e : Env) (s : Slot) (o : Obj) : Env := e.map fun p => if p.1 = s then (s, o) else p

structure World where
  env : Env
  loaded : List Nat                              -- sys.modules
  importable : List (Nat × List (Nat × Bind))    -- importable modules and their bindings
  nextInst : Nat := 0                            -- id of the next FakeSnow instance
  closed : List Nat := []                        -- instances whose DuckDB connection has been closed
deriving DecidableEq, Repr

def evalBind (e : Env) : Bind → Obj
  | .other k => .other k
  | .falsy => .falsy
  | .userMock => .userMock
  | .fromStd f => (get e (stdSlot f)).getD .falsy

def lookupMod : List (Nat × List (Nat × Bind)) → Nat → Option (List (Nat × Bind))
  | [], _ => none
  | (k, bs) :: r, m => if k = m then some bs else lookupMod r m

/-- `sys.modules.get(m) or importlib.import_module(m)`; none = ModuleNotFoundError -/
def importModule (w : World) (m : Nat) : Option World :=
  if m ∈ w.loaded then some w
  else match lookupMod w.importable m with
    | none => none
    | some bs => some { w with loaded := m :: w.loaded,
                               env := w.env ++ bs.map fun p => ((m, p.1), evalBind w.env p.2) }

inductive Reason | noModule | noAttr | notSnowflake
deriving DecidableEq, Repr

/-- interpreter state during set-up: the world and the ExitStack (patched slot, original; most recent first) -/
structure St where
  w : World
  stack : List (Slot × Obj)
deriving DecidableEq, Repr

/-- one iteration of the loop over the targets (`__init__.py:80-96`) -/
def enterTarget (inst : Nat) (st : St) (t : Slot) : St × Option Reason :=
  match importModule st.w t.1 with
  | none => (st, some .noModule)
  | some w1 =>
    match get w1.env t with
    | none => ({ st with w := w1 }, some .noAttr)
    | some (.real f) =>
      ({ w := { w1 with env := set w1.env t (.mock inst f) }, stack := (t, .real f) :: st.stack }, none)
    | some .falsy => ({ st with w := w1 }, some .noAttr)
    | some (.other _) => ({ st with w := w1 }, some .notSnowflake)
    | some (.mock _ _) => ({ st with w := w1 }, none)       -- already mocked: `continue`
    | some .userMock => ({ st with w := w1 }, none)

def enterAll (inst : Nat) (st : St) : List Slot → St × Option Reason
  | [] => (st, none)
  | t :: ts =>
    match enterTarget inst st t with
    | (st1, some r) => (st1, some r)
    | (st1, none) => enterAll inst st1 ts

/-- the pre-import loop; false = ModuleNotFoundError -/
def importAll (w : World) : List Slot → World × Bool
  | [] => (w, true)
  | t :: ts =>
    match importModule w t.1 with
    | none => (w, false)
    | some w1 => importAll w1 ts

/-- `stack.close()`: leave the mock.patch contexts, most recent first -/
def unwind : List (Slot × Obj) → Env → Env
  | [], e => e
  | (s, o) :: r, e => unwind r (set e s o)

structure Variant where
  loopInTry : Bool     -- the loop over the targets is inside the try/finally
  preImport : Bool     -- target modules are imported before anything is patched
deriving DecidableEq, Repr

def fixed : Variant := ⟨true, true⟩
def afterFirstFix : Variant := ⟨true, false⟩
def shipped : Variant := ⟨false, false⟩

/-- every way the `with` block can be left once the body runs: the body ends; it raises an `Exception`; it raises a
    `BaseException` that is not an `Exception` (SystemExit, KeyboardInterrupt, pytest's skip/fail outcomes, …); the generator
    holding the block is closed (GeneratorExit thrown at its `yield`).  `finally:` treats them alike — which is the point. -/
inductive Exit | normal | raises | raisesBase | generatorClosed
deriving DecidableEq, Repr

inductive Outcome
  | completed                 -- body ran to its end
  | bodyRaised                -- body raised; the exception propagates
  | refused                   -- "Snowflake connector is already patched"
  | setupFailed (r : Reason)  -- patch() itself raised while setting up
deriving DecidableEq, Repr

structure Result where
  outcome : Outcome
  inside : Option World   -- what the body sees (none when it never runs)
  after : World
deriving DecidableEq, Repr

def targetsOf (extras : List Slot) : List Slot := stdSlot .connect :: stdSlot .writePandas :: extras

def guardOk (w : World) : Bool :=
  match get w.env (stdSlot .connect) with
  | some o => !o.isMock
  | none => true

def cleanup (inst : Nat) (st : St) : World :=
  { st.w with env := unwind st.stack st.w.env, closed := inst :: st.w.closed }

def patchRun (v : Variant) (w : World) (extras : List Slot) (x : Exit) : Result :=
  if !guardOk w then ⟨.refused, none, w⟩
  else
    let inst := w.nextInst
    let w0 := { w with nextInst := inst + 1 }
    let pre := if v.preImport then importAll w0 (targetsOf extras) else (w0, true)
    if !pre.2 then
      ⟨.setupFailed .noModule, none, if v.loopInTry then cleanup inst ⟨pre.1, []⟩ else pre.1⟩
    else
      match enterAll inst ⟨pre.1, []⟩ (targetsOf extras) with
      | (st, some r) => ⟨.setupFailed r, none, if v.loopInTry then cleanup inst st else st.w⟩
      | (st, none) =>
        ⟨match x with | .normal => .completed | _ => .bodyRaised, some st.w, cleanup inst st⟩

/-- environments the property speaks about: the two standard targets exist (`fakesnow/__init__.py` imports
    `snowflake.connector` and `snowflake.connector.pandas_tools` itself) -/
def WF (w : World) : Prop := ∀ f, (get w.env (stdSlot f)).isSome

end Fs.Patch
