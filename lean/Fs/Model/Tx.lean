/-
Model of fakesnow's transaction behaviour (property C13).

Two layers.

**Layer A – `Sys`** : the committed store plus one transaction state per *engine connection*, and
`step m s c st` = what one fakesnow statement `st`, executed on engine connection `c`, does and returns.
This is (i) the modelled DuckDB 1.0 MVCC behaviour as observed through fakesnow (DESIGN Appendix A.3,
trusted base, re-validated by the correspondence on every run):
  * `BEGIN` is lazy: the snapshot of the database is taken by the first later statement that binds
    against the database (a read, a write, *or a statement that fails with a Catalog/Binder error*);
    `SELECT 1` / `SET` do not pin it;
  * a pinned transaction reads `snapshot + own writes`, whatever other connections commit meanwhile;
  * `COMMIT` applies the write list to the committed store (valid for non-conflicting writers – the
    quantifier of C13; the harness keeps write sets disjoint per table);
  * a Catalog/Binder error leaves the transaction usable; a *run-time* error (Conversion, Constraint)
    and a nested `BEGIN` (TransactionException) **abort** it: every later statement fails (statements that
    already fail while binding keep their own error) until COMMIT/ROLLBACK, both of which then succeed and
    discard everything;
and (ii) fakesnow's own part, `cursor.py:249-268`: Binder/Catalog errors become Snowflake
ProgrammingErrors, "no transaction is active" becomes the success status row, everything else is raised raw.

`Mode.ideal` is the *specification* variant: a failing statement fails alone (statement-level rollback,
as Snowflake does) and a nested BEGIN is ignored, so no transaction is ever aborted.  `Mode.duck` is the code.

**Layer B – `World`** : `FakeSnow.connect()` hands every fake connection its own engine connection
(`instance.py:83` `self.duck_conn.cursor()`), `conn.cursor()` hands every fake cursor its connection's
engine connection (`conn.py:124-126`), `conn.commit()/rollback()` execute COMMIT/ROLLBACK on a new,
throw-away cursor of that connection (`conn.py:121-122,146-147`; the cursor is not reachable afterwards and is not given an id).  `World.step shared := true` is the mutant that hands the
instance's single (root) connection to every connection opened WITHOUT a database/schema argument (`Ev.connect false`);
with all connections opened that way it is the mutant that shares one engine connection among all.
-/
namespace Fs.Tx

abbrev Row := Nat × Nat
/-- contents of every table (table id ↦ rows in insertion order) -/
abbrev Store := Nat → List Row

inductive Dml
  | ins (k v : Nat)      -- INSERT INTO t VALUES (k, v)
  | del (k : Nat)        -- DELETE FROM t WHERE k = <k>
  | upd (k v : Nat)      -- UPDATE t SET v = <v> WHERE k = <k>
  | clr                  -- TRUNCATE TABLE t (transactional in DuckDB like any DML)
deriving DecidableEq, Repr

def Dml.app : Dml → List Row → List Row
  | .ins k v, rs => rs ++ [(k, v)]
  | .del k, rs => rs.filter fun r => r.1 != k
  | .upd k v, rs => rs.map fun r => if r.1 == k then (k, v) else r
  | .clr, _ => []

/-- affected-row count reported by the engine -/
def Dml.cnt : Dml → List Row → Nat
  | .ins _ _, _ => 1
  | .del k, rs => (rs.filter fun r => r.1 == k).length
  | .upd k _, rs => (rs.filter fun r => r.1 == k).length
  | .clr, rs => rs.length

structure W where
  tbl : Nat
  op : Dml
deriving DecidableEq, Repr

def Store.app (s : Store) (w : W) : Store := fun t => if t = w.tbl then w.op.app (s t) else s t
def Store.apps (s : Store) (ws : List W) : Store := ws.foldl Store.app s

inductive Tx
  | idle                                   -- autocommit
  | fresh                                  -- after BEGIN, snapshot not yet pinned
  | pinned (snap : Store) (ws : List W)    -- snapshot taken, own writes so far
  | aborted                                -- DuckDB: "Current transaction is aborted (please ROLLBACK)"

inductive Stmt
  | begin | commit | rollback
  | sel (t : Nat)                 -- SELECT k, v FROM t
  | dml (t : Nat) (op : Dml)
  | failBind (col : Bool)         -- missing table (false → 2003/42S02) or missing column (true → 2043/02000)
  | failRun                       -- run-time failure (conversion error on INSERT)
  | failMulti                     -- a statement fakesnow explodes into several engine statements (MERGE) whose second part
                                  -- fails while binding (clause names a missing column → 2043/02000): the first part
                                  -- (temporary candidates table) has no visible effect, the failure is a Binder error
  | touch                         -- a statement that binds against the database but changes no table rows and answers the
                                  -- status row (COMMENT ON TABLE …): pins a lazy snapshot, otherwise no effect here
  | const                         -- SELECT 1: touches no table
deriving DecidableEq, Repr

inductive Obs
  | empty                         -- zero rows (BEGIN, COMMIT/ROLLBACK ending a transaction)
  | status                        -- the row ('Statement executed successfully.',)
  | rows (l : List Row)
  | count (n : Nat)               -- DML status row
  | one                           -- result of SELECT 1
  | sfErr (col : Bool)            -- ProgrammingError 2003/42S02 (false) or 2043/02000 (true)
  | rawNested                     -- raw duckdb TransactionException (nested BEGIN)
  | rawRun                        -- raw duckdb ConversionException
  | rawAborted                    -- raw duckdb InvalidInputException (transaction is aborted)
  | ignored                       -- spec only: outcome of a nested BEGIN is not prescribed
deriving DecidableEq, Repr

inductive Mode | duck | ideal
deriving DecidableEq, Repr

/-- One statement against (committed store, this connection's transaction state). -/
def loc (m : Mode) (com : Store) : Tx → Stmt → Store × Tx × Obs
  -- autocommit
  | .idle, .begin => (com, .fresh, .empty)
  | .idle, .commit => (com, .idle, .status)
  | .idle, .rollback => (com, .idle, .status)
  | .idle, .sel t => (com, .idle, .rows (com t))
  | .idle, .dml t op => (com.app ⟨t, op⟩, .idle, .count (op.cnt (com t)))
  | .idle, .failBind b => (com, .idle, .sfErr b)
  | .idle, .failMulti => (com, .idle, .sfErr true)
  | .idle, .failRun => (com, .idle, .rawRun)
  | .idle, .const => (com, .idle, .one)
  | .idle, .touch => (com, .idle, .status)
  -- after BEGIN, nothing pinned yet
  | .fresh, .begin => match m with | .duck => (com, .aborted, .rawNested) | .ideal => (com, .fresh, .ignored)
  | .fresh, .commit => (com, .idle, .empty)
  | .fresh, .rollback => (com, .idle, .empty)
  | .fresh, .sel t => (com, .pinned com [], .rows (com t))
  | .fresh, .dml t op => (com, .pinned com [⟨t, op⟩], .count (op.cnt (com t)))
  | .fresh, .failBind b => (com, .pinned com [], .sfErr b)
  | .fresh, .failMulti => (com, .pinned com [], .sfErr true)
  | .fresh, .failRun => match m with | .duck => (com, .aborted, .rawRun) | .ideal => (com, .pinned com [], .rawRun)
  | .fresh, .const => (com, .fresh, .one)
  | .fresh, .touch => (com, .pinned com [], .status)
  -- pinned
  | .pinned s ws, .begin => match m with | .duck => (com, .aborted, .rawNested) | .ideal => (com, .pinned s ws, .ignored)
  | .pinned _ ws, .commit => (com.apps ws, .idle, .empty)
  | .pinned _ _, .rollback => (com, .idle, .empty)
  | .pinned s ws, .sel t => (com, .pinned s ws, .rows (s.apps ws t))
  | .pinned s ws, .dml t op => (com, .pinned s (ws ++ [⟨t, op⟩]), .count (op.cnt (s.apps ws t)))
  | .pinned s ws, .failBind b => (com, .pinned s ws, .sfErr b)
  | .pinned s ws, .failMulti => (com, .pinned s ws, .sfErr true)
  | .pinned s ws, .failRun => match m with | .duck => (com, .aborted, .rawRun) | .ideal => (com, .pinned s ws, .rawRun)
  | .pinned s ws, .const => (com, .pinned s ws, .one)
  | .pinned s ws, .touch => (com, .pinned s ws, .status)
  -- aborted (reachable in duck mode only)
  | .aborted, .commit => (com, .idle, .empty)
  | .aborted, .rollback => (com, .idle, .empty)
  | .aborted, .failBind b => (com, .aborted, .sfErr b)   -- bind-time errors are still raised as themselves
  | .aborted, .failRun => (com, .aborted, .rawRun)
  | .aborted, _ => (com, .aborted, .rawAborted)

structure Sys where
  com : Store
  tx : Nat → Tx

def Sys.setTx (s : Sys) (c : Nat) (t : Tx) (com : Store) : Sys :=
  { com := com, tx := fun d => if d = c then t else s.tx d }

def step (m : Mode) (s : Sys) (c : Nat) (st : Stmt) : Sys × Obs :=
  let r := loc m s.com (s.tx c) st
  (s.setTx c r.2.1 r.1, r.2.2)

/-- a history is a list of (engine connection, statement); `run` returns the final state and one
    observation per event -/
def run (m : Mode) (s : Sys) : List (Nat × Stmt) → Sys × List Obs
  | [] => (s, [])
  | (c, st) :: h =>
    let r := step m s c st
    let r' := run m r.1 h
    (r'.1, r.2 :: r'.2)

/-- what connection `c` would read now -/
def Sys.view (s : Sys) (c : Nat) : Store :=
  match s.tx c with
  | .pinned sn ws => sn.apps ws
  | _ => s.com

def Sys.init (com : Store) : Sys := { com := com, tx := fun _ => .idle }

/-- writes issued by `c` in a history (in order) -/
def writesOf (c : Nat) (h : List (Nat × Stmt)) : List W :=
  h.filterMap fun e => if e.1 = c then (match e.2 with | .dml t op => some ⟨t, op⟩ | _ => none) else none

/-- does statement `st` abort an open transaction in mode `m`? -/
def aborts : Mode → Stmt → Bool
  | .duck, .failRun => true
  | .duck, .begin => true
  | _, _ => false

def Stmt.endsTx : Stmt → Bool
  | .commit => true
  | .rollback => true
  | _ => false

/-- envelope (decidable, computed by the driver too): along the run no open transaction meets an aborting
    statement, i.e. the run never enters `Tx.aborted` -/
def envOk (s : Sys) : List (Nat × Stmt) → Bool
  | [] => true
  | (c, st) :: h =>
    (match s.tx c with
     | .idle => true
     | .aborted => false
     | _ => !aborts .duck st) && envOk (step .duck s c st).1 h

/-- finding classifier for a single step: which known defect region (if any) the step lies in -/
def findingKey (s : Sys) (c : Nat) (st : Stmt) : String :=
  match s.tx c, st with
  | .fresh, .begin => "C13/nested-begin-aborts-tx"
  | .pinned _ _, .begin => "C13/nested-begin-aborts-tx"
  | .fresh, .failRun => "C13/runtime-error-aborts-tx"
  | .pinned _ _, .failRun => "C13/runtime-error-aborts-tx"
  | _, _ => "-"

/-! ## Layer B: fake connections and cursors -/

inductive Ev
  | connect (named : Bool)           -- FakeSnow.connect(): a new fake connection, opened with (`named`) or without a
                                     -- database/schema argument – every connection gets its own engine connection either way
  | cursor (c : Nat) (foreign : Bool) -- conn.cursor() on fake connection c, called from the thread that opened the connection or
                                     -- (`foreign`) from another thread: the cursor uses the connection's engine connection either way
  | blockExit (c : Nat) (exc : Bool)  -- a `with conn:` / `with conn.cursor():` block of connection c ends, normally or by an
                                     -- exception: `__exit__` does nothing – no statement runs, no transaction ends
  | exec (k : Nat) (st : Stmt)       -- cursor k executes st
  | connCommit (c : Nat)             -- conn.commit()
  | connRollback (c : Nat)           -- conn.rollback()
deriving DecidableEq, Repr

structure World where
  sys : Sys
  /-- engine connection of fake connection i -/
  conns : List Nat
  /-- (fake connection, engine connection) of fake cursor k -/
  curs : List (Nat × Nat)
  /-- number of engine connections handed out so far by `duck_conn.cursor()` -/
  next : Nat

/-- engine connection id used by the mutant that shares the instance connection; never handed out by
    the real `connect` (ids handed out are 0,1,2,… and `World.WF` keeps them `< next`) -/
def sharedId : Nat := 1000000

def World.init (com : Store) : World := { sys := Sys.init com, conns := [], curs := [], next := 0 }

/-- `none` = the event is bookkeeping only (connect, cursor creation, unknown id): no statement runs -/
def World.step (shared : Bool) (m : Mode) (w : World) : Ev → World × Option Obs
  | .connect named =>
    if shared && !named then ({ w with conns := w.conns ++ [sharedId] }, none)
    else ({ w with conns := w.conns ++ [w.next], next := w.next + 1 }, none)
  | .blockExit _ _ => (w, none)
  | .cursor c _ =>
    match w.conns[c]? with
    | none => (w, none)
    | some d => ({ w with curs := w.curs ++ [(c, d)] }, none)
  | .exec k st =>
    match w.curs[k]? with
    | none => (w, none)
    | some (_, d) => let r := Fs.Tx.step m w.sys d st; ({ w with sys := r.1 }, some r.2)
  | .connCommit c =>
    match w.conns[c]? with
    | none => (w, none)
    | some d => let r := Fs.Tx.step m w.sys d .commit; ({ w with sys := r.1 }, some r.2)
  | .connRollback c =>
    match w.conns[c]? with
    | none => (w, none)
    | some d => let r := Fs.Tx.step m w.sys d .rollback; ({ w with sys := r.1 }, some r.2)

def World.run (shared : Bool) (m : Mode) (w : World) : List Ev → World × List (Option Obs)
  | [] => (w, [])
  | e :: es =>
    let r := World.step shared m w e
    let r' := World.run shared m r.1 es
    (r'.1, r.2 :: r'.2)

/-- The abstract reading of an event: which *fake connection* issues which statement (cursor ↦ its
    connection is pure bookkeeping: `cursorConn` below never looks at engine ids). -/
structure Book where
  nconns : Nat
  cursConn : List Nat     -- fake connection of cursor k

def Book.step (b : Book) : Ev → Book × Option (Nat × Stmt)
  | .connect _ => ({ b with nconns := b.nconns + 1 }, none)
  | .blockExit _ _ => (b, none)
  | .cursor c _ => if c < b.nconns then ({ b with cursConn := b.cursConn ++ [c] }, none) else (b, none)
  | .exec k st => (b, b.cursConn[k]?.map fun c => (c, st))
  | .connCommit c => if c < b.nconns then (b, some (c, .commit)) else (b, none)
  | .connRollback c => if c < b.nconns then (b, some (c, .rollback)) else (b, none)

/-- the (fake connection, statement) trace of an event list -/
def Book.trace (b : Book) : List Ev → List (Nat × Stmt)
  | [] => []
  | e :: es =>
    let r := b.step e
    match r.2 with
    | none => Book.trace r.1 es
    | some x => x :: Book.trace r.1 es

end Fs.Tx
