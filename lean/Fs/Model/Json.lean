/-
Model for C11 — VARIANT/OBJECT/ARRAY values behave as JSON documents.

What is modelled (fakesnow/transforms.py, pipeline order of cursor.py:167-193):
  * `Json`      : JSON documents (objects keep insertion order), `get` = navigating a document.
  * `E`         : the part of sqlglot's expression AST that the JSON rewrites touch, Snowflake-side nodes
                  (`bracket`, `arraySize`, `jx` = JSONExtract as parsed from `v:a.b` / GET_PATH) and
                  DuckDB-side nodes (`jxs` = `->>`, `paren`, `caseLen`) in ONE type, because every rewrite is
                  AST → AST.
  * the rewrites `trim_cast_varchar`, `indices_to_json_extract`, `json_extract_cast_as_varchar`,
    `json_extract_cased_as_varchar`, `json_extract_precedence`, `array_size` as tree functions with sqlglot's
    `Expression.transform` traversal: pre-order; a node that the rule REPLACES by a new node is not descended
    into (`topDown`), a node the rule mutates in place is (`castAsVarchar`, `casedAsVarchar`).
  * `pipeline`  : their composition in the order of `cursor._transform`.
  * `evalDuck`  : DuckDB's evaluation of the resulting tree (engine model, trusted base): `->`, `->>`, JSON path
                  text parsing (`parsePath`), CAST, UPPER/LOWER/TRIM on JSON, `json_array_length`, 3-valued
                  operators, integer subscripts on JSON.
  * small separate models: OBJECT_CONSTRUCT, array literals, SPLIT, LATERAL FLATTEN.
No Mathlib.
-/
namespace Fs.Json

/-! ## Documents -/

mutual
inductive Json where
  | null
  | bool (b : Bool)
  | num (n : Int)
  | str (s : List Char)
  | arr (l : JList)
  | obj (o : JObj)
inductive JList where
  | nil
  | cons (j : Json) (t : JList)
inductive JObj where
  | nil
  | cons (k : List Char) (v : Json) (t : JObj)
end
deriving instance DecidableEq for Json, JList, JObj

inductive Seg where
  | key (k : List Char)
  | idx (n : Nat)
deriving DecidableEq, Repr
abbrev Path := List Seg

def JList.get? : JList → Nat → Option Json
  | .nil, _ => none
  | .cons j _, 0 => some j
  | .cons _ t, n + 1 => t.get? n

def JList.length : JList → Nat
  | .nil => 0
  | .cons _ t => t.length + 1

def JList.toList : JList → List Json
  | .nil => []
  | .cons j t => j :: t.toList

def JList.ofList : List Json → JList
  | [] => .nil
  | j :: t => .cons j (JList.ofList t)

/-- first pair with that key (documents of the envelope have distinct keys) -/
def JObj.find? : JObj → List Char → Option Json
  | .nil, _ => none
  | .cons k v t, q => if k = q then some v else t.find? q

def JObj.toList : JObj → List (List Char × Json)
  | .nil => []
  | .cons k v t => (k, v) :: t.toList

def JObj.ofList : List (List Char × Json) → JObj
  | [] => .nil
  | (k, v) :: t => .cons k v (JObj.ofList t)

/-- one navigation step: a key only applies to an object, an index only to an array -/
def step : Json → Seg → Option Json
  | .obj o, .key k => o.find? k
  | .arr l, .idx n => l.get? n
  | _, _ => none

/-- **navigating the document** (what `doc['a']['b'][0]` does in Python, with a missing key / wrong kind /
    out-of-range index giving `none`) -/
def get : Json → Path → Option Json
  | j, [] => some j
  | j, s :: p => (step j s).bind (get · p)

/-! ## JSON text -/

def digitChar (d : Nat) : Char := Char.ofNat (48 + d)

def natDigitsAux : Nat → Nat → List Char → List Char
  | 0, _, acc => acc
  | f + 1, n, acc =>
    let acc' := digitChar (n % 10) :: acc
    if n / 10 = 0 then acc' else natDigitsAux f (n / 10) acc'

def natDigits (n : Nat) : List Char := natDigitsAux (n + 1) n []

def intDigits : Int → List Char
  | .ofNat n => natDigits n
  | .negSucc n => '-' :: natDigits (n + 1)

def escChar (c : Char) : List Char :=
  if c = '"' then ['\\', '"'] else if c = '\\' then ['\\', '\\'] else [c]

def quoteStr (s : List Char) : List Char := '"' :: (s.flatMap escChar ++ ['"'])

mutual
/-- minified JSON text as DuckDB (yyjson) writes it; strings of the envelope need only `"` and `\` escaped -/
def render : Json → List Char
  | .null => "null".toList
  | .bool true => "true".toList
  | .bool false => "false".toList
  | .num n => intDigits n
  | .str s => quoteStr s
  | .arr l => '[' :: (renderL l ++ [']'])
  | .obj o => '{' :: (renderO o ++ ['}'])
def renderL : JList → List Char
  | .nil => []
  | .cons j .nil => render j
  | .cons j t => render j ++ ',' :: renderL t
def renderO : JObj → List Char
  | .nil => []
  | .cons k v .nil => quoteStr k ++ ':' :: render v
  | .cons k v t => quoteStr k ++ ':' :: render v ++ ',' :: renderO t
end

/-! ## Values and errors -/

inductive Err where
  | conv      -- duckdb.ConversionException (reaches the caller raw)
  | binder    -- duckdb.BinderException → ProgrammingError 2043
  | parser    -- duckdb.ParserException (raw)
  | invalid   -- duckdb.InvalidInputException (raw): PARSE_JSON of text that is not JSON
deriving DecidableEq, Repr

inductive Val where
  | null
  | json (j : Json)
  | text (s : List Char)
  | int (n : Int)
  | bool (b : Bool)
  | err (e : Err)
  | unsup                 -- outside what the model predicts (the driver answers `unsupported`)
deriving DecidableEq

/-- Python's `None` is both SQL NULL and a JSON `null` that was extracted -/
def ofOpt : Option Json → Val
  | none => .null
  | some .null => .null
  | some j => .json j

/-- a value converted to text: **a JSON string loses its quotes**, any other JSON value is its JSON text -/
def textOf : Json → List Char
  | .str s => s
  | j => render j

/-! ## JSON path text (the interface between fakesnow and DuckDB) -/

/-- index of `e[...]` as written in the SQL text: a string literal or the digits of a number literal -/
inductive BIdx where
  | str (k : List Char)
  | num (ds : List Char)
deriving DecidableEq

def digitVal (c : Char) : Nat := c.toNat - 48
def digitsVal (ds : List Char) : Nat := ds.foldl (fun a c => a * 10 + digitVal c) 0

/-- the document step a bracket index stands for -/
def BIdx.seg : BIdx → Seg
  | .str k => .key k
  | .num ds => .idx (digitsVal ds)

/-- `indices_to_json_extract` builds the path text with an f-string: `$.{key}` / `$[{n}]` (transforms.py:574-578) -/
def bracketPath : BIdx → List Char
  | .str k => '$' :: '.' :: k
  | .num ds => '$' :: '[' :: (ds ++ [']'])

/-- `index.this` is truthy -/
def BIdx.truthy : BIdx → Bool
  | .str k => !k.isEmpty
  | .num ds => !ds.isEmpty

def isKeyChar (c : Char) : Bool := c != '.' && c != '['
def isDigit (c : Char) : Bool := 48 ≤ c.toNat && c.toNat ≤ 57

/-- DuckDB's JSON path parser after the `$` (json_common: `.key` up to the next `.`/`[`, `."quoted key"`,
    `[digits]`); `none` = "JSON path error" (BinderException).  Wildcards are outside the model. -/
def parseSegs : Nat → List Char → Option Path
  | _, [] => some []
  | 0, _ => none
  | f + 1, '.' :: '"' :: rest =>
    match rest.dropWhile (· != '"') with
    | '"' :: r' => (parseSegs f r').map (Seg.key (rest.takeWhile (· != '"')) :: ·)
    | _ => none
  | f + 1, '.' :: rest =>
    let k := rest.takeWhile isKeyChar
    if k.isEmpty || k == ['*'] then none
    else (parseSegs f (rest.dropWhile isKeyChar)).map (Seg.key k :: ·)
  | f + 1, '[' :: rest =>
    let ds := rest.takeWhile isDigit
    match ds.isEmpty, rest.dropWhile isDigit with
    | false, ']' :: r' => (parseSegs f r').map (Seg.idx (digitsVal ds) :: ·)
    | _, _ => none
  | _, _ => none

def parsePath : List Char → Option Path
  | '$' :: rest => parseSegs rest.length rest
  | _ => none

/-! ## Expressions -/

inductive Ty where
  | text | int | bool
deriving DecidableEq, Repr

inductive Lit where
  | null
  | str (s : List Char)
  | int (n : Int)
  | bool (b : Bool)
deriving DecidableEq

inductive Op where
  | or | and | eq | concat | add
deriving DecidableEq, Repr

/-- second operand of `->`/`->>`: a structured `exp.JSONPath` (built by sqlglot's Snowflake parser for `v:a.b[0]`
    and GET_PATH; rendered by sqlglot, parsed by DuckDB — both engines) or a raw string literal (built by
    fakesnow's `indices_to_json_extract`) -/
inductive PathLit where
  | path (p : Path)
  | raw (cs : List Char)
deriving DecidableEq

inductive E where
  | col                               -- the VARIANT operand: a table column or PARSE_JSON('<doc>')
  | fval                              -- `f.value` of a LATERAL FLATTEN in the same SELECT (evaluated per element)
  | lit (l : Lit)
  | jx (e : E) (p : PathLit)          -- exp.JSONExtract        DuckDB `->`
  | jxs (e : E) (p : PathLit)         -- exp.JSONExtractScalar  DuckDB `->>`
  | bracket (e : E) (i : BIdx)        -- exp.Bracket with one literal index
  | paren (e : E)
  | parseJson (e : E)                 -- PARSE_JSON(<text expression>)  DuckDB `JSON(..)`
  | cast (e : E) (t : Ty)
  | upper (e : E)
  | lower (e : E)
  | trim (e : E)
  | arraySize (e : E)                 -- exp.ArraySize
  | caseLen (e : E)                   -- CASE WHEN json_array_length(e) THEN json_array_length(e) END
  | bin (o : Op) (a b : E)
  | not (e : E)
  | isNull (e : E)
deriving DecidableEq

/-! ## sqlglot's `Expression.transform` -/

/-- pre-order traversal with a replacing rule: where the rule fires the new node is taken as is and NOT
    descended into (`dfs(prune=lambda n: n is not new_node)`, sqlglot expressions.py:627) -/
def topDown (r : E → Option E) (e : E) : E :=
  match r e with
  | some e' => e'
  | none =>
    match e with
    | .col => .col
    | .fval => .fval
    | .lit l => .lit l
    | .jx x p => .jx (topDown r x) p
    | .jxs x p => .jxs (topDown r x) p
    | .bracket x i => .bracket (topDown r x) i
    | .paren x => .paren (topDown r x)
    | .parseJson x => .parseJson (topDown r x)
    | .cast x t => .cast (topDown r x) t
    | .upper x => .upper (topDown r x)
    | .lower x => .lower (topDown r x)
    | .trim x => .trim (topDown r x)
    | .arraySize x => .arraySize (topDown r x)
    | .caseLen x => .caseLen (topDown r x)
    | .bin o a b => .bin o (topDown r a) (topDown r b)
    | .not x => .not (topDown r x)
    | .isNull x => .isNull (topDown r x)

/-- `trim_cast_varchar` (transforms.py:1219): TRIM(x) → TRIM(CAST(x AS VARCHAR)) unless x already is such a cast -/
def trimRule : E → Option E
  | .trim (.cast _ .text) => none
  | .trim x => some (.trim (.cast x .text))
  | _ => none

/-- `indices_to_json_extract` (transforms.py:553) -/
def indicesRule : E → Option E
  | .bracket x i => if i.truthy then some (.jx x (.raw (bracketPath i))) else none
  | _ => none

/-- `json_extract_cast_as_varchar` (transforms.py:668): in-place `je.replace(..)` under ANY cast whose operand is
    a JSONExtract with a structured JSONPath; the traversal continues below -/
def castAsVarchar : E → E
  | .cast (.jx x (.path p)) t => .cast (.jxs (castAsVarchar x) (.path p)) t
  | .cast x t => .cast (castAsVarchar x) t
  | .col => .col
  | .fval => .fval
  | .lit l => .lit l
  | .jx x p => .jx (castAsVarchar x) p
  | .jxs x p => .jxs (castAsVarchar x) p
  | .bracket x i => .bracket (castAsVarchar x) i
  | .paren x => .paren (castAsVarchar x)
  | .parseJson x => .parseJson (castAsVarchar x)
  | .upper x => .upper (castAsVarchar x)
  | .lower x => .lower (castAsVarchar x)
  | .trim x => .trim (castAsVarchar x)
  | .arraySize x => .arraySize (castAsVarchar x)
  | .caseLen x => .caseLen (castAsVarchar x)
  | .bin o a b => .bin o (castAsVarchar a) (castAsVarchar b)
  | .not x => .not (castAsVarchar x)
  | .isNull x => .isNull (castAsVarchar x)

/-- `json_extract_cased_as_varchar` (transforms.py:645): in-place `expression.set("this", ..)` under UPPER/LOWER -/
def casedAsVarchar : E → E
  | .upper (.jx x (.path p)) => .upper (.jxs (casedAsVarchar x) (.path p))
  | .lower (.jx x (.path p)) => .lower (.jxs (casedAsVarchar x) (.path p))
  | .upper x => .upper (casedAsVarchar x)
  | .lower x => .lower (casedAsVarchar x)
  | .col => .col
  | .fval => .fval
  | .lit l => .lit l
  | .jx x p => .jx (casedAsVarchar x) p
  | .jxs x p => .jxs (casedAsVarchar x) p
  | .bracket x i => .bracket (casedAsVarchar x) i
  | .paren x => .paren (casedAsVarchar x)
  | .parseJson x => .parseJson (casedAsVarchar x)
  | .cast x t => .cast (casedAsVarchar x) t
  | .trim x => .trim (casedAsVarchar x)
  | .arraySize x => .arraySize (casedAsVarchar x)
  | .caseLen x => .caseLen (casedAsVarchar x)
  | .bin o a b => .bin o (casedAsVarchar a) (casedAsVarchar b)
  | .not x => .not (casedAsVarchar x)
  | .isNull x => .isNull (casedAsVarchar x)

/-- `json_extract_precedence` (transforms.py:685) -/
def precRule : E → Option E
  | .jx x p => some (.paren (.jx x p))
  | .jxs x p => some (.paren (.jxs x p))
  | _ => none

/-- `array_size` (transforms.py:49) -/
def arraySizeRule : E → Option E
  | .arraySize x => some (.caseLen x)
  | _ => none

/-- `flatten_value_cast_as_varchar` (transforms.py:505): `f.value::varchar` → `F.VALUE ->> '$'` -/
def flattenValueRule : E → Option E
  | .cast .fval .text => some (.jxs .fval (.path []))
  | _ => none

def E.hasFval : E → Bool
  | .fval => true
  | .col => false
  | .lit _ => false
  | .jx x _ => x.hasFval
  | .jxs x _ => x.hasFval
  | .bracket x _ => x.hasFval
  | .paren x => x.hasFval
  | .parseJson x => x.hasFval
  | .cast x _ => x.hasFval
  | .upper x => x.hasFval
  | .lower x => x.hasFval
  | .trim x => x.hasFval
  | .arraySize x => x.hasFval
  | .caseLen x => x.hasFval
  | .bin _ a b => a.hasFval || b.hasFval
  | .not x => x.hasFval
  | .isNull x => x.hasFval

/-- the JSON part of `cursor._transform`, in its order (cursor.py:171-176, 193) -/
def pipeline (e : E) : E :=
  topDown arraySizeRule (topDown precRule (casedAsVarchar (castAsVarchar (topDown indicesRule (topDown trimRule e)))))

/-- the pipeline including `flatten_value_cast_as_varchar`, which runs after `json_extract_precedence` (cursor.py).
    On trees without `f.value` it is meant to coincide with `pipeline` (checked by the driver on every evaluated case,
    not proved); the `Ctx` theorems are about `pipeline`. -/
def pipelineAll (e : E) : E :=
  topDown arraySizeRule (topDown flattenValueRule (topDown precRule (casedAsVarchar (castAsVarchar (topDown indicesRule (topDown trimRule e))))))

/-- the same with `flatten_value_cast_as_varchar` moved AHEAD of `trim_cast_varchar` -/
def pipelineFlattenEarly (e : E) : E :=
  topDown arraySizeRule (topDown precRule (casedAsVarchar (castAsVarchar (topDown indicesRule (topDown trimRule (topDown flattenValueRule e))))))

/-- the same with `trim_cast_varchar` moved AFTER `json_extract_cast_as_varchar` (for `C11_order`) -/
def pipelineTrimLate (e : E) : E :=
  topDown arraySizeRule (topDown precRule (casedAsVarchar (topDown trimRule (castAsVarchar (topDown indicesRule e)))))

/-- the same without `json_extract_precedence` -/
def pipelineNoParen (e : E) : E :=
  topDown arraySizeRule (casedAsVarchar (castAsVarchar (topDown indicesRule (topDown trimRule e))))

/-! ## DuckDB evaluation of the rewritten tree (engine model) -/

def isSpace (c : Char) : Bool := c == ' '
def trimSpaces (s : List Char) : List Char := ((s.dropWhile isSpace).reverse.dropWhile isSpace).reverse

def upChar (c : Char) : Char := if 97 ≤ c.toNat && c.toNat ≤ 122 then Char.ofNat (c.toNat - 32) else c
def loChar (c : Char) : Char := if 65 ≤ c.toNat && c.toNat ≤ 90 then Char.ofNat (c.toNat + 32) else c

inductive TFun where
  | upper | lower | trim
deriving DecidableEq

def TFun.app : TFun → List Char → List Char
  | .upper, s => s.map upChar
  | .lower, s => s.map loChar
  | .trim, s => trimSpaces s

/-- decimal integer text (optional `-`, digits only) → value; anything else does not convert -/
def parseInt (s : List Char) : Option Int :=
  match s with
  | '-' :: ds => if !ds.isEmpty && ds.all isDigit then some (-(digitsVal ds : Int)) else none
  | ds => if !ds.isEmpty && ds.all isDigit then some (digitsVal ds : Int) else none

/-- DuckDB navigates the parsed path segment by segment -/
def navDuck (j : Json) (p : Path) : Option Json :=
  p.foldl (fun acc s => acc.bind (step · s)) (some j)

def PathLit.parse : PathLit → Option Path
  | .path p => some p
  | .raw cs => parsePath cs

/-- `x -> path` -/
def arrow (v : Val) (p : PathLit) : Val :=
  match v with
  | .null => .null
  | .json j =>
    match p.parse with
    | none => .err .binder
    | some q => ofOpt (navDuck j q)
  | .err e => .err e
  | _ => .unsup

/-- `x ->> path`: strings come back raw, everything else as JSON text -/
def scalarOf : Val → Val
  | .json j => .text (textOf j)
  | w => w

def arrow2 (v : Val) (p : PathLit) : Val := scalarOf (arrow v p)

/-- DuckDB's implicit/explicit JSON → VARCHAR conversion keeps the JSON text (quotes included) -/
def duckText : Val → Val
  | .json j => .text (render j)
  | .text s => .text s
  | .int n => .text (intDigits n)
  | .bool true => .text "true".toList
  | .bool false => .text "false".toList
  | .null => .null
  | .err e => .err e
  | .unsup => .unsup

def castInt : Val → Val
  | .json (.num n) => .int n
  | .json _ => .unsup
  | .text s => match parseInt s with | some n => .int n | none => .err .conv
  | .int n => .int n
  | .null => .null
  | .err e => .err e
  | _ => .unsup

def castBool : Val → Val
  | .json (.bool b) => .bool b
  | .json _ => .unsup
  | .text s => if s = "true".toList then .bool true else if s = "false".toList then .bool false else .unsup
  | .bool b => .bool b
  | .null => .null
  | .err e => .err e
  | _ => .unsup

def duckCast (t : Ty) (v : Val) : Val :=
  match t with
  | .text => duckText v
  | .int => castInt v
  | .bool => castBool v

def mapText (f : List Char → List Char) : Val → Val
  | .text s => .text (f s)
  | w => w

/-- `CASE WHEN json_array_length(x) THEN json_array_length(x) END` — length 0 is falsy, so no branch is taken -/
def caseLenVal : Val → Val
  | .json (.arr l) => if l.length = 0 then .null else .int l.length
  | .json _ => .null          -- json_array_length of a non-array is 0
  | .null => .null
  | .err e => .err e
  | _ => .unsup

/-- operands of the surrounding operators: a bare JSON boolean is usable as a boolean -/
def asBool : Val → Option (Option Bool)
  | .null => some none
  | .bool b => some (some b)
  | .json (.bool b) => some (some b)
  | _ => none

def and3 : Option Bool → Option Bool → Option Bool
  | some false, _ => some false
  | _, some false => some false
  | some true, some true => some true
  | _, _ => none

def or3 : Option Bool → Option Bool → Option Bool
  | some true, _ => some true
  | _, some true => some true
  | some false, some false => some false
  | _, _ => none

def ofB3 : Option Bool → Val
  | none => .null
  | some b => .bool b

/-- `=` between values of the same kind; `jsonText` says what happens between a bare JSON value and a text
    literal (the only place where DuckDB and the specification differ) -/
def evalEq (jsonText : Json → List Char → Val) : Val → Val → Val
  | .int a, .int b => .bool (a = b)
  | .text a, .text b => .bool (a = b)
  | .bool a, .bool b => .bool (a = b)
  | .json (.num a), .int b => .bool (a = b)
  | .json j, .text s => jsonText j s
  | .null, .int _ => .null
  | .null, .text _ => .null
  | .null, .bool _ => .null
  | .int _, .null => .null
  | .text _, .null => .null
  | .bool _, .null => .null
  | .null, .null => .null
  | _, _ => .unsup

def evalBin (jsonText : Json → List Char → Val) (o : Op) (a b : Val) : Val :=
  match o with
  | .and => match asBool a, asBool b with | some x, some y => ofB3 (and3 x y) | _, _ => .unsup
  | .or => match asBool a, asBool b with | some x, some y => ofB3 (or3 x y) | _, _ => .unsup
  | .eq => evalEq jsonText a b
  | .add =>
    match a, b with
    | .int x, .int y => .int (x + y)
    | .null, .int _ => .null
    | .int _, .null => .null
    | .null, .null => .null
    | _, _ => .unsup
  | .concat =>
    match a, b with
    | .text x, .text y => .text (x ++ y)
    | .null, .text _ => .null
    | .text _, .null => .null
    | .null, .null => .null
    | _, _ => .unsup

def evalNot (v : Val) : Val :=
  match asBool v with
  | some (some b) => .bool (!b)
  | some none => .null
  | none => .unsup

def evalIsNull : Val → Val
  | .null => .bool true
  | .err _ => .unsup
  | .unsup => .unsup
  | _ => .bool false

def evalLit : Lit → Val
  | .null => .null
  | .str s => .text s
  | .int n => .int n
  | .bool b => .bool b

/-- a text literal compared with a JSON value is cast to JSON by DuckDB: a ConversionException unless the text
    happens to be JSON (then outside the model) -/
def isWord (s : List Char) : Bool :=
  !s.isEmpty && s.all (fun c => (97 ≤ c.toNat && c.toNat ≤ 122) || (65 ≤ c.toNat && c.toNat ≤ 90)) &&
    s != "true".toList && s != "false".toList && s != "null".toList

def duckJsonText (_ : Json) (s : List Char) : Val := if isWord s then .err .conv else .unsup

/-- what an expression is evaluated against: the document of the VARIANT operand, and the JSON text parser
    (DuckDB's `JSON(text)` / Python's `json.loads`) as an abstract function: `none` = text the environment does not
    know (outside the model), `some none` = not JSON, `some (some j)` = parses to `j` -/
structure Env where
  doc : Json
  pj : List Char → Option (Option Json) := fun _ => none

/-- PARSE_JSON of a text value -/
def parseVal (pj : List Char → Option (Option Json)) : Val → Val
  | .text s =>
    match pj s with
    | some (some j) => .json j
    | some none => .err .invalid
    | none => .unsup
  | .null => .null
  | .err e => .err e
  | _ => .unsup

def evalDuck (doc : Env) : E → Val
  | .col => .json doc.doc
  | .fval => ofOpt (some doc.doc)          -- the element; a JSON null element is SQL NULL
  | .lit l => evalLit l
  | .jx x p => arrow (evalDuck doc x) p
  | .jxs x p => arrow2 (evalDuck doc x) p
  | .bracket x i =>
    -- a bracket that reached DuckDB: integer subscript on JSON extracts (0-based), a string subscript is a
    -- "JSON path error" (BinderException)
    match i with
    | .num ds => arrow (evalDuck doc x) (.path [.idx (digitsVal ds)])
    | .str k =>
      -- (a digit-only string subscript that reaches DuckDB is read in yet another way: outside the model)
      if k.all isDigit then .unsup else
      match evalDuck doc x with | .json _ => .err .binder | .null => .err .binder | w => w
  | .paren x => evalDuck doc x
  | .parseJson x => parseVal doc.pj (evalDuck doc x)
  | .cast x t => duckCast t (evalDuck doc x)
  | .upper x => mapText (TFun.app .upper) (duckText (evalDuck doc x))
  | .lower x => mapText (TFun.app .lower) (duckText (evalDuck doc x))
  | .trim x => mapText (TFun.app .trim) (duckText (evalDuck doc x))
  | .arraySize _ => .unsup
  | .caseLen x => caseLenVal (evalDuck doc x)
  | .bin o a b => evalBin duckJsonText o (evalDuck doc a) (evalDuck doc b)
  | .not x => evalNot (evalDuck doc x)
  | .isNull x => evalIsNull (evalDuck doc x)

/-! ## Printing: which nodes are delimited when the tree is rendered as DuckDB SQL -/

/-- DuckDB 1.0 grammar levels (gram.y `%left/%nonassoc` table): `->` is the lambda arrow, the lowest;
    `->>` and `||` are generic operators; CAST(..)/functions/parentheses/literals are primaries -/
def Op.prec : Op → Nat
  | .or => 1 | .and => 2 | .eq => 5 | .concat => 6 | .add => 7

def precArrow : Nat := 0
def precNot : Nat := 3
def precIs : Nat := 4
def precGeneric : Nat := 6
def precPrimary : Nat := 10

/-- `=` is %nonassoc (`a = b = c` is a syntax error), the others %left -/
def Op.leftAssoc : Op → Bool
  | .eq => false
  | _ => true

/-- level of the text printed for a node.  `src = true`: the Snowflake text the tree was parsed from, where
    `x:a.b` / `x[i]` are postfix primaries.  `src = false`: the DuckDB text, where an extract is the binary
    operator `->` / `->>` unless it is `wrapped`: sqlglot's DuckDB generator itself parenthesises an extract whose
    parent is a Binary/Bracket node of ANOTHER class (`_arrow_json_extract_sql`: And/Or/EQ/Add/DPipe/Is, the other
    kind of extract, Bracket — but not NOT, which is Unary) -/
def E.level (src wrapped : Bool) : E → Nat
  | .jx _ _ => if src || wrapped then precPrimary else precArrow
  | .jxs _ _ => if src || wrapped then precPrimary else precGeneric
  | .bin o _ _ => o.prec
  | .not _ => precNot
  | .isNull _ => precIs
  | _ => precPrimary

def E.isJx : E → Bool
  | .jx _ _ => true
  | _ => false
def E.isJxs : E → Bool
  | .jxs _ _ => true
  | _ => false

/-- `PrecOKg src e`: printing `e` the way sqlglot does (no parentheses except `Paren` nodes and, on the DuckDB
    side, the generator's own wrap described at `E.level`) gives text that the grammar parses back to `e`:
    every operand sits at a level its position admits (left operand ≥ the operator's level — > for the
    non-associative `=` —, right operand >; operand of NOT ≥ NOT; operand of IS NULL > IS; left operand of `->`
    ≥ `->`, of `->>` ≥ generic, of a postfix subscript a primary); delimited positions (parentheses, CAST(..),
    function arguments, CASE WHEN) admit anything. -/
def PrecOKg (src : Bool) : E → Bool
  | .col => true
  | .fval => true
  | .lit _ => true
  | .jx x _ => PrecOKg src x && decide ((if src then precPrimary else precArrow) ≤ x.level src x.isJxs)
  | .jxs x _ => PrecOKg src x && decide ((if src then precPrimary else precGeneric) ≤ x.level src x.isJx)
  | .bracket x _ => PrecOKg src x && decide (precPrimary ≤ x.level src (x.isJx || x.isJxs))
  | .paren x => PrecOKg src x
  | .parseJson x => PrecOKg src x
  | .cast x _ => PrecOKg src x
  | .upper x => PrecOKg src x
  | .lower x => PrecOKg src x
  | .trim x => PrecOKg src x
  | .arraySize x => PrecOKg src x
  | .caseLen x => PrecOKg src x
  | .bin o a b => PrecOKg src a && PrecOKg src b &&
      (if o.leftAssoc then decide (o.prec ≤ a.level src true) else decide (o.prec < a.level src true)) &&
      decide (o.prec < b.level src true)
  | .not x => PrecOKg src x && decide (precNot ≤ x.level src false)
  | .isNull x => PrecOKg src x && decide (precIs < x.level src true)

/-- the Snowflake text the user wrote is unambiguous -/
abbrev SrcOK (e : E) : Bool := PrecOKg true e
/-- the DuckDB text fakesnow sends parses back to the tree fakesnow built -/
abbrev PrecOK (e : E) : Bool := PrecOKg false e

/-! ## OBJECT_CONSTRUCT, array literals, SPLIT, FLATTEN -/

/-- an argument of OBJECT_CONSTRUCT: the literal `NULL`, or an expression with its value (`none` = SQL NULL) -/
inductive Arg where
  | litNull
  | expr (v : Option Json)
deriving DecidableEq

def Arg.val : Arg → Option Json
  | .litNull => none
  | .expr v => v

def Arg.isLitNull : Arg → Bool
  | .litNull => true
  | .expr _ => false

/-- key/value argument pairs; a key is a string literal or the literal NULL -/
abbrev Pairs := List (Option (List Char) × Arg)

/-- `object_construct` (transforms.py:738): drops the pairs whose key or value is the LITERAL `NULL`, then DuckDB's
    `TO_JSON({k: v, …})` writes a NULL value as JSON `null` -/
def objectConstructImpl (ps : Pairs) : List (List Char × Json) :=
  ps.filterMap fun (k, a) =>
    match k with
    | none => none
    | some k => if a.isLitNull then none else some (k, a.val.getD .null)

/-- DuckDB has no empty struct literal: when nothing is left, `TO_JSON({})` is a ParserException -/
def objectConstructDuck (ps : Pairs) : Except Err (List (List Char × Json)) :=
  if (objectConstructImpl ps).isEmpty then .error .parser else .ok (objectConstructImpl ps)

/-- OBJECT_CONSTRUCT drops every pair whose value (or key) is NULL -/
def objectConstructSpec (ps : Pairs) : List (List Char × Json) :=
  ps.filterMap fun (k, a) =>
    match k, a.val with
    | some k, some v => some (k, v)
    | _, _ => none

/-- OBJECT_CONSTRUCT_KEEP_NULL keeps them as JSON null (sqlglot renders DuckDB `JSON_OBJECT`) -/
def objectConstructKeepNull (ps : Pairs) : List (List Char × Json) :=
  ps.filterMap fun (k, a) => k.map fun k => (k, a.val.getD .null)

/-- what comes back for an array literal / ARRAY_CONSTRUCT: fakesnow leaves it a DuckDB LIST, which reaches Python
    as a native list when the items have one type and is a ConversionException when they do not (`native`: the
    list is handed over as it is, not as a JSON document) -/
inductive ArrOut where
  | native (items : List Json)
  | err                     -- ConversionException or BinderException, depending on the item types
  | unsup                   -- booleans mixed with numbers are coerced: outside the model
deriving DecidableEq

def Json.kind : Json → Nat
  | .null => 0 | .bool _ => 1 | .num _ => 2 | .str _ => 3 | .arr _ => 4 | .obj _ => 5

def arrayLitImpl (items : List Json) : ArrOut :=
  match items.filter (· != .null) with
  | [] => .native items
  | j :: js =>
    if js.all (·.kind == j.kind) then .native items
    else if (j :: js).all (fun x => x.kind == 1 || x.kind == 2) then .unsup else .err

/-- SPLIT(s, sep) with a one-character separator (DuckDB `str_split`, Python `str.split`) -/
def splitOn (sep : Char) : List Char → List (List Char)
  | [] => [[]]
  | c :: cs =>
    if c = sep then [] :: splitOn sep cs
    else match splitOn sep cs with
      | [] => [[c]]
      | p :: ps => (c :: p) :: ps

/-- rows of `LATERAL FLATTEN(input => x) f` projected on `f.value` (`flatten`, transforms.py:469:
    `UNNEST(CAST(x AS JSON[]))`): one row per array element in order, a JSON null element is SQL NULL; NULL input
    gives no rows; anything but an array is a ConversionException -/
def flattenImpl : Val → Except Err (List Val)
  | .json (.arr l) => .ok (l.toList.map fun j => ofOpt (some j))
  | .null => .ok []
  | .json .null => .ok []
  | .json _ => .error .conv
  | _ => .error .binder

/-- FLATTEN of a native DuckDB list (array literal / ARRAY_CONSTRUCT, which fakesnow leaves a LIST): the cast to JSON[]
    parses every VARCHAR item as JSON text, so plain strings fail -/
def flattenNativeListImpl (items : List Json) : Except Err (List Val) :=
  if items.any (fun j => j.kind == 3) then .error .conv else .ok (items.map fun j => ofOpt (some j))

/-- `f.value::varchar` → `F.VALUE ->> '$'` (`flatten_value_cast_as_varchar`, transforms.py:505) -/
def flattenTextImpl (v : Val) : Except Err (List Val) :=
  (flattenImpl v).map fun rows => rows.map fun r => arrow2 r (.path [])

end Fs.Json
