/-
Model of fakesnow's MERGE (fakesnow/transforms_merge.py `_create_merge_candidates`, `_mutations`, `_counts`;
cursor.py `execute` runs the exploded statements one after another) and of MERGE semantics.

Statement shape modelled (the harness renders exactly this shape):
    MERGE INTO t USING s ON t.k = s.k
      WHEN MATCHED [AND cond(t, s)] THEN DELETE
      WHEN MATCHED [AND cond(t, s)] THEN UPDATE SET v = s.y
      WHEN NOT MATCHED [AND cond(s)] THEN INSERT (k, x, v) VALUES (s.k, 0, s.y)
with t(k, x, v), s(k, y); `k` nullable (NULL never joins), the other columns NOT NULL in the modelled data.
Clause conditions are arbitrary Boolean functions of the joined pair in the theorems.

Engine behaviour modelled (trusted base, exercised by the correspondence): FULL OUTER JOIN on key equality,
CASE picks the first true WHEN, `DELETE … USING` deletes every target row joining some candidate of that clause,
`UPDATE … FROM` takes the value of a joining candidate, `INSERT … SELECT`, `COUNT_IF` (NULL on empty input).
-/
namespace Fs.Merge

/-- a target row: the join key (`none` when any key column is NULL: it never joins) and the non-key columns -/
structure TRow where
  key : Option (List Nat)
  vals : List Nat
deriving DecidableEq, Repr

structure SRow where
  key : Option (List Nat)
  vals : List Nat
deriving DecidableEq, Repr

def on (t : TRow) (s : SRow) : Bool :=
  match t.key, s.key with
  | some a, some b => a == b
  | _, _ => false

inductive Clause
  | mDelete (cond : TRow → SRow → Bool)
  | mUpdate (cond : TRow → SRow → Bool) (f : List Nat → List Nat → List Nat)  -- non-key columns := f old (source columns)
  | nInsert (cond : SRow → Bool) (mk : List Nat → List Nat)                   -- insert (s.key, mk (source columns))

def Clause.matched : Clause → Bool | .nInsert _ _ => false | _ => true

/-- index of the first applicable matched clause for the pair -/
def opM (cs : List Clause) (t : TRow) (s : SRow) : Option Nat :=
  cs.findIdx? fun c => match c with
    | .mDelete k => k t s | .mUpdate k _ => k t s | .nInsert _ _ => false

def opN (cs : List Clause) (s : SRow) : Option Nat :=
  cs.findIdx? fun c => match c with
    | .nInsert k _ => k s | _ => false

/-! ### Spec -/
def applyM (c : Clause) (t : TRow) (s : SRow) : Option TRow :=
  match c with
  | .mDelete _ => none
  | .mUpdate _ f => some { t with vals := f t.vals s.vals }
  | .nInsert _ _ => some t

/-- the row an insert clause builds from a source row (clause looked up by index) -/
def mkRowAt (cs : List Clause) (i : Nat) (s : SRow) : TRow :=
  match cs[i]? with
  | some (.nInsert _ mk) => { key := s.key, vals := mk s.vals }
  | _ => { key := s.key, vals := [] }

def specRow (cs : List Clause) (src : List SRow) (t : TRow) : Option TRow :=
  match src.find? (on t) with
  | none => some t
  | some s => match opM cs t s with
    | none => some t
    | some i => match cs[i]? with
      | some c => applyM c t s
      | none => some t

def specInserts (cs : List Clause) (tgt : List TRow) (src : List SRow) : List TRow :=
  (src.filter fun s => !(tgt.any fun t => on t s)).filterMap fun s =>
    (opN cs s).map fun i => mkRowAt cs i s

def spec (cs : List Clause) (tgt : List TRow) (src : List SRow) : List TRow :=
  tgt.filterMap (specRow cs src) ++ specInserts cs tgt src

/-! ### Impl: candidates + per-clause mutations re-joined on the key -/
structure Cand where
  s : SRow
  op : Nat
deriving Repr

def cands (cs : List Clause) (tgt : List TRow) (src : List SRow) : List Cand :=
  (tgt.flatMap fun t => (src.filter (on t)).filterMap fun s => (opM cs t s).map fun i => ⟨s, i⟩)
  ++ ((src.filter fun s => !(tgt.any fun t => on t s)).filterMap fun s => (opN cs s).map fun i => ⟨s, i⟩)

def mutate (cd : List Cand) (tgt : List TRow) (i : Nat) (c : Clause) : List TRow :=
  match c with
  | .mDelete _ => tgt.filter fun t => !(cd.any fun k => on t k.s && k.op == i)
  | .mUpdate _ f => tgt.map fun t => match cd.find? (fun k => on t k.s && k.op == i) with
      | some k => { t with vals := f t.vals k.s.vals } | none => t
  | .nInsert _ mk => tgt ++ (cd.filter (fun k => k.op == i)).map fun k => { key := k.s.key, vals := mk k.s.vals }

def implGo (cd : List Cand) : List Clause → Nat → List TRow → List TRow
  | [], _, tgt => tgt
  | c :: cs, i, tgt => implGo cd cs (i + 1) (mutate cd tgt i c)

def impl (cs : List Clause) (tgt : List TRow) (src : List SRow) : List TRow :=
  implGo (cands cs tgt src) cs 0 tgt


/-! ### Reported counts -/

inductive Kind | ins | upd | del
deriving DecidableEq, Repr

def Clause.kind : Clause → Kind
  | .mDelete _ => .del
  | .mUpdate _ _ => .upd
  | .nInsert _ _ => .ins

/-- does some clause of this kind occur (the count column is only reported then) -/
def hasKind (cs : List Clause) (k : Kind) : Bool := cs.any fun c => c.kind == k

/-- `COUNT_IF(merge_op IN (indices of the clauses of this kind))` over `merge_candidates`;
    DuckDB returns NULL for COUNT_IF over an empty table. -/
def implCount (cs : List Clause) (tgt : List TRow) (src : List SRow) (k : Kind) : Option Nat :=
  let cd := cands cs tgt src
  if cd.isEmpty then none
  else some (cd.filter fun c => match cs[c.op]? with | some cl => cl.kind == k | none => false).length

/-- rows actually affected, by MERGE semantics -/
def specCount (cs : List Clause) (tgt : List TRow) (src : List SRow) (k : Kind) : Nat :=
  match k with
  | .ins => (specInserts cs tgt src).length
  | _ => (tgt.filter fun t =>
      match src.find? (on t) with
      | none => false
      | some s => match opM cs t s with
        | none => false
        | some i => match cs[i]? with
          | some c => c.kind == k
          | none => false).length

/-! ### Determinism envelope (decidable versions used by the driver; `Fs/Proofs/Merge.lean` relates them
to the hypotheses of the theorems) -/

/-- H1 as a Boolean: each target row joins at most one source row *value* -/
def h1b (tgt : List TRow) (src : List SRow) : Bool :=
  tgt.all fun t => src.all fun s => src.all fun s' => !(on t s && on t s') || decide (s = s')

/-- strict form: each target row joins at most one source row (duplicates count) — "deterministic merge" -/
def h1cb (tgt : List TRow) (src : List SRow) : Bool :=
  tgt.all fun t => decide ((src.filter (on t)).length ≤ 1)


end Fs.Merge

namespace Fs.Merge

/-- H2 as a Boolean: all target rows joining one source row select the same clause -/
def h2b (cs : List Clause) (tgt : List TRow) (src : List SRow) : Bool :=
  src.all fun s => tgt.all fun t => tgt.all fun t' => !(on t s && on t' s) || (opM cs t s == opM cs t' s)

/-! ### Clause conditions and assignments as data (what the harness can render as SQL)

Columns are addressed by index: `t i` = i-th non-key target column, `s i` = i-th non-key source column. -/

inductive Col | t (i : Nat) | s (i : Nat)
deriving DecidableEq, Repr
inductive Cmp | eq | ne | lt | ge
deriving DecidableEq, Repr

inductive Cond
  | tt
  | cmp (c : Col) (o : Cmp) (n : Nat)
  | and (a b : Cond)
  | or (a b : Cond)
  | not (a : Cond)
deriving Repr

def Cmp.eval : Cmp → Nat → Nat → Bool
  | .eq, a, b => a == b
  | .ne, a, b => a != b
  | .lt, a, b => decide (a < b)
  | .ge, a, b => decide (a ≥ b)

def Cond.eval : Cond → TRow → SRow → Bool
  | .tt, _, _ => true
  | .cmp (.t i) o n, t, _ => o.eval (t.vals.getD i 0) n
  | .cmp (.s i) o n, _, s => o.eval (s.vals.getD i 0) n
  | .and a b, t, s => a.eval t s && b.eval t s
  | .or a b, t, s => a.eval t s || b.eval t s
  | .not a, t, s => !(a.eval t s)

/-- right-hand side of an assignment / an inserted value: a bare source column or a constant (H4) -/
inductive Rhs | src (i : Nat) | const (n : Nat)
deriving Repr

def Rhs.eval : Rhs → List Nat → Nat
  | .src i, sv => sv.getD i 0
  | .const n, _ => n

/-- `UPDATE SET col_j = rhs, …`: columns not assigned keep their value; a column assigned twice takes the first -/
def applyAssigns (as : List (Nat × Rhs)) (old sv : List Nat) : List Nat :=
  old.zipIdx.map fun (v, j) => match as.find? (fun a => a.1 == j) with
    | some a => a.2.eval sv
    | none => v

inductive ClauseD
  | del (c : Cond)
  | upd (c : Cond) (as : List (Nat × Rhs))
  | ins (c : Cond) (vals : List Rhs)     -- condition may only read source columns (evaluated with a dummy target)
deriving Repr

def ClauseD.toClause : ClauseD → Clause
  | .del c => .mDelete c.eval
  | .upd c as => .mUpdate c.eval (applyAssigns as)
  | .ins c vs => .nInsert (fun s => c.eval ⟨none, []⟩ s) (fun sv => vs.map (·.eval sv))

end Fs.Merge
