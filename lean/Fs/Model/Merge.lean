/-
Model of fakesnow's MERGE (fakesnow/transforms_merge.py `_create_merge_candidates`, `_mutations`, `_counts`;
cursor.py `execute` runs the exploded statements one after another) and of MERGE semantics.

Statement shape modelled (the harness renders exactly this shape):
    MERGE INTO t USING s ON t.k = s.k
      WHEN MATCHED [AND cond(t, s)] THEN DELETE
      WHEN MATCHED [AND cond(t, s)] THEN UPDATE SET v = s.y
      WHEN NOT MATCHED [AND cond(s)] THEN INSERT (k, x, v) VALUES (s.k, 0, s.y)
with t(k, x, v), s(k, y); `k` nullable (NULL never joins), the other columns NOT NULL in the modelled data.
Clause conditions are arbitrary Boolean functions of the joined pair in the theorems.

Engine behaviour modelled (trusted base, exercised by the correspondence): FULL OUTER JOIN on key equality,
CASE picks the first true WHEN, `DELETE … USING` deletes every target row joining some candidate of that clause,
`UPDATE … FROM` takes the value of a joining candidate, `INSERT … SELECT`, `COUNT_IF` (NULL on empty input).
-/
namespace Fs.Merge

structure TRow where
  key : Option Nat
  x : Nat
  v : Nat
deriving DecidableEq, Repr

structure SRow where
  key : Option Nat
  y : Nat
deriving DecidableEq, Repr

def on (t : TRow) (s : SRow) : Bool :=
  match t.key, s.key with
  | some a, some b => a == b
  | _, _ => false

inductive Clause
  | mDelete (cond : TRow → SRow → Bool)
  | mUpdate (cond : TRow → SRow → Bool)          -- set v = s.y
  | nInsert (cond : SRow → Bool)                  -- insert (s.key, 0, s.y)

def Clause.matched : Clause → Bool | .nInsert _ => false | _ => true

/-- index of the first applicable matched clause for the pair -/
def opM (cs : List Clause) (t : TRow) (s : SRow) : Option Nat :=
  cs.findIdx? fun c => match c with
    | .mDelete k => k t s | .mUpdate k => k t s | .nInsert _ => false

def opN (cs : List Clause) (s : SRow) : Option Nat :=
  cs.findIdx? fun c => match c with
    | .nInsert k => k s | _ => false

/-! ### Spec -/
def applyM (c : Clause) (t : TRow) (s : SRow) : Option TRow :=
  match c with
  | .mDelete _ => none
  | .mUpdate _ => some { t with v := s.y }
  | .nInsert _ => some t

def specRow (cs : List Clause) (src : List SRow) (t : TRow) : Option TRow :=
  match src.find? (on t) with
  | none => some t
  | some s => match opM cs t s with
    | none => some t
    | some i => match cs[i]? with
      | some c => applyM c t s
      | none => some t

def specInserts (cs : List Clause) (tgt : List TRow) (src : List SRow) : List TRow :=
  (src.filter fun s => !(tgt.any fun t => on t s)).filterMap fun s =>
    (opN cs s).map fun _ => { key := s.key, x := 0, v := s.y }

def spec (cs : List Clause) (tgt : List TRow) (src : List SRow) : List TRow :=
  tgt.filterMap (specRow cs src) ++ specInserts cs tgt src

/-! ### Impl: candidates + per-clause mutations re-joined on the key -/
structure Cand where
  s : SRow
  op : Nat
deriving Repr

def cands (cs : List Clause) (tgt : List TRow) (src : List SRow) : List Cand :=
  (tgt.flatMap fun t => (src.filter (on t)).filterMap fun s => (opM cs t s).map fun i => ⟨s, i⟩)
  ++ ((src.filter fun s => !(tgt.any fun t => on t s)).filterMap fun s => (opN cs s).map fun i => ⟨s, i⟩)

def mutate (cd : List Cand) (tgt : List TRow) (i : Nat) (c : Clause) : List TRow :=
  match c with
  | .mDelete _ => tgt.filter fun t => !(cd.any fun k => on t k.s && k.op == i)
  | .mUpdate _ => tgt.map fun t => match cd.find? (fun k => on t k.s && k.op == i) with
      | some k => { t with v := k.s.y } | none => t
  | .nInsert _ => tgt ++ (cd.filter (fun k => k.op == i)).map fun k => { key := k.s.key, x := 0, v := k.s.y }

def implGo (cd : List Cand) : List Clause → Nat → List TRow → List TRow
  | [], _, tgt => tgt
  | c :: cs, i, tgt => implGo cd cs (i + 1) (mutate cd tgt i c)

def impl (cs : List Clause) (tgt : List TRow) (src : List SRow) : List TRow :=
  implGo (cands cs tgt src) cs 0 tgt


/-! ### Reported counts -/

inductive Kind | ins | upd | del
deriving DecidableEq, Repr

def Clause.kind : Clause → Kind
  | .mDelete _ => .del
  | .mUpdate _ => .upd
  | .nInsert _ => .ins

/-- does some clause of this kind occur (the count column is only reported then) -/
def hasKind (cs : List Clause) (k : Kind) : Bool := cs.any fun c => c.kind == k

/-- `COUNT_IF(merge_op IN (indices of the clauses of this kind))` over `merge_candidates`;
    DuckDB returns NULL for COUNT_IF over an empty table. -/
def implCount (cs : List Clause) (tgt : List TRow) (src : List SRow) (k : Kind) : Option Nat :=
  let cd := cands cs tgt src
  if cd.isEmpty then none
  else some (cd.filter fun c => match cs[c.op]? with | some cl => cl.kind == k | none => false).length

/-- rows actually affected, by MERGE semantics -/
def specCount (cs : List Clause) (tgt : List TRow) (src : List SRow) (k : Kind) : Nat :=
  match k with
  | .ins => (specInserts cs tgt src).length
  | _ => (tgt.filter fun t =>
      match src.find? (on t) with
      | none => false
      | some s => match opM cs t s with
        | none => false
        | some i => match cs[i]? with
          | some c => c.kind == k
          | none => false).length

/-! ### Determinism envelope (decidable versions used by the driver; `Fs/Proofs/Merge.lean` relates them
to the hypotheses of the theorems) -/

/-- H1 as a Boolean: each target row joins at most one source row *value* -/
def h1b (tgt : List TRow) (src : List SRow) : Bool :=
  tgt.all fun t => src.all fun s => src.all fun s' => !(on t s && on t s') || decide (s = s')

/-- strict form: each target row joins at most one source row (duplicates count) — "deterministic merge" -/
def h1cb (tgt : List TRow) (src : List SRow) : Bool :=
  tgt.all fun t => decide ((src.filter (on t)).length ≤ 1)


end Fs.Merge

namespace Fs.Merge

/-- H2 as a Boolean: all target rows joining one source row select the same clause -/
def h2b (cs : List Clause) (tgt : List TRow) (src : List SRow) : Bool :=
  src.all fun s => tgt.all fun t => tgt.all fun t' => !(on t s && on t' s) || (opM cs t s == opM cs t' s)

/-! ### Clause conditions as data (what the harness can render as SQL) -/

inductive Col | tx | tv | sy
deriving DecidableEq, Repr
inductive Cmp | eq | ne | lt | ge
deriving DecidableEq, Repr

inductive Cond
  | tt
  | cmp (c : Col) (o : Cmp) (n : Nat)
  | and (a b : Cond)
  | or (a b : Cond)
  | not (a : Cond)
deriving Repr

def Cmp.eval : Cmp → Nat → Nat → Bool
  | .eq, a, b => a == b
  | .ne, a, b => a != b
  | .lt, a, b => decide (a < b)
  | .ge, a, b => decide (a ≥ b)

def Cond.eval : Cond → TRow → SRow → Bool
  | .tt, _, _ => true
  | .cmp .tx o n, t, _ => o.eval t.x n
  | .cmp .tv o n, t, _ => o.eval t.v n
  | .cmp .sy o n, _, s => o.eval s.y n
  | .and a b, t, s => a.eval t s && b.eval t s
  | .or a b, t, s => a.eval t s || b.eval t s
  | .not a, t, s => !(a.eval t s)

inductive ClauseD
  | del (c : Cond)
  | upd (c : Cond)
  | ins (c : Cond)     -- only `sy` comparisons are meaningful (no target row); evaluated with a dummy target
deriving Repr

def ClauseD.toClause : ClauseD → Clause
  | .del c => .mDelete c.eval
  | .upd c => .mUpdate c.eval
  | .ins c => .nInsert fun s => c.eval ⟨none, 0, 0⟩ s

end Fs.Merge
