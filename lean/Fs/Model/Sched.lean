/-
Model for C19 (concurrent sessions).

Each session (one thread, one fake connection) is a *program*: a list of statements, each statement the list of
engine calls fakesnow issues for it, with the local control flow of the code (the check-then-create ladder of
`conn.py:55-101`: `probe` remembers whether the object was absent, `callIfAbsent` runs only in that case).
All sessions share the engine state `g : Key → Val` (the DuckDB instance, `instance.py:69`) – every engine call
touches exactly one key and is atomic (DuckDB's own locking: trusted).  A *schedule* is a list of session ids; a
turn lets that session run up to and including its next engine call (exactly the yield points of the harness's
deterministic scheduler).  `acquire`/`release` model the instance-level lock that the `fix:` commit puts around the
connect bootstrap (`instance.py`, FakeSnow.connect); a session that is granted a turn while the lock is taken stutters.

`runStmts` is the specification: the same sessions (lock instructions stripped – an atomic statement needs no lock),
but a turn runs a whole *statement* to completion.
-/
namespace Fs.Sched

inductive Key
  | db (d : Nat) | schema (d s : Nat) | tbl (t : Nat) | lock (n : Nat)
deriving DecidableEq, Repr

structure Val where
  ex : Bool := false                 -- the object exists
  info : Bool := false               -- databases: info-schema extension objects and macros created
  rows : List (Nat × Nat) := []      -- tables
  cmt : Option Nat := none           -- tables: comment recorded in the side table
  held : Option Nat := none          -- the lock: its holder
deriving DecidableEq, Repr

inductive Op
  | create                 -- ATTACH / CREATE SCHEMA / CREATE TABLE: error when the object exists
  | bad                    -- an engine call that always fails (ATTACH with a name DuckDB cannot parse, e.g. database="my-db")
  | replace                -- CREATE OR REPLACE TABLE: the table exists and is empty afterwards (its side-table comment stays
                           -- until the statement's own comment upsert)
  | setInfo                -- info_schema.creation_sql + macros: `IF NOT EXISTS`, idempotent
  | insert (k v : Nat)     -- error when the table does not exist
  | readRows
  | setCmt (c : Nat)       -- side-table upsert
  | readMeta               -- existence + comment, as SHOW TABLES / information_schema.tables report it
  | mergeUpd (src : List (Nat × Nat)) | mergeIns (src : List (Nat × Nat))
deriving DecidableEq, Repr

inductive Res
  | ok | err
  | flag (present : Bool)
  | rows (l : List (Nat × Nat))
  | tmeta (ex : Bool) (cmt : Option Nat)
deriving DecidableEq, Repr

def Op.apply : Op → Val → Val × Res
  | .create, v => if v.ex then (v, .err) else ({ v with ex := true }, .ok)
  | .bad, v => (v, .err)
  | .replace, v => ({ v with ex := true, rows := [] }, .ok)
  | .setInfo, v => ({ v with info := true }, .ok)
  | .insert k x, v => if v.ex then ({ v with rows := v.rows ++ [(k, x)] }, .ok) else (v, .err)
  | .readRows, v => (v, if v.ex then .rows v.rows else .err)
  | .setCmt c, v => ({ v with cmt := some c }, .ok)
  | .readMeta, v => (v, .tmeta v.ex (if v.ex then v.cmt else none))
  | .mergeUpd src, v =>
      if v.ex then ({ v with rows := v.rows.map fun r => match src.find? (fun s => s.1 == r.1) with
                                                          | some s => (r.1, s.2) | none => r }, .ok) else (v, .err)
  | .mergeIns src, v =>
      if v.ex then ({ v with rows := v.rows ++ src.filter fun s => !(v.rows.any fun r => r.1 == s.1) }, .ok) else (v, .err)

inductive Instr
  | call (k : Key) (op : Op)
  | probe (k : Key)                      -- `select … from information_schema.schemata …`: remembers "absent"
  | callIfAbsent (k : Key) (op : Op)     -- runs only when the last probe found the object absent
  | acquire (n : Nat) | release (n : Nat)   -- lock number n (the connect lock of the instance is lock 0)
deriving DecidableEq, Repr

abbrev Stmt := List Instr

structure Loc where
  cur : List Instr := []        -- rest of the statement being executed
  rest : List Stmt := []        -- statements not yet started
  absent : Bool := false        -- result of the last probe
  out : List Res := []          -- one result per engine call made so far
deriving DecidableEq, Repr

structure Cfg where
  g : Key → Val
  loc : Nat → Loc

def setG (g : Key → Val) (k : Key) (v : Val) : Key → Val := fun k' => if k' = k then v else g k'
def setLoc (loc : Nat → Loc) (i : Nat) (l : Loc) : Nat → Loc := fun j => if j = i then l else loc j

/-- drop conditional calls that will not run -/
def skipCond (absent : Bool) : List Instr → List Instr
  | .callIfAbsent k op :: is => if absent then .callIfAbsent k op :: is else skipCond absent is
  | is => is

/-- the next instruction that is a scheduling point (engine call or lock operation), crossing statement ends -/
def settle (absent : Bool) (cur : List Instr) : List Stmt → List Instr × List Stmt
  | [] => (skipCond absent cur, [])
  | s :: rest => match skipCond absent cur with
    | [] => settle absent s rest
    | is => (is, s :: rest)

/-- what is left of a statement after one of its calls raised: only the lock release (`with lock:` unwinds) -/
def unwind (is : List Instr) : List Instr := is.filter fun i => match i with | .release _ => true | _ => false

/-- The next scheduling point of session `i`, as a function of its local state only: the key it touches and what
    happens to (the value at that key, the local state).  `none` = the session has finished.  A blocked `acquire`
    changes nothing (the session stutters). -/
def stepOf (i : Nat) (l : Loc) : Option (Key × (Val → Val × Loc)) :=
  match settle l.absent l.cur l.rest with
  | ([], _) => none
  | (ins :: cur', rest) =>
    match ins with
    | .acquire n => some (.lock n, fun v =>
        if v.held = none then ({ v with held := some i }, { l with cur := cur', rest := rest }) else (v, l))
    | .release n => some (.lock n, fun v => ({ v with held := none }, { l with cur := cur', rest := rest }))
    | .probe k => some (k, fun v =>
        (v, { l with cur := cur', rest := rest, absent := !v.ex, out := l.out ++ [.flag v.ex] }))
    | .call k op => some (k, fun v =>
        let r := op.apply v
        (r.1, { l with cur := if r.2 = .err then unwind cur' else cur', rest := rest, out := l.out ++ [r.2] }))
    | .callIfAbsent k op => some (k, fun v =>
        let r := op.apply v
        (r.1, { l with cur := if r.2 = .err then unwind cur' else cur', rest := rest, out := l.out ++ [r.2] }))

/-- one turn of session `i`: run up to and including its next engine call / lock operation -/
def turn (c : Cfg) (i : Nat) : Cfg :=
  match stepOf i (c.loc i) with
  | none => c
  | some (k, f) => { g := setG c.g k (f (c.g k)).1, loc := setLoc c.loc i (f (c.g k)).2 }

def runSched (c : Cfg) : List Nat → Cfg
  | [] => c
  | i :: σ => runSched (turn c i) σ

/-- has session `i` nothing left to do? -/
def done (c : Cfg) (i : Nat) : Bool := (settle (c.loc i).absent (c.loc i).cur (c.loc i).rest).1.isEmpty

/-- number of scheduling points a session can still need (upper bound) -/
def fuel (l : Loc) : Nat := l.cur.length + (l.rest.map List.length).sum

/-- specification turn: session `i` runs its current statement (or, between statements, its next one) to the end
    without anybody else in between -/
def stmtTurnAux (i : Nat) : Nat → Cfg → Cfg
  | 0, c => c
  | n + 1, c =>
    let c' := turn c i
    if (skipCond (c'.loc i).absent (c'.loc i).cur).isEmpty then c' else stmtTurnAux i n c'

def stmtTurn (c : Cfg) (i : Nat) : Cfg := stmtTurnAux i (fuel (c.loc i) + 1) c

def runStmts (c : Cfg) : List Nat → Cfg
  | [] => c
  | i :: σ => runStmts (stmtTurn c i) σ

/-! ### fakesnow's statements as instruction lists -/

/-- `connect(database=d, schema=s)` (`conn.py:55-101`) for the four combinations of create_database_on_connect (`cd`) and
    create_schema_on_connect (`cs`), run under lock `lock` (`none` = no lock).  Names are the *folded* (upper-cased)
    names: `conn.py` upper-cases `database` and `schema` before anything else, so every spelling of a name is the same
    `d` / `s` here.  (The repaired code's extra "database exists" check before CREATE SCHEMA is a read-only probe that is
    always true in the modelled configurations – with `cd` off the database is assumed to exist – and is left out.) -/
def connectWith (lock : Option Nat) (cd cs : Bool) (d s : Nat) : Stmt :=
  (match lock with | some n => [.acquire n] | none => []) ++
  (if cd then [.probe (.db d), .callIfAbsent (.db d) .create, .callIfAbsent (.db d) .setInfo] else []) ++
  (if cs then [.probe (.schema d s), .callIfAbsent (.schema d s) .create] else []) ++
  [.probe (.schema d s)] ++
  (match lock with | some n => [.release n] | none => [])

/-- `connect()` without database and schema: nothing is checked or created (`conn.py`: every rung is guarded by
    `self.database`), only the lock is taken and released -/
def connectNone (lock : Option Nat) : Stmt :=
  match lock with | some n => [.acquire n, .release n] | none => []

/-- a `connect(database=…)` whose bootstrap raises (the name is not a valid identifier): the existence probe, then the failing
    ATTACH; the `with lock:` block still releases the lock (`unwind` keeps the `release`) -/
def connectBad (lock : Option Nat) (d : Nat) : Stmt :=
  (match lock with | some n => [.acquire n] | none => []) ++ [.probe (.db d), .call (.db d) .bad] ++
  (match lock with | some n => [.release n] | none => [])

/-- the default configuration (both flags on); `locked` = under the instance lock (lock 0) of the `fix:` commit -/
def connectStmt (locked : Bool) (d s : Nat) : Stmt := connectWith (if locked then some 0 else none) true true d s

/-- a name as the caller writes it: what matters (`id`) and how it is spelled (letter case) -/
structure Name where
  id : Nat
  spelling : Nat
deriving DecidableEq, Repr

/-- connect with names as written: the spelling is folded away before the ladder runs -/
def connectSpelled (lock : Option Nat) (cd cs : Bool) (d s : Name) : Stmt := connectWith lock cd cs d.id s.id

def createTable (t : Nat) (cmt : Option Nat) : Stmt :=
  [.call (.tbl t) .create] ++ (match cmt with | some c => [.call (.tbl t) (.setCmt c)] | none => [])

/-- COMMENT ON TABLE / ALTER TABLE … SET COMMENT: one durable call (the side-table upsert) -/
def commentStmt (t c : Nat) : Stmt := [.call (.tbl t) (.setCmt c)]
/-- CREATE OR REPLACE TABLE … COMMENT = '…' -/
def replaceTable (t c : Nat) : Stmt := [.call (.tbl t) .replace, .call (.tbl t) (.setCmt c)]
/-- a statement that makes no engine call the model knows (SET variable, no-op'd statements) -/
def nopStmt : Stmt := []

def insertStmt (t k v : Nat) : Stmt := [.call (.tbl t) (.insert k v)]
def selectStmt (t : Nat) : Stmt := [.call (.tbl t) .readRows]
def showStmt (t : Nat) : Stmt := [.call (.tbl t) .readMeta]
def mergeStmt (t : Nat) (src : List (Nat × Nat)) : Stmt := [.call (.tbl t) (.mergeUpd src), .call (.tbl t) (.mergeIns src)]

/-- the specification needs no lock -/
def stripLock (s : Stmt) : Stmt := s.filter fun i => match i with | .acquire _ => false | .release _ => false | _ => true

def Cfg.init (progs : List (List Stmt)) : Cfg :=
  { g := fun _ => {}, loc := fun i => { rest := progs.getD i [] } }

/-- all orders of whole statements: session `i` appears `counts[i]` times -/
def orders : Nat → List Nat → List (List Nat)
  | 0, _ => [[]]
  | fuel + 1, counts =>
    if counts.all (· == 0) then [[]] else
    (List.range counts.length).flatMap fun i =>
      if counts.getD i 0 == 0 then [] else
      (orders fuel (counts.set i (counts.getD i 0 - 1))).map (i :: ·)

/-- all sessions have finished -/
def allDone (c : Cfg) (n : Nat) : Bool := (List.range n).all fun i => done c i

/-- is the per-session result of schedule `σ` the result of SOME order of whole statements? (decidable: the orders of
    the statements of finitely many finite programs are finitely many) -/
def serializableB (progs : List (List Stmt)) (σ : List Nat) : Bool :=
  let n := progs.length
  let c := runSched (Cfg.init progs) σ
  let s0 := Cfg.init (progs.map (·.map stripLock))
  let counts := progs.map List.length
  (orders (counts.sum + 1) counts).any fun τ =>
    let r := runStmts s0 τ
    (List.range n).all fun i => decide ((c.loc i).out = (r.loc i).out)

/-- a statement that is one unconditional engine call -/
def Stmt.single : Stmt → Bool
  | [.call _ _] => true
  | _ => false

/-- keys a statement can touch -/
def Instr.key : Instr → Option Key
  | .call k _ => some k | .probe k => some k | .callIfAbsent k _ => some k | .acquire n => some (.lock n) | .release n => some (.lock n)

end Fs.Sched
