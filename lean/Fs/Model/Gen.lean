import Fs.Model.Lex
/-!
# sqlglot's Snowflake generator for string literals (`Generator.escape_str`, Snowflake dialect)

`ESCAPED_SEQUENCES` (the inverse of the tokenizer's `UNESCAPED_SEQUENCES`: BEL, BS, FF, LF, CR, TAB, VT and
the backslash become `\a \b \f \n \r \t \v \\`), then `'` ↦ `\'`.  Engine behaviour (trusted base), compared with
the real generator by the C15/C16 checks.
-/
namespace Fs.Gen

/-- `dialect.ESCAPED_SEQUENCES`: the letter that follows the backslash -/
def escChar (c : Char) : Option Char :=
  if c = Char.ofNat 7 then some 'a'
  else if c = Char.ofNat 8 then some 'b'
  else if c = Char.ofNat 12 then some 'f'
  else if c = '\n' then some 'n'
  else if c = '\r' then some 'r'
  else if c = '\t' then some 't'
  else if c = Char.ofNat 11 then some 'v'
  else if c = '\\' then some '\\'
  else none

/-- `escape_str` of the Snowflake generator -/
def sfGen : List Char → List Char
  | [] => []
  | c :: cs =>
    match escChar c with
    | some e => '\\' :: e :: sfGen cs
    | none => if c = '\'' then '\\' :: '\'' :: sfGen cs else c :: sfGen cs

/-- `Literal.string(s).sql(dialect="snowflake")` -/
def sfLit (s : List Char) : List Char := '\'' :: sfGen s ++ ['\'']

end Fs.Gen
