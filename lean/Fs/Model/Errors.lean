/-
Model of the failure paths of `FakeSnowflakeCursor.execute` / `_execute` (fakesnow/cursor.py:125-153, 220-354),
`Variables.inline_variables` (variables.py:60-68) and `checks.is_unqualified_table_expression`, for C07.

The engine is a *parameter*: `eng : D → Q → Except DuckExc D` is any function from a DuckDB state and a SQL
text to a new state or an exception class (an exception carries no new state: DuckDB statements are atomic —
trusted base).  Everything proved in `Fs/Props/C07.lean` holds for every such engine.
-/
namespace Fs.Err

/-- DuckDB / Python exception classes that can come out of `duck_conn.execute` -/
inductive DuckExc
  | binder | catalog
  | txNoActive        -- TransactionException "cannot commit/rollback - no transaction is active"
  | txOther           -- any other TransactionException
  | connection        -- ConnectionException (connection closed)
  | parser | conversion | constraint | invalidInput | other
deriving DecidableEq, Repr

structure Code where
  errno : Int
  sqlstate : String
deriving DecidableEq, Repr

inductive PyExc | keyError | assertionError | notImplemented | sqlglotParseError
deriving DecidableEq, Repr

inductive Outcome
  | ok
  | programming (c : Code)     -- snowflake.connector.errors.ProgrammingError
  | database (c : Code)        -- snowflake.connector.errors.DatabaseError that is not a ProgrammingError
  | rawDuck (e : DuckExc)      -- an engine-specific exception reaches the caller
  | rawPy (e : PyExc)          -- a bare Python exception reaches the caller
deriving DecidableEq, Repr

def Outcome.isOk : Outcome → Bool
  | .ok => true
  | _ => false

def c2003 : Code := ⟨2003, "42S02"⟩
def c2043 : Code := ⟨2043, "02000"⟩
def c90105 : Code := ⟨90105, "22000"⟩
def c90106 : Code := ⟨90106, "22000"⟩
def c250002 : Code := ⟨250002, "08003"⟩
/-- `ProgrammingError(msg=…)` without errno/sqlstate: the connector's defaults -/
def cNone : Code := ⟨-1, "n/a"⟩

/-- the exception ladder of `_execute` (cursor.py:252-268): `none` = swallowed, the statement counts as a
    success (COMMIT / ROLLBACK outside a transaction) -/
def mapExc : DuckExc → Option Outcome
  | .binder => some (.programming c2043)
  | .catalog => some (.programming c2003)
  | .txNoActive => none
  | .connection => some (.database c250002)
  | e => some (.rawDuck e)

/-- session context kept on the connection object (conn.py:44-52) + session variables -/
structure Session where
  database : Option String := none
  schema : Option String := none
  databaseSet : Bool := false
  schemaSet : Bool := false
  vars : List (String × String) := []
deriving DecidableEq, Repr

structure World (D : Type) where
  duck : D
  closed : Bool := false
  sess : Session := {}

/-- bookkeeping done *after* the engine accepted the call (cursor.py:272-278, 321-327) -/
inductive CtxUpdate
  | none
  | setDatabase (db : String)
  | setSchema (s : String) (db : Option String := none)   -- USE SCHEMA [db.]s: a qualified name also makes `db` current
  | dropped (isDatabase : Bool) (ident : String)   -- DROP DATABASE / DROP SCHEMA of the current one resets the context
deriving DecidableEq, Repr

def CtxUpdate.apply (s : Session) : CtxUpdate → Session
  | .none => s
  | .setDatabase db => { s with database := some db, databaseSet := true }
  | .setSchema sc Option.none => { s with schema := some sc, schemaSet := true }
  | .setSchema sc (some db) => { s with database := some db, databaseSet := true, schema := some sc, schemaSet := true }
  | .dropped true ident => if s.database = some ident then { s with database := Option.none, schema := Option.none } else s
  | .dropped false ident => if s.schema = some ident then { s with schema := Option.none, schemaSet := false } else s

/-- one `_execute` call: what the pre-checks look at, the SQL sent to DuckDB inside the translating `try`,
    the bookkeeping after it, and the follow-up statements sent *outside* the `try` (info-schema creation for
    CREATE DATABASE, side-table inserts for comments / text lengths) -/
structure Call (Q : Type) where
  noDatabase : Bool
  noSchema : Bool
  sql : Q
  ctx : CtxUpdate := .none
  followups : List Q := []

inductive VarUpdate
  | none
  | set (name value : String)
  | unset (name : String)
deriving DecidableEq, Repr

/-- a statement as `execute` sees it -/
structure Stmt (Q : Type) where
  undefinedVar : Bool := false        -- after inlining, a `$name` is left (variables.py:65)
  parseError : Bool := false          -- sqlglot cannot parse the text
  varUpdate : VarUpdate := .none      -- `transforms.update_variables`, run inside `_transform`, before `_execute`
  calls : List (Call Q)               -- one per expression of `_transform_explode` (MERGE gives several)

structure Result (D : Type) where
  world : World D
  sqlstate : Option String            -- `cursor.sqlstate` after the call
  outcome : Outcome

/-- follow-up statements: executed directly on the DuckDB connection, exceptions are not translated -/
def runFollowups {D Q} (eng : D → Q → Except DuckExc D) (d : D) : List Q → D × Option DuckExc
  | [] => (d, none)
  | q :: qs =>
    match eng d q with
    | .error e => (d, some e)
    | .ok d' => runFollowups eng d' qs

/-- `_execute` for one call -/
def execCall {D Q} (eng : D → Q → Except DuckExc D) (w : World D) (c : Call Q) : World D × Outcome :=
  if c.noDatabase ∧ ¬ w.sess.databaseSet then (w, .programming c90105)
  else if c.noSchema ∧ ¬ w.sess.schemaSet then (w, .programming c90106)
  else
    match eng w.duck c.sql with
    | .error e =>
      match mapExc e with
      | some o => (w, o)
      | none => (w, .ok)                                   -- swallowed: status row, nothing else happens
    | .ok d =>
      let sess := c.ctx.apply w.sess
      match runFollowups eng d c.followups with
      | (d', none) => ({ w with duck := d', sess := sess }, .ok)
      | (d', some e) => ({ w with duck := d', sess := sess }, .rawDuck e)

def execCalls {D Q} (eng : D → Q → Except DuckExc D) (w : World D) : List (Call Q) → World D × Outcome
  | [] => (w, .ok)
  | c :: cs =>
    match execCall eng w c with
    | (w', .ok) => execCalls eng w' cs
    | r => r

def applyVar (s : Session) : VarUpdate → Except PyExc Session
  | .none => .ok s
  | .set n v => .ok { s with vars := (n, v) :: s.vars.filter (·.1 != n) }
  | .unset n => if s.vars.any (·.1 == n) then .ok { s with vars := s.vars.filter (·.1 != n) } else .error .keyError

def sqlstateOf : Outcome → Option String
  | .programming c => some c.sqlstate      -- `except ProgrammingError as e: self._sqlstate = e.sqlstate`
  | _ => none

/-- `cursor.execute` (with the closed-connection guard of the `fix:` commit first) -/
def execute {D Q} (eng : D → Q → Except DuckExc D) (w : World D) (s : Stmt Q) : Result D :=
  let fin (w' : World D) (o : Outcome) : Result D := ⟨w', sqlstateOf o, o⟩
  if w.closed then fin w (.database c250002)
  else if s.undefinedVar then fin w (.programming cNone)
  else if s.parseError then fin w (.rawPy .sqlglotParseError)
  else
    match applyVar w.sess s.varUpdate with
    | .error e => fin w (.rawPy e)
    | .ok sess =>
      let r := execCalls eng { w with sess := sess } s.calls
      fin r.1 r.2

/-- `execute` before the closed-connection `fix:`: the guard is only DuckDB's own ConnectionException, so the
    client-side phases run first -/
def executeOld {D Q} (eng : D → Q → Except DuckExc D) (w : World D) (s : Stmt Q) : Result D :=
  let fin (w' : World D) (o : Outcome) : Result D := ⟨w', sqlstateOf o, o⟩
  if s.undefinedVar then fin w (.programming cNone)
  else if s.parseError then fin w (.rawPy .sqlglotParseError)
  else
    match applyVar w.sess s.varUpdate with
    | .error e => fin w (.rawPy e)
    | .ok sess =>
      let r := execCalls (fun d q => if w.closed then .error .connection else eng d q) { w with sess := sess } s.calls
      fin r.1 r.2

/-- `cursor.description` / `_describe_last_sql`: a throw-away cursor runs `DESCRIBE <last sql>` through `_execute` (NOT through
    `execute`, so the closed-connection guard is DuckDB's own ConnectionException, translated by the same ladder); `c` is that
    DESCRIBE call as the pre-checks see it.  Only the outcome matters: the throw-away cursor's fields and sqlstate die with it. -/
def descriptionOutcome {D Q} (eng : D → Q → Except DuckExc D) (w : World D) (c : Call Q) : Outcome :=
  (execCall (fun d q => if w.closed then .error .connection else eng d q) w c).2

/-! ### what a cursor goes through -/

inductive CurOp (Q : Type)
  | execute (s : Stmt Q)
  | other                    -- fetchone/fetchmany/fetchall, rowcount, description (runs on a throw-away cursor)
  | close                    -- connection.close()

/-- cursor.sqlstate along a sequence of cursor operations on one connection -/
def runOps {D Q} (eng : D → Q → Except DuckExc D) (w : World D) (st : Option String) : List (CurOp Q) → World D × Option String
  | [] => (w, st)
  | .execute s :: ops => let r := execute eng w s; runOps eng r.world r.sqlstate ops
  | .other :: ops => runOps eng w st ops
  | .close :: ops => runOps eng { w with closed := true } st ops

/-! ### which exception class DuckDB raises for which cause (modelled engine table, DESIGN Appendix A.1) -/

inductive Cause
  | unknownTable | unknownView | unknownSchema | unknownDatabase | unknownColumn | unknownFunction
  | existsTable | existsView | existsSchema | existsDatabase | existsColumn
  | wrongKind            -- DROP VIEW <table>, DROP TABLE <view>
  | wrongValueCount
deriving DecidableEq, Repr

def Cause.all : List Cause :=
  [.unknownTable, .unknownView, .unknownSchema, .unknownDatabase, .unknownColumn, .unknownFunction,
   .existsTable, .existsView, .existsSchema, .existsDatabase, .existsColumn, .wrongKind, .wrongValueCount]

/-- DuckDB's exception class by cause: missing catalog (database), missing column, wrong number of values and
    duplicate ATTACH are Binder errors; everything about tables / views / schemas / functions / an existing
    column is a Catalog error -/
def duckClass : Cause → DuckExc
  | .unknownDatabase | .unknownColumn | .wrongValueCount | .existsDatabase => .binder
  | _ => .catalog

/-- the pre-check's view of a statement: does it name a table-like object without database / schema?
    (`checks.is_unqualified_table_expression`; `parts` = number of name parts written, 1..3) -/
inductive RefKind
  | database     -- CREATE/DROP DATABASE x, USE DATABASE x
  | schema       -- CREATE/DROP SCHEMA [db.]s
  | useSchema    -- USE SCHEMA [db.]s
  | table        -- everything else that names a table/view: [[db.]s.]t
  | noTable      -- no table expression at all (SELECT 1, SET, BEGIN …)
deriving DecidableEq, Repr

def unqualified : RefKind → Nat → Bool × Bool
  | .database, _ => (false, false)
  | .noTable, _ => (false, false)
  | .schema, parts => (parts < 2, false)
  | .useSchema, parts => (parts < 2, false)
  | .table, parts => (parts < 3, parts < 2)

/-- the `exp.Table` node sqlglot builds for the name in CREATE/DROP SCHEMA: which of its args are present.  Normally the schema
    name sits in `db` and the database in `catalog`; `DROP SCHEMA IF EXISTS [db.]s` is parsed like a table reference: name in
    `this`, database in `db`. -/
structure SchemaNode where
  this : Bool
  db : Bool
  catalog : Bool
deriving DecidableEq, Repr

def schemaNode (tableLike : Bool) (parts : Nat) : SchemaNode :=
  if tableLike then ⟨true, decide (2 ≤ parts), false⟩ else ⟨false, true, decide (2 ≤ parts)⟩

/-- `checks.py`: `no_database = not node.args.get("db" if node.args.get("this") else "catalog")` — decided from the node's SHAPE -/
def schemaNoDatabase (n : SchemaNode) : Bool := !(if n.this then n.db else n.catalog)

/-- the same decided from the statement's `exists` flag instead (what it must not do: CREATE SCHEMA IF NOT EXISTS has the flag
    but the normal shape) -/
def schemaNoDatabaseByFlag (existsFlag : Bool) (n : SchemaNode) : Bool := !(if existsFlag then n.db else n.catalog)

/-! ### uses of a connection other than a plain `cursor.execute` (conn.py, cursor.py:executemany/describe, pandas_tools.py) -/

/-- `conn.commit()`, `conn.rollback()`, `conn.cursor().execute(..)`, `conn.execute_string(..)`, `cursor.executemany(..)`,
    `cursor.describe(..)` are all runs of `cursor.execute` (the first failure propagates); `write_pandas` has its own guard and then
    talks to DuckDB directly; `cursor.description` runs `_execute` on a throw-away cursor. -/
inductive ConnUse (Q : Type)
  | viaExecute (ss : List (Stmt Q))
  | writePandas (q : Q)            -- the INSERT of the dataframe, sent to DuckDB directly
  | description (c : Call Q)

/-- the first failure of a run of executes (or success), and the world afterwards -/
def runExecutes {D Q} (eng : D → Q → Except DuckExc D) (w : World D) : List (Stmt Q) → World D × Outcome
  | [] => (w, .ok)
  | s :: ss =>
    let r := execute eng w s
    match r.outcome with
    | .ok => runExecutes eng r.world ss
    | o => (r.world, o)

def ConnUse.run {D Q} (eng : D → Q → Except DuckExc D) (w : World D) : ConnUse Q → World D × Outcome
  | .viaExecute ss => runExecutes eng w ss
  | .writePandas q =>
    if w.closed then (w, .database c250002)
    else match eng w.duck q with
      | .ok d => ({ w with duck := d }, .ok)
      | .error .binder => (w, .programming c2043)        -- pandas_tools.write_pandas translates like `_execute` does (the `fix:`)
      | .error .catalog => (w, .programming c2003)
      | .error e => (w, .rawDuck e)
  | .description c => (w, descriptionOutcome eng w c)

end Fs.Err
