/-
Model of `FakeSnowflakeConnection.__init__` (fakesnow/conn.py:44-104) together with `FakeSnow.connect`
(instance.py:75-92): upper-casing of the requested names, the three rungs of the ladder —
(1) exists-check then ATTACH (+ information_schema / macro bootstrap), (2) exists-check then CREATE SCHEMA,
(3) the two SET-schema branches — over an arbitrary DuckDB catalog state given as first-order data.

DuckDB's part (what `information_schema.schemata` lists, ATTACH of a fresh / existing file, CREATE SCHEMA,
per-cursor search path) is modelled here and validated by the correspondence (trusted base).
`Spec.connect` is the declarative statement of the property.
-/
namespace Fs.Connect

abbrev Name := List Char

/-- Python `str.upper()` on ASCII letters (other characters are outside the envelope) -/
def upperChar : Char → Char
  | 'a' => 'A'
  | 'b' => 'B'
  | 'c' => 'C'
  | 'd' => 'D'
  | 'e' => 'E'
  | 'f' => 'F'
  | 'g' => 'G'
  | 'h' => 'H'
  | 'i' => 'I'
  | 'j' => 'J'
  | 'k' => 'K'
  | 'l' => 'L'
  | 'm' => 'M'
  | 'n' => 'N'
  | 'o' => 'O'
  | 'p' => 'P'
  | 'q' => 'Q'
  | 'r' => 'R'
  | 's' => 'S'
  | 't' => 'T'
  | 'u' => 'U'
  | 'v' => 'V'
  | 'w' => 'W'
  | 'x' => 'X'
  | 'y' => 'Y'
  | 'z' => 'Z'
  | c => c

def upper (n : Name) : Name := n.map upperChar

/-- `x and …` / `if x` on an optional string: None and "" are falsy -/
def truthy : Option Name → Bool
  | some (_ :: _) => true
  | _ => false

/-- payload standing for the content of a schema (tables and rows); 0 = empty -/
abbrev Content := Nat

/-- an attached DuckDB catalog; the built-in schemas main / information_schema / pg_catalog are implicit -/
structure Cat where
  name : Name
  schemas : List (Name × Content)
  file : Bool                     -- backed by a file under db_path
deriving DecidableEq, Repr

structure World where
  attached : List Cat
  disk : List (Name × List (Name × Content))   -- `<name>.db` files under db_path and the schemas stored in them
  paths : List (Nat × Option (Name × Name))    -- search path (`SET schema`) of every DuckDB cursor handed out
  nextConn : Nat := 0
deriving DecidableEq, Repr

def builtinSchema (s : Name) : Bool :=
  s == ['M', 'A', 'I', 'N'] || s == "INFORMATION_SCHEMA".toList || s == "PG_CATALOG".toList

def MAIN : Name := ['m', 'a', 'i', 'n']

/-- `select * from information_schema.schemata where upper(catalog_name) = '{db}'` returns a row -/
def dbExists (w : World) (db : Name) : Bool := w.attached.any fun c => upper c.name == db

def catHasSchema (c : Cat) (s : Name) : Bool := builtinSchema s || c.schemas.any fun p => upper p.1 == s

/-- `… where upper(catalog_name) = '{db}' and upper(schema_name) = '{schema}'` returns a row -/
def schemaExists (w : World) (db s : Name) : Bool :=
  w.attached.any fun c => upper c.name == db && catHasSchema c s

structure Opts where
  database : Option Name      -- connect(database=…) as written; none = not given
  schema : Option Name
  createDb : Bool             -- create_database_on_connect
  createSchema : Bool         -- create_schema_on_connect
  dbPath : Bool               -- the instance has a db_path
deriving DecidableEq, Repr

/-- `database and database.upper()` -/
def Opts.db (o : Opts) : Option Name := o.database.map upper
def Opts.sc (o : Opts) : Option Name := o.schema.map upper
def Opts.DB (o : Opts) : Name := o.db.getD []
def Opts.SC (o : Opts) : Name := o.sc.getD []

structure Session where
  database : Option Name      -- conn.database
  schema : Option Name        -- conn.schema
  databaseSet : Bool
  schemaSet : Bool
  conn : Nat                  -- the DuckDB cursor of this connection
deriving DecidableEq, Repr

inductive Outcome
  | ok (s : Session)
  | binderError               -- a raw duckdb.BinderException escapes from connect() (CREATE SCHEMA in a missing catalog)
  | bootstrapError            -- a raw DuckDB exception escapes from the information_schema / macro bootstrap after ATTACH
deriving DecidableEq, Repr

/-- `ATTACH DATABASE '<db_path>/<db>.db' | ':memory:' AS <db>` followed by the info-schema/macro bootstrap:
    an existing file brings its schemas, otherwise the catalog is new (and the file is created) -/
def attachDb (w : World) (db : Name) (usePath : Bool) : World :=
  let fromDisk := if usePath then (w.disk.find? fun f => f.1 == db).map (·.2) else none
  { w with attached := w.attached ++ [{ name := db, schemas := fromDisk.getD [], file := usePath }],
           disk := if usePath && fromDisk.isNone then w.disk ++ [(db, [])] else w.disk }

/-- `CREATE SCHEMA <db>.<s>` in an attached catalog -/
def addSchema (w : World) (db s : Name) : World :=
  { w with attached := w.attached.map fun c => if upper c.name == db then { c with schemas := c.schemas ++ [(s, 0)] } else c }

/-- rung 1, conn.py:55-66 -/
def stepDb (o : Opts) (w : World) : World :=
  if o.createDb && truthy o.db && !dbExists w o.DB then attachDb w o.DB o.dbPath else w

/-- rung 2, conn.py:69-78.  `guarded` = after the repair `C14/schema-without-db` (the schema is only created when
    the database exists); unguarded, CREATE SCHEMA in a missing catalog raises BinderException. -/
def stepSchema (guarded : Bool) (o : Opts) (w : World) : Option World :=
  if o.createSchema && truthy o.db && truthy o.sc && !schemaExists w o.DB o.SC then
    if dbExists w o.DB then some (addSchema w o.DB o.SC)
    else if guarded then some w
    else none
  else some w

/-- rung 3, conn.py:81-101, on the fresh cursor `w.nextConn` made by `FakeSnow.connect` -/
def stepContext (o : Opts) (w : World) : World × Session :=
  let c := w.nextConn
  if truthy o.db && truthy o.sc && schemaExists w o.DB o.SC then
    ({ w with paths := w.paths ++ [(c, some (o.DB, o.SC))], nextConn := c + 1 }, ⟨o.db, o.sc, true, true, c⟩)
  else if truthy o.db && dbExists w o.DB then
    ({ w with paths := w.paths ++ [(c, some (o.DB, MAIN))], nextConn := c + 1 }, ⟨o.db, o.sc, true, false, c⟩)
  else
    ({ w with paths := w.paths ++ [(c, none)], nextConn := c + 1 }, ⟨o.db, o.sc, false, false, c⟩)

/-- DuckDB resolves a one-part qualifier as a schema of the current catalog first: when the database that connect attaches
    is named like a built-in schema (MAIN, INFORMATION_SCHEMA, PG_CATALOG), `CREATE MACRO <db>.equal_null` (and the
    information_schema DDL) of the bootstrap is ambiguous and raises, *after* the ATTACH (conn.py:64-66; known finding
    `C14/auto-create-db-named-like-builtin-schema`) -/
def bootstrapFails (o : Opts) (w : World) : Bool :=
  o.createDb && truthy o.db && !dbExists w o.DB && builtinSchema o.DB

def connectWith (guarded : Bool) (o : Opts) (w : World) : Outcome × World :=
  let w1 := stepDb o w
  if bootstrapFails o w then (.bootstrapError, w1) else
  match stepSchema guarded o w1 with
  | none => (.binderError, w1)
  | some w2 =>
    let r := stepContext o w2
    (.ok r.2, r.1)

/-- the code after the repair -/
def connect (o : Opts) (w : World) : Outcome × World := connectWith true o w
/-- the code as shipped -/
def connectShipped (o : Opts) (w : World) : Outcome × World := connectWith false o w

/-! ### Specification -/
namespace Spec

/-- the database is there after connect: it was attached already, or the options allow creating it -/
def dbAfter (o : Opts) (w : World) : Bool := truthy o.db && (dbExists w o.DB || o.createDb)

/-- exactly when connect creates (attaches) the database -/
def createsDb (o : Opts) (w : World) : Bool := o.createDb && truthy o.db && !dbExists w o.DB

def afterDb (o : Opts) (w : World) : World := if createsDb o w then attachDb w o.DB o.dbPath else w

/-- exactly when connect creates the schema: allowed, named, its database there, and not there already -/
def createsSchema (o : Opts) (w : World) : Bool :=
  o.createSchema && dbAfter o w && truthy o.sc && !schemaExists (afterDb o w) o.DB o.SC

/-- the schema is there after connect -/
def schemaAfter (o : Opts) (w : World) : Bool :=
  dbAfter o w && truthy o.sc && (schemaExists (afterDb o w) o.DB o.SC || o.createSchema)

/-- connect always succeeds; it creates exactly `createsDb` / `createsSchema`; the session has a current
    database / schema exactly when they exist afterwards; names are reported upper-cased either way; the new
    session gets its own cursor and nobody else's search path changes -/
def connect (o : Opts) (w : World) : Outcome × World :=
  let w1 := afterDb o w
  let w2 := if createsSchema o w then addSchema w1 o.DB o.SC else w1
  let path := if schemaAfter o w then some (o.DB, o.SC) else if dbAfter o w then some (o.DB, MAIN) else none
  (.ok ⟨o.db, o.sc, dbAfter o w, schemaAfter o w, w.nextConn⟩,
   { w2 with paths := w2.paths ++ [(w.nextConn, path)], nextConn := w.nextConn + 1 })

end Spec
end Fs.Connect
