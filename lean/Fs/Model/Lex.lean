/-!
# Character-level model of sqlglot's Snowflake tokenizer (the part that decides *structure*)

`sqlglot.tokens.Tokenizer` for the Snowflake dialect, reduced to what decides where string literals,
`$$` raw strings, quoted identifiers, comments and statement separators begin and end:

* `'…'` strings: `_extract_string` with `STRING_ESCAPES = ['\\', "'"]` and the dialect's
  `UNESCAPED_SEQUENCES` (`\a \b \f \n \r \t \v \\`), `\'` and `''` give a quote, any other `\x` keeps both
  characters;
* `$$…$$` raw strings, recognised only at a token start (`a$$b$$` is one VAR token);
* `"…"` identifiers with `""`; the `UNESCAPED_SEQUENCES` apply inside identifiers too;
* `-- …`, `// …` up to a line break, `/* … */` (not nested in this dialect);
* `;` is the statement separator; every other non-blank character is reported as itself (`chr`).

The automaton reads one character at a time; a state remembers the one character of look-behind the real
tokenizer implements with `_peek`.  Not modelled: keyword/number/operator grouping (every character is its
own `chr` token), `x'..'`/`n'..'` prefixed strings, `/*+` hints, Jinja `{{`/`{%`/`{#` markers.
This is engine behaviour (trusted base) — validated against the real tokenizer by the C08/C16 checks.
-/
namespace Fs.Lex

inductive Tok where
  | str (s : List Char)     -- STRING token with its un-escaped value
  | raw (s : List Char)     -- `$$…$$` RAW_STRING
  | ident (s : List Char)   -- quoted IDENTIFIER
  | semi                    -- `;`
  | chr (c : Char)          -- any other non-blank character
  deriving DecidableEq, Repr

inductive St where
  | top | word | dash | slash | dollar
  | str (acc : List Char) | strBs (acc : List Char) | strQ (acc : List Char)
  | raw (acc : List Char) | rawD (acc : List Char)
  | ident (acc : List Char) | identBs (acc : List Char) | identQ (acc : List Char)
  | line | block | blockStar
  deriving DecidableEq, Repr

/-- `dialect.UNESCAPED_SEQUENCES` of Snowflake: the character `\p` stands for -/
def unesc (p : Char) : Option Char :=
  if p = 'a' then some (Char.ofNat 7)
  else if p = 'b' then some (Char.ofNat 8)
  else if p = 'f' then some (Char.ofNat 12)
  else if p = 'n' then some '\n'
  else if p = 'r' then some '\r'
  else if p = 't' then some '\t'
  else if p = 'v' then some (Char.ofNat 11)
  else if p = '\\' then some '\\'
  else none

/-- Python `str.isspace` -/
def isWs (c : Char) : Bool :=
  let n := c.toNat
  (9 ≤ n && n ≤ 13) || (28 ≤ n && n ≤ 32) || n = 133 || n = 160 || n = 5760 || (8192 ≤ n && n ≤ 8202)
    || n = 8232 || n = 8233 || n = 8239 || n = 8287 || n = 12288

/-- keys of `Tokenizer.SINGLE_TOKENS` -/
def isSingle (c : Char) : Bool :=
  ['!', '"', '#', '$', '%', '&', '\'', '(', ')', '*', '+', ',', '-', '.', '/', ':', ';', '<', '=', '>', '?', '@', '[', '\\', ']', '^', '`', '{', '|', '}', '~'].contains c

/-- one character at a token start -/
def stepTop (c : Char) : List Tok × St :=
  if c = '\'' then ([], .str [])
  else if c = '"' then ([], .ident [])
  else if c = '-' then ([], .dash)
  else if c = '/' then ([], .slash)
  else if c = '$' then ([], .dollar)
  else if c = ';' then ([.semi], .top)
  else if isWs c then ([], .top)
  else if isSingle c then ([.chr c], .top)
  else ([.chr c], .word)

/-- emit `t`, then read `c` at a token start -/
def thenTop (t : Tok) (c : Char) : List Tok × St := (t :: (stepTop c).1, (stepTop c).2)

def step : St → Char → List Tok × St
  | .top, c => stepTop c
  | .word, c => if c = '$' then ([.chr c], .word) else stepTop c
  | .dash, c => if c = '-' then ([], .line) else thenTop (.chr '-') c
  | .slash, c => if c = '/' then ([], .line) else if c = '*' then ([], .block) else thenTop (.chr '/') c
  | .dollar, c => if c = '$' then ([], .raw []) else thenTop (.chr '$') c
  | .str acc, c =>
    if c = '\\' then ([], .strBs acc) else if c = '\'' then ([], .strQ acc) else ([], .str (acc ++ [c]))
  | .strBs acc, p =>
    match unesc p with
    | some u => ([], .str (acc ++ [u]))
    | none => if p = '\'' then ([], .str (acc ++ ['\''])) else ([], .str (acc ++ ['\\', p]))
  | .strQ acc, c => if c = '\'' then ([], .str (acc ++ ['\''])) else thenTop (.str acc) c
  | .raw acc, c => if c = '$' then ([], .rawD acc) else ([], .raw (acc ++ [c]))
  | .rawD acc, c => if c = '$' then ([.raw acc], .top) else ([], .raw (acc ++ ['$', c]))
  | .ident acc, c =>
    if c = '"' then ([], .identQ acc) else if c = '\\' then ([], .identBs acc) else ([], .ident (acc ++ [c]))
  | .identBs acc, p =>
    match unesc p with
    | some u => ([], .ident (acc ++ [u]))
    | none => if p = '"' then ([], .identQ (acc ++ ['\\'])) else ([], .ident (acc ++ ['\\', p]))
  | .identQ acc, c => if c = '"' then ([], .ident (acc ++ ['"'])) else thenTop (.ident acc) c
  | .line, c => if c = '\n' ∨ c = '\r' then ([], .top) else ([], .line)
  | .block, c => if c = '*' then ([], .blockStar) else ([], .block)
  | .blockStar, c => if c = '/' then ([], .top) else if c = '*' then ([], .blockStar) else ([], .block)

/-- read a whole text from state `st`: tokens completed so far and the state reached -/
def run : St → List Char → List Tok × St
  | st, [] => ([], st)
  | st, c :: cs => ((step st c).1 ++ (run (step st c).2 cs).1, (run (step st c).2 cs).2)

/-- end of input: the pending token, or `none` = TokenError (unterminated string / identifier / block comment) -/
def finish : St → Option (List Tok)
  | .top | .word | .line => some []
  | .dash => some [.chr '-']
  | .slash => some [.chr '/']
  | .dollar => some [.chr '$']
  | .strQ acc => some [.str acc]
  | .identQ acc => some [.ident acc]
  | .str _ | .strBs _ | .raw _ | .rawD _ | .ident _ | .identBs _ | .block | .blockStar => none

/-- tokens of `cs` read from state `st` to the end of input -/
def lexFrom (st : St) (cs : List Char) : Option (List Tok) :=
  (finish (run st cs).2).map ((run st cs).1 ++ ·)

/-- the tokenizer: `none` = TokenError -/
def lex (cs : List Char) : Option (List Tok) := lexFrom .top cs

/-- a state between tokens: a quote read here opens a new string literal -/
def St.boundary : St → Bool
  | .top | .word | .dash | .slash | .dollar => true
  | _ => false

end Fs.Lex
