/-
Model of `fakesnow/types.py` (`duckdb_to_sf_type`, `describe_as_rowtype`) and of what `cursor.description`
re-describes (`cursor.py:113-123, 353`), for C06.  Text is `List Char` (no opaque `String` functions).
-/
namespace Fs.Descr

/-- Snowflake result type names of the connector (`FIELD_NAME_TO_ID`) -/
inductive SfType
  | fixed | real | text | date | timestamp_ntz | timestamp_tz | variant | binary | time | boolean
deriving DecidableEq, Repr

/-- the connector's type codes -/
def SfType.code : SfType → Nat
  | .fixed => 0 | .real => 1 | .text => 2 | .date => 3 | .variant => 5 | .timestamp_tz => 7
  | .timestamp_ntz => 8 | .binary => 11 | .time => 12 | .boolean => 13

structure ColumnInfo where
  type : SfType
  precision : Option Nat := none
  scale : Option Nat := none
  length : Option Nat := none        -- `internal_size` of ResultMetadata
  byteLength : Option Nat := none
deriving DecidableEq, Repr

def isDigit (c : Char) : Bool := '0'.toNat ≤ c.toNat && c.toNat ≤ '9'.toNat
def digitVal (c : Char) : Nat := c.toNat - '0'.toNat
/-- `int(text)` on a run of ASCII digits -/
def valOf (cs : List Char) : Nat := cs.foldl (fun a c => a * 10 + digitVal c) 0

/-- the longest prefix of digits and the rest -/
def spanDigits : List Char → List Char × List Char
  | [] => ([], [])
  | c :: cs => if isDigit c then let r := spanDigits cs; (c :: r.1, r.2) else ([], c :: cs)

/-- try to match `\((\d+),(\d+)\)` at the head of the text -/
def matchHere : List Char → Option (Nat × Nat)
  | '(' :: rest =>
    match spanDigits rest with
    | ([], _) => none
    | (p, ',' :: rest2) =>
      match spanDigits rest2 with
      | ([], _) => none
      | (s, ')' :: _) => some (valOf p, valOf s)
      | _ => none
    | _ => none
  | _ => none

/-- `re.search(r"\((\d+),(\d+)\)", text)`: leftmost match -/
def searchDec : List Char → Option (Nat × Nat)
  | [] => none
  | c :: cs =>
    match matchHere (c :: cs) with
    | some r => some r
    | none => searchDec cs

def startsWith : List Char → List Char → Bool
  | _, [] => true
  | [], _ :: _ => false
  | c :: cs, p :: ps => c == p && startsWith cs ps

/-- the dictionary `duckdb_to_sf_type` (after the HUGEINT `fix:`) -/
def table : List (String × SfType) :=
  [("BIGINT", .fixed), ("BLOB", .binary), ("BOOLEAN", .boolean), ("DATE", .date), ("DECIMAL", .fixed), ("DOUBLE", .real),
   ("HUGEINT", .fixed), ("INTEGER", .fixed), ("JSON", .variant), ("TIME", .time), ("TIMESTAMP WITH TIME ZONE", .timestamp_tz),
   ("TIMESTAMP_NS", .timestamp_ntz), ("TIMESTAMP", .timestamp_ntz), ("VARCHAR", .text)]

def lookup (key : List Char) : List (String × SfType) → Option SfType
  | [] => none
  | (k, v) :: rest => if k.toList = key then some v else lookup key rest

/-- the text `DECIMAL` -/
def decimalWord : List Char := ['D', 'E', 'C', 'I', 'M', 'A', 'L']

def isDecimal (columnType : List Char) : Bool := startsWith columnType decimalWord

/-- `as_column_info`: `none` = `NotImplementedError(f"for column type {column_type}")` -/
def asColumnInfo (columnType : List Char) : Option ColumnInfo :=
  match lookup (if isDecimal columnType then decimalWord else columnType) table with
  | none => none
  | some t =>
    if isDecimal columnType then
      match searchDec columnType with
      | some (p, s) => some { type := t, precision := some p, scale := some s }
      | none => some { type := t, precision := some 38, scale := some 0 }
    else match t with
      | .fixed => some { type := t, precision := some 38, scale := some 0 }
      | .text => some { type := t, length := some 16777216, byteLength := some 16777216 }
      | .time | .timestamp_ntz | .timestamp_tz => some { type := t, precision := some 0, scale := some 9 }
      | .binary => some { type := t, length := some 8388608, byteLength := some 8388608 }
      | _ => some { type := t }

/-- `describe_as_rowtype`: one entry per DESCRIBE row, **by position** (a list comprehension over the rows); `none` = some column's
    type is unmapped (NotImplementedError) -/
def describeAsRowtype : List (List Char × List Char) → Option (List (List Char × ColumnInfo))
  | [] => some []
  | (n, t) :: rest =>
    match asColumnInfo t, describeAsRowtype rest with
    | some ci, some out => some ((n, ci) :: out)
    | _, _ => none

/-- the same built through a dict keyed by column name (what it must NOT do): a repeated name keeps its first position and
    takes the last column's type; the list gets shorter -/
def describeAsRowtypeByName : List (List Char × List Char) → Option (List (List Char × ColumnInfo))
  | [] => some []
  | (n, t) :: rest =>
    match asColumnInfo t, describeAsRowtypeByName rest with
    | some ci, some out =>
      match out.find? (·.1 == n) with
      | some later => some ((n, later.2) :: out.filter (·.1 != n))     -- the later entry overwrites the value, the key keeps its place
      | none => some ((n, ci) :: out)
    | _, _ => none

/-- decimal digits of a number, most significant first (`str(n)`) -/
def digitsAux : Nat → Nat → List Char → List Char
  | 0, _, acc => acc
  | fuel + 1, n, acc =>
    let acc' := Char.ofNat ('0'.toNat + n % 10) :: acc
    if n / 10 = 0 then acc' else digitsAux fuel (n / 10) acc'

def digits (n : Nat) : List Char := digitsAux (n + 1) n []

/-- how DuckDB's DESCRIBE prints a decimal type -/
def renderDecimal (p s : Nat) : List Char := decimalWord ++ ('(' :: (digits p ++ [','] ++ digits s ++ [')']))

/-! ### declared Snowflake column / cast types (transforms.integer_precision, float_to_double, timestamp_ntz, semi_structured_types + sqlglot's
    type map, modelled) and what description must say about them -/

/-- a declared Snowflake data type, with the parameters that matter for description -/
inductive Decl
  | number (p s : Option Nat)        -- NUMBER / DECIMAL / NUMERIC [(p [, s])]
  | intFamily                        -- INT, INTEGER, BIGINT, SMALLINT, TINYINT, BYTEINT
  | floatFamily                      -- FLOAT, FLOAT4, FLOAT8, DOUBLE, DOUBLE PRECISION, REAL
  | text                             -- VARCHAR[(n)], CHAR[(n)], CHARACTER[(n)], STRING, TEXT
  | boolean | date
  | time                             -- TIME[(p)]
  | tsNtz                            -- TIMESTAMP_NTZ[(p)]
  | tsPlain (p : Option Nat)         -- TIMESTAMP[(p)], DATETIME[(p)]
  | tsTz                             -- TIMESTAMP_TZ[(p)]
  | binary                           -- BINARY, VARBINARY
  | variant                          -- VARIANT, OBJECT, ARRAY
deriving DecidableEq, Repr

/-- the DuckDB type the rewritten statement declares -/
def toDuck : Decl → List Char
  | .number none _ => "BIGINT".toList                     -- integer_precision: a parameterless NUMBER becomes BIGINT
  | .number (some p) s => renderDecimal p (s.getD 0)      -- NUMBER(p) keeps its precision: DECIMAL(p,0)
  | .intFamily => "BIGINT".toList
  | .floatFamily => "DOUBLE".toList
  | .text => "VARCHAR".toList
  | .boolean => "BOOLEAN".toList
  | .date => "DATE".toList
  | .time => "TIME".toList
  | .tsNtz => "TIMESTAMP".toList                          -- timestamp_ntz: every TIMESTAMP_NTZ(p) becomes a plain (µs) TIMESTAMP
  | .tsPlain none => "TIMESTAMP".toList
  | .tsPlain (some p) =>                                  -- sqlglot/DuckDB: TIMESTAMP(p) picks the unit by precision
    if p = 0 then "TIMESTAMP_S".toList else if p ≤ 3 then "TIMESTAMP_MS".toList else if p ≤ 6 then "TIMESTAMP".toList else "TIMESTAMP_NS".toList
  | .tsTz => "TIMESTAMP WITH TIME ZONE".toList
  | .binary => "BLOB".toList
  | .variant => "JSON".toList

/-- (type, precision, scale) that description must report for a declared type -/
def declaredCore : Decl → SfType × Option Nat × Option Nat
  | .number p s => (.fixed, some (p.getD 38), some (if p.isSome then s.getD 0 else 0))
  | .intFamily => (.fixed, some 38, some 0)
  | .floatFamily => (.real, none, none)
  | .text => (.text, none, none)
  | .boolean => (.boolean, none, none)
  | .date => (.date, none, none)
  | .time => (.time, some 0, some 9)
  | .tsNtz | .tsPlain _ => (.timestamp_ntz, some 0, some 9)
  | .tsTz => (.timestamp_tz, some 0, some 9)
  | .binary => (.binary, none, none)
  | .variant => (.variant, none, none)

def ColumnInfo.core (ci : ColumnInfo) : SfType × Option Nat × Option Nat := (ci.type, ci.precision, ci.scale)

/-- what the code yields for a declared type: `none` = description raises -/
def describedCore (d : Decl) : Option (SfType × Option Nat × Option Nat) := (asColumnInfo (toDuck d)).map ColumnInfo.core

/-- finding region among the declared types: TIMESTAMP(p) / DATETIME(p) with p ≤ 3 become TIMESTAMP_S / TIMESTAMP_MS, which the type table lacks -/
def declFinding : Decl → Option String
  | .tsPlain (some p) => if p ≤ 3 then some "C06/type-unmapped" else none
  | _ => none

/-! ### the Python type of a fetched value, per DuckDB type (pyarrow `to_pylist`, modelled) -/

inductive PyType | int | decimal | float | str | date | time | datetime | datetimeTz | bytes | bool
deriving DecidableEq, Repr

/-- DuckDB result type ↦ Python type of the fetched value (`none` = not in this model) -/
def pyOf (columnType : List Char) : Option PyType :=
  if isDecimal columnType then some .decimal
  else match String.ofList columnType with
    | "BIGINT" | "INTEGER" => some .int
    | "HUGEINT" => some .decimal          -- pyarrow decimal128(38,0)
    | "DOUBLE" => some .float
    | "VARCHAR" | "JSON" => some .str
    | "DATE" => some .date
    | "TIME" => some .time
    | "TIMESTAMP" | "TIMESTAMP_NS" => some .datetime
    | "TIMESTAMP WITH TIME ZONE" => some .datetimeTz
    | "BLOB" => some .bytes
    | "BOOLEAN" => some .bool
    | _ => none

/-- what the property says about type code / scale vs Python type -/
def agrees (ci : ColumnInfo) (py : PyType) : Bool :=
  match ci.type, py with
  | .fixed, .int => ci.scale == some 0
  | .fixed, .decimal => (ci.scale.getD 0) > 0
  | .real, .float | .text, .str | .variant, .str | .date, .date | .time, .time
  | .timestamp_ntz, .datetime | .timestamp_tz, .datetimeTz | .binary, .bytes | .boolean, .bool => true
  | _, _ => false

/-! ### what `description` describes -/

/-- the statement kinds of the sweep, by what `_last_sql` holds after them -/
inductive Kind
  | query                 -- SELECT / WITH / VALUES / SHOW rewritten to a select / DESCRIBE TABLE: `_last_sql` is the query
  | statusSelect          -- DML, DDL, SET/UNSET, no-op'd, COMMIT/ROLLBACK outside a transaction, TRUNCATE, COMMENT: `_last_sql` = result_sql
  | seededQuery           -- SELECT … RANDOM(seed): `_last_sql` = "SELECT setseed(..); <query>" (SAMPLE … SEED stays a plain query)
  | txControl             -- BEGIN, COMMIT / ROLLBACK inside a transaction
  | use                   -- USE DATABASE / USE SCHEMA
  | rawCommand            -- SHOW DATABASES, EXPLAIN …: passed through, `DESCRIBE <text>` does not parse
  | beforeExecute         -- no statement yet: `_last_sql` is None
deriving DecidableEq, Repr

inductive Described
  | ofResult              -- one entry per result column of the statement, in order
  | ofOther               -- entries of a different statement
  | raises
deriving DecidableEq, Repr

/-- `DESCRIBE <_last_sql>` through sqlglot's duckdb dialect and DuckDB -/
def describeLast : Kind → Described
  | .query | .statusSelect => .ofResult
  | .seededQuery => .ofOther          -- DESCRIBE of a two-statement string describes the first: `setseed(..)`
  | _ => .raises

end Fs.Descr

/-! ### purity of `description` / `describe` (cursor.py:100-123) -/
namespace Fs.Descr

/-- `cursor.describe(q)` = `execute("DESCRIBE " + q)`: only texts that DuckDB/sqlglot can put behind DESCRIBE are describable -/
def describeOf : Kind → Described
  | .query | .seededQuery => .ofResult     -- describe() of RANDOM(seed) describes the query itself (no setseed prefix under DESCRIBE)
  | _ => .raises                           -- DML, DDL, USE, SET, transaction control: `DESCRIBE insert …` is not a statement


/-- the per-cursor fields (`cursor.py:64-73`); result rows and SQL texts are opaque here -/
structure Cur (R Q : Type) where
  result : Option R := none          -- `_arrow_table`
  fetchIndex : Option Nat := none    -- `_arrow_table_fetch_index`
  rowcount : Option Nat := none
  sqlstate : Option String := none
  lastSql : Option Q := none
  lastParams : Option Q := none

structure Conn (D S R Q : Type) where
  duck : D
  session : S
  cursors : List (Cur R Q)

/-- `DESCRIBE <sql>` (with the bound parameters of server-side paramstyles) on the engine: new engine state and
    either rows or an error -/
structure Engine (D R Q : Type) where
  describe : D → Option Q → Option Q → D × Option R

/-- `cursor.description` on cursor `i`: a throw-away cursor executes `DESCRIBE <last sql>` with the last parameters;
    its fields die with it.  Nothing else of the cursor (or of any earlier execution) is consulted. -/
def description {D S R Q} (e : Engine D R Q) (c : Conn D S R Q) (i : Nat) : Conn D S R Q × Option R :=
  match c.cursors[i]? with
  | none => (c, none)
  | some cur =>
    let r := e.describe c.duck cur.lastSql cur.lastParams
    -- the temporary cursor `tmp` gets result/rowcount/lastSql; it is not in `c.cursors` and is dropped
    ({ c with duck := r.1 }, r.2)

/-- `cursor.describe(q, params)` on cursor `i`: `self.execute("DESCRIBE q", params)` on the cursor itself, then `fetchall()` -/
def describe {D S R Q} (e : Engine D R Q) (descOf : Q → Q) (c : Conn D S R Q) (i : Nat) (q : Q) (params : Option Q) :
    Conn D S R Q × Option R :=
  match c.cursors[i]? with
  | none => (c, none)
  | some cur =>
    let r := e.describe c.duck (some q) params
    let cur' : Cur R Q := match r.2 with
      | some rows => { cur with result := some rows, fetchIndex := some 0, rowcount := some 0, sqlstate := none,
                                 lastSql := some (descOf q), lastParams := params }
      | none => { cur with result := none, fetchIndex := none, rowcount := none }
    ({ c with duck := r.1, cursors := c.cursors.set i cur' }, r.2)

/-- `connection.execute_string`: one NEW cursor per statement; after the script, cursor `i` remembers statement `i` (and its result) -/
def scriptCursors {R Q} (stmts : List Q) : List (Cur R Q) := stmts.map fun q => { lastSql := some q }

/-! ### what is sent to DuckDB for a seeded query (cursor.py: `transformed.args.get("seed")`) -/

/-- the part of a transformed statement the seed logic looks at: is the top-level node a DESCRIBE wrapper, and the
    seed `transforms.random` attached to the (inner) SELECT, if any -/
structure Seeded where
  isDescribe : Bool
  selectSeed : Option Nat
deriving DecidableEq, Repr

inductive Sent | setseed (seed : Nat) | statement
deriving DecidableEq, Repr

/-- `transformed.args.get("seed")` reads the TOP-LEVEL node: a DESCRIBE wrapper has no seed of its own -/
def topLevelSeed (p : Seeded) : Option Nat := if p.isDescribe then none else p.selectSeed

/-- the SQL sent: `SELECT setseed(..); <sql>` only when the top-level statement carries a seed -/
def sent (p : Seeded) : List Sent :=
  match topLevelSeed p with
  | some s => [.setseed s, .statement]
  | none => [.statement]

end Fs.Descr
