/-
Model for C18 (db_path persistence under exit / exception / kill).

fakesnow never writes files itself: every durable change is one **engine call** `duck_conn.execute(sql)` against a
DuckDB database file `<db_path>/<DB>.db`.  The model therefore is
  * `calls : Stmt → List Call` – the exact sequence of engine calls fakesnow issues for one statement
    (`cursor.py:_execute`: the transformed statement, then the bookkeeping upserts for a table comment
    (`cursor.py:329-336`) and VARCHAR lengths (`:338-345`), then the status SELECT (`:347-349`);
    `CREATE DATABASE` = ATTACH + info-schema DDL (`transforms.py:116-144`, `cursor.py:280-283`);
    MERGE = candidates temp table + one DML per WHEN clause + COUNT (`transforms_merge.py`; the bogus comment upsert
    for the temp table is gone since repair 0e75b9f);
    `connect` = the ladder of `conn.py:55-104`);
  * `Eng.call` – DuckDB as a *trusted* durable log: a call outside a transaction is durable when it returns, calls
    between BEGIN and COMMIT become durable together at COMMIT, nothing else ever reaches the file (WAL/fsync trusted);
  * `crash k` – the process dies after exactly `k` engine calls of the flattened history (a kill between two calls; a
    clean exit or an exception leaving `patch()` is the crash point "after the last call", the open transaction lost);
  * `recover` – a later process re-attaches the files: it sees exactly the durable log.
The observable state (`dump`) is computed from the durable log so that the harness can compare it with what a fresh
process reads through the public API.
-/
namespace Fs.Crash

/-- row operations on a table with columns (k, v); `mergeUpd`/`mergeIns` are the two DML statements of the
    fixed-shape MERGE (source rows `src`) -/
inductive RowOp
  | ins (k v : Nat) | upd (k v : Nat) | del (k : Nat)
  | mergeUpd (src : List (Nat × Nat)) | mergeIns (src : List (Nat × Nat))
deriving DecidableEq, Repr

/-- durable effects: what one committed engine call changes in the database files -/
inductive Eff
  | attach (d : Nat)                 -- ATTACH DATABASE '<db_path>/<d>.db' (creates the file)
  | info (d : Nat)                   -- info_schema.creation_sql(d): _fs_tables_ext, _fs_columns_ext, views
  | macros (d : Nat)                 -- macros.creation_sql(d)
  | mkSchema (s : Nat)
  | mkTable (t : Nat) | dropTable (t : Nat)
  | setComment (t : Nat) (c : Nat)   -- upsert into _fs_tables_ext
  | setLen (t : Nat) (n : Nat)       -- upsert into _fs_columns_ext
  | mkView (v : Nat)
  | setViewCmt (v c : Nat)           -- `_fs_tables_ext` upsert for a view created with COMMENT = '…'
  | rows (t : Nat) (op : RowOp)
  | junkComment                      -- before repair 0e75b9f: comment 'None' recorded for MERGE's temporary MERGE_CANDIDATES table
deriving DecidableEq, Repr

inductive Call
  | q                -- no durable effect: SELECT (existence checks, status rows, counts), SET, temp-table DDL
  | w (e : Eff)      -- one durable effect
  | begin | commit | rollback
  | commitFail       -- a COMMIT that DuckDB rejects (commit-time PRIMARY KEY / UNIQUE conflict with a concurrent
                     -- transaction): it raises, the transaction is rolled back, nothing becomes durable
deriving DecidableEq, Repr

inductive Stmt
  | connect (mkDb mkSchema : Bool) (s : Nat)   -- connect(database=0, schema=s) when the db / schema must be created
  | createTable (t : Nat) (cmt : Option Nat) (len : Option Nat)
  | dropTable (t : Nat)
  | commentOn (t : Nat) (c : Nat)
  | createSchema (s : Nat)
  | createView (v : Nat)
  | createViewC (v c : Nat)                    -- CREATE VIEW … COMMENT = '…' AS …: DDL + side-table upsert
  | createDatabase (d : Nat)
  | dml (t : Nat) (op : RowOp)                 -- INSERT / UPDATE / DELETE (op ∈ ins, upd, del)
  | insertMany (t : Nat) (rows : List (Nat × Nat))   -- cursor.executemany(INSERT …, rows): one INSERT per row, each
                                               -- its own auto-committed statement outside a transaction (rows the
                                               -- connector cannot bind never reach the engine and are not listed)
  | merge (t : Nat) (src : List (Nat × Nat))   -- WHEN MATCHED THEN UPDATE … WHEN NOT MATCHED THEN INSERT …
  | select
  | begin | commit | rollback
  | commitConflict                             -- COMMIT that fails with a commit-time conflict (raised to the caller)
  | connExit                                   -- leaving a `with connect(...) as conn:` / `with conn.cursor():` block:
                                               -- `__exit__` does nothing (`conn.py:113-119`) – in particular it is NOT a commit
deriving DecidableEq, Repr

/-- MERGE's engine calls before repair 0e75b9f (`extract_comment_on_table` tagged every CREATE with properties, so the
    temporary candidates table got a comment row `'None'` in `_fs_tables_ext`) – kept for the regression witness -/
def mergeCallsOld (t : Nat) (src : List (Nat × Nat)) : List Call :=
  [.q, .w .junkComment, .q, .w (.rows t (.mergeUpd src)), .q, .w (.rows t (.mergeIns src)), .q, .q]

def optCall {α} (o : Option α) (f : α → Eff) : List Call :=
  match o with
  | none => []
  | some a => [.w (f a)]

/-- fakesnow's decomposition of a statement into engine calls -/
def calls : Stmt → List Call
  | .connect mkDb mkSchema s =>
      [.q] ++ (if mkDb then [.w (.attach 0), .w (.info 0), .w (.macros 0)] else []) ++
      [.q] ++ (if mkSchema then [.w (.mkSchema s)] else []) ++ [.q, .q, .q]
  | .createTable t cmt len => [.w (.mkTable t)] ++ optCall cmt (.setComment t) ++ optCall len (.setLen t) ++ [.q]
  | .dropTable t => [.w (.dropTable t), .q]
  | .commentOn t c => [.q, .w (.setComment t c)]
  | .createSchema s => [.w (.mkSchema s), .q]
  | .createView v => [.w (.mkView v), .q]
  | .createViewC v c => [.w (.mkView v), .w (.setViewCmt v c), .q]
  | .createDatabase d => [.w (.attach d), .w (.info d), .q]
  | .dml t op => [.w (.rows t op), .q]
  | .insertMany t rows => rows.flatMap fun r => [.w (.rows t (.ins r.1 r.2)), .q]
  | .merge t src => [.q, .q, .w (.rows t (.mergeUpd src)), .q, .w (.rows t (.mergeIns src)), .q, .q]
  | .select => [.q]
  | .begin => [.begin]
  | .commit => [.commit]
  | .commitConflict => [.commitFail]
  | .connExit => []
  | .rollback => [.rollback]         -- (COMMIT/ROLLBACK are only generated inside a transaction: one call each)

/-- the engine: durable log + buffered effects of the open transaction -/
structure Eng where
  disk : List Eff
  tx : Option (List Eff)
deriving DecidableEq, Repr

def Eng.init : Eng := { disk := [], tx := none }

def Eng.call (e : Eng) : Call → Eng
  | .q => e
  | .w x => match e.tx with
    | none => { e with disk := e.disk ++ [x] }
    | some b => { e with tx := some (b ++ [x]) }
  | .begin => match e.tx with
    | none => { e with tx := some [] }
    | some _ => e
  | .commit => match e.tx with
    | none => e
    | some b => { disk := e.disk ++ b, tx := none }
  | .rollback => { e with tx := none }
  | .commitFail => { e with tx := none }

def Eng.run (e : Eng) (cs : List Call) : Eng := cs.foldl Eng.call e

def flat (h : List Stmt) : List Call := h.flatMap calls

/-- the process dies after exactly `k` engine calls -/
def crash (e : Eng) (h : List Stmt) (k : Nat) : Eng := e.run ((flat h).take k)

/-- what a later process finds: the durable log (the open transaction died with the process) -/
def recover (e : Eng) : List Eff := e.disk

/-- all statements executed to the end (clean exit / exception at a statement boundary) -/
def finish (e : Eng) (h : List Stmt) : Eng := e.run (flat h)

/-- durable effects of a statement -/
def wOf : Call → Option Eff
  | .w x => some x
  | _ => none

def effs (s : Stmt) : List Eff := (calls s).filterMap wOf

def Stmt.isTxCtl : Stmt → Bool
  | .begin => true | .commit => true | .rollback => true | .commitConflict => true | _ => false

/-! ### observable state computed from the durable log -/

structure Tbl where
  id : Nat
  cmt : Option Nat
  len : Option Nat
  rows : List (Nat × Nat)
deriving DecidableEq, Repr

structure Dump where
  files : List Nat       -- database files present
  schemas : List Nat
  tables : List Tbl
  views : List Nat
deriving DecidableEq, Repr

def applyRow (rs : List (Nat × Nat)) : RowOp → List (Nat × Nat)
  | .ins k v => rs ++ [(k, v)]
  | .upd k v => rs.map fun r => if r.1 == k then (k, v) else r
  | .del k => rs.filter fun r => r.1 != k
  | .mergeUpd src => rs.map fun r => match src.find? (fun s => s.1 == r.1) with | some s => (r.1, s.2) | none => r
  | .mergeIns src => rs ++ src.filter fun s => !(rs.any fun r => r.1 == s.1)

def updTbl (ts : List Tbl) (t : Nat) (f : Tbl → Tbl) : List Tbl := ts.map fun x => if x.id == t then f x else x

/-- side-table entries (comments, lengths) are keyed by name and survive DROP (C09's business); they show up
    only for tables that exist -/
structure Side where
  cmts : List (Nat × Nat)
  lens : List (Nat × Nat)
deriving DecidableEq, Repr

def lookupLast (l : List (Nat × Nat)) (t : Nat) : Option Nat := (l.reverse.find? fun p => p.1 == t).map (·.2)

def applyEff (st : Dump × Side) : Eff → Dump × Side
  | .attach d => ({ st.1 with files := if st.1.files.contains d then st.1.files else st.1.files ++ [d] }, st.2)
  | .info _ => st
  | .macros _ => st
  | .mkSchema s => ({ st.1 with schemas := if st.1.schemas.contains s then st.1.schemas else st.1.schemas ++ [s] }, st.2)
  | .mkTable t => ({ st.1 with tables := (st.1.tables.filter fun x => x.id != t) ++ [⟨t, none, none, []⟩] }, st.2)
  | .dropTable t => ({ st.1 with tables := st.1.tables.filter fun x => x.id != t }, st.2)
  | .setComment t c => (st.1, { st.2 with cmts := st.2.cmts ++ [(t, c)] })
  | .setLen t n => (st.1, { st.2 with lens := st.2.lens ++ [(t, n)] })
  | .mkView v => ({ st.1 with views := st.1.views ++ [v] }, st.2)
  -- a commented view is shown in the dump as the number v + 1000 * (c + 1)
  | .setViewCmt v c => ({ st.1 with views := st.1.views.map fun x => if x == v then v + 1000 * (c + 1) else x }, st.2)
  | .rows t op => ({ st.1 with tables := updTbl st.1.tables t fun x => { x with rows := applyRow x.rows op } }, st.2)
  | .junkComment => st

def dump (log : List Eff) : Dump :=
  let r := log.foldl applyEff (⟨[], [], [], []⟩, ⟨[], []⟩)
  { r.1 with tables := r.1.tables.map fun x => { x with cmt := lookupLast r.2.cmts x.id, len := lookupLast r.2.lens x.id } }

/-! ### statement-level view: which statement is interrupted by a crash after `k` calls -/

/-- statements completely executed within the first `k` calls, and the calls of the next statement already made -/
def split : List Stmt → Nat → List Stmt × Nat
  | [], _ => ([], 0)
  | s :: h, k =>
    if (calls s).length ≤ k then
      let r := split h (k - (calls s).length)
      (s :: r.1, r.2)
    else ([], k)

/-- finding classifier: the crash leaves statement `s` torn after `j` of its calls (autocommit) -/
def tornKey (s : Stmt) (j : Nat) : String :=
  let done := ((calls s).take j).filterMap wOf
  if done.isEmpty || done.length == (effs s).length then "-" else
  match s with
  | .createTable _ _ _ => "C18/torn-table-metadata"
  | .createViewC _ _ => "C18/torn-table-metadata"      -- the same two-call shape: view DDL, then its comment upsert
  | .merge _ _ => "C18/torn-merge"
  | .createDatabase _ => "-"     -- healed by the next connect (idempotent bootstrap), see `C18_create_database_heals`
  | .connect _ _ _ => "-"
  | _ => "-"

/-! ### well-formed histories as units, and the specification-level description of a crash -/

/-- a unit of a well-formed history: one autocommit statement, or a BEGIN … COMMIT / BEGIN … ROLLBACK block -/
inductive TxUnit
  | auto (s : Stmt)
  | txc (body : List Stmt)
  | txr (body : List Stmt)
  | txf (body : List Stmt)      -- BEGIN … COMMIT where the COMMIT fails (commit-time conflict)
deriving DecidableEq, Repr

def TxUnit.stmts : TxUnit → List Stmt
  | .auto s => [s]
  | .txc b => .begin :: b ++ [.commit]
  | .txr b => .begin :: b ++ [.rollback]
  | .txf b => .begin :: b ++ [.commitConflict]

/-- ATTACH is not transactional in DuckDB: `connect` / CREATE DATABASE are modelled in autocommit only -/
def Stmt.isAttach : Stmt → Bool
  | .connect _ _ _ => true | .createDatabase _ => true | _ => false

/-- no transaction control (and no ATTACH) inside a unit -/
def TxUnit.ok : TxUnit → Bool
  | .auto s => !s.isTxCtl
  | .txc b => b.all fun s => !s.isTxCtl && !s.isAttach
  | .txr b => b.all fun s => !s.isTxCtl && !s.isAttach
  | .txf b => b.all fun s => !s.isTxCtl && !s.isAttach

/-- durable effects of a *completed* unit -/
def TxUnit.eff : TxUnit → List Eff
  | .auto s => effs s
  | .txc b => b.flatMap effs
  | .txr _ => []
  | .txf _ => []

/-- durable effects of a unit interrupted after `j` of its engine calls (`j` < number of its calls) -/
def TxUnit.partialEff : TxUnit → Nat → List Eff
  | .auto s, j => ((calls s).take j).filterMap wOf
  | .txc _, _ => []
  | .txr _, _ => []
  | .txf _, _ => []

def hist (us : List TxUnit) : List Stmt := us.flatMap TxUnit.stmts

/-- **Specification of a crash**: effects of every unit completed before the crash point, in order, plus the durable
    prefix of the interrupted unit -/
def crashSpec : List TxUnit → Nat → List Eff
  | [], _ => []
  | u :: us, k =>
    if (flat u.stmts).length ≤ k then u.eff ++ crashSpec us (k - (flat u.stmts).length)
    else u.partialEff k

/-- a unit that cannot be torn: a transaction block, or a statement with at most one durable engine call -/
def TxUnit.atomic : TxUnit → Bool
  | .auto s => (effs s).length ≤ 1
  | _ => true

/-! ### instances and directories -/

/-- the file system: directory id ↦ durable log of the database files in it -/
abbrev Files := Nat → List Eff

/-- run a history in a process whose instance was created with `db_path = path` (none = in-memory) and kill it
    after `k` engine calls -/
def runInst (fs : Files) (path : Option Nat) (h : List Stmt) (k : Nat) : Files :=
  match path with
  | none => fs
  | some p => fun q => if q = p then recover (crash { disk := fs p, tx := none } h k) else fs q

/-- what an instance can read: its directory's files, or nothing durable at all for an in-memory instance -/
def visible (fs : Files) (path : Option Nat) : List Eff :=
  match path with
  | none => []
  | some p => fs p

end Fs.Crash
