import Fs.Model.Lex
/-!
# Model of client-side parameter binding (`cursor.py:428-446`, `conn.py:51`, `cursor.py:360-377`)

`_rewrite_with_params`: when the connection's paramstyle snapshot is `pyformat`/`format` and `params` is
non-empty, every value goes through the connector's `quote(escape(to_snowflake(v)))` and the command is
formatted with Python's `%` operator; otherwise command and params are handed on unchanged (qmark: DuckDB
binds them as prepared-statement values).

Connector/CPython behaviour modelled here (trusted base, exercised by the correspondence check):
`SnowflakeConverter.escape` = four sequential `str.replace`, `quote`, `str % tuple` / `str % dict` for the
conversions `%s`, `%(key)s`, `%%`; sqlglot's DuckDB generator (`'` doubled) and DuckDB's string lexer.
-/
namespace Fs.Params
open Fs.Lex

/-! ## escape / quote -/

/-- `str.replace(c, r)` for a one-character pattern -/
def replaceChar (c : Char) (r : List Char) : List Char → List Char
  | [] => []
  | x :: xs => if x = c then r ++ replaceChar c r xs else x :: replaceChar c r xs

/-- `SnowflakeConverter.escape` on a `str`, as written: four sequential replaces -/
def escapeSeq (s : List Char) : List Char :=
  replaceChar '\'' ['\\', '\''] (replaceChar '\r' ['\\', 'r'] (replaceChar '\n' ['\\', 'n']
    (replaceChar '\\' ['\\', '\\'] s)))

/-- the same as one left-to-right pass (proved equal: `escapeSeq_eq_escape`) -/
def escape : List Char → List Char
  | [] => []
  | c :: cs =>
    if c = '\\' then '\\' :: '\\' :: escape cs
    else if c = '\n' then '\\' :: 'n' :: escape cs
    else if c = '\r' then '\\' :: 'r' :: escape cs
    else if c = '\'' then '\\' :: '\'' :: escape cs
    else c :: escape cs

/-- `SnowflakeConverter.quote` on a `str` -/
def quote (s : List Char) : List Char := '\'' :: s ++ ['\'']

/-! ## values -/

/-- A bound Python value after `to_snowflake`.  `num` carries the `repr` text of a finite int/float
    (`IS_NUMERIC`), `special` the `repr` of a non-finite float (`inf`, `-inf`, `nan`); `str` is a `str`,
    or the text `to_snowflake` produced for a Decimal / date / datetime / time. -/
inductive Val where
  | null
  | bool (b : Bool)
  | num (repr : List Char)
  | special (repr : List Char)
  | str (s : List Char)
  | list (items : List Val)
  deriving Repr

mutual
/-- `quote(escape(to_snowflake v))`: the text that replaces the placeholder (code as it exists) -/
def Val.lit : Val → List Char
  | .null => ['N', 'U', 'L', 'L']
  | .bool true => ['T', 'R', 'U', 'E']
  | .bool false => ['F', 'A', 'L', 'S', 'E']
  | .num r => r
  | .special r => r
  | .str s => quote (escapeSeq s)
  | .list items => Val.litItems items
/-- `",".join(quote(escape(v)) for v in value)` -/
def Val.litItems : List Val → List Char
  | [] => []
  | [v] => v.lit
  | v :: vs => v.lit ++ ',' :: Val.litItems vs
end

/-- what a correct literal for the value is: the same text, except that a non-finite float has to be
    written as a cast string (`inf` on its own is an identifier) -/
def Val.specLit : Val → List Char
  | .special r => quote r ++ [':', ':', 'F', 'L', 'O', 'A', 'T']
  | v => v.lit

/-! ## `to_snowflake` for datetimes -/

def pad (w n : Nat) : List Char :=
  let s := (toString n).toList
  List.replicate (w - s.length) '0' ++ s

/-- the connector's `_datetime_to_snowflake`: the wall-clock fields AS GIVEN (no conversion to UTC or to the session
    time zone), microseconds only when non-zero, and for an aware datetime its own UTC offset `±HH:MM` (`off` in minutes) -/
def dtText (y mo d h mi s us : Nat) (off : Option Int) : List Char :=
  (toString y).toList ++ '-' :: pad 2 mo ++ '-' :: pad 2 d ++ ' ' :: pad 2 h ++ ':' :: pad 2 mi ++ ':' :: pad 2 s
    ++ (if us = 0 then [] else '.' :: pad 6 us)
    ++ match off with
       | none => []
       | some o => (if o ≥ 0 then '+' else '-') :: pad 2 (o.natAbs / 60) ++ ':' :: pad 2 (o.natAbs % 60)

/-! ## `%` formatting -/

inductive Args where
  | seq (vs : List (List Char))
  | map (kv : List (List Char × List Char))
  deriving Repr

inductive Fmt where
  | ok (text : List Char)
  | err           -- TypeError / KeyError / ValueError from `%`
  | unsupported   -- a conversion this model does not cover (flags, width, %d, %r, nested parentheses in a key, `%s` with a dict)
  deriving DecidableEq, Repr

def Fmt.cons (c : Char) : Fmt → Fmt
  | .ok t => .ok (c :: t)
  | f => f
def Fmt.app (v : List Char) : Fmt → Fmt
  | .ok t => .ok (v ++ t)
  | f => f

def lookup (k : List Char) : List (List Char × List Char) → Option (List Char)
  | [] => none
  | (k', v) :: kv => if k = k' then some v else lookup k kv

/-- scanner state of `str.__mod__` -/
inductive FSt where
  | text                       -- copying
  | pct                        -- just after `%`
  | key (acc : List Char)      -- inside `%(…`
  | keyEnd (acc : List Char)   -- after `%(key)`
  deriving Repr

/-- `command % args`, one character at a time.  `rest` = positional values not yet consumed. -/
def fmtGo : FSt → Args → List (List Char) → List Char → Fmt
  | .text, .seq _, rest, [] => if rest.isEmpty then .ok [] else .err   -- "not all arguments converted"
  | .text, .map _, _, [] => .ok []
  | _, _, _, [] => .err                                                -- "incomplete format"
  | .text, a, rest, c :: cs => if c = '%' then fmtGo .pct a rest cs else (fmtGo .text a rest cs).cons c
  | .pct, a, rest, c :: cs =>
    if c = '%' then (fmtGo .text a rest cs).cons '%'
    else if c = 's' then
      match a, rest with
      | .seq _, v :: rest' => (fmtGo .text a rest' cs).app v
      | .seq _, [] => .err                                             -- "not enough arguments"
      | .map _, _ => .unsupported
    else if c = '(' then
      match a with
      | .map _ => fmtGo (.key []) a rest cs
      | .seq _ => .err                                                 -- "format requires a mapping"
    else .unsupported
  | .key acc, a, rest, c :: cs =>
    if c = ')' then fmtGo (.keyEnd acc) a rest cs
    else if c = '(' then .unsupported
    else fmtGo (.key (acc ++ [c])) a rest cs
  | .keyEnd acc, a, rest, c :: cs =>
    if c = 's' then
      match a with
      | .map kv => match lookup acc kv with
        | some v => (fmtGo .text a rest cs).app v
        | none => .err                                                 -- KeyError
      | .seq _ => .err
    else .unsupported

def Args.isEmpty : Args → Bool
  | .seq vs => vs.isEmpty
  | .map kv => kv.isEmpty

def Args.initial : Args → List (List Char)
  | .seq vs => vs
  | .map _ => []

/-- `command % params` -/
def fmt (cmd : List Char) (a : Args) : Fmt := fmtGo .text a a.initial cmd

/-! ## paramstyle and the execute phases -/

inductive Style where
  | pyformat | format | qmark | numeric
  deriving DecidableEq, Repr

def Style.clientSide : Style → Bool
  | .pyformat | .format => true
  | _ => false

/-- `_rewrite_with_params`: `(text to parse, are the params still to be bound by the engine)` -/
def rewrite (style : Style) (cmd : List Char) (a : Args) : Fmt × Bool :=
  if !a.isEmpty && style.clientSide then (fmt cmd a, false) else (.ok cmd, !a.isEmpty)

/-- `execute` phases `cursor.py:138-139`: variables are inlined in the command text first, then the
    (already quoted) values are substituted.  `inline` is the variable phase (C15), `none` = it raised. -/
def phases (inline : List Char → Option (List Char)) (style : Style) (cmd : List Char) (a : Args) : Option (Fmt × Bool) :=
  (inline cmd).map fun c => rewrite style c a

/-- the life of one cursor: successive `execute` calls.  `_rewrite_with_params` keeps no state between them (the
    converter is a pure function of the value: no cache, no memo) -/
def cursorRun (style : Style) : List (List Char × Args) → List (Fmt × Bool)
  | [] => []
  | (c, a) :: xs => rewrite style c a :: cursorRun style xs

/-! ## paramstyle snapshot (`conn.py:51`) -/

inductive POp where
  | setGlobal (s : Style)     -- `snowflake.connector.paramstyle = s`
  | connect                   -- `snowflake.connector.connect(...)`
  | exec (conn : Nat)         -- a statement with params on connection #conn
  deriving Repr

structure PWorld where
  global : Style := .pyformat
  conns : List Style := []    -- snapshot per connection, in connect order
  deriving Repr

/-- returns the style a statement is executed under (for `exec`) -/
def pstep (w : PWorld) : POp → PWorld × Option Style
  | .setGlobal s => ({ w with global := s }, none)
  | .connect => ({ w with conns := w.conns ++ [w.global] }, none)
  | .exec i => (w, w.conns[i]?)

def prun : PWorld → List POp → PWorld × List (Option Style)
  | w, [] => (w, [])
  | w, o :: os => ((prun (pstep w o).1 os).1, (pstep w o).2 :: (prun (pstep w o).1 os).2)

/-! ## DuckDB side: generator and lexer for string literals -/

/-- sqlglot DuckDB generator `escape_str`: `'` → `''` (no other escapes in this dialect) -/
def duckGen : List Char → List Char
  | [] => []
  | c :: cs => if c = '\'' then '\'' :: '\'' :: duckGen cs else c :: duckGen cs

/-- DuckDB's lexer positioned after an opening quote of a plain string constant: `''` is a quote, a
    single `'` ends it; NUL is rejected ("unterminated quoted string").  Returns value and rest. -/
def duckLex : List Char → Option (List Char × List Char)
  | [] => none
  | [c] => if c = '\'' then some ([], []) else none
  | c :: p :: rest =>
    if c = Char.ofNat 0 then none
    else if c = '\'' then
      if p = '\'' then (duckLex rest).map fun (t, r) => ('\'' :: t, r)
      else some ([], p :: rest)
    else (duckLex (p :: rest)).map fun (t, r) => (c :: t, r)

def noNul (s : List Char) : Bool := !s.contains (Char.ofNat 0)

/-! ## qmark: values bound by the engine (`cursor.py:251`) -/

/-- how DuckDB's Python binding receives a Python `int` as a prepared-statement value -/
inductive QBound where
  | exact     -- BIGINT / UBIGINT / HUGEINT: the integer itself
  | double    -- silently converted to DOUBLE (nearest double)
  | error     -- conversion error
  deriving DecidableEq, Repr

/-- the pinned code handed every int to DuckDB's binding as it was: ≥ 2^64 became a DOUBLE (regression witness) -/
def qmarkBindIntOld (i : Int) : QBound :=
  if i ≥ 2 ^ 64 then .double else if i < -(2 ^ 127) then .error else .exact

/-- repaired code (`5c8660f`): an int outside the int64 range is bound as `Decimal`, which DuckDB receives exactly
    as long as it has at most 38 digits (NUMBER(38,0), the whole domain of the property) -/
def qmarkBindInt (i : Int) : QBound :=
  if -(2 ^ 63) ≤ i ∧ i < 2 ^ 63 then .exact
  else if -(10 ^ 38) < i ∧ i < 10 ^ 38 then .exact else .error

/-- NUMBER(38,0) -/
def inNumber38 (i : Int) : Prop := -(10 ^ 38) < i ∧ i < 10 ^ 38

/-- expression skeleton, for counting placeholders.  `dup a` is a call whose rewrite renders its operand
    twice: `ARRAY_SIZE(a)` becomes `CASE WHEN JSON_ARRAY_LENGTH(a) THEN JSON_ARRAY_LENGTH(a) END`
    (`transforms.array_size`). -/
inductive QExpr where
  | ph
  | const
  | app (a b : QExpr)
  | dup (a : QExpr)
  deriving DecidableEq, Repr

/-- `?` placeholders in the statement as written -/
def QExpr.phs : QExpr → Nat
  | .ph => 1
  | .const => 0
  | .app a b => a.phs + b.phs
  | .dup a => a.phs

/-- `?` placeholders in the DuckDB SQL that is executed -/
def QExpr.phsRendered : QExpr → Nat
  | .ph => 1
  | .const => 0
  | .app a b => a.phsRendered + b.phsRendered
  | .dup a => a.phsRendered + a.phsRendered

/-- no operand-duplicating rewrite has a placeholder beneath it -/
def QExpr.dupFree : QExpr → Bool
  | .ph => true
  | .const => true
  | .app a b => a.dupFree && b.dupFree
  | .dup a => a.phs == 0 && a.dupFree

/-- DuckDB accepts `n` values iff `n` = number of placeholders in the executed SQL -/
def qmarkAccepts (e : QExpr) (n : Nat) : Bool := e.phsRendered == n

/-- a statement that fakesnow explodes into several engine statements (MERGE → candidates, one DELETE/UPDATE/INSERT
    per clause, counts; `cursor.py:145-148`): each of them is executed with the WHOLE qmark parameter list, and DuckDB
    accepts a statement only if its own placeholder count equals the length of the list.
    `counts` = placeholders per generated statement. -/
def explodeAccepts (counts : List Nat) (n : Nat) : Bool := counts.all (· == n)

/-- `executemany` (`cursor.py:360-377`): one `execute` per parameter set, in order — every row takes the same path
    as a single `execute` (client-side substitution, or the engine-side binding incl. the re-binding of big ints) -/
def executeMany (style : Style) (c : List Char) (rows : List Args) : List (Fmt × Bool) :=
  cursorRun style (rows.map fun a => (c, a))

/-- the same parameter list bound again and again (the caller re-uses its dict / tuple / list object) -/
def rebind (style : Style) (c : List Char) (a : Args) (times : Nat) : List (Fmt × Bool) :=
  cursorRun style (List.replicate times (c, a))

/-! ## DuckDB reading a decimal literal into a FLOAT column -/

/-- DuckDB reads `123.456` as DECIMAL (mantissa 123456, scale 3) and casts it to DOUBLE by a division in
    double arithmetic — not by correctly rounding the decimal value (engine behaviour, trusted base) -/
def duckDecToDouble (m : Int) (scale : Nat) : Float := Float.ofInt m / Float.ofNat (10 ^ scale)

/-- mantissa and scale of a plain decimal `repr` (`-12.5` ↦ (-125, 1)); `none` for exponent forms, inf, nan -/
def decimalOfRepr (r : List Char) : Option (Int × Nat) :=
  let (neg, body) := match r with
    | '-' :: b => (true, b)
    | b => (false, b)
  if body.isEmpty || !body.all (fun c => c.isDigit || c = '.') || (body.filter (· = '.')).length > 1 then none
  else
    let intPart := body.takeWhile (· ≠ '.')
    let frac := (body.dropWhile (· ≠ '.')).drop 1
    let digits := intPart ++ frac
    match (String.ofList digits).toNat? with
    | some n => some (if neg then -(n : Int) else n, frac.length)
    | none => none

end Fs.Params
