import Fs.Model.Json
/-
Model for C10 — rewritten Snowflake functions return what Snowflake documents (partial).

Only fakesnow's OWN part of each construct is modelled (fakesnow/transforms.py): which arguments end up where, which
literal indices/types/defaults the rewrite writes, which forms are passed on untouched (and are then rejected by
DuckDB).  The functions' values (regex matching, calendar arithmetic, SHA-256, decimal parsing) are DuckDB's and are
compared in the correspondence against a Python transcription of the Snowflake documentation.
No Mathlib.
-/
namespace Fs.Rewrite
open Fs.Json

/-! ## REGEXP_SUBSTR (transforms.py:797 `regex_substr`) -/

/-- literal arguments of `REGEXP_SUBSTR(subject, pattern [, position [, occurrence [, parameters [, group]]]])` -/
structure RxArgs where
  position : Option Nat := none
  occurrence : Option Nat := none
  params : Option (List Char) := none
  group : Option Nat := none
deriving DecidableEq, Repr

/-- `regexp_extract_all(subject[sliceFrom:], pattern, group, params)[index]` as the rewrite builds it -/
structure RxOut where
  sliceFrom : Nat
  group : Nat
  params : List Char
  index : Int            -- the literal put into the Bracket: `occurrence - 1`
deriving DecidableEq, Repr

def rxRewrite (a : RxArgs) : RxOut :=
  let params := (a.params.getD []).filter (· != 'e')        -- `parameters.this.replace("e", "")`
  { sliceFrom := a.position.getD 1
    index := (a.occurrence.getD 1 : Int) - 1
    params := params
    -- the default group is decided on the parameters AFTER 'e' was removed (so it is always 0)
    group := a.group.getD (if params.contains 'e' then 1 else 0) }

/-- sqlglot's DuckDB generator adds 1 to a literal subscript (DuckDB lists are 1-based) -/
def genIndex (lit : Int) : Int := lit + 1

/-- DuckDB `s[from:]` on text (1-based; `from ≤ 1` is the whole string) -/
def duckSlice (s : List Char) (sliceFrom : Nat) : List Char := s.drop (sliceFrom - 1)

/-- DuckDB `list[i]` (1-based; 0 and out of range give NULL; negative counts from the end — outside the domain) -/
def duckListAt {α} (l : List α) (i : Int) : Option α :=
  if i ≥ 1 then l[(i - 1).toNat]? else none

/-- what DuckDB computes for the rewritten call, for any `extractAll : text → group → matches` -/
def rxImpl {M} (extractAll : List Char → Nat → List M) (subject : List Char) (a : RxArgs) : Option M :=
  let o := rxRewrite a
  duckListAt (extractAll (duckSlice subject o.sliceFrom) o.group) (genIndex o.index)

/-- documented: search from character `position` (default 1), take the `occurrence`-th match (default 1); with the
    `e` parameter return sub-match `group` (default 1), otherwise the whole match (group 0) -/
def rxSpec {M} (extractAll : List Char → Nat → List M) (subject : List Char) (a : RxArgs) : Option M :=
  let g := match a.group with
    | some g => g
    | none => if (a.params.getD []).contains 'e' then 1 else 0
  (extractAll (subject.drop (a.position.getD 1 - 1)) g)[a.occurrence.getD 1 - 1]?

/-- documented domain: position ≥ 1, occurrence ≥ 1 -/
def RxArgs.inDomain (a : RxArgs) : Bool := a.position.getD 1 ≥ 1 && a.occurrence.getD 1 ≥ 1

/-- excluded: C10/regexp-substr-e-default-group -/
def RxArgs.ok (a : RxArgs) : Bool := !((a.params.getD []).contains 'e' && a.group.isNone)

/-! ## REGEXP_REPLACE (transforms.py `regex_replace`; cursor.py: `dollar_quoted_string` runs second in the pipeline) -/

/-- how a string argument reaches a rewrite: a `Literal`, a `RawString` (`$$…$$`), or some other expression -/
inductive StrNode where
  | lit | raw | expr
deriving DecidableEq, Repr

/-- `dollar_quoted_string`: a `$$…$$` string becomes a plain literal with the same content -/
def dollarQuotedString : StrNode → StrNode
  | .raw => .lit
  | n => n

/-- `pattern.this.replace("\\\\", "\\")` (regex_replace and regex_substr): applied to the pattern text AFTER the SQL
    tokenizer has already processed the literal's escapes -/
def unescapeBackslashes : List Char → List Char
  | '\\' :: '\\' :: rest => '\\' :: unescapeBackslashes rest
  | c :: rest => c :: unescapeBackslashes rest
  | [] => []

/-- the optional arguments of `REGEXP_REPLACE(subject, pattern [, replacement [, position [, occurrence [, parameters]]]])` -/
structure RrArgs where
  hasReplacement : Bool := false
  position : Option Nat := none
  occurrence : Option Nat := none
  params : Option (List Char) := none
deriving DecidableEq, Repr

/-- `len(expression.args)`: subject, pattern and every optional argument that was given -/
def RrArgs.count (a : RrArgs) : Nat :=
  2 + (if a.hasReplacement then 1 else 0) + (if a.position.isSome then 1 else 0) + (if a.occurrence.isSome then 1 else 0) +
    (if a.params.isSome then 1 else 0)

inductive RrOut where
  | rewritten (defaultReplacement : Bool)   -- DuckDB `regexp_replace(s, p, r, 'g')`: every match replaced, from the start
  | rejected                                -- NotImplementedError
  | untouched                               -- the pattern is not a literal: passed on without the 'g' flag
deriving DecidableEq, Repr

def rrRule (pattern : StrNode) (a : RrArgs) : RrOut :=
  if pattern = .lit then (if a.count > 3 then .rejected else .rewritten (!a.hasReplacement)) else .untouched

/-- documented: with position 1 (default), occurrence 0 (default: all) and no parameters every match is replaced; the
    default replacement is the empty string -/
def RrArgs.docIsReplaceAll (a : RrArgs) : Bool := a.position.getD 1 = 1 && a.occurrence.getD 0 = 0 && a.params.isNone

/-! ## TO_NUMBER / TO_DECIMAL / TO_NUMERIC and TRY_ forms (transforms.py:1070-1172) -/

/-- a literal argument after the value: a string (a format) or a number -/
inductive NArg where
  | str
  | num (n : Nat)
deriving DecidableEq, Repr

/-- `_get_to_number_args`: sqlglot's Snowflake parser fills `format, precision, scale` positionally with the 2nd,
    3rd and 4th argument; the function re-assigns them by looking at whether `format` is a string -/
def getToNumberArgs (format precision scale : Option NArg) : Option NArg × Option NArg × Option NArg :=
  match format with
  | some .str =>
    match precision with
    | some p => (some .str, some p, scale)
    | none => (some .str, none, none)
  | some (.num n) => (none, some (.num n), precision)
  | none =>
    match precision with
    | some p => (none, some p, scale)
    | none => (none, none, none)

/-- Snowflake's overloads `TO_NUMBER(e [, fmt] [, p [, s]])` over the positional arguments after `e` -/
def toNumberOverload (args : List NArg) : Option (Option NArg × Option NArg × Option NArg) :=
  match args with
  | [] => some (none, none, none)
  | [.str] => some (some .str, none, none)
  | [.str, p] => some (some .str, some p, none)
  | [.str, p, s] => some (some .str, some p, some s)
  | [.num p] => some (none, some (.num p), none)
  | [.num p, s] => some (none, some (.num p), some s)
  | _ => none                                   -- no such overload

inductive NumOut where
  | decimal (p s : NArg)       -- CAST(e AS DECIMAL(p, s))   (TRY_CAST for the TRY_ forms)
  | notImplemented             -- a format argument: NotImplementedError (rejected)
deriving DecidableEq, Repr

/-- `to_decimal` on `exp.ToNumber` (TO_NUMBER) -/
def toNumberRule (format precision scale : Option NArg) : NumOut :=
  match getToNumberArgs format precision scale with
  | (some _, _, _) => .notImplemented
  | (none, p, s) => .decimal (p.getD (.num 38)) (s.getD (.num 0))

/-- `_to_decimal` on the anonymous functions TO_DECIMAL / TO_NUMERIC / TRY_TO_* (positional arguments) -/
def toDecimalAnonRule (args : List NArg) : NumOut :=
  match args with
  | .str :: _ => .notImplemented
  | [] => .decimal (.num 38) (.num 0)
  | [p] => .decimal p (.num 0)
  | p :: s :: _ => .decimal p s

/-- documented result type -/
def toNumberSpec (args : List NArg) : Option NumOut :=
  (toNumberOverload args).map fun
    | (some _, _, _) => .notImplemented         -- supported by Snowflake, rejected by fakesnow: acceptable
    | (none, p, s) => .decimal (p.getD (.num 38)) (s.getD (.num 0))

def slots (args : List NArg) : Option NArg × Option NArg × Option NArg := (args[0]?, args[1]?, args[2]?)

/-- scale-down of a decimal mantissa: Snowflake (and DuckDB's string → DECIMAL cast) round half away from zero;
    DuckDB 1.0's DECIMAL → DECIMAL cast truncates -/
def roundHalfAway (m : Int) (d : Nat) : Int :=
  if m ≥ 0 then (m + d / 2) / d else -((-m + d / 2) / d)
def truncDiv (m : Int) (d : Nat) : Int := if m ≥ 0 then m / d else -(-m / d)

/-- does the mantissa fit `p` digits? -/
def fitsDigits (m : Int) (p : Nat) : Bool := m.natAbs < 10 ^ p

/-! ## TO_TIMESTAMP(<integer> [, scale]) (transforms.py `to_timestamp`; sqlglot renders `exp.UnixToTime` by scale) -/

/-- the DuckDB function sqlglot's generator picks for `UnixToTime(n, scale)` -/
inductive TsFn where
  | toTimestamp     -- to_timestamp(n) / to_timestamp(n / power(10, scale)) : TIMESTAMP WITH TIME ZONE
  | epochMs         -- epoch_ms(n)        : TIMESTAMP
  | makeTimestamp   -- make_timestamp(n)  : TIMESTAMP
deriving DecidableEq, Repr

def unixToTimeFn (scale : Option Nat) : TsFn :=
  match scale with
  | some 3 => .epochMs
  | some 6 => .makeTimestamp
  | _ => .toTimestamp

def TsFn.tzAware : TsFn → Bool
  | .toTimestamp => true
  | _ => false

/-- fakesnow wraps EVERY UnixToTime in `CAST(… AS TIMESTAMP)`; `castAlways = false` models leaving the cast out
    when a scale is given -/
def toTimestampTzAware (castAlways : Bool) (scale : Option Nat) : Bool :=
  if castAlways || scale.isNone then false else (unixToTimeFn scale).tzAware

/-! ## DECIMAL(p,s) in `cursor.description` (types.py `describe_as_rowtype`: regex `\((\d+),(\d+)\)` on DuckDB's type text) -/

def renderDecimalType (p s : Nat) : List Char :=
  "DECIMAL(".toList ++ natDigits p ++ ',' :: (natDigits s ++ [')'])

/-- precision and scale read back from the type text (defaults 38, 0 when it does not parse) -/
def parseDecimalType (cs : List Char) : Nat × Nat :=
  if cs.take 8 = "DECIMAL(".toList then
    let rest := cs.drop 8
    match rest.dropWhile isDigit with
    | ',' :: r2 =>
      match r2.dropWhile isDigit with
      | ')' :: _ => (digitsVal (rest.takeWhile isDigit), digitsVal (r2.takeWhile isDigit))
      | _ => (38, 0)
    | _ => (38, 0)
  else (38, 0)

/-- the regex of the seeded variant: one or two precision digits, ONE scale digit -/
def parseDecimalTypeOneDigitScale (cs : List Char) : Nat × Nat :=
  let (p, s) := parseDecimalType cs
  if s < 10 then (p, s) else (38, 0)

/-! ## `integer_precision` (transforms.py): only a parameter-less DECIMAL/NUMBER becomes BIGINT -/

inductive NumType where
  | bigint
  | decimal (p s : Nat)
deriving DecidableEq, Repr

/-- NUMBER / NUMBER(p) / NUMBER(p, s) as it reaches DuckDB -/
def integerPrecision (params : List Nat) : NumType :=
  match params with
  | [] => .bigint
  | [p] => .decimal p 0
  | p :: s :: _ => .decimal p s

/-- does a value of `digits` integer digits fit the type? (BIGINT: up to 18 digits always) -/
def NumType.fitsIntDigits : NumType → Nat → Bool
  | .bigint, d => d ≤ 18
  | .decimal p s, d => d + s ≤ p

/-! ## DATEADD result type (transforms.py:254 `dateadd_date_cast`, :291) -/

inductive DUnit where
  | year | quarter | month | week | day | hour | minute | second
deriving DecidableEq, Repr

/-- how the date argument is written -/
inductive DShape where
  | castDate     -- `x::date`, `CAST(x AS DATE)`, `TO_DATE(x)` (`to_date` ran earlier in the pipeline and made it a cast)
  | dateExpr     -- a DATE that is not syntactically a cast: a DATE column, CURRENT_DATE, a nested DATEADD
  | tsExpr       -- a TIMESTAMP expression
  | strLit       -- a string literal (implicitly a timestamp)
deriving DecidableEq, Repr

inductive RType where
  | date | timestamp
deriving DecidableEq, Repr

def DUnit.dayOrLarger : DUnit → Bool
  | .year | .quarter | .month | .week | .day => true
  | _ => false

/-- the code: a DATE cast is added iff the operand is a syntactic cast to DATE and the unit is one of the four
    listed names; DuckDB's `date + interval` is a TIMESTAMP otherwise -/
def dateaddImpl (u : DUnit) (s : DShape) : RType :=
  if s = .castDate && (u = .day || u = .week || u = .month || u = .year) then .date else .timestamp

/-- documented: a DATE stays a DATE for units of a day or larger, becomes TIMESTAMP_NTZ for smaller units;
    timestamps and string literals give timestamps -/
def dateaddSpec (u : DUnit) (s : DShape) : RType :=
  if (s = .castDate || s = .dateExpr) && u.dayOrLarger then .date else .timestamp

/-! ## EQUAL_NULL (macros.py: `a IS NOT DISTINCT FROM b`) -/

def isNotDistinct {α} [DecidableEq α] (a b : Option α) : Bool :=
  match a, b with
  | none, none => true
  | some x, some y => x = y
  | _, _ => false

/-- documented: like `=`, but NULLs compare equal to each other and different from everything else -/
def equalNullSpec {α} [DecidableEq α] (a b : Option α) : Bool :=
  if a.isNone && b.isNone then true else if a.isNone || b.isNone then false else a = b

/-- the macro is created by `connect()` for its database (conn.py → macros.creation_sql), not by a CREATE DATABASE
    statement (cursor.py:280-283 only creates the information-schema extensions) -/
inductive DbOrigin where
  | connect | createStatement
deriving DecidableEq, Repr

def equalNullAvailable : DbOrigin → Bool
  | .connect => true
  | .createStatement => false

/-! ## VALUES column names (transforms.py:1313) -/

def columnName (i : Nat) : List Char := "COLUMN".toList ++ natDigits (i + 1)

/-- the alias columns attached to an un-aliased VALUES under a SELECT with `n` columns in its first row -/
def valuesColumns (n : Nat) : List (List Char) := (List.range n).map columnName

def valuesRule (underSelect hasAlias : Bool) (n : Nat) : Option (List (List Char)) :=
  if underSelect && !hasAlias then some (valuesColumns n) else none

/-! ## RANDOM(seed) (transforms.py:699, cursor.py:244) -/

def int32Max : Int := 2147483647

/-- `setseed(seed/2147483647-0.5)` as an exact fraction `num / (2·2147483647)` -/
def seedNum (s : Int) : Int := 2 * s - int32Max
def seedDen : Int := 2 * int32Max

/-- DuckDB's `setseed` accepts [-1, 1] -/
def seedInDomain (s : Int) : Bool := -seedDen ≤ seedNum s && seedNum s ≤ seedDen

/-- a RANDOM call in a SELECT: no argument, a non-negative integer literal, or something else (`-5` is `Neg(5)`) -/
inductive RandArg where
  | none
  | lit (n : Nat)
  | other
deriving DecidableEq, Repr

/-- per RANDOM call: was it rewritten to the BIGINT expression?; and the seed handed to `setseed` -/
structure RandOut where
  rewritten : List Bool
  seed : Option Nat
deriving DecidableEq, Repr

/-- the code rewrites only the FIRST `exp.Rand` it finds in the SELECT and seeds only from a literal argument -/
def randomImpl (calls : List RandArg) : RandOut :=
  match calls with
  | [] => { rewritten := [], seed := none }
  | c :: rest => { rewritten := true :: rest.map (fun _ => false), seed := match c with | .lit n => some n | _ => none }

/-- `random` fires on every SELECT node that contains an `exp.Rand`, and the replacement itself contains one: a call
    below `depth` nested SELECTs is wrapped `depth` times (once is right; twice overflows the BIGINT cast) -/
def randomWraps (selectDepth : Nat) : Nat := selectDepth

/-- every RANDOM call becomes a 64-bit integer; the statement is seeded iff a seed was given -/
def randomSpecRewritten (calls : List RandArg) : List Bool := calls.map fun _ => true

/-! ## SHA2 family (transforms.py:1465) -/

inductive ShaFn where
  | sha2 | sha2Hex | sha2Binary
deriving DecidableEq, Repr

inductive ShaOut where
  | hex256          -- SHA256(x): 64 hex characters
  | bin256          -- UNHEX(SHA256(x)): 32 bytes
  | passedOn        -- not rewritten: DuckDB has no such function (CatalogException → rejected)
deriving DecidableEq, Repr

def sha2Rule (fn : ShaFn) (len : Option Nat) : ShaOut :=
  if len.getD 256 = 256 then (match fn with | .sha2Binary => .bin256 | _ => .hex256) else .passedOn

/-- the digest length of an answer -/
def ShaOut.bits : ShaOut → Option Nat
  | .hex256 => some 256
  | .bin256 => some 256
  | .passedOn => none

/-! ## alias reuse in JOIN … ON (transforms.py:18 `alias_in_join`) -/

/-- the ON clause of one join, as the rewrite sees it -/
inductive JoinOn where
  | noOn                    -- CROSS JOIN, JOIN … USING (..)
  | aliasLeft (name : Nat)  -- ON <bare column `name`> <op> <expr>
  | other                   -- a compound (AND/OR), parenthesised or qualified-column ON
deriving DecidableEq, Repr

/-- is this join's ON rewritten (the bare column replaced by the select-list expression of that alias)? -/
def rewriteJoin (aliases : List Nat) : JoinOn → Bool
  | .aliasLeft n => aliases.contains n
  | _ => false

/-- the loop of the code over the joins of the SELECT, one decision per join -/
def aliasInJoin (aliases : List Nat) : List JoinOn → List Bool
  | [] => []
  | j :: js => rewriteJoin aliases j :: aliasInJoin aliases js

/-- the same loop leaving at the first join it has nothing to do for (`break` instead of falling through) -/
def aliasInJoinBreak (aliases : List Nat) : List JoinOn → List Bool
  | [] => []
  | .aliasLeft n :: js => aliases.contains n :: aliasInJoinBreak aliases js
  | j :: js => (j :: js).map fun _ => false

/-! ## ARRAY_AGG (transforms.py:58,68: `TO_JSON(ARRAY_AGG(x) FILTER (WHERE x IS NOT NULL))`) -/

/-- NULLs are not collected; DuckDB's aggregate over no rows is NULL -/
def arrayAggImpl (xs : List (Option Int)) : Option (List Int) :=
  if (xs.filterMap id).isEmpty then none else some (xs.filterMap id)

/-- `ARRAY_AGG(x) WITHIN GROUP (ORDER BY …)` → `TO_JSON(ARRAY_AGG(x ORDER BY …))`: this path has no NULL filter -/
def arrayAggWithinImpl (sorted : List (Option Int)) : List (Option Int) := sorted

/-- documented: the non-NULL inputs, an empty ARRAY when there are none -/
def arrayAggSpec (xs : List (Option Int)) : Option (List Int) := some (xs.filterMap id)

/-! ## DATEDIFF for year / quarter / month: the number of unit boundaries crossed -/

def ymIndex (u : DUnit) (y m : Int) : Int :=
  match u with
  | .year => y
  | .quarter => y * 4 + (m - 1) / 3
  | _ => y * 12 + m

def dateDiffYM (u : DUnit) (a b : Int × Int) : Int := ymIndex u b.1 b.2 - ymIndex u a.1 a.2

/-! ## TRIM(s, chars) (`trim_cast_varchar` rebuilds the node with `this` only) -/

def stripChars (chars : List Char) (s : List Char) : List Char :=
  ((s.dropWhile chars.contains).reverse.dropWhile chars.contains).reverse

/-- `trim_cast_varchar` leaves a TRIM whose operand already is a cast to VARCHAR/TEXT untouched (characters argument
    kept); otherwise it rebuilds the node from `this` only and the characters argument is lost -/
def trimImplG (operandIsTextCast : Bool) (s : List Char) (chars : Option (List Char)) : List Char :=
  if operandIsTextCast then stripChars (chars.getD [' ']) s else stripChars [' '] s

def trimImpl (s : List Char) (chars : Option (List Char)) : List Char := trimImplG false s chars
def trimSpec (s : List Char) (chars : Option (List Char)) : List Char := stripChars (chars.getD [' ']) s

/-! ## "wherever it appears": a node-local rewrite under sqlglot's traversal -/

/-- generic expression/statement tree: leaves, and nodes with one, two or three children (function calls,
    operators, SELECT list / WHERE / CTE / DML / view bodies are all just nodes) -/
inductive X where
  | leaf (n : Nat)
  | n1 (f : Nat) (a : X)
  | n2 (f : Nat) (a b : X)
  | n3 (f : Nat) (a b c : X)
deriving DecidableEq, Repr

def topDownX (r : X → Option X) (e : X) : X :=
  match r e with
  | some e' => e'
  | none =>
    match e with
    | .leaf n => .leaf n
    | .n1 f a => .n1 f (topDownX r a)
    | .n2 f a b => .n2 f (topDownX r a) (topDownX r b)
    | .n3 f a b c => .n3 f (topDownX r a) (topDownX r b) (topDownX r c)

/-- an IN-PLACE rule (the node object is kept and patched — `regex_replace`, `json_extract_cast_as_varchar`): only the
    node's own symbol changes and the traversal goes on into its children -/
def inPlaceX (g : Nat → Nat) : X → X
  | .leaf n => .leaf n
  | .n1 f a => .n1 (g f) (inPlaceX g a)
  | .n2 f a b => .n2 (g f) (inPlaceX g a) (inPlaceX g b)
  | .n3 f a b c => .n3 (g f) (inPlaceX g a) (inPlaceX g b) (inPlaceX g c)

/-- a context: a tree with one hole -/
inductive Cx where
  | hole
  | n1 (f : Nat) (c : Cx)
  | n2l (f : Nat) (c : Cx) (b : X)
  | n2r (f : Nat) (a : X) (c : Cx)
  | n3l (f : Nat) (c : Cx) (b d : X)
  | n3m (f : Nat) (a : X) (c : Cx) (d : X)
  | n3r (f : Nat) (a b : X) (c : Cx)

def Cx.plug : Cx → X → X
  | .hole, e => e
  | .n1 f c, e => .n1 f (c.plug e)
  | .n2l f c b, e => .n2 f (c.plug e) b
  | .n2r f a c, e => .n2 f a (c.plug e)
  | .n3l f c b d, e => .n3 f (c.plug e) b d
  | .n3m f a c d, e => .n3 f a (c.plug e) d
  | .n3r f a b c, e => .n3 f a b (c.plug e)

/-- the context with the rewrite applied to the subtrees hanging off the path to the hole -/
def Cx.map (g : X → X) : Cx → Cx
  | .hole => .hole
  | .n1 f c => .n1 f (c.map g)
  | .n2l f c b => .n2l f (c.map g) (g b)
  | .n2r f a c => .n2r f (g a) (c.map g)
  | .n3l f c b d => .n3l f (c.map g) (g b) (g d)
  | .n3m f a c d => .n3m f (g a) (c.map g) (g d)
  | .n3r f a b c => .n3r f (g a) (g b) (c.map g)

/-- the context under an in-place rule: every node on the path is patched too -/
def Cx.inPlace (g : Nat → Nat) : Cx → Cx
  | .hole => .hole
  | .n1 f c => .n1 (g f) (c.inPlace g)
  | .n2l f c b => .n2l (g f) (c.inPlace g) (inPlaceX g b)
  | .n2r f a c => .n2r (g f) (inPlaceX g a) (c.inPlace g)
  | .n3l f c b d => .n3l (g f) (c.inPlace g) (inPlaceX g b) (inPlaceX g d)
  | .n3m f a c d => .n3m (g f) (inPlaceX g a) (c.inPlace g) (inPlaceX g d)
  | .n3r f a b c => .n3r (g f) (inPlaceX g a) (inPlaceX g b) (c.inPlace g)

/-- the rule does not fire on any node on the path from the root to the hole (with `e` plugged in) -/
def Cx.quiet (r : X → Option X) : Cx → X → Prop
  | .hole, _ => True
  | .n1 f c, e => r (.n1 f (c.plug e)) = none ∧ c.quiet r e
  | .n2l f c b, e => r (.n2 f (c.plug e) b) = none ∧ c.quiet r e
  | .n2r f a c, e => r (.n2 f a (c.plug e)) = none ∧ c.quiet r e
  | .n3l f c b d, e => r (.n3 f (c.plug e) b d) = none ∧ c.quiet r e
  | .n3m f a c d, e => r (.n3 f a (c.plug e) d) = none ∧ c.quiet r e
  | .n3r f a b c, e => r (.n3 f a b (c.plug e)) = none ∧ c.quiet r e

end Fs.Rewrite
