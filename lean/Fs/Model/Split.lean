import Fs.Model.Lex
/-!
# Model of `conn.execute_string` (`conn.py:128-141`) and of the `nop_regexes` decision (`cursor.py:140-143`)

`execute_string` = `sqlglot.parse(text)` (tokenize the WHOLE text, split the token stream at `;`, parse every part —
parts without tokens give `None`/`Semicolon` and are dropped), then for each remaining statement
`self.cursor(cls).execute(stmt.sql(dialect="snowflake"))` in a list comprehension (an exception ends it; no cursor list
is returned then).  Statement-level meaning preservation of sqlglot's parse→generate round trip is NOT modelled here
(only literals: `Fs.Gen.sfLit`); it is covered by the twin-instance comparison of the correspondence check.
-/
namespace Fs.Split
open Fs.Lex

/-- split a token stream at `;`, dropping parts without tokens (comment-only / empty statements) -/
def splitGo : List Tok → List Tok → List (List Tok)
  | cur, [] => if cur.isEmpty then [] else [cur]
  | cur, t :: ts =>
    if t = .semi then (if cur.isEmpty then splitGo [] ts else cur :: splitGo [] ts)
    else splitGo (cur ++ [t]) ts

def split (ts : List Tok) : List (List Tok) := splitGo [] ts

/-- number of statements `execute_string` will execute (= cursors it returns); `none` = TokenError -/
def stmtCount (text : List Char) : Option Nat := (lex text).map fun ts => (split ts).length

def joinSemi : List (List Tok) → List Tok
  | [] => []
  | [p] => p
  | p :: ps => p ++ .semi :: joinSemi ps

/-! ## running the statements -/

section
variable {W S R E : Type}

/-- one cursor per statement, in order; the first failure ends the run (later statements are not executed) -/
def runAll (exec : W → S → W × Except E R) : W → List S → W × List R × Option E
  | w, [] => (w, [], none)
  | w, s :: ss =>
    match exec w s with
    | (w', .ok r) => ((runAll exec w' ss).1, r :: (runAll exec w' ss).2.1, (runAll exec w' ss).2.2)
    | (w', .error e) => (w', [], some e)

/-- the code as it exists: every statement of the text is parsed before the first one is executed -/
def execString (parses : S → Bool) (parseErr : E) (exec : W → S → W × Except E R) (w : W) (ss : List S) :
    W × List R × Option E :=
  if ss.all parses then runAll exec w ss else (w, [], some parseErr)

/-- the specification: the statements one by one, each parsed when its turn comes -/
def oneByOne (parses : S → Bool) (parseErr : E) (exec : W → S → W × Except E R) (w : W) (ss : List S) :
    W × List R × Option E :=
  runAll (fun w s => if parses s then exec w s else (w, .error parseErr)) w ss

/-! ## nop_regexes -/

/-- `self._conn.nop_regexes and any(re.match(p, command, re.IGNORECASE) for p in nop_regexes)`;
    `m p cmd` stands for `re.match` (trusted: CPython `re`) -/
def nopDecision {P C : Type} (pats : Option (List P)) (m : P → C → Bool) (cmd : C) : Bool :=
  match pats with
  | none => false
  | some ps => ps.any fun p => m p cmd

/-- `execute` around the decision: a matching command returns the success status and touches nothing -/
def executeNop {P C : Type} (pats : Option (List P)) (m : P → C → Bool) (success : R)
    (exec : W → C → W × Except E R) (w : W) (cmd : C) : W × Except E R :=
  if nopDecision pats m cmd then (w, .ok success) else exec w cmd

/-- `cursor.execute` (`cursor.py:138-143`), phases in the order of the code: the command is PREPARED first — session
    variables inlined, client-side parameters substituted (`prep`; it raises for an undefined variable or a bad
    format) — and only the prepared text is shown to the nop patterns -/
def executePhased {P C T : Type} (prep : C → Except E T) (pats : Option (List P)) (m : P → T → Bool) (success : R)
    (exec : W → T → W × Except E R) (w : W) (cmd : C) : W × Except E R :=
  match prep cmd with
  | .error e => (w, .error e)
  | .ok t => executeNop pats m success exec w t

/-- a history of commands on one connection with the option configured: the world after all of them.  `W` is the whole
    state a statement can touch — tables, rows, and the side tables holding comments and declared lengths -/
def runCmds {P C : Type} (pats : Option (List P)) (m : P → C → Bool) (success : R)
    (exec : W → C → W × Except E R) : W → List C → W
  | w, [] => w
  | w, c :: cs => runCmds pats m success exec (executeNop pats m success exec w c).1 cs
end

/-! ## an instance of the world: one connection with an optional open transaction -/

/-- committed rows, and the rows as the open transaction (if any) sees them -/
structure TxW where
  committed : List Nat
  pending : Option (List Nat)
  deriving DecidableEq, Repr

inductive TxS where
  | begin | ins (n : Nat) | fail | commit | rollback
  deriving DecidableEq, Repr

/-- DuckDB as fakesnow drives it: a failing statement (catalog / binder error) leaves an open transaction open -/
def txExec (w : TxW) : TxS → TxW × Except Unit Unit
  | .begin => ({ w with pending := some (w.pending.getD w.committed) }, .ok ())
  | .ins n =>
    match w.pending with
    | some rows => ({ w with pending := some (rows ++ [n]) }, .ok ())
    | none => ({ w with committed := w.committed ++ [n] }, .ok ())
  | .fail => (w, .error ())
  | .commit => ({ committed := w.pending.getD w.committed, pending := none }, .ok ())
  | .rollback => ({ w with pending := none }, .ok ())

end Fs.Split
