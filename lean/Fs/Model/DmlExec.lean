import Fs.Spec.Dml
/-
Model of the result plumbing at the end of `FakeSnowflakeCursor._execute` (fakesnow/cursor.py) for DML:

    affected_count = None
    …
    elif cmd == "INSERT":  (affected_count,) = duck.fetchall()[0];  result_sql = SQL_INSERTED_ROWS(count)
    elif cmd == "UPDATE":  …                                         result_sql = SQL_UPDATED_ROWS(count)
    elif cmd == "DELETE":  …                                         result_sql = SQL_DELETED_ROWS(count)
    elif cmd == "TRUNCATETABLE":                                     result_sql = SQL_SUCCESS
    …
    if result_sql: duck.execute(result_sql)
    self._arrow_table = duck.fetch_arrow_table()
    self._rowcount = affected_count if affected_count is not None else self._arrow_table.num_rows

`expr.key_command` classifies the statement (`Cmd`); DuckDB's answer to a DML statement is a one-row
result holding the count (`engine`).  `finishOld` is the formula before the `fix:` commit
(`affected_count or num_rows`), kept for the regression witness.
-/
namespace Fs.Dml

/-- `expr.key_command` on the statement kinds of this model -/
inductive Cmd | insert | update | delete | truncatetable
deriving DecidableEq, Repr

def keyCommand : Stmt → Cmd
  | .insert .. => .insert
  | .update .. => .update
  | .delete .. => .delete
  | .truncate _ => .truncatetable

/-- a result set on the DuckDB cursor: column names and rows -/
structure ResultSet where
  names : List String
  rows : List (List Cell)
deriving DecidableEq, Repr

/-- what the per-command branch leaves behind -/
structure Branch where
  affected : Option Nat            -- `affected_count`
  resultSql : Option ResultSet     -- the result of `result_sql`, if one is set
deriving DecidableEq, Repr

/-- the templates `SQL_INSERTED_ROWS`, `SQL_UPDATED_ROWS`, `SQL_DELETED_ROWS`, `SQL_SUCCESS` -/
def sqlInserted (n : Nat) : ResultSet := ⟨["number of rows inserted"], [[.int n]]⟩
def sqlUpdated (n : Nat) : ResultSet :=
  ⟨["number of rows updated", "number of multi-joined rows updated"], [[.int n, .int 0]]⟩
def sqlDeleted (n : Nat) : ResultSet := ⟨["number of rows deleted"], [[.int n]]⟩
def sqlSuccess : ResultSet := ⟨["status"], [[.text successText]]⟩

/-- `cursor.py` per-command branches; `count` is the single cell of DuckDB's result -/
def branch (cmd : Cmd) (count : Nat) : Branch :=
  match cmd with
  | .insert => ⟨some count, some (sqlInserted count)⟩
  | .update => ⟨some count, some (sqlUpdated count)⟩
  | .delete => ⟨some count, some (sqlDeleted count)⟩
  | .truncatetable => ⟨none, some sqlSuccess⟩

/-- the branches before the TRUNCATE `fix:` (no branch matched: no affected count, no result_sql) -/
def branchOld (cmd : Cmd) (count : Nat) : Branch :=
  match cmd with
  | .truncatetable => ⟨none, none⟩
  | c => branch c count

/-- the tail of `_execute`: `engineResult` is what is still on the DuckDB cursor when no result_sql runs -/
def finish (engineResult : ResultSet) (b : Branch) : Obs :=
  let rs := b.resultSql.getD engineResult
  { names := rs.names, rows := rs.rows,
    rowcount := match b.affected with
      | some n => n
      | none => rs.rows.length }

/-- Python's `x or y` on an optional count: `None` and `0` are both falsy -/
def pyOr (a : Option Nat) (b : Nat) : Nat :=
  match a with
  | some (n + 1) => n + 1
  | _ => b

/-- the tail of `_execute` before the rowcount `fix:` -/
def finishOld (engineResult : ResultSet) (b : Branch) : Obs :=
  let rs := b.resultSql.getD engineResult
  { names := rs.names, rows := rs.rows, rowcount := pyOr b.affected rs.rows.length }

/-- DuckDB's own result of a DML statement: one row, one BIGINT column named `Count` -/
def engineResult (n : Nat) : ResultSet := ⟨["Count"], [[.int n]]⟩

namespace Impl

/-- one `cursor.execute` of a DML statement: engine, then the cursor's result plumbing -/
def step (db : DB) (s : Stmt) : Except Err (DB × Obs) :=
  match engine db s with
  | .error e => .error e
  | .ok (db', n) => .ok (db', finish (engineResult n) (branch (keyCommand s) n))

/-- the same on the tree before the `fix:` commits -/
def stepOld (db : DB) (s : Stmt) : Except Err (DB × Obs) :=
  match engine db s with
  | .error e => .error e
  | .ok (db', n) => .ok (db', finishOld (engineResult n) (branchOld (keyCommand s) n))

end Impl

/-! ### what the cursor holds around a statement (`_execute` resets `_arrow_table`, `_arrow_table_fetch_index`, `_rowcount` FIRST) -/

/-- the result fields of a cursor -/
structure CurRes where
  result : Option ResultSet := none      -- `_arrow_table` (None: fetch raises "No open result set")
  rowcount : Option Nat := none
deriving DecidableEq, Repr

/-- one `cursor.execute` on a cursor that may hold an earlier result: the fields are reset before anything can fail -/
def Impl.executeOn (_prev : CurRes) (db : DB) (s : Stmt) : CurRes × Except Err DB :=
  match Impl.step db s with
  | .error e => ({}, .error e)
  | .ok (db', o) => ({ result := some ⟨o.names, o.rows⟩, rowcount := some o.rowcount }, .ok db')

/-! ### `connection.execute_string` and `nop_regexes` (conn.py:128-141, cursor.py:140-143) -/

/-- `execute_string`: one **new** cursor per statement, executed in order; the first rejected statement raises and
    ends the script (the statements before it have run).  The result is the list of cursors = the list of what
    each cursor holds. -/
def executeString (step : DB → Stmt → Except Err (DB × Obs)) (db : DB) : List Stmt → Except Err (List Obs) × DB
  | [] => (.ok [], db)
  | s :: ss =>
    match step db s with
    | .error e => (.error e, db)
    | .ok (db', o) =>
      let r := executeString step db' ss
      (r.1.map (o :: ·), r.2)

/-- the same script run on ONE shared cursor (what `execute_string` must not do): every returned entry is the
    same cursor object, so all of them show what the last statement left -/
def executeStringShared (step : DB → Stmt → Except Err (DB × Obs)) (db : DB) (ss : List Stmt) : Except Err (List Obs) × DB :=
  let r := executeString step db ss
  (r.1.map fun os => os.map fun _ => os.getLast?.getD ⟨[], [], 0⟩, r.2)

def lowerAscii (c : Char) : Char :=
  if 'A'.toNat ≤ c.toNat ∧ c.toNat ≤ 'Z'.toNat then Char.ofNat (c.toNat + 32) else c

/-- `re.match(word, text, re.IGNORECASE)` for a pattern that is a plain word: the text starts with it, ignoring case -/
def matchAtStart (word text : List Char) : Bool :=
  word.length ≤ text.length && (text.take word.length).map lowerAscii == word.map lowerAscii

/-- `cursor.execute` on a connection with `nop_regexes` (plain words): a statement whose text STARTS with one of
    the words is answered with the success status and not run; every other statement is executed normally -/
def Impl.stepNop (words : List (List Char)) (text : List Char) (db : DB) (s : Stmt) : Except Err (DB × Obs) :=
  if words.any (fun w => matchAtStart w text) then .ok (db, ⟨sqlSuccess.names, sqlSuccess.rows, 1⟩)
  else Impl.step db s

/-! ### DDL status rows (`cursor.py:38-46, 304-319`) -/

structure Ident where
  raw : List Char
  quoted : Bool
deriving DecidableEq, Repr

def upperAscii (c : Char) : Char :=
  if 'a'.toNat ≤ c.toNat ∧ c.toNat ≤ 'z'.toNat then Char.ofNat (c.toNat - 32) else c

/-- `eid.this if eid.quoted else eid.this.upper()` (ASCII envelope) -/
def Ident.norm (i : Ident) : List Char := if i.quoted then i.raw else i.raw.map upperAscii

inductive DdlKind
  | createDatabase | createSchema | createTable | createView | drop
  | alter | commentOnTable | alterSetComment | truncate | commentOnColumn
deriving DecidableEq, Repr

def DdlKind.named : DdlKind → Bool
  | .createDatabase | .createSchema | .createTable | .createView | .drop => true
  | _ => false

def statusPrefix : DdlKind → List Char
  | .createDatabase => "Database ".toList
  | .createSchema => "Schema ".toList
  | .createTable => "Table ".toList
  | .createView => "View ".toList
  | _ => []

def statusSuffix : DdlKind → List Char
  | .drop => " successfully dropped.".toList
  | _ => " successfully created.".toList

/-- the text cell of the status row the cursor returns for a DDL statement on object `name`
    (`name` = the first identifier sqlglot's depth-first walk meets = the object's own name);
    `none` = the cursor returns no row at all (COMMENT ON COLUMN goes to DuckDB as it is and DuckDB
    answers with an empty result) -/
def ddlStatus (k : DdlKind) (name : Ident) : Option (List Char) :=
  if k.named then some (statusPrefix k ++ name.norm ++ statusSuffix k)
  else if k = .commentOnColumn then none
  else some successText.toList

/-- statement kinds whose follow-up SQL splices the object name, unescaped, into a string literal: the
    status templates (`string.Template`, `SELECT '<text>' as 'status'`) and the table-comment side-table
    insert (`info_schema.insert_table_comment_sql`) -/
def DdlKind.splicesName (k : DdlKind) : Bool :=
  k.named || k == .commentOnTable || k == .alterSetComment

/-- the follow-up SQL is well formed iff the normalised name has no single quote (otherwise the statement
    has already run on DuckDB and a raw ParserException escapes) -/
def statusSqlWellFormed (k : DdlKind) (name : Ident) : Bool :=
  !k.splicesName || !(name.norm.contains '\'')

/-- what Snowflake answers (transcribed from its documented behaviour; there is no Snowflake in the
    sandbox): `noop` = the statement had IF [NOT] EXISTS and did nothing -/
def Spec.ddlStatus (k : DdlKind) (name : Ident) (noop : Bool) : Option (List Char) :=
  if k.named then
    if noop then
      match k with
      | .drop => some ("Drop statement executed successfully (".toList ++ name.norm ++ " already dropped).".toList)
      | _ => some (name.norm ++ " already exists, statement succeeded.".toList)
    else some (statusPrefix k ++ name.norm ++ statusSuffix k)
  else some successText.toList

/-- `IDENTIFIER('<text>')` as object name: `transforms.identifier` turns the literal's text into ONE unquoted identifier (after
    `upper_case_unquoted_identifiers` has run, so the `.upper()` in the status branch is what upper-cases it) -/
def identifierArg (lit : List Char) : Ident := ⟨lit, false⟩

/-- the text after the last `.` -/
def lastPart (cs : List Char) : List Char := cs.foldl (fun acc c => if c = '.' then [] else acc ++ [c]) []

/-- what Snowflake resolves `IDENTIFIER('<text>')` to, for the status row: the object's own (last) name part, unquoted -/
def Spec.identifierName (lit : List Char) : Ident := ⟨lastPart lit, false⟩

def ddlFindingIdentifier (k : DdlKind) (lit : List Char) : Option String :=
  if k.named ∧ lit.contains '.' then some "C04/ddl-status-identifier-qualified" else none

/-! ### order of the client-side phases of `cursor.execute` (cursor.py:138-139): variables are inlined into the command
    text FIRST, pyformat/format parameters are bound AFTERWARDS -/

/-- a command text with placeholders -/
inductive Seg
  | text (s : List Char)
  | ph                         -- `%s` / `%(name)s`
  | lit (v : List Char)        -- a bound value, rendered as a quoted literal
deriving DecidableEq, Repr

/-- `_inline_variables`: some substitution `f` applied to the command text (placeholders are not text) -/
def inlineSegs (f : List Char → List Char) : List Seg → List Seg
  | [] => []
  | .text s :: r => .text (f s) :: inlineSegs f r
  | x :: r => x :: inlineSegs f r

/-- `_rewrite_with_params`: placeholders are replaced, left to right, by the bound values -/
def bindSegs : List Seg → List (List Char) → List Seg
  | [], _ => []
  | .ph :: r, v :: vs => .lit v :: bindSegs r vs
  | x :: r, vs => x :: bindSegs r vs

/-- the values that reach the engine as literals -/
def litValues : List Seg → List (List Char)
  | [] => []
  | .lit v :: r => v :: litValues r
  | _ :: r => litValues r

def placeholders : List Seg → Nat
  | [] => 0
  | .ph :: r => placeholders r + 1
  | _ :: r => placeholders r

/-- the code's order: inline, then bind -/
def prepare (f : List Char → List Char) (cmd : List Seg) (vs : List (List Char)) : List Seg := bindSegs (inlineSegs f cmd) vs

/-- the wrong order (bind, then inline over everything incl. the bound literals) -/
def prepareSwapped (f : List Char → List Char) (cmd : List Seg) (vs : List (List Char)) : List Seg :=
  (bindSegs cmd vs).map fun | .lit v => .lit (f v) | .text s => .text (f s) | .ph => .ph

/-- finding regions of the DDL status (single source of truth for the driver) -/
def ddlFinding (k : DdlKind) (name : Ident) (noop : Bool) : Option String :=
  if k.splicesName ∧ name.norm.contains '\'' then some "C04/ddl-quote-in-name"
  else if k.named ∧ noop then some "C04/ddl-status-if-exists-noop"
  else if k = .commentOnColumn then some "C04/comment-on-column-no-status"
  else none

end Fs.Dml
