import Fs.Model.Lex
import Fs.Model.Params
/-!
# Model of session variables (`fakesnow/variables.py`, `cursor.py:138,448`, `conn.py:52`)

`Variables` = one dict per connection, name (upper-cased by `upper_case_unquoted_identifiers`) ↦ SQL text of the
value.  `inline` models the repaired `inline_variables`: `re.sub(r"(?<!\$)\$(\w+)", callback, sql)` — one pass,
greedy `\w+`, lookup of the upper-cased name, value returned by the callback (inserted verbatim), an undefined
reference raises from the callback.  `oldInline` models the pinned code (one `re.sub` per variable in insertion
order, then a search for a remaining `$word`), kept for the regression witnesses.
CPython `re` behaviour modelled: `\w` on ASCII (`[A-Za-z0-9_]`; non-ASCII word characters are outside the
envelope), leftmost non-overlapping matches, the one-character look-behind.
-/
namespace Fs.Vars

def isWord (c : Char) : Bool := c.isAlphanum || c = '_'
def upper (s : List Char) : List Char := s.map Char.toUpper

/-- the dict: insertion-ordered association list, keys upper-cased -/
abbrev Env := List (List Char × List Char)

def Env.get : Env → List Char → Option (List Char)
  | [], _ => none
  | (k, v) :: e, n => if k = n then some v else Env.get e n

/-- `d[name] = value`: replace in place, or append -/
def Env.set : Env → List Char → List Char → Env
  | [], n, v => [(n, v)]
  | (k, x) :: e, n, v => if k = n then (k, v) :: e else (k, x) :: Env.set e n v

/-- `d.pop(name)` (KeyError when missing is decided by the caller) -/
def Env.unset : Env → List Char → Env
  | [], _ => []
  | (k, x) :: e, n => if k = n then e else (k, x) :: Env.unset e n

inductive Res where
  | ok (text : List Char)
  | undefined (name : List Char)     -- ProgrammingError "Session variable '$NAME' does not exist"
  deriving DecidableEq, Repr

def Res.app (v : List Char) : Res → Res
  | .ok t => .ok (v ++ t)
  | r => r

/-! ## what a reference is -/

inductive Tok where
  | txt (c : Char)             -- a character that is not part of a reference
  | ref (name : List Char)     -- `$name`, as written
  deriving DecidableEq, Repr

/-- scanner state: copying (was the previous character a `$`?), just after a `$` that may start a
    reference, inside a name -/
inductive St where
  | copy (prevDollar : Bool)
  | dollar
  | name (acc : List Char)
  deriving DecidableEq, Repr

/-- split a text into references and other characters: a reference is a `$` not preceded by `$`, followed
    by the longest non-empty run of word characters -/
def tokenize : St → List Char → List Tok
  | .copy _, [] => []
  | .dollar, [] => [.txt '$']
  | .name acc, [] => [.ref acc]
  | .copy pd, c :: cs =>
    if c = '$' then (if pd then .txt '$' :: tokenize (.copy true) cs else tokenize .dollar cs)
    else .txt c :: tokenize (.copy false) cs
  | .dollar, c :: cs =>
    if isWord c then tokenize (.name [c]) cs
    else if c = '$' then .txt '$' :: .txt '$' :: tokenize (.copy true) cs
    else .txt '$' :: .txt c :: tokenize (.copy false) cs
  | .name acc, c :: cs =>
    if isWord c then tokenize (.name (acc ++ [c])) cs
    else if c = '$' then .ref acc :: tokenize .dollar cs
    else .ref acc :: .txt c :: tokenize (.copy false) cs

def Tok.render : Tok → List Char
  | .txt c => [c]
  | .ref n => '$' :: n

def render : List Tok → List Char
  | [] => []
  | t :: ts => t.render ++ render ts

/-! ## Spec: every reference stands for its value; nothing else changes; values are not scanned -/

def substAll (env : Env) : List Tok → Res
  | [] => .ok []
  | .txt c :: ts => (substAll env ts).app [c]
  | .ref n :: ts =>
    match env.get (upper n) with
    | some v => (substAll env ts).app v
    | none => .undefined (upper n)

def Spec.inline (env : Env) (t : List Char) : Res := substAll env (tokenize (.copy false) t)

/-! ## Impl: the repaired `inline_variables` (regex scan with a callback), character by character -/

def resolve (env : Env) (acc : List Char) (k : Res) : Res :=
  match env.get (upper acc) with
  | some v => k.app v
  | none => .undefined (upper acc)

def inlineGo (env : Env) : St → List Char → Res
  | .copy _, [] => .ok []
  | .dollar, [] => .ok ['$']
  | .name acc, [] => resolve env acc (.ok [])
  | .copy pd, c :: cs =>
    if c = '$' then (if pd then (inlineGo env (.copy true) cs).app ['$'] else inlineGo env .dollar cs)
    else (inlineGo env (.copy false) cs).app [c]
  | .dollar, c :: cs =>
    if isWord c then inlineGo env (.name [c]) cs
    else if c = '$' then (inlineGo env (.copy true) cs).app ['$', '$']
    else (inlineGo env (.copy false) cs).app ['$', c]
  | .name acc, c :: cs =>
    if isWord c then inlineGo env (.name (acc ++ [c])) cs
    else if c = '$' then resolve env acc (inlineGo env .dollar cs)
    else resolve env acc ((inlineGo env (.copy false) cs).app [c])

def Impl.inline (env : Env) (t : List Char) : Res := inlineGo env (.copy false) t

/-! ## the pinned code (before the repair), for the regression witnesses -/

def startsWithCI : List Char → List Char → Bool
  | [], _ => true
  | _ :: _, [] => false
  | p :: ps, c :: cs => p.toUpper = c.toUpper && startsWithCI ps cs

/-- `re.sub("\$" + name, value, text, flags=IGNORECASE)` (value taken literally: template escapes not modelled) -/
def replaceCI (pat value : List Char) : Nat → List Char → List Char
  | _, [] => []
  | skip + 1, _ :: cs => replaceCI pat value skip cs
  | 0, c :: cs =>
    if startsWithCI pat (c :: cs) then value ++ replaceCI pat value (pat.length - 1) cs
    else c :: replaceCI pat value 0 cs

def oldSubst : Env → List Char → List Char
  | [], t => t
  | (k, v) :: e, t => oldSubst e (replaceCI ('$' :: k) v 0 t)

/-- first `(?<!\$)\$\w+` of a text -/
def firstRef : List Tok → Option (List Char)
  | [] => none
  | .ref n :: _ => some n
  | _ :: ts => firstRef ts

def oldInline (env : Env) (t : List Char) : Res :=
  let t' := oldSubst env t
  match firstRef (tokenize (.copy false) t') with
  | some n => .undefined (upper n)
  | none => .ok t'

/-! ## `$word` inside string literals, identifiers and comments -/

/-- is there a reference whose `$` is read while sqlglot's tokenizer is inside a string literal, `$$` string,
    quoted identifier or comment (`inCode = false`), resp. between tokens (`inCode = true`)? -/
def refAt (inCode : Bool) : Fs.Lex.St → Bool → List Char → Bool
  | _, _, [] => false
  | _, _, [_] => false
  | st, pd, c :: d :: rest =>
    (c = '$' && !pd && isWord d && (st.boundary == inCode)) || refAt inCode (Fs.Lex.step st c).2 (c = '$') (d :: rest)

def refInLiteral (t : List Char) : Bool := refAt false .top false t
def refInCode (t : List Char) : Bool := refAt true .top false t

/-! ## statements with bound parameters (`cursor.py:138-139`) -/

/-- the variable phase as the `inline` argument of `Fs.Params.phases` (`none` = it raised) -/
def inlineOpt (env : Env) (cmd : List Char) : Option (List Char) :=
  match Impl.inline env cmd with
  | .ok t => some t
  | .undefined _ => none

/-- text executed for `execute(cmd, params)` under a client-side paramstyle: variables are inlined in the command,
    then the (already quoted) values are substituted with `%` -/
def execBound (env : Env) (cmd : List Char) (a : Fs.Params.Args) : Option (Fs.Params.Fmt × Bool) :=
  Fs.Params.phases (inlineOpt env) .pyformat cmd a

/-- does the command reference a variable whose value contains `%`?  (such a value is pasted into the text that
    `%` then formats: region of the finding C15/percent-in-value-with-params) -/
def refPct (env : Env) (toks : List Tok) : Bool :=
  toks.any fun t => match t with
    | .ref n => match env.get (upper n) with
      | some v => v.contains '%'
      | none => false
    | .txt _ => false

/-! ## histories: one dict per connection -/

inductive Op where
  | set (conn : Nat) (name value : List Char)   -- SET name = <value text>, name already upper-cased
  | unset (conn : Nat) (name : List Char)
  | use (conn : Nat) (text : List Char)          -- any other statement: its text after inlining, or the error
  deriving Repr

abbrev World := List Env

def World.env (w : World) (i : Nat) : Env := w.getD i []

inductive Obs where
  | done
  | keyError                       -- UNSET of a name that is not set (raw KeyError of dict.pop)
  | text (r : Res)
  deriving DecidableEq, Repr

def wstep (w : World) : Op → World × Obs
  | .set i n v => (w.set i (Env.set (w.env i) n v), .done)
  | .unset i n => if (w.env i).get n = none then (w, .keyError) else (w.set i (Env.unset (w.env i) n), .done)
  | .use i t => (w, .text (Impl.inline (w.env i) t))

def wrun : World → List Op → World × List Obs
  | w, [] => (w, [])
  | w, o :: os => ((wrun (wstep w o).1 os).1, (wstep w o).2 :: (wrun (wstep w o).1 os).2)

end Fs.Vars
