/-
Mini relational engine used by C04 (the *modelled* part: DuckDB's DML semantics and the count it
returns; trusted base, exercised by the correspondence on every run).

Values are optional integers (NULL = none), rows are lists of values, a table is an arity plus a list
of rows (insertion order), a database is a list of tables addressed by position (the harness names
table `i` `T<i>` and its columns `C0..C<arity-1>`).  Predicates use SQL's three-valued logic.

The engine functions are written the way an executor works (one scan that both rewrites the rows and
counts); the declarative reading (filter / map / countP) is `Fs/Spec/Dml.lean`, and
`Fs/Proofs/Dml.lean` proves the two equal.
-/
namespace Fs.Dml

abbrev Val := Option Int
abbrev Row := List Val

/-- SQL truth values -/
inductive Tri | t | f | u
deriving DecidableEq, Repr

namespace Tri
def not : Tri → Tri
  | t => f | f => t | u => u
def and : Tri → Tri → Tri
  | f, _ => f
  | _, f => f
  | t, t => t
  | _, _ => u
def or : Tri → Tri → Tri
  | t, _ => t
  | _, t => t
  | f, f => f
  | _, _ => u
def ofBool (b : Bool) : Tri := if b then t else f
/-- rank in the Kleene order f < u < t -/
def rank : Tri → Nat
  | f => 0 | u => 1 | t => 2
end Tri

inductive Cmp | eq | ne | lt | le | gt | ge
deriving DecidableEq, Repr

def Cmp.holds : Cmp → Int → Int → Bool
  | .eq, a, b => a == b
  | .ne, a, b => a != b
  | .lt, a, b => decide (a < b)
  | .le, a, b => decide (a ≤ b)
  | .gt, a, b => decide (b < a)
  | .ge, a, b => decide (b ≤ a)

/-- operand of a comparison: a column of the scanned row or a literal (`lit none` = the NULL literal) -/
inductive Opnd
  | col (i : Nat)
  | lit (v : Val)
deriving DecidableEq, Repr

def Opnd.eval (r : Row) : Opnd → Val
  | .col i => r.getD i none
  | .lit v => v

def Opnd.maxCol : Opnd → Nat
  | .col i => i + 1
  | .lit _ => 0

inductive Pred
  | const (b : Tri)                       -- TRUE / FALSE / NULL
  | cmp (a : Opnd) (op : Cmp) (b : Opnd)
  | isNull (a : Opnd)
  | notNull (a : Opnd)
  | eqNull (a b : Opnd)                   -- EQUAL_NULL(a, b) = a IS NOT DISTINCT FROM b: NULL-safe equality, never UNKNOWN
  | and (p q : Pred)
  | or (p q : Pred)
  | not (p : Pred)
deriving DecidableEq, Repr

def Pred.eval (r : Row) : Pred → Tri
  | .const b => b
  | .cmp a op b =>
    match a.eval r, b.eval r with
    | some x, some y => Tri.ofBool (op.holds x y)
    | _, _ => .u
  | .isNull a => Tri.ofBool (a.eval r).isNone
  | .notNull a => Tri.ofBool (a.eval r).isSome
  | .eqNull a b =>
    match a.eval r, b.eval r with
    | some x, some y => Tri.ofBool (x == y)
    | none, none => .t
    | _, _ => .f
  | .and p q => (p.eval r).and (q.eval r)
  | .or p q => (p.eval r).or (q.eval r)
  | .not p => (p.eval r).not

/-- 1 + the largest column index mentioned (0 if none) -/
def Pred.maxCol : Pred → Nat
  | .const _ => 0
  | .cmp a _ b => max a.maxCol b.maxCol
  | .isNull a => a.maxCol
  | .notNull a => a.maxCol
  | .eqNull a b => max a.maxCol b.maxCol
  | .and p q => max p.maxCol q.maxCol
  | .or p q => max p.maxCol q.maxCol
  | .not p => p.maxCol

/-- a missing WHERE clause selects every row -/
def whereEval (p : Option Pred) (r : Row) : Tri :=
  match p with
  | none => .t
  | some q => q.eval r

def whereMaxCol : Option Pred → Nat
  | none => 0
  | some q => q.maxCol

/-- scalar expression (UPDATE right-hand sides, SELECT list items) -/
inductive Expr
  | opnd (o : Opnd)
  | plus (i : Nat) (k : Int)              -- C<i> + k
deriving DecidableEq, Repr

def Expr.eval (r : Row) : Expr → Val
  | .opnd o => o.eval r
  | .plus i k => (r.getD i none).map (· + k)

def Expr.maxCol : Expr → Nat
  | .opnd o => o.maxCol
  | .plus i _ => i + 1

structure Table where
  arity : Nat
  rows : List Row
deriving DecidableEq, Repr

abbrev DB := List Table

/-- source of an INSERT -/
inductive Src
  | values (width : Nat) (rows : List Row)
  | select (src : Nat) (proj : Option (List Expr)) (p : Option Pred)   -- `none` projection = `*`
deriving DecidableEq, Repr

inductive Stmt
  | insert (t : Nat) (cols : Option (List Nat)) (src : Src)
  | update (t : Nat) (sets : List (Nat × Expr)) (p : Option Pred)
  | delete (t : Nat) (p : Option Pred)
  | truncate (t : Nat)
deriving DecidableEq, Repr

def Stmt.target : Stmt → Nat
  | .insert t _ _ => t
  | .update t _ _ => t
  | .delete t _ => t
  | .truncate t => t

/-- the DuckDB exception class a rejected statement raises (translated by `cursor.py:252-258`) -/
inductive Err
  | catalog    -- table does not exist                                      → 2003 / 42S02
  | binder     -- unknown / repeated column, wrong number of values          → 2043 / 02000
deriving DecidableEq, Repr

/-! ### the executor's scans -/

/-- DELETE: one pass; rows whose predicate is TRUE are dropped and counted -/
def scanDelete (p : Row → Tri) : List Row → List Row × Nat
  | [] => ([], 0)
  | r :: rs =>
    let k := scanDelete p rs
    if p r = .t then (k.1, k.2 + 1) else (r :: k.1, k.2)

/-- UPDATE: one pass; rows whose predicate is TRUE are rewritten by `f` and counted -/
def scanUpdate (p : Row → Tri) (f : Row → Row) : List Row → List Row × Nat
  | [] => ([], 0)
  | r :: rs =>
    let k := scanUpdate p f rs
    if p r = .t then (f r :: k.1, k.2 + 1) else (r :: k.1, k.2)

/-- SELECT … WHERE: rows whose predicate is TRUE, projected -/
def scanSelect (p : Row → Tri) (f : Row → Row) : List Row → List Row
  | [] => []
  | r :: rs => if p r = .t then f r :: scanSelect p f rs else scanSelect p f rs

/-- append with a running count of appended rows -/
def appendCount (rows : List Row) : List Row → List Row × Nat
  | [] => (rows, 0)
  | r :: rs =>
    let k := appendCount (rows ++ [r]) rs
    (k.1, k.2 + 1)

/-- position of column `j` in an INSERT column list -/
def posOf (j : Nat) : List Nat → Option Nat
  | [] => none
  | c :: cs => if c = j then some 0 else (posOf j cs).map (· + 1)

/-- value of target column `j` of an inserted row: the source value whose listed column is `j`, else NULL -/
def placeCol (cols : List Nat) (src : Row) (j : Nat) : Val :=
  match posOf j cols with
  | some k => src.getD k none
  | none => none

/-- lay a source row out over the target's columns (column list given or not) -/
def place (arity : Nat) (cols : Option (List Nat)) (src : Row) : Row :=
  match cols with
  | none => src
  | some cs => (List.range arity).map (placeCol cs src)

/-- the row after `SET c = e, …`: every right-hand side sees the *old* row -/
def assign (sets : List (Nat × Expr)) (r : Row) : Row :=
  r.zipIdx.map fun (v, j) =>
    match sets.find? (fun s => s.1 == j) with
    | some s => s.2.eval r
    | none => v

def projRow (proj : Option (List Expr)) (r : Row) : Row :=
  match proj with
  | none => r
  | some es => es.map (·.eval r)

def projWidth (proj : Option (List Expr)) (srcArity : Nat) : Nat :=
  match proj with
  | none => srcArity
  | some es => es.length

def projMaxCol : Option (List Expr) → Nat
  | none => 0
  | some es => es.foldl (fun m e => max m e.maxCol) 0

/-- binder checks + evaluation of an INSERT source against the pre-statement database -/
def srcRows (db : DB) : Src → Except Err (Nat × List Row)
  | .values w rows => if rows.all (·.length == w) then .ok (w, rows) else .error .binder
  | .select s proj p =>
    match db[s]? with
    | none => .error .catalog
    | some st =>
      if projMaxCol proj ≤ st.arity ∧ whereMaxCol p ≤ st.arity then
        .ok (projWidth proj st.arity, scanSelect (whereEval p) (projRow proj) st.rows)
      else .error .binder

def colsOk (arity : Nat) : Option (List Nat) → Bool
  | none => true
  | some cs => cs.all (· < arity) && decide cs.Nodup

def colsWidth (arity : Nat) : Option (List Nat) → Nat
  | none => arity
  | some cs => cs.length

def setsOk (arity : Nat) (sets : List (Nat × Expr)) : Bool :=
  sets.all (fun s => s.1 < arity && s.2.maxCol ≤ arity) && decide (sets.map (·.1)).Nodup

/-- **The engine**: run one DML statement; `ok (db', n)` where `n` is the count DuckDB returns as its
    one-row result, or the exception class (database unchanged). -/
def engine (db : DB) : Stmt → Except Err (DB × Nat)
  | .insert t cols src =>
    match db[t]? with
    | none => .error .catalog
    | some tb =>
      match srcRows db src with
      | .error e => .error e
      | .ok (w, rows) =>
        if colsOk tb.arity cols ∧ w = colsWidth tb.arity cols then
          let k := appendCount tb.rows (rows.map (place tb.arity cols))
          .ok (db.set t { tb with rows := k.1 }, k.2)
        else .error .binder
  | .update t sets p =>
    match db[t]? with
    | none => .error .catalog
    | some tb =>
      if setsOk tb.arity sets ∧ whereMaxCol p ≤ tb.arity then
        let k := scanUpdate (whereEval p) (assign sets) tb.rows
        .ok (db.set t { tb with rows := k.1 }, k.2)
      else .error .binder
  | .delete t p =>
    match db[t]? with
    | none => .error .catalog
    | some tb =>
      if whereMaxCol p ≤ tb.arity then
        let k := scanDelete (whereEval p) tb.rows
        .ok (db.set t { tb with rows := k.1 }, k.2)
      else .error .binder
  | .truncate t =>
    match db[t]? with
    | none => .error .catalog
    | some tb => .ok (db.set t { tb with rows := [] }, tb.rows.length)

end Fs.Dml
