/-!
# Model of `fakesnow/arrow.py` + `fakesnow/server.py` (+ the part of `types.py` the server uses) — property C17

What the HTTP server does with the result of `conn.cursor().execute(sql)` and how the real Snowflake
connector decodes it again.  No Mathlib.  Sections:

1. timestamp wire arithmetic (`arrow.py` `timestamp_to_sf_struct`; connector `TwoField/ThreeFieldTimeStamp*Converter`)
2. TIME wire arithmetic (`arrow.py` `to_sf_col`; connector `TimeConverter`, scale 9)
3. validity of NULL timestamps (`StructArray.from_arrays(..., mask=…)`)
4. column type table: rowtype (`types.py:21-85`), arrow field metadata (`arrow.py:31-40`), the Python type
   the connector builds from it, and the Python type pyarrow's `to_pylist` builds in-process
5. the response the server builds from the outcome of `execute` (`server.py:53-101`)
6. the login/query session state machine (`server.py:22-50,104-115`)
-/
namespace Fs.Http

/-! ## 1. timestamps -/

/-- microseconds per second -/
def M : Int := 1000000

/-- `pc.floor_temporal(ts, unit="second")` of a µs timestamp, as int64 µs (`arrow.py:81`).
    (`Int./` with a positive divisor is floor division.) -/
def floorSecond (us : Int) : Int := (us / M) * M

/-- `pc.divide(floor.cast(int64), 1_000_000)` — Arrow's integer divide truncates toward zero (`arrow.py:82`). -/
def epochOf (us : Int) : Int := (floorSecond us).tdiv M

/-- fraction in nanoseconds **as the repaired code computes it**: `(ts - floor) * 1000` on int64 (`arrow.py:84-87`). -/
def fractionOf (us : Int) : Int := (us - floorSecond us) * 1000

/-- safe `cast(pa.int32())`: raises ArrowInvalid (→ HTTP 500) when the value does not fit -/
def castInt32 (x : Int) : Option Int := if -2147483648 ≤ x ∧ x ≤ 2147483647 then some x else none

/-- one slot of the struct Snowflake uses for timestamps; `tz` is present for TIMESTAMP_TZ only -/
structure TsWire where
  epoch : Int
  fraction : Int
  tz : Option Int
  deriving DecidableEq, Repr

/-- `timestamp_to_sf_struct` on one valid value; `none` = the cast raised -/
def encodeTs (hasTz : Bool) (us : Int) : Option TsWire :=
  (castInt32 (fractionOf us)).map fun f =>
    { epoch := epochOf us, fraction := f, tz := if hasTz then some 1440 else none }

/-- the connector: `seconds = epoch; microseconds = fraction / 1000` (C division), then
    `fromtimestamp(seconds, utc) + timedelta(microseconds)`; for TIMESTAMP_TZ the zone is the fixed offset
    `tz - 1440` minutes.  Result: (instant in µs since the epoch, UTC offset in minutes if aware). -/
def decodeTs (w : TsWire) : Int × Option Int :=
  (w.epoch * M + w.fraction.tdiv 1000, w.tz.map (· - 1440))

/-- **the code before the `fix:` commit**: `pc.multiply(pc.subsecond(ts), 1_000_000_000)` in IEEE doubles;
    `m` = microseconds within the second.  (Lean's `Float` is the same binary64 arithmetic.) -/
def fractionFloat (m : Nat) : Float := (Float.ofNat m / 1000000.0) * 1000000000.0

/-- the safe float→int32 cast succeeds only on an integral value; `m < 10^6` so range is no issue -/
def floatFractionExact (m : Nat) : Bool := fractionFloat m == Float.ofNat (m * 1000)

/-! ## 2. TIME (µs since midnight ↦ int64 nanoseconds; connector scale 9) -/

def encodeTime (us : Nat) : Nat := us * 1000

/-- `TimeConverter::toPyObject` with scale 9: (hour, minute, second, microsecond) -/
def decodeTime (ns : Nat) : Nat × Nat × Nat × Nat :=
  (ns / 1000000000 / 3600, ns / 1000000000 % 3600 / 60, ns / 1000000000 % 60, ns % 1000000000 / 1000)

def timeToMicros (t : Nat × Nat × Nat × Nat) : Nat := ((t.1 * 60 + t.2.1) * 60 + t.2.2.1) * 1000000 + t.2.2.2

/-! ## 3. validity -/

/-- one slot of the struct array: its validity bit and the children (a NULL child slot holds 0 in the buffer) -/
structure Slot where
  valid : Bool
  w : TsWire
  deriving DecidableEq, Repr

def nullWire (hasTz : Bool) : TsWire := { epoch := 0, fraction := 0, tz := if hasTz then some 1440 else none }

/-- `StructArray.from_arrays(arrays, fields, mask)`: without a mask every slot is valid -/
def encodeCol (withMask hasTz : Bool) : List (Option Int) → Option (List Slot)
  | [] => some []
  | none :: xs => (encodeCol withMask hasTz xs).map ({ valid := !withMask, w := nullWire hasTz } :: ·)
  | some us :: xs =>
    match encodeTs hasTz us, encodeCol withMask hasTz xs with
    | some w, some ss => some ({ valid := true, w := w } :: ss)
    | _, _ => none          -- the cast raised: no response at all

/-- the connector checks the validity of the struct slot only -/
def decodeCol (ss : List Slot) : List (Option (Int × Option Int)) :=
  ss.map fun s => if s.valid then some (decodeTs s.w) else none

/-- what the in-process cursor returns (`to_pylist`): the value itself; aware values are UTC -/
def specCol (hasTz : Bool) (xs : List (Option Int)) : List (Option (Int × Option Int)) :=
  xs.map (·.map fun us => (us, if hasTz then some 0 else none))

/-! ## 4. column types -/

/-- DuckDB result column types as `DESCRIBE` prints them (`types.py:21-35`); `other` = anything not in the table -/
inductive DuckTy
  | bigint | integer | blob | boolean | date | decimal (p s : Nat) | double | json | time
  | timestamptz | timestampNs | timestamp | varchar | other
  deriving DecidableEq, Repr

inductive SfTy | fixed | binary | boolean | date | real | variant | time | timestampTz | timestampNtz | text
  deriving DecidableEq, Repr

def sfType : DuckTy → Option SfTy
  | .bigint => some .fixed | .integer => some .fixed | .decimal _ _ => some .fixed
  | .blob => some .binary | .boolean => some .boolean | .date => some .date | .double => some .real
  | .json => some .variant | .time => some .time | .timestamptz => some .timestampTz
  | .timestampNs => some .timestampNtz | .timestamp => some .timestampNtz | .varchar => some .text
  | .other => none

/-- (precision, scale, length) of the rowtype entry, `none` = JSON null (`types.py:61-77`) -/
def rowtypeNums : DuckTy → Option Nat × Option Nat × Option Nat
  | .decimal p s => (some p, some s, none)
  | .bigint | .integer => (some 38, some 0, none)
  | .varchar => (none, none, some 16777216)
  | .time | .timestamp | .timestampNs | .timestamptz => (some 0, some 9, none)
  | .blob => (none, none, some 8388608)
  | _ => (none, none, none)

/-- Python's `x or d` on `Optional[int]`: `None` **and 0** give `d` -/
def pyOr (x : Option Nat) (d : Nat) : Nat := match x with | none => d | some 0 => d | some n => n

/-- arrow field metadata (`arrow.py:31-40`): precision `or 38`, scale `or 0`, charLength `or 0` -/
def arrowMeta (t : DuckTy) : Nat × Nat × Nat :=
  let (p, s, l) := rowtypeNums t
  (pyOr p 38, pyOr s 0, pyOr l 0)

inductive PyTy | int | decimal | float | str | bool | date | time | naive | aware | bytes | bytearray | list
  deriving DecidableEq, Repr

/-- in-process: pyarrow `to_pylist` of the DuckDB arrow column -/
def inprocPy : DuckTy → Option PyTy
  | .bigint | .integer => some .int | .decimal _ _ => some .decimal | .blob => some .bytes
  | .boolean => some .bool | .date => some .date | .double => some .float | .json => some .str
  | .time => some .time | .timestamptz => some .aware | .timestamp | .timestampNs => some .naive
  | .varchar => some .str | .other => none

/-- over HTTP: the connector's converter for (logicalType, arrow storage, metadata scale);
    `none` = the server cannot build the rowtype (`NotImplementedError` → HTTP 500) -/
def httpPy (t : DuckTy) : Option PyTy :=
  (sfType t).map fun
    | .fixed => if (arrowMeta t).2.1 = 0 then .int else .decimal   -- IntConverter / DECIMAL128_to_decimal(scale 0) → int
    | .binary => .bytearray | .boolean => .bool | .date => .date | .real => .float
    | .variant => .str | .text => .str | .time => .time | .timestampTz => .aware | .timestampNtz => .naive

/-- the property's type list for a column: what the Snowflake connector uses -/
def isFixedScale0 : DuckTy → Bool | .decimal _ 0 => true | _ => false

/-! ## 5. the response to one query request -/

/-- outcome of `conn.cursor().execute(sql)` on the fake connection — the same call the in-process user makes -/
inductive Exec
  /-- `snowflake.connector.errors.ProgrammingError` -/
  | progErr (errno : Int) (sqlstate : String) (msg : String)
  /-- any other exception class (sqlglot ParseError, raw duckdb errors, NotImplementedError, …) -/
  | otherExc
  /-- success: `describable` = `DESCRIBE <last sql>` works and every column type is in the table;
      `nrows` = rows in the arrow table; `rowcount` = cursor.rowcount -/
  | ok (describable : Bool) (nrows rowcount : Nat)
  deriving DecidableEq, Repr

inductive Desc | cols | empty | raises deriving DecidableEq, Repr

/-- what the client observes -/
inductive Obs
  | progErr (errno : Int) (sqlstate : String) (msg : String)
  | raw           -- in-process: the raw exception reaches the caller
  | http500       -- over HTTP: Internal Server Error
  | ok (nrows rowcount : Nat) (desc : Desc)
  deriving DecidableEq, Repr

/-- in-process behaviour = what the property takes as the reference -/
def specObs : Exec → Obs
  | .progErr e s m => .progErr e s m
  | .otherExc => .raw
  | .ok d n rc => .ok n rc (if d then .cols else .raises)

/-- DuckDB's `fetch_arrow_table()` hands the result over in record batches of 1 000 000 rows (its default
    `rows_per_batch`); `to_ipc` (`arrow.py:46-57`) writes exactly one batch and raises NotImplementedError otherwise -/
def batchRows : Nat := 1000000

/-- number of record batches of an `n`-row result -/
def batches (n : Nat) : Nat := (n + batchRows - 1) / batchRows

/-- `query_request` (`server.py:53-101`, after the `fix:` commits) seen through the connector -/
def implObs : Exec → Obs
  | .progErr e s m => .progErr e s m          -- error JSON; the connector raises ProgrammingError(errno, sqlstate, msg)
  | .otherExc => .http500                     -- only ProgrammingError is caught
  | .ok true n rc =>                          -- total = cursor.rowcount
    if batches n ≤ 1 then .ok n rc .cols else .http500      -- `to_ipc`: "N batches" → HTTP 500
  | .ok false 0 rc => .ok 0 rc .empty         -- no rows and not describable: empty rowtype
  | .ok false (_ + 1) _ => .http500           -- rows but no rowtype

def findingOf : Exec → String
  | .otherExc => "C17/http500-untranslated-exception"
  | .ok false 0 _ => "C17/description-unavailable-empty"
  | .ok false (_ + 1) _ => "C17/http500-undescribable-rows"
  | .ok true n _ => if batches n ≤ 1 then "-" else "C17/http500-multi-batch"
  | _ => "-"

def execInEnv : Exec → Bool
  | .progErr .. => true
  | .ok true n _ => decide (n ≤ batchRows)
  | _ => false

/-! ## 6. sessions -/

abbrev Token := List Char

/-- `auth[17:-1]` -/
def slice17 (auth : List Char) : List Char := (auth.drop 17).dropLast

def authHeader (t : Token) : List Char := "Snowflake Token=\"".toList ++ t ++ ['"']

inductive Backing | shared | isolated | path deriving DecidableEq, Repr

/-- one fake connection held by the server -/
structure Sess where
  inst : Nat                      -- which FakeSnow instance (0 = `shared_fs`)
  backing : Backing
  schema : Option Nat             -- current schema (abstract name); `none` = the login named no schema: there is no current schema
  vars : List (Nat × Int)         -- session variables
  tx : Option (List Int) := none  -- explicit transaction open on the session's DuckDB connection: its pending writes
  deriving DecidableEq, Repr

structure Srv where
  sessions : List (Token × Sess) := []     -- the dict `sessions`
  nextInst : Nat := 1                      -- instances created so far (0 is `shared_fs`)
  data : List (Nat × Int) := []            -- (instance, value): rows of the one table each history writes
  deriving DecidableEq, Repr

inductive Q
  | setVar (n : Nat) (v : Int) | getVar (n : Nat) | useSchema (s : Nat) | curSchema | put (v : Int) | getAll
  | begin | commit | rollback
  /-- a statement that raises a Snowflake ProgrammingError (missing table, …) -/
  | fail
  /-- a request body that cannot be decoded (empty, not gzip, not JSON, no `sqlText`): only reached after `to_conn`
      accepted the token; what an authenticated session gets for it is outside the model -/
  | malformed
  deriving DecidableEq, Repr

inductive Req
  /-- login; `tok` is the value `secrets.token_urlsafe(32)` draws -/
  | login (tok : Token) (b : Backing) (schema : Option Nat)
  /-- query with the raw Authorization header (`none` = header absent) -/
  | query (auth : Option (List Char)) (q : Q)
  deriving DecidableEq, Repr

inductive Resp
  | token (t : Token)
  | unauthorized (code : Nat)
  | status | val (v : Option Int) | schema (s : Option Nat) | rows (vs : List Int)
  | error          -- the error JSON / ProgrammingError of a failing statement
  | unsupported    -- BEGIN inside a transaction: a raw TransactionException in-process, outside the model (never generated)
  deriving DecidableEq, Repr

def lookup (ss : List (Token × Sess)) (t : Token) : Option Sess := (ss.find? (·.1 == t)).map (·.2)

/-- dict assignment -/
def assign (ss : List (Token × Sess)) (t : Token) (s : Sess) : List (Token × Sess) :=
  (t, s) :: ss.filter (fun p => !(p.1 == t))

def getVar (vars : List (Nat × Int)) (n : Nat) : Option Int := (vars.find? (·.1 == n)).map (·.2)

/-- one statement on a session: new session, new data, reply -/
def runQ (se : Sess) (data : List (Nat × Int)) : Q → Sess × List (Nat × Int) × Resp
  | .setVar n v => ({ se with vars := (n, v) :: se.vars.filter (fun p => !(p.1 == n)) }, data, .status)
  | .getVar n => (se, data, .val (getVar se.vars n))
  | .useSchema s => ({ se with schema := some s }, data, .status)
  | .curSchema => (se, data, .schema se.schema)
  | .put v =>
    match se.tx with
    | some w => ({ se with tx := some (w ++ [v]) }, data, .status)       -- pending, visible to this session only
    | none => (se, data ++ [(se.inst, v)], .status)                       -- auto-commit
  | .getAll => (se, data, .rows ((data.filter (·.1 == se.inst)).map (·.2) ++ se.tx.getD []))
  | .begin =>
    match se.tx with
    | none => ({ se with tx := some [] }, data, .status)
    | some _ => (se, data, .unsupported)
  | .commit =>
    match se.tx with
    | some w => ({ se with tx := none }, data ++ w.map (fun v => (se.inst, v)), .status)
    | none => (se, data, .status)                                         -- COMMIT without a transaction: success status
  | .rollback => ({ se with tx := none }, data, .status)
  /- `query_request` answers the error JSON and does nothing else; in-process `execute` raises and does nothing else:
     an open transaction and its pending writes stay exactly as they were -/
  | .fail => (se, data, .error)
  | .malformed => (se, data, .unsupported)

def step (s : Srv) : Req → Srv × Resp
  | .login tok b schema =>
    let (inst, next) := match b with
      | .shared => (0, s.nextInst)
      | _ => (s.nextInst, s.nextInst + 1)
    ({ s with sessions := assign s.sessions tok { inst := inst, backing := b, schema := schema, vars := [] },
              nextInst := next }, .token tok)
  | .query auth q =>
    match auth with
    | none => (s, .unauthorized 390103)
    | some [] => (s, .unauthorized 390103)            -- `if not (auth := …)`: empty header is falsy
    | some a =>
      match lookup s.sessions (slice17 a) with
      | none => (s, .unauthorized 390104)
      | some se =>
        let (se', data', r) := runQ se s.data q
        ({ s with sessions := s.sessions.map (fun p => if p.1 == slice17 a then (p.1, se') else p), data := data' }, r)

def run (s : Srv) : List Req → Srv × List Resp
  | [] => (s, [])
  | r :: rs => let (s', o) := step s r; let (s'', os) := run s' rs; (s'', o :: os)

end Fs.Http
