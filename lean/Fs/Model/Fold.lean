/-!
# Identifier folding (model of the code behind C02)

fakesnow's rule (`transforms.upper_case_unquoted_identifiers`, first transform of every statement, `cursor.py:157`):
an unquoted identifier is replaced by its upper-cased text, a quoted one is kept verbatim.  Everything after that
transform — the other rewrites, the status-message templates (`cursor.py:304-319`), the context bookkeeping
(`set_schema`, `conn.py:44-45`), the qualification check (`checks.py`), `expr.key_command`, the MERGE decomposition
(`transforms_merge.py`), DuckDB — only ever sees the folded tree.  The places where the code looks at *keyword* text it
keeps raw in the tree are modelled too: `kind` strings, the USE kind and (since the repair of `C02/merge-delete-lowercase`)
the MERGE `THEN` variable are upper-cased by the code before they are compared.

Text is `List Char`; `upper` is ASCII upper-casing (Python's `str.upper()` is Unicode: unquoted identifiers are ASCII
in every envelope, see DESIGN §2).
-/
namespace Fs.Fold

def upperC (c : Char) : Char := if 97 ≤ c.toNat ∧ c.toNat ≤ 122 then Char.ofNat (c.toNat - 32) else c
def upper (s : List Char) : List Char := s.map upperC

structure Ident where
  raw : List Char
  quoted : Bool
  deriving DecidableEq, Repr

/-- the name Snowflake (and fakesnow) knows the object by -/
def Ident.norm (i : Ident) : List Char := if i.quoted then i.raw else upper i.raw

/-- `checks.equal` -/
def Ident.equal (a b : Ident) : Bool := a.norm == b.norm

/-- a parsed statement as far as fakesnow's own code distinguishes its parts -/
inductive Node
  | ident (i : Ident)                       -- exp.Identifier
  | kwFolded (raw : List Char)              -- keyword text kept in the tree and upper-cased by the code before use
  | lit (s : List Char)                     -- string / number literal: never touched
  | node (tag : Nat) (args : List Node)     -- any other expression node (keywords recognised by sqlglot itself)
  deriving Repr

/-- `upper_case_unquoted_identifiers` + the `.upper()` calls the code applies to folded keywords -/
def canon : Node → Node
  | .ident i => .ident ⟨i.norm, i.quoted⟩
  | .kwFolded r => .kwFolded (upper r)
  | .lit s => .lit s
  | .node t as => .node t (canonList as)
where canonList : List Node → List Node
  | [] => []
  | a :: as => canon a :: canonList as

/-- two spellings of the same statement: keywords and unquoted identifiers may differ in letter case, quoted
    identifiers and literals are identical -/
def CaseEq : Node → Node → Prop
  | .ident a, .ident b => a.quoted = b.quoted ∧ (if a.quoted then a.raw = b.raw else upper a.raw = upper b.raw)
  | .kwFolded a, .kwFolded b => upper a = upper b
  | .lit a, .lit b => a = b
  | .node t as, .node u bs => t = u ∧ CaseEqList as bs
  | _, _ => False
where CaseEqList : List Node → List Node → Prop
  | [], [] => True
  | a :: as, b :: bs => CaseEq a b ∧ CaseEqList as bs
  | _, _ => False

/-- first identifier in depth-first order (`transformed.find(exp.Identifier, bfs=False)`, `cursor.py:304`) -/
def firstIdent : Node → Option Ident
  | .ident i => some i
  | .node _ as => firstIdentList as
  | _ => none
where firstIdentList : List Node → Option Ident
  | [] => none
  | a :: as => match firstIdent a with | some i => some i | none => firstIdentList as

/-- the name put into the status message (`cursor.py:305`) — computed on the tree as parsed -/
def statusName (n : Node) : Option (List Char) := (firstIdent (canon n)).map fun i => if i.quoted then i.raw else upper i.raw

/-- `transforms_merge.py:71,119,185`: is the THEN variable of a matched clause DELETE? -/
def thenIsDelete (raw : List Char) : Bool := upper raw == "DELETE".toList

/-- the comparison before the repair (`then.args.get("this") == "DELETE"`) -/
def thenIsDeleteOld (raw : List Char) : Bool := raw == "DELETE".toList

/-- `expr.key_command` / `checks.py`: kind strings are upper-cased before they are compared -/
def kindIs (raw : List Char) (k : String) : Bool := upper raw == k.toList

/-- `transforms.alias_in_join` (as repaired): the ON column is looked up among the select aliases by folded name -/
def aliasFind (aliases : List Ident) (ref : Ident) : Option Ident := aliases.find? fun a => a.norm == ref.norm

/-- before the repair the lookup compared identifier nodes (folded text *and* quoted flag) -/
def aliasFindByNode (aliases : List Ident) (ref : Ident) : Option Ident :=
  aliases.find? fun a => a.norm == ref.norm && a.quoted == ref.quoted

/-- does `hay` contain `needle` as a contiguous substring? -/
def containsB (needle : List Char) : List Char → Bool
  | [] => needle.isEmpty
  | c :: cs => needle.isPrefixOf (c :: cs) || containsB needle cs

/-- `transforms.tag` on a statement sqlglot hands over as raw text (`ALTER TABLE … MODIFY COLUMN … SET TAG …`):
    `"SET TAG" in cexp.upper()` -/
def rawHasSetTag (raw : List Char) : Bool := containsB "SET TAG".toList (upper raw)

/-- a case-sensitive search on the text as written (what the code must not do) -/
def rawHasSetTagCaseSensitive (raw : List Char) : Bool := containsB "SET TAG".toList raw

/-- `variables.py`: SET stores the variable under the *rendered* name (`eq.this.sql()`: quotes included),
    UNSET and `$name` look it up by the bare folded text -/
def setKey (i : Ident) : List Char := if i.quoted then '"' :: i.raw ++ ['"'] else upper i.raw
def unsetKey (i : Ident) : List Char := i.norm

/-- modelled engine: DuckDB finds a column / table by case-insensitive comparison with the stored names and
    reports the stored spelling -/
def duckFind (stored : List (List Char)) (ref : List Char) : Option (List Char) :=
  stored.find? fun n => upper n == upper ref

/-- Snowflake: the folded name must be a stored name exactly -/
def sfFind (stored : List (List Char)) (ref : List Char) : Option (List Char) :=
  stored.find? fun n => n == ref

end Fs.Fold
