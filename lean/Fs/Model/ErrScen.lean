import Fs.Model.Errors
/-
C07 scenario table: *cause × position × how the name is written × session state* → the statement as
`execute` sees it and the modelled DuckDB reaction → predicted outcome (`predict`) and demanded outcome
(`specOutcome`).  The DuckDB reactions (`reaction`) are the modelled engine behaviour of DESIGN Appendix A.1
(trusted base, exercised exhaustively by the correspondence on every run).
-/
namespace Fs.Err

/-- where in the statement the offending name stands -/
inductive Pos
  | query            -- FROM / JOIN / subquery / CTE / IN-subquery / select list / WHERE / ORDER BY / GROUP BY
  | dmlTarget        -- INSERT / UPDATE / DELETE / TRUNCATE / MERGE target, INSERT column list, UPDATE SET, VALUES arity
  | dmlSource        -- INSERT … SELECT source, MERGE source
  | ddlTarget        -- CREATE / DROP / ALTER object
  | ddlSource        -- CTAS / CLONE / CREATE VIEW source
  | useTarget        -- USE SCHEMA / USE DATABASE
  | describeTarget   -- DESCRIBE TABLE / VIEW
  | commentTarget    -- COMMENT ON TABLE / ALTER TABLE … SET COMMENT
  | showScope        -- SHOW … IN SCHEMA / DATABASE <missing>
  | dropDatabase     -- DROP DATABASE
deriving DecidableEq, Repr

def Pos.all : List Pos :=
  [.query, .dmlTarget, .dmlSource, .ddlTarget, .ddlSource, .useTarget, .describeTarget, .commentTarget, .showScope, .dropDatabase]

/-- how DuckDB (as driven by fakesnow's rewrites) reacts -/
inductive Reaction
  | raises (e : DuckExc)            -- the translated call raises
  | accepted                        -- nothing raises (the statement was rewritten into something that cannot fail)
  | followupRaises (e : DuckExc)    -- the translated call is accepted, a follow-up call raises
deriving DecidableEq, Repr

def reaction (c : Cause) (p : Pos) : Reaction :=
  match p with
  | .commentTarget => if c = .unknownDatabase then .followupRaises .binder else .accepted
  | .showScope => .accepted
  | .dropDatabase => .raises .parser
  | _ => .raises (duckClass c)

inductive Qual | name | schemaName | full
deriving DecidableEq, Repr

def Qual.parts : Qual → Nat
  | .name => 1 | .schemaName => 2 | .full => 3

def Qual.all : List Qual := [.name, .schemaName, .full]
def RefKind.all : List RefKind := [.database, .schema, .useSchema, .table, .noTable]

structure Scenario where
  cause : Cause
  pos : Pos
  refKind : RefKind      -- what the pre-check sees as the first table expression
  qual : Qual            -- how that first table expression is qualified
  dbSet : Bool
  schemaSet : Bool
deriving DecidableEq, Repr

def Scenario.forCause (c : Cause) : List Scenario :=
  Pos.all.flatMap fun p => RefKind.all.flatMap fun k => Qual.all.flatMap fun q =>
    [true, false].flatMap fun a => [true, false].map fun b => ⟨c, p, k, q, a, b⟩

def Scenario.all : List Scenario := Cause.all.flatMap Scenario.forCause

/-- the statement: one call; COMMENT ON carries the side-table insert as follow-up.  SQL texts are just call
    numbers: 0 = the translated call, 1 = the follow-up. -/
def Scenario.stmt (sc : Scenario) : Stmt Nat :=
  let u := unqualified sc.refKind sc.qual.parts
  { calls := [{ noDatabase := u.1, noSchema := u.2, sql := 0,
                followups := if sc.pos = .commentTarget then [1] else [] }] }

/-- the engine of the scenario; its state counts accepted *state-changing* calls: the translated call of a
    COMMENT / SHOW scenario is a plain select (no change), the COMMENT follow-up is the side-table insert -/
def Scenario.eng (sc : Scenario) (d : Nat) (q : Nat) : Except DuckExc Nat :=
  match reaction sc.cause sc.pos, q with
  | .raises e, 0 => .error e
  | .followupRaises e, 1 => .error e
  | _, 0 => .ok d
  | _, _ => .ok (d + 1)

def Scenario.world (sc : Scenario) : World Nat :=
  { duck := 0, sess := { database := some "DB1", schema := some "S1", databaseSet := sc.dbSet, schemaSet := sc.schemaSet } }

/-- what the model of the code predicts: outcome and whether anything changed -/
def predict (sc : Scenario) : Outcome × Bool :=
  let r := execute sc.eng sc.world sc.stmt
  (r.outcome, r.world.duck != 0 || r.world.sess != sc.world.sess)

def codeOf : DuckExc → Code
  | .binder => c2043
  | _ => c2003

/-- what the property demands: a ProgrammingError with the matching code — 90105 / 90106 when the name needs a
    current database / schema that the session does not have, else the code of the cause — and nothing changed -/
def specOutcome (sc : Scenario) : Outcome × Bool :=
  let u := unqualified sc.refKind sc.qual.parts
  if u.1 ∧ ¬ sc.dbSet then (.programming c90105, false)
  else if u.2 ∧ ¬ sc.schemaSet then (.programming c90106, false)
  else (.programming (codeOf (duckClass sc.cause)), false)

/-- finding regions (single source of truth for the driver) -/
def scenarioFinding (sc : Scenario) : Option String :=
  let u := unqualified sc.refKind sc.qual.parts
  if (u.1 ∧ ¬ sc.dbSet) ∨ (u.2 ∧ ¬ sc.schemaSet) then none
  else match sc.pos with
    | .commentTarget => some (if sc.cause = .unknownDatabase then "C07/comment-on-missing-database-raw" else "C07/comment-on-missing-table")
    | .showScope => some "C07/show-in-missing-scope"
    | .dropDatabase => some "C07/drop-database-parser-error"
    | _ => none

end Fs.Err

namespace Fs.Err

/-- finding region of a general statement (used by the driver for op sequences) -/
def stmtFinding {Q} (sess : Session) (s : Stmt Q) : Option String :=
  match s.varUpdate with
  | .unset n => if sess.vars.any (·.1 == n) then none else some "C07/unset-undefined-variable"
  | _ => if s.calls.length > 1 ∨ s.calls.any (fun c => !c.followups.isEmpty) then some "C07/multi-call-partial-effects" else none

end Fs.Err
