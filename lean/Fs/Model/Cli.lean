/-
Model of `fakesnow/cli.py`: `split` (cli.py:26-44), the one `argparse` parser that `arg_parser()` builds
(cli.py:9-23; CPython 3.12.1 `argparse._parse_known_args` specialised to exactly this parser — trusted base,
tied by exhaustive argv enumeration) and `main`'s hand-off of `sys.argv` to the target (cli.py:47-70).

Tokens are `List Char` (String functions are opaque to proofs).
-/
namespace Fs.Cli

abbrev Tok := List Char

def startsDash : Tok → Bool
  | c :: _ => c == '-'
  | [] => false

def startsDashDash : Tok → Bool
  | a :: b :: _ => a == '-' && b == '-'
  | _ => false

def isPrefix : Tok → Tok → Bool
  | [], _ => true
  | _ :: _, [] => false
  | a :: as, b :: bs => a == b && isPrefix as bs

/-- `a in ["-m", "--module"]` -/
def isM (a : Tok) : Bool :=
  decide (a = ['-', 'm']) || decide (a = ['-', '-', 'm', 'o', 'd', 'u', 'l', 'e'])

/-! ### `split` as shipped (cli.py:26-44): every dash token is a flag whose value is the next token -/

/-- The Python loop computes an index `i` and returns `(args[:i+1], args[i+1:])`; the model returns the two
    slices directly.  `inFlag` is the loop variable `in_flag`.  Loop exhaustion leaves `i = len-1`, i.e.
    everything is fakesnow's; `-m` as the last token (`min(i+1, len-1)`) likewise. -/
def splitOld : List Tok → Bool → List Tok × List Tok
  | [], _ => ([], [])
  | a :: rest, inFlag =>
    if isM a then
      match rest with
      | [] => ([a], [])
      | v :: r => ([a, v], r)
    else if startsDash a then
      let p := splitOld rest true; (a :: p.1, p.2)
    else if !inFlag then ([a], rest)
    else
      let p := splitOld rest false; (a :: p.1, p.2)

/-! ### `split` after the repair `C20/argv-equals-forms` -/

/-- `a.startswith(("-m", "--module="))` for a token that is not exactly `-m`/`--module`:
    `-mMODULE` / `--module=MODULE` carry the module name themselves -/
def isModAttached (a : Tok) : Bool :=
  isPrefix ['-', 'm'] a || isPrefix ['-', '-', 'm', 'o', 'd', 'u', 'l', 'e', '='] a

/-- a dash token that carries its own value: `--flag=value` or `-fvalue`
    (`("=" in a) if a.startswith("--") else len(a) > 2`) -/
def selfContained (a : Tok) : Bool :=
  if startsDashDash a then a.contains '=' else decide (a.length > 2)

def split : List Tok → Bool → List Tok × List Tok
  | [], _ => ([], [])
  | a :: rest, inFlag =>
    if isM a then
      match rest with
      | [] => ([a], [])
      | v :: r => ([a, v], r)
    else if isModAttached a then ([a], rest)
    else if startsDash a then
      let p := split rest (!selfContained a); (a :: p.1, p.2)
    else if !inFlag then ([a], rest)
    else
      let p := split rest false; (a :: p.1, p.2)

/-! ### argparse for `arg_parser()`: options h, d (db_path), m (module); positionals path (nargs ?) and targs (nargs *) -/

inductive Act | help | db | mod
deriving DecidableEq, Repr

def tH : Tok := ['-', 'h']
def tHelp : Tok := ['-', '-', 'h', 'e', 'l', 'p']
def tD : Tok := ['-', 'd']
def tDbPath : Tok := ['-', '-', 'd', 'b', '_', 'p', 'a', 't', 'h']
def tMs : Tok := ['-', 'm']
def tModule : Tok := ['-', '-', 'm', 'o', 'd', 'u', 'l', 'e']
def tDD : Tok := ['-', '-']

/-- `arg_string in self._option_string_actions` -/
def lookupOpt (t : Tok) : Option Act :=
  if t = tH ∨ t = tHelp then some .help
  else if t = tD ∨ t = tDbPath then some .db
  else if t = tMs ∨ t = tModule then some .mod
  else none

/-- `s.split('=', 1)` when `'=' in s` -/
def splitEq : Tok → Option (Tok × Tok)
  | [] => none
  | c :: cs =>
    if c = '=' then some ([], cs)
    else match splitEq cs with
      | none => none
      | some (a, b) => some (c :: a, b)

def isDigit (c : Char) : Bool := '0' ≤ c && c ≤ '9'

/-- `^-\d+$|^-\d*\.\d+$` on ASCII digits (trusted base: `\d` also accepts other Unicode digits and `$` a final
    newline; such tokens are outside the explored alphabet) -/
def negNumber : Tok → Bool
  | '-' :: rest =>
    let ds := rest.takeWhile isDigit
    let tl := rest.dropWhile isDigit
    match tl with
    | [] => !ds.isEmpty
    | '.' :: fr => !fr.isEmpty && fr.all isDigit
    | _ => false
  | _ => false

/-- result of `_parse_optional` -/
inductive Cls
  | arg                                                  -- None: positional, 'A'
  | opt (a : Act) (explicit : Option Tok) (short : Bool)   -- known option, 'O'; `short` = single-dash option string
  | unknown                                              -- (None, arg_string, None), 'O'
  | ambiguous                                            -- parser.error("ambiguous option")
deriving DecidableEq, Repr

/-- `_get_option_tuples` -/
def optionTuples (t : Tok) : List (Act × Option Tok × Bool) :=
  if startsDashDash t then
    let pre := match splitEq t with | some (p, _) => p | none => t
    let ex := (splitEq t).map (·.2)
    -- dict order: -h --help -d --db_path -m --module; only the long ones can start with `--…`
    ([(tHelp, Act.help), (tDbPath, Act.db), (tModule, Act.mod)].filter fun p => isPrefix pre p.1).map
      fun p => (p.2, ex, false)
  else
    match lookupOpt (t.take 2) with
    | some a => [(a, some (t.drop 2), true)]
    | none => []

/-- the `'=' in arg_string` branch of `_parse_optional`: the part before the first `=` is an option string -/
def eqForm (t : Tok) : Option (Act × Tok × Bool) :=
  match splitEq t with
  | some (o, v) => (lookupOpt o).map fun a => (a, v, !startsDashDash o)
  | none => none

def classify (t : Tok) : Cls :=
  match t with
  | [] => .arg
  | c :: _ =>
    if c ≠ '-' then .arg
    else match lookupOpt t with
      | some a => .opt a none (!startsDashDash t)
      | none =>
        if t.length = 1 then .arg
        else
          match eqForm t with
          | some (a, v, s) => .opt a (some v) s
          | none =>
            match optionTuples t with
            | [x] => .opt x.1 x.2.1 x.2.2
            | _ :: _ :: _ => .ambiguous
            | [] => if negNumber t then .arg else if t.contains ' ' then .arg else .unknown

/-- one letter of `arg_strings_pattern`, with what the parser needs of the token -/
inductive Item
  | A (t : Tok)                                   -- 'A'
  | dd                                            -- '-'  (the first `--`)
  | O (a : Act) (explicit : Option Tok) (short : Bool)  -- 'O', known option
  | U                                             -- 'O', unknown option
deriving DecidableEq, Repr

/-- first pass of `_parse_known_args`; `none` = `parser.error` (ambiguous option) -/
def items : List Tok → Option (List Item)
  | [] => some []
  | t :: ts =>
    if t = tDD then some (.dd :: ts.map .A)
    else match classify t with
      | .ambiguous => none
      | .arg => (items ts).map (.A t :: ·)
      | .unknown => (items ts).map (.U :: ·)
      | .opt a e s => (items ts).map (.O a e s :: ·)

inductive PRes
  | ok (db mod path : Option Tok)   -- Namespace(db_path, module, path); `targs` is not used by `main`
  | error                           -- parser.error → SystemExit(2)
  | help                            -- help action → SystemExit(0)
deriving DecidableEq, Repr

structure PState where
  db : Option Tok := none
  mod : Option Tok := none
  path : Option Tok := none
  posDone : Bool := false      -- `positionals` list emptied (path and targs are always consumed together)
  extras : Bool := false       -- `extras` non-empty
  inRun : Bool := false        -- inside a run of 'A'/'-' letters already handed to consume_positionals / extras
deriving DecidableEq, Repr

/-- `-h<e>`: argparse re-reads `e` as further single-dash options before any action runs -/
def helpShort : Tok → Bool → PRes
  | [], _ => .error
  | c :: r, nextA =>
    if c = 'h' then (if r = [] then .help else helpShort r nextA)
    else if c = 'd' ∨ c = 'm' then (if r = [] then (if nextA then .help else .error) else .help)
    else .error

def nextIsA : List Item → Bool
  | .A _ :: _ => true
  | _ => false

/-- second pass: `consume_optional` / `consume_positionals` alternation, streamed left to right -/
def consume : List Item → PState → PRes
  | [], st => if st.extras then .error else .ok st.db st.mod st.path
  | .A t :: rest, st =>
    if st.inRun then consume rest st
    else if st.posDone then consume rest { st with extras := true, inRun := true }
    else consume rest { st with path := some t, posDone := true, inRun := true }
  | .dd :: rest, st =>
    if st.inRun then consume rest st
    else if st.posDone then consume rest { st with extras := true, inRun := true }
    else
      let p := match rest with | .A t :: _ => some t | _ => none
      consume rest { st with path := p, posDone := true, inRun := true }
  | .U :: rest, st => consume rest { st with extras := true, inRun := false }
  | .O .help none _ :: _, _ => .help
  | .O .help (some e) s :: rest, _ => if s then helpShort e (nextIsA rest) else .error
  | .O .db (some e) _ :: rest, st => consume rest { st with db := some e, inRun := false }
  | .O .mod (some e) _ :: rest, st => consume rest { st with mod := some e, inRun := false }
  | .O .db none _ :: .A v :: rest, st => consume rest { st with db := some v, inRun := false }
  | .O .mod none _ :: .A v :: rest, st => consume rest { st with mod := some v, inRun := false }
  | .O .db none _ :: _, _ => .error
  | .O .mod none _ :: _, _ => .error

def parseArgs (fs : List Tok) : PRes :=
  match items fs with
  | none => .error
  | some its => consume its {}

/-! ### `main` -/

inductive Outcome
  | runModule (m : Tok) (argv : List Tok) (db : Option Tok)   -- runpy.run_module(m) with sys.argv = argv, patch(db_path=db)
  | runPath (p : Tok) (argv : List Tok) (db : Option Tok)     -- runpy.run_path(p)   with sys.argv = argv
  | usage            -- print_usage, return 42
  | exit2            -- argparse error
  | exit0            -- --help
deriving DecidableEq, Repr

def mainWith (sp : List Tok → Bool → List Tok × List Tok) (args : List Tok) : Outcome :=
  let p := sp args false
  match parseArgs p.1 with
  | .error => .exit2
  | .help => .exit0
  | .ok db mod path =>
    match mod with
    | some (c :: m) => .runModule (c :: m) ((c :: m) :: p.2) db       -- `if module := pargs.module` (truthy)
    | _ =>
      match path with
      | some (c :: q) => .runPath (c :: q) ((c :: q) :: p.2) db
      | _ => .usage

/-- the code after the repair -/
def main (args : List Tok) : Outcome := mainWith split args
/-- the code as shipped -/
def mainOld (args : List Tok) : Outcome := mainWith splitOld args

/-! ### Specification: the argv grammar  `fsopt* (path | module-option) targ*` -/

/-- one fakesnow option in front of the target -/
inductive FsOpt
  | dSp (long : Bool) (v : Tok)   -- `-d v` / `--db_path v`
  | dEq (v : Tok)                 -- `--db_path=v`
  | dAtt (v : Tok)                -- `-dv`
deriving DecidableEq, Repr

inductive Target
  | path (p : Tok)                -- `script.py`
  | mSp (long : Bool) (m : Tok)   -- `-m mod` / `--module mod`
  | mEq (m : Tok)                 -- `--module=mod`
  | mAtt (m : Tok)                -- `-mmod`
deriving DecidableEq, Repr

/-- a value given as its own token must be a plain word (argparse itself refuses a dash word there) -/
def plain (v : Tok) : Bool := !startsDash v

def FsOpt.toks : FsOpt → List Tok
  | .dSp l v => [if l then tDbPath else tD, v]
  | .dEq v => [tDbPath ++ '=' :: v]
  | .dAtt v => [tD ++ v]

def FsOpt.value : FsOpt → Tok
  | .dSp _ v => v
  | .dEq v => v
  | .dAtt v => v

def FsOpt.ok : FsOpt → Bool
  | .dSp _ v => plain v
  | .dEq _ => true
  | .dAtt v => match v with | [] => false | c :: _ => c ≠ '='

def Target.toks : Target → List Tok
  | .path p => [p]
  | .mSp l m => [if l then tModule else tMs, m]
  | .mEq m => [tModule ++ '=' :: m]
  | .mAtt m => [tMs ++ m]

def Target.name : Target → Tok
  | .path p => p
  | .mSp _ m => m
  | .mEq m => m
  | .mAtt m => m

def Target.ok : Target → Bool
  | .path p => plain p && !p.isEmpty
  | .mSp _ m => plain m && !m.isEmpty
  | .mEq m => !m.isEmpty
  | .mAtt m => match m with | [] => false | c :: _ => c ≠ '='

def render (opts : List FsOpt) (t : Target) (targs : List Tok) : List Tok :=
  opts.flatMap FsOpt.toks ++ t.toks ++ targs

def lastDb : List FsOpt → Option Tok → Option Tok
  | [], d => d
  | o :: os, _ => lastDb os (some o.value)

/-- what the property demands: the target runs with `[its name] ++ its own arguments`, in order -/
def specRun (opts : List FsOpt) (t : Target) (targs : List Tok) : Outcome :=
  match t with
  | .path p => .runPath p (p :: targs) (lastDb opts none)
  | t => .runModule t.name (t.name :: targs) (lastDb opts none)

end Fs.Cli
