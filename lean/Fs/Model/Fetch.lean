/-
Model of the fetch surface of `FakeSnowflakeCursor` (fakesnow/cursor.py: `_execute` reset of
`_arrow_table/_arrow_table_fetch_index`, `fetchone`, `fetchmany`, `fetchall`, the `arraysize`
property, and the row construction at the end of `fetchmany`).

`Cur α` holds exactly what the Python cursor holds for fetching:
  rows?     = `_arrow_table`               (None before the first execute)
  idx?      = `_arrow_table_fetch_index`   (None until the first fetch after an execute)
  arraysize = `_arraysize`                 (1 initially)
`pyarrow.Table.slice(offset, length)` is modelled by `List.drop/take` (trusted base: slice clamps).
-/
namespace Fs.Fetch

structure Cur (α : Type) where
  rows? : Option (List α) := none
  idx? : Option Nat := none
  arraysize : Nat := 1
deriving Repr

inductive Op (α : Type)
  | exec (rows : List α)     -- a statement producing `rows` was executed on this cursor
  | fail                     -- an execute (or describe) on this cursor raised: `_execute` had already dropped the result
  | one                      -- fetchone()
  | many (k : Nat)           -- fetchmany(k); k = 0 stands for fetchmany() / fetchmany(None) / fetchmany(0)
  | all                      -- fetchall()
  | setAs (n : Nat)          -- cursor.arraysize = n
  | pandas                   -- fetch_pandas_all(): the whole result as a data frame, whatever was fetched before
deriving Repr

inductive Out (α : Type)
  | rows (rs : List α)       -- list returned by fetchmany / fetchall
  | row (r : Option α)       -- fetchone: a row or None
  | frame (rs : List α)      -- fetch_pandas_all: the rows of the data frame (not "handed out": the read position does not move)
  | noResult                 -- TypeError("No open result set")
  | unit                     -- the op returns nothing observable
deriving Repr, DecidableEq

/-- `fetchmany`: `size = size or arraysize`, slice at `idx or 0`, then `idx = size` / `idx += size`. -/
def fetchmany {α} (c : Cur α) (size : Nat) : Option (List α) × Cur α :=
  let k := if size = 0 then c.arraysize else size
  match c.rows? with
  | none => (none, c)
  | some rs =>
    let i := c.idx?.getD 0
    (some ((rs.drop i).take k), { c with idx? := some (match c.idx? with | none => k | some j => j + k) })

def step {α} (c : Cur α) : Op α → Out α × Cur α
  | .exec rs => (.unit, { c with rows? := some rs, idx? := none })
  | .fail => (.unit, { c with rows? := none, idx? := none })
  | .one =>
    match fetchmany c 1 with
    | (none, c') => (.noResult, c')
    | (some l, c') => (.row l.head?, c')
  | .many k =>
    match fetchmany c k with
    | (none, c') => (.noResult, c')
    | (some l, c') => (.rows l, c')
  | .all =>
    match c.rows? with
    | none => (.noResult, c)
    | some rs =>
      -- fetchall() = fetchmany(num_rows); num_rows = 0 falls through `size or arraysize`
      match fetchmany c rs.length with
      | (none, c') => (.noResult, c')
      | (some l, c') => (.rows l, c')
  | .setAs n => (.unit, { c with arraysize := n })
  | .pandas =>
    match c.rows? with
    | none => (.noResult, c)
    | some rs => (.frame rs, c)

def run {α} (c : Cur α) : List (Op α) → List (Out α) × Cur α
  | [] => ([], c)
  | o :: os =>
    let r := step c o
    let rs := run r.2 os
    (r.1 :: rs.1, rs.2)

/-- the rows an output hands to the caller -/
def Out.handed {α} : Out α → List α
  | .rows rs => rs
  | .row (some r) => [r]
  | _ => []

def handedAll {α} (outs : List (Out α)) : List α := outs.flatMap Out.handed

/-! ### Specification: a read position over the result, nothing else -/

/-- abstract cursor: the result (if any) and how many rows were handed out -/
structure SCur (α : Type) where
  res? : Option (List α) := none
  pos : Nat := 0
  arraysize : Nat := 1

def sstep {α} (c : SCur α) : Op α → Out α × SCur α
  | .exec rs => (.unit, { c with res? := some rs, pos := 0 })
  | .fail => (.unit, { c with res? := none, pos := 0 })
  | .one =>
    match c.res? with
    | none => (.noResult, c)
    | some rs => (.row (rs[c.pos]?), { c with pos := c.pos + 1 })
  | .many k =>
    let k' := if k = 0 then c.arraysize else k
    match c.res? with
    | none => (.noResult, c)
    | some rs => (.rows ((rs.drop c.pos).take k'), { c with pos := c.pos + k' })
  | .all =>
    match c.res? with
    | none => (.noResult, c)
    | some rs => (.rows (rs.drop c.pos), { c with pos := c.pos + (if rs.length = 0 then c.arraysize else rs.length) })
  | .setAs n => (.unit, { c with arraysize := n })
  | .pandas =>
    match c.res? with
    | none => (.noResult, c)
    | some rs => (.frame rs, c)

def srun {α} (c : SCur α) : List (Op α) → List (Out α) × SCur α
  | [] => ([], c)
  | o :: os =>
    let r := sstep c o
    let rs := srun r.2 os
    (r.1 :: rs.1, rs.2)

/-! ### Row construction (cursor.py, end of `fetchmany`) -/

/-- one result row as the arrow slice holds it: (column name, cell) in result-column order -/
abbrev Row (β : Type) := List (String × β)

/-- `Table.to_pylist()` builds one dict per row: later duplicate keys overwrite the value, the key keeps
    its first position. -/
def toDict {β} : Row β → Row β
  | [] => []
  | (k, v) :: rest =>
    let d := toDict rest
    match d.find? (·.1 == k) with
    | some (_, v') => (k, v') :: d.filter (fun p => !(p.1 == k))
    | none => (k, v) :: d

/-- tuple row as built before the repair: `tuple(d.values())` over the per-row dict -/
def tupleViaDict {β} (r : Row β) : List β := (toDict r).map (·.2)

/-- tuple row as built now: column-wise (`zip(*[col.to_pylist() for col in columns])`) -/
def tupleColumnwise {β} (r : Row β) : List β := r.map (·.2)

/-- DictCursor row: the per-row dict -/
def dictRow {β} (r : Row β) : Row β := toDict r

def namesDistinct {β} (r : Row β) : Bool := (r.map (·.1)).Nodup

end Fs.Fetch
