import Fs.Model.Json
/-
Specification side of C11: what the Snowflake expression must give — "what navigating the same document in
Python gives".  `evalSpec` is defined on the SOURCE nodes of `E` (`col`, `lit`, `jx` with a structured path,
`bracket`, `cast`, `upper/lower/trim`, `arraySize`, operators); DuckDB-only nodes are `unsup`.
-/
namespace Fs.Json

/-- v:path / GET_PATH / v['k'] / v[i] : navigate; missing path or non-matching kind ⇒ NULL -/
def specNav (v : Val) (p : Path) : Val :=
  match v with
  | .null => .null
  | .json j => ofOpt (get j p)
  | .err e => .err e
  | _ => .unsup

/-- conversion to text: **an extracted string loses its JSON quotes**; other JSON values are their JSON text -/
def specText : Val → Val
  | .json j => .text (textOf j)
  | .text s => .text s
  | .int n => .text (intDigits n)
  | .bool true => .text "true".toList
  | .bool false => .text "false".toList
  | .null => .null
  | .err e => .err e
  | .unsup => .unsup

def specCastInt : Val → Val
  | .json (.num n) => .int n
  | .json (.str s) => match parseInt s with | some n => .int n | none => .err .conv
  | .json _ => .unsup
  | .text s => match parseInt s with | some n => .int n | none => .err .conv
  | .int n => .int n
  | .null => .null
  | .err e => .err e
  | _ => .unsup

def specCastBool : Val → Val
  | .json (.bool b) => .bool b
  | .json (.str s) => if s = "true".toList then .bool true else if s = "false".toList then .bool false else .unsup
  | .json _ => .unsup
  | .text s => if s = "true".toList then .bool true else if s = "false".toList then .bool false else .unsup
  | .bool b => .bool b
  | .null => .null
  | .err e => .err e
  | _ => .unsup

def specCast (t : Ty) (v : Val) : Val :=
  match t with
  | .text => specText v
  | .int => specCastInt v
  | .bool => specCastBool v

/-- ARRAY_SIZE: the number of elements of an array (0 for the empty array), NULL for anything else -/
def specArraySize : Val → Val
  | .json (.arr l) => .int l.length
  | .json _ => .null
  | .null => .null
  | .err e => .err e
  | _ => .unsup

/-- a bare extracted value compared with a text literal: equal iff it is that string -/
def specJsonText (j : Json) (s : List Char) : Val := .bool (j = .str s)

def evalSpec (doc : Env) : E → Val
  | .col => .json doc.doc
  | .fval => ofOpt (some doc.doc)
  | .lit l => evalLit l
  | .jx x (.path p) => specNav (evalSpec doc x) p
  | .jx _ (.raw _) => .unsup
  | .jxs _ _ => .unsup
  | .bracket x i => specNav (evalSpec doc x) [i.seg]
  | .paren x => evalSpec doc x
  | .parseJson x => parseVal doc.pj (evalSpec doc x)
  | .cast x t => specCast t (evalSpec doc x)
  | .upper x => mapText (TFun.app .upper) (specText (evalSpec doc x))
  | .lower x => mapText (TFun.app .lower) (specText (evalSpec doc x))
  | .trim x => mapText (TFun.app .trim) (specText (evalSpec doc x))
  | .arraySize x => specArraySize (evalSpec doc x)
  | .caseLen _ => .unsup
  | .bin o a b => evalBin specJsonText o (evalSpec doc a) (evalSpec doc b)
  | .not x => evalNot (evalSpec doc x)
  | .isNull x => evalIsNull (evalSpec doc x)

/-- LATERAL FLATTEN: every element once, in order (objects: every value, in document order) -/
def flattenSpec : Val → Except Err (List Val)
  | .json (.arr l) => .ok (l.toList.map fun j => ofOpt (some j))
  | .json (.obj o) => .ok (o.toList.map fun kv => ofOpt (some kv.2))
  | .null => .ok []
  | .json .null => .ok []
  | .json _ => .ok []
  | _ => .error .binder

/-- FLATTEN(…, OUTER => TRUE): one row with NULL when there is nothing to expand -/
def flattenOuterSpec (v : Val) : Except Err (List Val) :=
  match flattenSpec v with
  | .ok [] => .ok [.null]
  | r => r

def flattenTextSpec (v : Val) : Except Err (List Val) :=
  (flattenSpec v).map fun rows => rows.map specText

/-! ## The source shapes the property names (domain of the `_partial` theorems)

`Nav`  : `v`, `v:a.b[0]`, `GET_PATH(v:a, 'b')`, … — extraction chains of any depth and nesting;
`Acc`  : a chain, optionally with ONE subscript `…['k']` / `…[i]` on top (sqlglot's parser folds a subscript that
         follows a `:` path into the path itself, so this is how subscripts reach fakesnow);
`Use`  : the extracted value used bare, cast to text/number/boolean, under UPPER/LOWER/TRIM, ARRAY_SIZE, IS NULL;
`Ctx`  : uses and literals inside comparisons, boolean and arithmetic expressions and parentheses, any depth. -/

inductive Nav where
  | col
  | path (n : Nav) (p : Path)

def Nav.toE : Nav → E
  | .col => .col
  | .path n p => .jx n.toE (.path p)

inductive Acc where
  | nav (n : Nav)
  | brk (n : Nav) (i : BIdx)

def Acc.toE : Acc → E
  | .nav n => n.toE
  | .brk n i => .bracket n.toE i

inductive Use where
  | bare (a : Acc)
  | cast (a : Acc) (t : Ty)
  | upper (a : Acc)
  | lower (a : Acc)
  | trim (a : Acc)
  | arraySize (a : Acc)
  | isNull (a : Acc)

def Use.toE : Use → E
  | .bare a => a.toE
  | .cast a t => .cast a.toE t
  | .upper a => .upper a.toE
  | .lower a => .lower a.toE
  | .trim a => .trim a.toE
  | .arraySize a => .arraySize a.toE
  | .isNull a => .isNull a.toE

inductive Ctx where
  | use (u : Use)
  | lit (l : Lit)
  | bin (o : Op) (a b : Ctx)
  | not (a : Ctx)
  | paren (a : Ctx)

def Ctx.toE : Ctx → E
  | .use u => u.toE
  | .lit l => .lit l
  | .bin o a b => .bin o a.toE b.toE
  | .not a => .not a.toE
  | .paren a => .paren a.toE

/-! ### The envelope: exactly the regions of the recorded findings are excluded -/

/-- a key that `$.{key}` renders faithfully: non-empty, not `*`, no `.`/`[`, not starting with `"` -/
def simpleKey (k : List Char) : Bool :=
  !k.isEmpty && k != ['*'] && k.all isKeyChar && k.head? != some '"'

/-- excluded: C11/bracket-key-unescaped -/
def BIdx.ok : BIdx → Bool
  | .str k => simpleKey k
  | .num ds => !ds.isEmpty && ds.all isDigit

def Acc.ok : Acc → Bool
  | .nav _ => true
  | .brk _ i => i.ok

/-- is the access a `:`/GET_PATH extraction (the only shape the unquoting rewrites recognise)? -/
def Acc.isPath : Acc → Bool
  | .nav (.path _ _) => true
  | _ => false

def Val.isJsonStr : Val → Bool
  | .json (.str _) => true
  | _ => false

def castOK (t : Ty) : Val → Bool
  | .json (.num _) => t != .bool
  | .json (.bool _) => t != .int
  | .json (.str _) => true
  | .json _ => t == .text
  | _ => true

def Val.isEmptyArr : Val → Bool
  | .json (.arr .nil) => true
  | _ => false

/-- excluded: C11/text-of-non-path-variant-keeps-quotes (conversion of a string that was not extracted by a
    `:` path — a subscript, or the VARIANT itself), C11/array-size-empty -/
def Use.ok (doc : Env) : Use → Bool
  | .bare a => a.ok
  | .cast a t => a.ok && castOK t (evalSpec doc a.toE) && (a.isPath || !(evalSpec doc a.toE).isJsonStr)
  | .upper a => a.ok && (a.isPath || !(evalSpec doc a.toE).isJsonStr)
  | .lower a => a.ok && (a.isPath || !(evalSpec doc a.toE).isJsonStr)
  | .trim a => a.ok && (a.isPath || !(evalSpec doc a.toE).isJsonStr)
  | .arraySize a => a.ok && !(evalSpec doc a.toE).isEmptyArr
  | .isNull a => a.ok

def mixedEq : Val → Val → Bool
  | .json _, .text _ => true
  | _, _ => false

/-- excluded: C11/string-eq-literal (a bare extracted value compared with a text literal) -/
def Ctx.ok (doc : Env) : Ctx → Bool
  | .use u => u.ok doc
  | .lit _ => true
  | .bin o a b => a.ok doc && b.ok doc && !(o == .eq && mixedEq (evalSpec doc a.toE) (evalSpec doc b.toE))
  | .not a => a.ok doc
  | .paren a => a.ok doc

end Fs.Json
