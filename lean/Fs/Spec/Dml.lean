import Fs.Model.DmlRel
/-
C04 specification: what SQL semantics prescribe for INSERT / UPDATE / DELETE / TRUNCATE on the mini
relational model, written declaratively (filter / map / countP / ++), and what a Snowflake cursor shows
for it (status row, column names, rowcount).
-/
namespace Fs.Dml

inductive Cell
  | int (n : Int)
  | text (s : String)
deriving DecidableEq, Repr

/-- what the caller sees after a successful statement -/
structure Obs where
  names : List String          -- result column names (`description`)
  rows : List (List Cell)      -- `fetchall()`
  rowcount : Nat               -- `cursor.rowcount`
deriving DecidableEq, Repr

deriving instance DecidableEq for Except

def successText : String := "Statement executed successfully."

namespace Spec

/-- is the statement acceptable, and what are the rows an INSERT adds (laid out over the target) -/
def insertRows (db : DB) (tb : Table) (cols : Option (List Nat)) : Src → Except Err (List Row)
  | .values w rows =>
    if ¬ rows.all (·.length == w) then .error .binder
    else if colsOk tb.arity cols ∧ w = colsWidth tb.arity cols then .ok (rows.map (place tb.arity cols))
    else .error .binder
  | .select s proj p =>
    match db[s]? with
    | none => .error .catalog
    | some st =>
      if ¬ (projMaxCol proj ≤ st.arity ∧ whereMaxCol p ≤ st.arity) then .error .binder
      else if colsOk tb.arity cols ∧ projWidth proj st.arity = colsWidth tb.arity cols then
        .ok (((st.rows.filter (fun r => whereEval p r = .t)).map (projRow proj)).map (place tb.arity cols))
      else .error .binder

/-- SQL semantics of one statement: new database and the number of rows affected -/
def apply (db : DB) : Stmt → Except Err (DB × Nat)
  | .insert t cols src =>
    match db[t]? with
    | none => .error .catalog
    | some tb =>
      match insertRows db tb cols src with
      | .error e => .error e
      | .ok new => .ok (db.set t { tb with rows := tb.rows ++ new }, new.length)
  | .update t sets p =>
    match db[t]? with
    | none => .error .catalog
    | some tb =>
      if setsOk tb.arity sets ∧ whereMaxCol p ≤ tb.arity then
        .ok (db.set t { tb with rows := tb.rows.map (fun r => if whereEval p r = .t then assign sets r else r) },
             tb.rows.countP (fun r => whereEval p r = .t))
      else .error .binder
  | .delete t p =>
    match db[t]? with
    | none => .error .catalog
    | some tb =>
      if whereMaxCol p ≤ tb.arity then
        .ok (db.set t { tb with rows := tb.rows.filter (fun r => ¬ whereEval p r = .t) },
             tb.rows.countP (fun r => whereEval p r = .t))
      else .error .binder
  | .truncate t =>
    match db[t]? with
    | none => .error .catalog
    | some tb => .ok (db.set t { tb with rows := [] }, tb.rows.length)

/-- what Snowflake's cursor shows: the status row carries the affected count, and so does rowcount;
    TRUNCATE answers with the generic success status (one row, rowcount 1). -/
def obs : Stmt → Nat → Obs
  | .insert .., n => { names := ["number of rows inserted"], rows := [[.int n]], rowcount := n }
  | .update .., n => { names := ["number of rows updated", "number of multi-joined rows updated"],
                        rows := [[.int n, .int 0]], rowcount := n }
  | .delete .., n => { names := ["number of rows deleted"], rows := [[.int n]], rowcount := n }
  | .truncate _, _ => { names := ["status"], rows := [[.text successText]], rowcount := 1 }

def step (db : DB) (s : Stmt) : Except Err (DB × Obs) :=
  match apply db s with
  | .error e => .error e
  | .ok (db', n) => .ok (db', obs s n)

end Spec

/-- run a history; a rejected statement leaves the database as it was and the history goes on -/
def runWith (step : DB → Stmt → Except Err (DB × Obs)) (db : DB) : List Stmt → List (Except Err Obs) × DB
  | [] => ([], db)
  | s :: ss =>
    match step db s with
    | .error e => let r := runWith step db ss; (.error e :: r.1, r.2)
    | .ok (db', o) => let r := runWith step db' ss; (.ok o :: r.1, r.2)

end Fs.Dml
