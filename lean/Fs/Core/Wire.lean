/-
Line-protocol helpers shared by every driver handler (no Mathlib; the driver links as a lean_exe).

Field syntax (fields are TAB separated, one request per line):
  string  := "e" (empty) | code points in decimal separated by single spaces
  null    := "-"
  list    := "[]" (empty) | items separated by ";"       (items never contain ";" or TAB)
-/
namespace Fs.Wire

def decStr (s : String) : List Char :=
  if s == "e" then [] else (s.splitOn " ").filterMap fun t => t.toNat?.map Char.ofNat

def encStr (cs : List Char) : String :=
  if cs.isEmpty then "e" else " ".intercalate (cs.map fun c => toString c.toNat)

def decString (s : String) : String := String.ofList (decStr s)
def encString (s : String) : String := encStr s.toList

def decOptStr (s : String) : Option (List Char) := if s == "-" then none else some (decStr s)
def encOptStr : Option (List Char) → String | none => "-" | some cs => encStr cs

def decList (s : String) : List String := if s == "[]" then [] else s.splitOn ";"
def encList (xs : List String) : String := if xs.isEmpty then "[]" else ";".intercalate xs

def decNatList (s : String) : List Nat := (decList s).filterMap (·.toNat?)
def encNatList (xs : List Nat) : String := encList (xs.map toString)

def decBool (s : String) : Bool := s == "1"
def encBool (b : Bool) : String := if b then "1" else "0"

def decOptNat (s : String) : Option Nat := if s == "-" then none else s.toNat?
def encOptNat : Option Nat → String | none => "-" | some n => toString n

def fields (line : String) : List String := line.trimAscii.toString.splitOn "\t"

end Fs.Wire
