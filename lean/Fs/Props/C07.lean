import Fs.Proofs.Errors
/-!
# C07 — failures are Snowflake errors with the right codes, and change nothing

Statements only (helper lemmas: `Fs/Proofs/Errors.lean`).  `Fs.Err.execute` models `cursor.execute` /
`_execute` (closed-connection guard, undefined-variable check, parse, variable update, per-call pre-checks
90105/90106, the translated engine call, context bookkeeping, untranslated follow-up calls).  The engine
`eng : D → Q → Except DuckExc D` is a parameter: the general theorems hold for **every** engine, state type and
SQL type.  Which exception class DuckDB raises for which cause (`duckClass`, `reaction`) is modelled engine
behaviour, tied to the real stack by the correspondence check.
-/
namespace Fs.C07
open Fs.Err

/-- the four (errno, sqlstate) pairs the property names -/
def codeTable : List Code := [c2003, c2043, c90105, c90106]

/-- a statement that is one `_execute` call with nothing sent outside the translating `try`, and that does not
    touch session variables (every statement except SET/UNSET, MERGE, CREATE DATABASE, and DDL that records
    comments / text lengths in the side tables) -/
def SingleCall {Q} (s : Stmt Q) : Prop :=
  s.varUpdate = .none ∧ ∃ c, s.calls = [c] ∧ c.followups = []

/-- **Code table**: every cause the property lists is translated — DuckDB's Binder/Catalog classes become
    ProgrammingError 2043/02000 and 2003/42S02, the two pre-checks raise 90105 and 90106 with 22000, a closed
    connection becomes DatabaseError 250002/08003; errno and sqlstate always come as the listed pair. -/
theorem C07_codes :
    (∀ c ∈ Cause.all, ∃ code ∈ [c2003, c2043], mapExc (duckClass c) = some (.programming code)) ∧
    mapExc .catalog = some (.programming ⟨2003, "42S02"⟩) ∧ mapExc .binder = some (.programming ⟨2043, "02000"⟩) ∧
    mapExc .connection = some (.database ⟨250002, "08003"⟩) ∧ mapExc .txNoActive = none ∧
    c90105 = ⟨90105, "22000"⟩ ∧ c90106 = ⟨90106, "22000"⟩ := by decide

/-- **Never an engine-specific exception**: for every engine whose failures on this call are Binder or Catalog
    errors (the causes of the property), a single-call statement on an open connection ends in success or in a
    ProgrammingError whose (errno, sqlstate) is one of the four listed pairs — or, for an undefined session
    variable, a ProgrammingError raised before anything ran. -/
theorem C07_translated {D Q} (eng : D → Q → Except DuckExc D) (w : World D) (s : Stmt Q)
    (hopen : w.closed = false) (hp : s.parseError = false) (hs : SingleCall s)
    (heng : ∀ d q e, eng d q = .error e → e = .binder ∨ e = .catalog) :
    (execute eng w s).outcome = .ok ∨ (∃ c ∈ codeTable, (execute eng w s).outcome = .programming c) ∨
    (s.undefinedVar = true ∧ (execute eng w s).outcome = .programming cNone) := by
  obtain ⟨hv, c, hc, hf⟩ := hs
  cases hu : s.undefinedVar
  · rw [(execute_single eng w s c hv hc hopen hu hp).1]
    rcases execCall_outcome eng w c hf with h | h | h | ⟨e, he, hm⟩
    · exact .inl h
    · exact .inr (.inl ⟨c90105, by simp [codeTable], h⟩)
    · exact .inr (.inl ⟨c90106, by simp [codeTable], h⟩)
    · rcases heng _ _ _ he with rfl | rfl
      · simp only [mapExc, Option.some.injEq] at hm
        exact .inr (.inl ⟨c2043, by simp [codeTable], hm.symm⟩)
      · simp only [mapExc, Option.some.injEq] at hm
        exact .inr (.inl ⟨c2003, by simp [codeTable], hm.symm⟩)
  · exact .inr (.inr ⟨rfl, by simp [execute, hopen, hu, sqlstateOf]⟩)

/-- **A failed statement changes nothing**: for every engine, every world and every single-call statement, if
    `execute` does not succeed — whatever the error: ProgrammingError, DatabaseError, or an untranslated one —
    the DuckDB state (data, catalog, open transaction), the session context and the variables are exactly
    what they were.  (Context is only written after the engine accepted the call, cursor.py:272-278.) -/
theorem C07_unchanged {D Q} (eng : D → Q → Except DuckExc D) (w : World D) (s : Stmt Q) (hs : SingleCall s)
    (hfail : (execute eng w s).outcome ≠ .ok) : (execute eng w s).world = w := by
  obtain ⟨hv, c, hc, hf⟩ := hs
  cases hcl : w.closed
  · cases hu : s.undefinedVar
    · cases hp : s.parseError
      · obtain ⟨h1, h2⟩ := execute_single eng w s c hv hc hcl hu hp
        rw [h1] at hfail
        rw [h2]
        exact execCall_fail eng w c hf hfail
      · simp [execute, hcl, hu, hp]
    · simp [execute, hcl, hu]
  · simp [execute, hcl]

/-- **Pre-checks**: a name that needs a current database (schema) in a session that has none is rejected with
    90105 (else 90106) before the engine is consulted — for every engine, nothing changes. -/
theorem C07_precheck {D Q} (eng : D → Q → Except DuckExc D) (w : World D) (c : Call Q) :
    (c.noDatabase = true → w.sess.databaseSet = false → execCall eng w c = (w, .programming c90105)) ∧
    (¬ (c.noDatabase = true ∧ w.sess.databaseSet = false) → c.noSchema = true → w.sess.schemaSet = false →
        execCall eng w c = (w, .programming c90106)) := by
  constructor
  · intro h1 h2; simp [execCall, h1, h2]
  · intro h0 h1 h2
    have : ¬ (c.noDatabase = true ∧ ¬ w.sess.databaseSet = true) := by simpa using h0
    unfold execCall
    rw [if_neg this, if_pos ⟨h1, by simp [h2]⟩]

/-- **sqlstate after one execute**: `cursor.sqlstate` is the sqlstate of the ProgrammingError just raised, and
    `None` after a success (or after an error that is not a ProgrammingError). -/
theorem C07_sqlstate {D Q} (eng : D → Q → Except DuckExc D) (w : World D) (s : Stmt Q) :
    (execute eng w s).sqlstate = sqlstateOf (execute eng w s).outcome ∧
    (∀ c, (execute eng w s).outcome = .programming c → (execute eng w s).sqlstate = some c.sqlstate) ∧
    ((execute eng w s).outcome = .ok → (execute eng w s).sqlstate = none) := by
  have h : (execute eng w s).sqlstate = sqlstateOf (execute eng w s).outcome := by
    unfold execute
    split
    · rfl
    · split
      · rfl
      · split
        · rfl
        · split <;> rfl
  exact ⟨h, fun c hc => by rw [h, hc]; rfl, fun hc => by rw [h, hc]; rfl⟩

/-- **sqlstate persists until the next execute**: over any sequence of cursor operations, after an `execute`
    followed by any number of fetches / description reads, `cursor.sqlstate` is still what that execute set;
    whatever was there before is gone (each execute resets it). -/
theorem C07_sqlstate_ops {D Q} (eng : D → Q → Except DuckExc D) (w : World D) (st : Option String)
    (before others : List (CurOp Q)) (s : Stmt Q) (ho : ∀ o ∈ others, o = .other) :
    (runOps eng w st (before ++ [.execute s] ++ others)).2 =
      (execute eng (runOps eng w st before).1 s).sqlstate := by
  rw [List.append_assoc, runOps_append]
  simp only [List.singleton_append, runOps]
  rw [runOps_others _ _ _ _ ho]

/-- **Closed connection**: every execute on a closed connection raises DatabaseError 250002/08003 — whatever the
    statement (undefined variable, unparsable text, SET, DDL …) — and nothing changes, for every engine. -/
theorem C07_closed {D Q} (eng : D → Q → Except DuckExc D) (w : World D) (s : Stmt Q) (h : w.closed = true) :
    (execute eng w s).outcome = .database ⟨250002, "08003"⟩ ∧ (execute eng w s).world = w ∧
    (execute eng w s).sqlstate = none := by
  simp [execute, h, c250002, sqlstateOf]

/-- **`description` on a closed connection / after the object vanished**: `description` re-describes through the same
    translating ladder as `execute`: on a closed connection it raises DatabaseError 250002/08003, and for every engine
    whose DESCRIBE fails only with Binder/Catalog errors (table or column dropped through another cursor since) it
    raises ProgrammingError 2043/02000 or 2003/42S02 — never an engine-specific exception (given the session still has the
    database/schema the last statement needed). -/
theorem C07_description_translated {D Q} (eng : D → Q → Except DuckExc D) (w : World D) (c : Call Q) (hf : c.followups = [])
    (hdb : ¬ (c.noDatabase = true ∧ ¬ w.sess.databaseSet = true)) (hsc : ¬ (c.noSchema = true ∧ ¬ w.sess.schemaSet = true))
    (heng : ∀ d q e, eng d q = .error e → e = .binder ∨ e = .catalog) :
    (w.closed = true → descriptionOutcome eng w c = .database ⟨250002, "08003"⟩) ∧
    (w.closed = false → descriptionOutcome eng w c = .ok ∨ descriptionOutcome eng w c = .programming c2043 ∨
        descriptionOutcome eng w c = .programming c2003) := by
  constructor
  · intro hcl
    unfold descriptionOutcome execCall
    rw [if_neg hdb, if_neg hsc]
    simp [hcl, mapExc, c250002]
  · intro hcl
    simp only [descriptionOutcome, hcl, Bool.false_eq_true, if_false]
    rcases execCall_outcome eng w c hf with h | h | h | ⟨e, he, hm⟩
    · exact .inl h
    · exfalso; revert h; unfold execCall; rw [if_neg hdb, if_neg hsc]
      cases he : eng w.duck c.sql with
      | error e => rcases heng _ _ _ he with rfl | rfl <;> simp [mapExc, c2043, c2003, c90105]
      | ok d => simp [hf, runFollowups]
    · exfalso; revert h; unfold execCall; rw [if_neg hdb, if_neg hsc]
      cases he : eng w.duck c.sql with
      | error e => rcases heng _ _ _ he with rfl | rfl <;> simp [mapExc, c2043, c2003, c90106]
      | ok d => simp [hf, runFollowups]
    · rcases heng _ _ _ he with rfl | rfl
      · simp only [mapExc, Option.some.injEq] at hm; exact .inr (.inl hm.symm)
      · simp only [mapExc, Option.some.injEq] at hm; exact .inr (.inr hm.symm)

/-- **A qualified `USE SCHEMA db.s` gives the session a current database *and* schema** — from any earlier state, in
    particular from "no current database": afterwards neither pre-check can fire, so every statement reaches the engine
    and its failures carry the engine's code (2003 / 2043), not 90105 / 90106. -/
theorem C07_use_schema_qualified {D Q} (eng : D → Q → Except DuckExc D) (w : World D) (sess : Session) (db sc : String) (c : Call Q) :
    let sess' := (CtxUpdate.setSchema sc (some db)).apply sess
    sess'.databaseSet = true ∧ sess'.schemaSet = true ∧ sess'.database = some db ∧ sess'.schema = some sc ∧
    (execCall eng { w with sess := sess' } c).2 ≠ .programming c90105 ∧
    (execCall eng { w with sess := sess' } c).2 ≠ .programming c90106 := by
  refine ⟨rfl, rfl, rfl, rfl, ?_, ?_⟩ <;>
  · simp only [execCall, CtxUpdate.apply]
    simp only [not_true_eq_false, and_false, if_false]
    cases he : eng w.duck c.sql with
    | error e => cases e <;> simp [mapExc, c2043, c2003, c90105, c90106, c250002]
    | ok d =>
      simp only []
      cases hr : runFollowups eng d c.followups with
      | mk d' oe => cases oe <;> simp

/-- **Dropping the current schema leaves the session without one**: after a successful `DROP SCHEMA` of the session's current
    schema the bookkeeping clears both the name and the flag, so every later statement that needs a current schema (an
    unqualified table name) is refused with 90106/22000 before the engine sees it — it cannot create or touch anything — for
    every engine; statements that need none are unaffected, and a `USE SCHEMA` restores normal service. -/
theorem C07_drop_current_schema {D Q} (eng : D → Q → Except DuckExc D) (w : World D) (sess : Session) (cur : String) (c : Call Q)
    (hcur : sess.schema = some cur) (hdb : sess.databaseSet = true) :
    let sess' := (CtxUpdate.dropped false cur).apply sess
    sess'.schemaSet = false ∧ sess'.schema = none ∧ sess'.databaseSet = true ∧
    (c.noSchema = true → execCall eng { w with sess := sess' } c = ({ w with sess := sess' }, .programming c90106)) := by
  refine ⟨by simp [CtxUpdate.apply, hcur], by simp [CtxUpdate.apply, hcur], by simp [CtxUpdate.apply, hcur, hdb], fun hns => ?_⟩
  simp [execCall, CtxUpdate.apply, hcur, hdb, hns]

/-- **Any use of a closed connection**: `commit()`, `rollback()`, a new cursor's `execute`, `execute_string`, `executemany`,
    `describe` (each: at least one `cursor.execute`), `write_pandas`, and `description` (of a statement whose pre-checks pass)
    all raise DatabaseError 250002/08003 and change nothing — for every engine. -/
theorem C07_closed_any_use {D Q} (eng : D → Q → Except DuckExc D) (w : World D) (hcl : w.closed = true) (u : ConnUse Q)
    (hne : ∀ ss, u = .viaExecute ss → ss ≠ [])
    (hpre : ∀ c, u = .description c → ¬ (c.noDatabase = true ∧ ¬ w.sess.databaseSet = true) ∧ ¬ (c.noSchema = true ∧ ¬ w.sess.schemaSet = true)) :
    u.run eng w = (w, .database ⟨250002, "08003"⟩) := by
  cases u with
  | viaExecute ss =>
    cases ss with
    | nil => exact absurd rfl (hne [] rfl)
    | cons s rest =>
      obtain ⟨h1, h2, _⟩ := C07_closed eng w s hcl
      simp only [ConnUse.run, runExecutes, h1, h2]
  | writePandas q => simp [ConnUse.run, hcl, c250002]
  | description c =>
    obtain ⟨hdb, hsc⟩ := hpre c rfl
    simp only [ConnUse.run, descriptionOutcome, execCall]
    rw [if_neg hdb, if_neg hsc]
    simp [hcl, mapExc, c250002]

/-- **Failures inside the caller's open transaction**: `executemany` is a run of `cursor.execute`s and stops at the first
    failure — if the first row's statement fails, the world (DuckDB state *including the caller's open transaction with its
    uncommitted work*, context, variables) is exactly what it was and the error is that statement's; nothing is rolled back or
    committed on the caller's behalf. -/
theorem C07_executemany_first_failure {D Q} (eng : D → Q → Except DuckExc D) (w : World D) (s : Stmt Q) (rest : List (Stmt Q))
    (hs : SingleCall s) (hfail : (execute eng w s).outcome ≠ .ok) :
    runExecutes eng w (s :: rest) = (w, (execute eng w s).outcome) := by
  have hw := C07_unchanged eng w s hs hfail
  simp only [runExecutes]
  cases ho : (execute eng w s).outcome with
  | ok => exact absurd ho hfail
  | programming c => simp [hw]
  | database c => simp [hw]
  | rawDuck e => simp [hw]
  | rawPy e => simp [hw]

/-- **`write_pandas` fails like `execute`**: a Binder / Catalog error of the direct insert is raised as ProgrammingError
    2043/02000 / 2003/42S02, and a `write_pandas` that does not succeed leaves the world unchanged — for every engine. -/
theorem C07_write_pandas {D Q} (eng : D → Q → Except DuckExc D) (w : World D) (q : Q) (hopen : w.closed = false) :
    (eng w.duck q = .error .binder → (ConnUse.writePandas q).run eng w = (w, .programming c2043)) ∧
    (eng w.duck q = .error .catalog → (ConnUse.writePandas q).run eng w = (w, .programming c2003)) ∧
    (((ConnUse.writePandas q).run eng w).2 ≠ .ok → ((ConnUse.writePandas q).run eng w).1 = w) := by
  refine ⟨fun h => by simp [ConnUse.run, hopen, h], fun h => by simp [ConnUse.run, hopen, h], ?_⟩
  simp only [ConnUse.run, hopen, Bool.false_eq_true, if_false]
  cases he : eng w.duck q with
  | ok d => simp
  | error e => cases e <;> simp

/-- **CREATE/DROP SCHEMA: the database check follows the parse shape, not IF [NOT] EXISTS**: for both shapes sqlglot produces
    (normal; table-like for `DROP SCHEMA IF EXISTS`), "names no database" holds exactly when the name has one part — so
    `CREATE SCHEMA IF NOT EXISTS foo`, `DROP SCHEMA IF EXISTS foo` etc. need a current database like their plain spellings. -/
theorem C07_schema_ref_shapes (tableLike : Bool) (parts : Nat) :
    schemaNoDatabase (schemaNode tableLike parts) = decide (parts < 2) ∧
    schemaNoDatabase (schemaNode tableLike parts) = (unqualified .schema parts).1 := by
  cases tableLike <;> by_cases h : 2 ≤ parts <;> simp [schemaNoDatabase, schemaNode, unqualified, h] <;> omega

/-- witness: decided from the `exists` flag, `CREATE SCHEMA IF NOT EXISTS foo` (flag set, normal shape, one part) would not
    need a current database. -/
theorem C07_schema_check_by_flag_wrong :
    schemaNoDatabaseByFlag true (schemaNode false 1) = false ∧ schemaNoDatabase (schemaNode false 1) = true := by decide

/-- known finding `C07/cte-reference-needs-context`: the pre-check looks at the first table expression of the statement, and a
    reference to the statement's own CTE looks like an unqualified table: `WITH c AS (SELECT * FROM db1.s1.t) SELECT * FROM c`
    is refused with 90105 in a session without a current database although nothing in it needs one (the engine would accept it). -/
theorem finding_C07_cte_reference_needs_context :
    execCall (fun (d : Nat) (_ : Nat) => .ok d) { duck := 0 } ⟨true, true, 0, .none, []⟩ = ({ duck := 0 }, .programming c90105) ∧
    execCall (fun (d : Nat) (_ : Nat) => .ok d) { duck := 0 } ⟨false, false, 0, .none, []⟩ = ({ duck := 0 }, .ok) := by
  constructor <;> rfl

/-! ### the cause × position table -/

/-- the full statement over the scenario table: every way of referring to something missing or duplicate, at
    every position, qualification level and session state, is a ProgrammingError with the matching code and
    changes nothing -/
def C07_table_Full : Prop := ∀ sc : Scenario, predict sc = specOutcome sc

/-- envelope: the scenarios outside the recorded finding regions -/
def InEnv (sc : Scenario) : Prop := scenarioFinding sc = none

instance (sc : Scenario) : Decidable (InEnv sc) := by unfold InEnv; infer_instance

/-- **Cause table, partial**: for every cause × position × qualification × session state outside the four
    finding regions (COMMENT ON a missing object, SHOW … IN a missing scope, DROP DATABASE), the model of the
    code yields exactly the demanded ProgrammingError — 90105/90106 when the session lacks the database/schema
    the name needs, else 2003/42S02 or 2043/02000 by cause — and leaves everything unchanged. -/
theorem C07_table_partial (sc : Scenario) (h : InEnv sc) : predict sc = specOutcome sc := by
  have key : ∀ c, ∀ sc ∈ Scenario.forCause c, InEnv sc → predict sc = specOutcome sc := by
    intro c; cases c <;> decide +kernel
  exact key sc.cause sc (Scenario.mem_forCause sc) h

/-- known finding `C07/comment-on-missing-table`: COMMENT ON a table that does not exist succeeds and writes the
    side table. -/
theorem finding_C07_comment_on_missing_table :
    predict ⟨.unknownTable, .commentTarget, .noTable, .name, true, true⟩ = (.ok, true) := by decide

/-- known finding `C07/comment-on-missing-database-raw`: COMMENT ON nodb.s.t — the side-table insert raises a raw
    BinderException outside the translating `try`. -/
theorem finding_C07_comment_on_missing_database_raw :
    (predict ⟨.unknownDatabase, .commentTarget, .noTable, .full, true, true⟩).1 = .rawDuck .binder := by decide

/-- known finding `C07/show-in-missing-scope`: SHOW … IN SCHEMA/DATABASE <missing> returns an empty result. -/
theorem finding_C07_show_in_missing_scope :
    (predict ⟨.unknownSchema, .showScope, .noTable, .name, true, true⟩).1 = .ok := by decide

/-- known finding `C07/drop-database-parser-error`: DROP DATABASE reaches the caller as DuckDB's ParserException. -/
theorem finding_C07_drop_database_parser_error :
    (predict ⟨.unknownDatabase, .dropDatabase, .database, .name, true, true⟩).1 = .rawDuck .parser := by decide

theorem C07_table_full_false : ¬ C07_table_Full := fun h => by
  have := h ⟨.unknownTable, .commentTarget, .noTable, .name, true, true⟩
  revert this; decide

/-- the full "changes nothing / never raw" statement without the single-call restriction -/
def C07_unchanged_Full : Prop :=
  ∀ (eng : Nat → Nat → Except DuckExc Nat) (w : World Nat) (s : Stmt Nat),
    (execute eng w s).outcome ≠ .ok → (execute eng w s).world.duck = w.duck

/-- known finding `C07/multi-call-partial-effects`: a statement executed as several engine calls (MERGE: helper
    table, then one DML per clause) keeps the effects of the calls before the failing one. -/
theorem finding_C07_multi_call_partial_effects :
    let eng : Nat → Nat → Except DuckExc Nat := fun d q => if q = 0 then .ok (d + 1) else .error .binder
    let s : Stmt Nat := { calls := [⟨false, false, 0, .none, []⟩, ⟨false, false, 1, .none, []⟩] }
    (execute eng { duck := 0 } s).outcome = .programming c2043 ∧ (execute eng { duck := 0 } s).world.duck = 1 := by
  decide

theorem C07_unchanged_full_false : ¬ C07_unchanged_Full := fun h => by
  have := h (fun d q => if q = 0 then .ok (d + 1) else .error .binder) { duck := 0 }
    { calls := [⟨false, false, 0, .none, []⟩, ⟨false, false, 1, .none, []⟩] } (by decide)
  revert this; decide

/-- known finding `C07/unset-undefined-variable`: UNSET of a variable that is not set escapes as a bare KeyError. -/
theorem finding_C07_unset_undefined_variable :
    (execute (fun (d : Nat) (_ : Nat) => .ok d) { duck := 0 } { varUpdate := .unset "V", calls := [] }).outcome
      = .rawPy .keyError := by decide

/-- regression witness for the repaired defect `C07/closed-connection-client-side-first`: before the guard, an
    undefined variable on a closed connection raised its own ProgrammingError, and SET changed the variables
    although the statement failed. -/
theorem C07_old_closed_client_side_first :
    (executeOld (fun (d : Nat) (_ : Nat) => .ok d) { duck := 0, closed := true } { undefinedVar := true, calls := [] }).outcome
      = .programming cNone ∧
    (executeOld (fun (d : Nat) (_ : Nat) => .ok d) { duck := 0, closed := true }
        { varUpdate := .set "V" "1", calls := [⟨false, false, 0, .none, []⟩] }).world.sess.vars = [("V", "1")] := by
  decide

/-! ### non-vacuity -/

example : InEnv ⟨.unknownTable, .query, .table, .schemaName, true, false⟩ := by decide
example : predict ⟨.unknownColumn, .dmlTarget, .table, .name, true, false⟩ = (.programming c90106, false) := by decide
example : SingleCall ({ calls := [⟨true, true, 7, .setSchema "S" none, []⟩] } : Stmt Nat) := ⟨rfl, _, rfl, rfl⟩

end Fs.C07
