import Fs.Proofs.Meta
/-!
# C09 — metadata views always describe exactly the current user objects

Statements only (lemmas: `Fs/Proofs/Meta.lean`).  `Fs.Meta.World` carries the live catalog with the metadata *as declared*
(what the property demands every surface to show: `describeS`, `infoColumnsS`, `infoTablesS`) together with the side tables
`_fs_tables_ext` / `_fs_columns_ext` as the code maintains them — upsert only — from which the code computes its answers
(`describeI`, `infoColumnsI`, `infoTablesI`: the live catalog with lengths and comments *erased*, joined with the side
tables).  `region` recognises the statements on which that bookkeeping loses or resurrects metadata.  The
correspondence check (`harness/props/c09.py`) ties `step`, the surfaces and `region` to the real code after every statement.
-/
namespace Fs.C09
open Fs.Meta

/-- all three side-table surfaces show what was declared, for every object, schema and database -/
def SurfacesAgree (w : World) : Prop :=
  (∀ k, describeI w k = describeS w k) ∧ (∀ k, infoColumnsI w k = infoColumnsS w k) ∧
  (∀ d s, infoTablesI w d s = infoTablesS w d s)

/-- **Full statement of C09** on the model: after every DDL history the surfaces agree with the declarations. -/
def C09_Full : Prop := ∀ ops : List Op, SurfacesAgree (run World.init ops)

def k1 : Key := (11, 21, 31)
def k2 : Key := (11, 21, 32)

/-- DROP + re-CREATE: the comment of the dropped table is shown for the new one -/
def staleHistory : List Op :=
  [.createTable k1 [⟨41, .text 10⟩] (some 3) false none, .dropTable k1, .createTable k1 [⟨41, .int⟩] none false none]

/-- The full statement is false for the code as it is (witness: stale comment after DROP + re-CREATE). -/
theorem C09_full_false : ¬ C09_Full := by
  intro h
  have := (h staleHistory).2.2 11 21
  revert this; decide

/-- **C09, partial** (envelope `clean`: no statement of the history lies in a finding region): after every history
    of CREATE [OR REPLACE] TABLE, CTAS, CLONE, CREATE VIEW, ALTER TABLE add/drop/rename column, rename table, COMMENT,
    DROP and re-CREATE, DESCRIBE, information_schema.columns and information_schema.tables show exactly the declared
    types, VARCHAR lengths and comments of exactly the live objects, in every schema and database. -/
theorem C09_agree_partial (ops : List Op) (henv : clean World.init ops = true) : SurfacesAgree (run World.init ops) :=
  surfaces_of_inv _ (run_inv World.init ops ⟨by simp [World.uniq, World.init], by simp [World.init]⟩ henv)

/-- the one-step form: the invariant (unique keys + side tables describe every live object exactly as declared) is
    kept by every statement outside the finding regions — whether it succeeds or fails -/
theorem C09_step_partial (w : World) (op : Op) (hinv : Meta.Inv w) (henv : region w op = none) : Meta.Inv (step w op).2 :=
  step_inv w op hinv henv

/-- …and the invariant is what makes the surfaces agree -/
theorem C09_surfaces (w : World) (hinv : Meta.Inv w) : SurfacesAgree w := surfaces_of_inv w hinv

/-- the invariant is the decidable check the driver evaluates after every step (`World.agree`), plus key uniqueness -/
theorem C09_inv_iff_agree (w : World) : Meta.Inv w ↔ (w.uniq ∧ w.agree = true) := by
  simp only [Meta.Inv, agree_iff]

/-- **Nothing dropped or replaced is listed**: the listing surfaces (SHOW TABLES / OBJECTS, information_schema.views,
    the names of information_schema.tables) read the live catalog only, and a successful DROP removes exactly that key
    (no envelope). -/
theorem C09_drop_removes (w : World) (k : Key) (h : (step w (.dropTable k)).1 = true) :
    (step w (.dropTable k)).2.find k = none ∧
    ∀ t ∈ (step w (.dropTable k)).2.tabs, t ∈ w.tabs ∧ t.key ≠ k := by
  simp only [step] at h ⊢
  cases hf : w.find k with
  | none => simp [hf] at h
  | some t =>
    simp only [hf] at h ⊢
    cases hv : t.isView with
    | true => simp [hv] at h
    | false =>
      simp only [Bool.false_eq_true, if_false, World.find, World.remove]
      refine ⟨?_, fun x hx => ?_⟩
      · rw [List.find?_eq_none]
        intro x hx
        have := (List.mem_filter.mp hx).2
        simpa using this
      · have := List.mem_filter.mp hx
        exact ⟨this.1, by simpa using this.2⟩

/-- **Statements without metadata effect** — what fakesnow answers with its success no-op (SET variable, SET TAG, CREATE
    TAG, CLUSTER BY, column COMMENT, nop_regexes) and USE SCHEMA / USE DATABASE — leave the catalog and both side tables
    exactly as they are, wherever they are interleaved. -/
theorem C09_nop_unchanged (w : World) : step w .nop = (true, w) := rfl

/-- **Primary keys** (SHOW PRIMARY KEYS) are read from the live catalog alone — no side table is involved, so nothing a
    COMMENT, a no-op'd statement or a stale row does can change them — and they follow CREATE, OR REPLACE and DROP. -/
theorem C09_keys_from_catalog (tabs : List Tab) (t1 t2 : List (Key × Nat)) (c1 c2 : List (Key × Name × Nat)) (d s : Name) :
    showKeys ⟨tabs, t1, c1⟩ d s = showKeys ⟨tabs, t2, c2⟩ d s := rfl

theorem C09_keys_follow_ddl :
    showKeys (run World.init [.createTable k1 [⟨41, .int⟩, ⟨42, .text 5⟩] none false (some 41), .setComment k1 3, .nop]) 11 21 = [(31, 41)] ∧
    showKeys (run World.init [.createTable k1 [⟨41, .int⟩] none false (some 41), .createTable k1 [⟨42, .num 5 0⟩] none true (some 42)]) 11 21 = [(31, 42)] ∧
    showKeys (run World.init [.createTable k1 [⟨41, .int⟩] none false (some 41), .dropTable k1]) 11 21 = [] ∧
    (step World.init (.createTable k1 [⟨41, .int⟩] none false (some 49))).1 = false := by decide

/-- **A failed statement changes nothing** (no envelope). -/
theorem C09_failed_unchanged (w : World) (op : Op) (h : (step w op).1 = false) : (step w op).2 = w := by
  cases op <;> simp only [step] at h ⊢ <;> (repeat' split) <;> simp_all

/-- **Octet length**: `character_octet_length` of VARCHAR(n) is `min(4n, 16777216)`: 4 bytes per character up to the
    16 MB cap, never more than the cap, and equal to the cap for the default length. -/
theorem C09_octet_length (n : Nat) :
    octetLen n = (if n * 4 ≤ 16777216 then n * 4 else 16777216) ∧ octetLen n ≤ 16777216 ∧ octetLen defaultLen = 16777216 := by
  refine ⟨?_, ?_, by decide⟩
  · unfold octetLen; split <;> omega
  · unfold octetLen; omega

/-! ## Findings: every region of `region` is a real deviation -/

theorem finding_stale_comment :
    region (run World.init (staleHistory.take 2)) (.createTable k1 [⟨41, .int⟩] none false none) = some .staleComment ∧
    infoTablesI (run World.init staleHistory) 11 21 = [(31, false, some 3)] ∧
    infoTablesS (run World.init staleHistory) 11 21 = [(31, false, none)] := by decide

def base : World := run World.init [.createTable k1 [⟨41, .text 10⟩, ⟨42, .int⟩] (some 4) false none]

theorem finding_length_lost_on_rename_column :
    (base.agree = true) ∧ region base (.renameCol k1 41 43) = some .lengthLostOnRenameColumn ∧
    describeI (step base (.renameCol k1 41 43)).2 k1 = some [⟨43, .text defaultLen⟩, ⟨42, .int⟩] ∧
    describeS (step base (.renameCol k1 41 43)).2 k1 = some [⟨43, .text 10⟩, ⟨42, .int⟩] := by decide

theorem finding_metadata_lost_on_rename_table :
    region base (.renameTable k1 32) = some .lengthLostOnRenameTable ∧
    infoTablesI (step base (.renameTable k1 32)).2 11 21 = [(32, false, none)] ∧
    infoTablesS (step base (.renameTable k1 32)).2 11 21 = [(32, false, some 4)] ∧
    infoColumnsI (step base (.renameTable k1 32)).2 k2 = some [(41, none), (42, none)] ∧
    infoColumnsS (step base (.renameTable k1 32)).2 k2 = some [(41, some 10), (42, none)] := by decide

theorem finding_length_lost_on_ctas :
    region base (.ctas k2 k1 [41] false) = some .lengthLostOnCtas ∧
    describeI (step base (.ctas k2 k1 [41] false)).2 k2 ≠ describeS (step base (.ctas k2 k1 [41] false)).2 k2 := by decide

theorem finding_metadata_lost_on_clone :
    region base (.clone k2 k1 false) = some .lengthLostOnClone ∧
    describeI (step base (.clone k2 k1 false)).2 k2 ≠ describeS (step base (.clone k2 k1 false)).2 k2 ∧
    infoTablesI (step base (.clone k2 k1 false)).2 11 21 ≠ infoTablesS (step base (.clone k2 k1 false)).2 11 21 := by decide

theorem finding_length_lost_on_view :
    region base (.createView k2 k1 [41] false) = some .lengthLostOnView ∧
    describeI (step base (.createView k2 k1 [41] false)).2 k2 ≠ describeS (step base (.createView k2 k1 [41] false)).2 k2 := by decide

theorem finding_comment_on_missing_table :
    region World.init (.setComment k1 6) = some .commentOnMissingTable ∧
    infoTablesI (run World.init [.setComment k1 6, .createTable k1 [⟨41, .int⟩] none false none]) 11 21 = [(31, false, some 6)] ∧
    infoTablesS (run World.init [.setComment k1 6, .createTable k1 [⟨41, .int⟩] none false none]) 11 21 = [(31, false, none)] := by decide

/-! ## Non-vacuity -/

/-- a clean history with re-creation, OR REPLACE with a new comment, column churn, CTAS/CLONE/VIEW of non-text columns,
    rename of a non-text column and of a table without text columns or comment, and drops -/
def demo : List Op :=
  [.createTable k1 [⟨41, .text 10⟩, ⟨42, .int⟩, ⟨43, .num 10 2⟩] (some 1) false none,
   .addCol k1 ⟨44, .text 7⟩, .dropCol k1 41, .addCol k1 ⟨41, .text 3⟩, .renameCol k1 42 45, .setComment k1 2,
   .createTable k2 [⟨41, .date⟩, ⟨42, .bool⟩] none false none, .renameTable k2 33, .ctas k2 k1 [45, 43] false,
   .createView (11, 21, 34) k1 [43] false, .clone (11, 22, 31) (11, 21, 33) false,
   .createTable k1 [⟨41, .text 5⟩] (some 9) true none, .dropTable k2, .createTable k2 [⟨46, .text defaultLen⟩] none false none,
   .dropView (11, 21, 34)]

example : clean World.init demo = true := by decide
example : describeI (run World.init demo) k1 = some [⟨41, .text 5⟩] ∧ infoTablesI (run World.init demo) 11 21 =
    [(33, false, none), (31, false, some 9), (32, false, none)] := by decide

end Fs.C09
