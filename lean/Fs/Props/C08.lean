import Fs.Proofs.Params
/-!
# C08 — bound parameters arrive as data, whatever they contain

Statements only (lemmas: `Fs/Proofs/Params.lean`, `Fs/Proofs/Lex.lean`).  Models: `Fs.Params`
(`_rewrite_with_params`, the connector's `escape`/`quote`, `str % params`, the paramstyle snapshot,
the DuckDB generator/lexer for string literals, qmark binding) and `Fs.Lex` (sqlglot's Snowflake tokenizer
at character level).  `harness/props/c08.py` ties each of them to the real code on every run.

Reading of the property: a bound value `v` must reach the engine as the *one token* a correctly written
literal of `v` is, with the rest of the statement tokenised exactly as in the template — then parser,
rewrites and engine see the same statement as with the literal written out, whatever `v` contains.
-/
namespace Fs.C08
open Fs.Lex Fs.Params

/-! ## escape -/

/-- The connector's `escape` (four sequential `str.replace` calls — `\`, newline, CR, `'`, in that
    order) is a single left-to-right pass: no replacement ever re-reads the output of an earlier one. -/
theorem C08_escape_single_pass (s : List Char) : escapeSeq s = escape s := escapeSeq_eq_escape s

/-! ## the value arrives unchanged / cannot alter the structure (pyformat, format) -/

/-- **Round trip**: for every string `s` (any characters: quotes, backslashes, newlines, `%`, `$`, `?`,
    `;`, comment markers, NUL, astral…) the tokenizer, positioned just after the opening quote, reads
    `escape s` followed by the closing quote as the STRING token with value exactly `s`, and continues
    with `rest` from a token start. -/
theorem C08_roundtrip (s rest : List Char) (h : rest.head? ≠ some '\'') :
    lexFrom (.str []) (escapeSeq s ++ '\'' :: rest) = (lex rest).map (.str s :: ·) := by
  rw [escapeSeq_eq_escape]; simpa using lexFrom_str_escape [] s rest h

/-- **No structure change**: let `pre` be any text that leaves the tokenizer between tokens (outside
    every string, identifier and comment: `st.boundary`), `post` any text not starting with a quote.
    Then the text with the bound string substituted tokenises as: the tokens of `pre`, ONE string token
    whose value is `s`, the tokens of `post` — for every `s`.  (`pre`/`post` may themselves contain
    earlier/later substituted values, so this covers every placeholder of a statement in turn.) -/
theorem C08_structure (pre post s : List Char) (tp : List Tok) (st : St)
    (hpre : run .top pre = (tp, st)) (hb : st.boundary = true) (hpost : post.head? ≠ some '\'') :
    lex (pre ++ (Val.str s).lit ++ post) =
      (lex pre).bind fun a => (lex post).map fun b => a ++ .str s :: b := by
  have hlexpre : lex pre = some (tp ++ pending st) := by
    simp [lex, lexFrom, hpre, finish_boundary st hb]
  simp only [Val.lit, escapeSeq_eq_escape, List.append_assoc, hlexpre, Option.bind_some]
  rw [lex, lexFrom_append, hpre]
  simp only []
  rw [lexFrom_lit st hb s post hpost]
  cases lex post <;> simp

/-- the hypotheses of `C08_structure` are satisfiable by a non-trivial case: template
    `select -%s;` with the value `x' or 1=1 --` -/
example : lex ("select -".toList ++ (Val.str "x' or 1=1 --".toList).lit ++ ";".toList) =
    some ("select-".toList.map .chr ++ [.str "x' or 1=1 --".toList, .semi]) := by decide

/-- Where the hypothesis on `pre` is needed: a placeholder written directly after a closing quote
    (`'a'%s`) merges with that literal — `'a''b'` is one string `a'b`. -/
theorem C08_structure_needs_boundary :
    lex ("'a'".toList ++ (Val.str ['b']).lit) = some [.str "a'b".toList] := by decide

/-- **Unquoted literals** (`NULL`, `TRUE`, `FALSE`, finite numbers): a text of letters, digits, `.`, `+`
    read outside strings/comments yields exactly its own characters and leaves the tokenizer outside
    strings/comments — it opens nothing. -/
theorem C08_plain_literal (st : St) (h : st.outside) (t : List Char) (ht : ∀ c ∈ t, isPlainChar c = true) :
    (run st t).1 = t.map .chr ∧ (run st t).2.outside := run_plain st h t ht

/-- The one way a numeric value can change structure: a negative number substituted directly after a
    `-` of the template starts a comment (`3-%s` with `-5` is `3--5`).  The connector renders the same
    text; such templates are outside the envelope of the correspondence. -/
theorem C08_negative_after_minus : lex ("3-".toList ++ (Val.num "-5".toList).lit) = some [.chr '3'] := by decide

/-! ## `%` formatting -/

/-- **pyformat with a sequence**: for every template made of `%`-free text, `%%`, `%s`, `%(k)s` and every
    argument list, Python's `%` yields exactly: text copied, `%%` ↦ `%`, the i-th `%s` ↦ the i-th value
    **inserted as it is** (a value containing `%s`, `%(x)s` or `%%` is not scanned again), error on a
    wrong argument count. -/
theorem C08_pyformat_seq (ps : List Piece) (hw : ∀ p ∈ ps, p.wf) (vs : List (List Char)) :
    fmt (render ps) (.seq vs) = substSeq ps vs := fmtGo_seq vs ps hw vs

/-- **pyformat with a dict**: `%(k)s` ↦ the value bound to `k` (any number of times), values inserted as
    they are; a missing key is an error. -/
theorem C08_pyformat_map (ps : List Piece) (hw : ∀ p ∈ ps, p.wf) (kv : List (List Char × List Char)) :
    fmt (render ps) (.map kv) = substMap kv ps := fmtGo_map kv ps hw []

example : fmt "a %s %% %s".toList (.seq ["%s".toList, "%(x)s".toList]) = .ok "a %s % %(x)s".toList := by decide

/-! ## phase order and paramstyle -/

/-- **Variables are inlined before values are substituted**: whatever the variable phase does, it is
    applied to the command text only; the text executed is the formatted *inlined command*, so a `$name`
    inside a parameter value is never inlined.  With no (or empty) params the command is not formatted. -/
theorem C08_after_vars (inline : List Char → Option (List Char)) (style : Style) (cmd : List Char) (a : Args) :
    phases inline style cmd a =
      (inline cmd).map fun c =>
        if a.isEmpty then (.ok c, false)
        else if style.clientSide then (fmt c a, false) else (.ok c, true) := by
  unfold phases rewrite
  cases inline cmd <;> cases a.isEmpty <;> cases style.clientSide <;> simp

/-- **No binding state**: whatever a cursor executed before (and after), the k-th `execute` substitutes exactly
    the literals of its own values into its own command — an earlier binding of an equal-looking value of another
    type (`True` before `1.0`, `Decimal('1.1')` before `Decimal('1.10')`) cannot influence it. -/
theorem C08_no_binding_state (style : Style) (before after : List (List Char × Args)) (c : List Char) (a : Args) :
    (cursorRun style (before ++ (c, a) :: after))[before.length]? = some (rewrite style c a) := by
  induction before with
  | nil => simp [cursorRun]
  | cons x xs ih => obtain ⟨c', a'⟩ := x; simpa [cursorRun] using ih

/-- **Re-using the parameter container**: binding the same dict / tuple / list again gives, every time, exactly what
    binding it once gives — `_rewrite_with_params` returns new values and leaves the caller's container as it was
    (in the model the arguments are immutable; the correspondence checks the caller's object after every call). -/
theorem C08_same_container_rebinding (style : Style) (c : List Char) (a : Args) (times : Nat) :
    rebind style c a times = List.replicate times (rewrite style c a) := by
  induction times with
  | zero => rfl
  | succ n ih => simpa [rebind, List.replicate_succ, cursorRun] using ih

/-- **executemany = execute per row**: the k-th parameter set is bound exactly as a single `execute` of the same
    command with that set would bind it — for every paramstyle (there is no separate path for engine-side styles). -/
theorem C08_executemany_rowwise (style : Style) (c : List Char) (before after : List Args) (a : Args) :
    (executeMany style c (before ++ a :: after))[before.length]? = some (rewrite style c a) := by
  have := C08_no_binding_state style (before.map fun x => (c, x)) (after.map fun x => (c, x)) c a
  simpa [executeMany] using this

/-- **`%(name)s` with a mapping is client-side binding under `format` as under `pyformat`** -/
theorem C08_format_dict_client_side (c : List Char) (kv : List (List Char × List Char)) (h : kv ≠ []) :
    rewrite .format c (.map kv) = (fmt c (.map kv), false) ∧ rewrite .pyformat c (.map kv) = (fmt c (.map kv), false) := by
  cases kv with
  | nil => exact absurd rfl h
  | cons p ps => simp [rewrite, Args.isEmpty, Style.clientSide]

/-- values that compare equal in Python but have different types have different literals -/
theorem C08_typed_literals :
    (Val.bool true).lit ≠ (Val.num "1.0".toList).lit ∧ (Val.bool false).lit ≠ (Val.num "0.0".toList).lit ∧
    (Val.str "1.1".toList).lit ≠ (Val.str "1.10".toList).lit ∧ (Val.num "2.5".toList).lit ≠ (Val.str "2.5".toList).lit := by
  decide

/-- an aware datetime is rendered with its own wall-clock fields and its own offset — not shifted to UTC -/
example : dtText 2020 1 2 3 4 5 0 (some 300) = "2020-01-02 03:04:05+05:00".toList ∧
    dtText 2020 1 2 3 4 5 678 (some (-480)) = "2020-01-02 03:04:05.000678-08:00".toList ∧
    dtText 987 12 31 23 59 59 0 none = "987-12-31 23:59:59".toList := by decide

/-- the rendered text of an aware datetime ends with its own offset, whatever the other fields are (so two datetimes
    denoting the same instant in different zones have different texts: the text is data too) -/
theorem C08_datetime_keeps_offset (y mo d h mi s us : Nat) (o : Int) :
    ∃ front, dtText y mo d h mi s us (some o) =
      front ++ ((if o ≥ 0 then '+' else '-') :: pad 2 (o.natAbs / 60) ++ ':' :: pad 2 (o.natAbs % 60)) := by
  refine ⟨(toString y).toList ++ '-' :: pad 2 mo ++ '-' :: pad 2 d ++ ' ' :: pad 2 h ++ ':' :: pad 2 mi ++ ':' :: pad 2 s
    ++ (if us = 0 then [] else '.' :: pad 6 us), ?_⟩
  simp [dtText]

/-- **qmark / numeric**: the command text is handed on unchanged and the values stay values. -/
theorem C08_qmark_text_unchanged (cmd : List Char) (a : Args) :
    (rewrite .qmark cmd a).1 = .ok cmd := by simp [rewrite, Style.clientSide]

/-- **Paramstyle snapshot**: for every history of `snowflake.connector.paramstyle = …` assignments,
    connects and statements, a statement on the connection opened after `before` runs under the paramstyle
    that was in force when that connection was made — later assignments (in `later`) do not matter. -/
theorem C08_paramstyle_snapshot (before later : List POp) :
    (prun {} (before ++ .connect :: later ++ [.exec (nconnects before)])).2.getLast? =
      some (some (prun {} before).1.global) := by
  rw [show before ++ .connect :: later ++ [.exec (nconnects before)] =
        before ++ (.connect :: later ++ [.exec (nconnects before)]) by simp]
  rw [prun_append]
  obtain ⟨ad, h1, h2⟩ := prun_conns_prefix {} before
  have h1' : (prun {} before).1.conns = ad := by simpa using h1
  generalize (prun {} before).1 = w at h1' ⊢
  simp only [List.cons_append, prun, pstep]
  rw [prun_append]
  simp only [prun, pstep]
  obtain ⟨ad2, h3, _⟩ := prun_conns_prefix { global := w.global, conns := w.conns ++ [w.global] } later
  rw [h3]
  simp only [h1', ← h2]
  have hx : (ad ++ [w.global] ++ ad2)[ad.length]? = some w.global := by simp
  rw [hx]
  generalize (prun { global := w.global, conns := ad ++ [w.global] } later).2 = B
  exact getLast?_mid _ _ _ _

example : (prun {} [.setGlobal .qmark, .connect, .setGlobal .pyformat, .connect, .exec 0, .exec 1]).2 =
    [none, none, none, none, some .qmark, some .pyformat] := by decide

/-! ## DuckDB side -/

/-- The value the tokenizer recovered is rendered for DuckDB by doubling quotes, and DuckDB's lexer reads
    exactly that value back — for every NUL-free string. -/
theorem C08_duck_roundtrip (s rest : List Char) (hn : noNul s = true) (h : rest.head? ≠ some '\'') :
    duckLex (duckGen s ++ '\'' :: rest) = some (s, rest) := duckLex_gen s rest hn h

/-! ## qmark placeholders -/

/-- As long as no operand-duplicating rewrite has a placeholder beneath it, the executed SQL has exactly
    the placeholders of the statement as written, in order: DuckDB accepts exactly the right number of
    values. -/
theorem C08_qmark_count_partial (e : QExpr) (h : e.dupFree = true) (n : Nat) :
    qmarkAccepts e n = (e.phs == n) := by
  have : e.phsRendered = e.phs := by
    induction e with
    | ph => rfl
    | const => rfl
    | app a b iha ihb =>
      simp only [QExpr.dupFree, Bool.and_eq_true] at h
      simp [QExpr.phsRendered, QExpr.phs, iha h.1, ihb h.2]
    | dup a ih =>
      simp only [QExpr.dupFree, Bool.and_eq_true, beq_iff_eq] at h
      simp [QExpr.phsRendered, QExpr.phs, ih h.2, h.1]
  simp [qmarkAccepts, this]

example : (QExpr.app (.dup .const) (.app .ph .ph)).dupFree = true := by decide

/-- a statement that is not exploded (one engine statement carrying all `k` placeholders) accepts exactly `k` values -/
theorem C08_qmark_unexploded (k n : Nat) : explodeAccepts [k] n = (k == n) := by simp [explodeAccepts]

/-- known finding C08/qmark-merge: a MERGE with three placeholders (ON condition, UPDATE SET, INSERT VALUES) is executed
    as statements holding 1, 2, 1 and 0 of them, each with all three values: none is accepted -/
theorem finding_C08_qmark_merge : explodeAccepts [1, 2, 1, 0] 3 = false ∧ ([1, 2, 1, 0] : List Nat).all (· ≤ 3) = true := by decide

/-! ## The full statement, and where the pinned code falls short (recorded findings) -/

/-- every supported value is delivered: its text is read as the literal a correct spelling is read as -/
def C08_Full : Prop :=
  (∀ v : Val, lex v.lit = lex v.specLit) ∧
  (∀ s : List Char, duckLex (duckGen s ++ ['\'']) = some (s, [])) ∧
  (∀ e : QExpr, ∀ n, qmarkAccepts e n = (e.phs == n)) ∧
  (∀ i : Int, inNumber38 i → qmarkBindInt i = .exact) ∧
  (duckDecToDouble 9662473009120293 10).toBits = (966247.3009120293 : Float).toBits

/-- `float('inf')` / `nan` are rendered by `repr` as the bare words `inf` / `nan`: identifiers, not
    values (known finding C08/inf-nan). -/
theorem finding_C08_inf_nan :
    lex (Val.special "inf".toList).lit = some ("inf".toList.map .chr) ∧
    lex (Val.special "inf".toList).specLit = some (.str "inf".toList :: "::FLOAT".toList.map .chr) := by decide

/-- a NUL character inside a string literal is rejected by DuckDB's lexer (known finding C08/nul) -/
theorem finding_C08_nul : duckLex (duckGen [Char.ofNat 0] ++ ['\'']) = none := by decide

/-- `ARRAY_SIZE(?)` is executed with two placeholders (known finding C08/qmark-duplicated) -/
theorem finding_C08_qmark_duplicated : qmarkAccepts (.dup .ph) 1 = false ∧ (QExpr.dup .ph).phs = 1 := by decide

/-- **qmark ints**: every NUMBER(38,0) value bound through qmark reaches DuckDB exactly (after repair `5c8660f`) -/
theorem C08_qmark_int_exact (i : Int) (h : inNumber38 i) : qmarkBindInt i = .exact := by
  unfold qmarkBindInt inNumber38 at *
  split
  · rfl
  · simp [h.1, h.2]

/-- regression witness: the pinned code bound a Python int ≥ 2^64 as a DOUBLE (was C08/qmark-int-beyond-uint64) -/
theorem C08_old_qmark_int_beyond_uint64 :
    qmarkBindIntOld (10 ^ 20 + 1) = .double ∧ qmarkBindInt (10 ^ 20 + 1) = .exact := by decide

/-- a float written as a decimal literal and read into a FLOAT column by DuckDB (DECIMAL, then a division
    in double arithmetic) is not always the float that was bound (known finding C08/float-literal-inexact):
    966247.3009120293 arrives as 966247.3009120292 -/
theorem finding_C08_float_literal_inexact :
    (duckDecToDouble 9662473009120293 10).toBits = 4696547213207217209 ∧
    (966247.3009120293 : Float).toBits = 4696547213207217210 := by decide +kernel

theorem C08_full_false : ¬ C08_Full := by
  intro h
  have := h.2.2.2.2
  have w := finding_C08_float_literal_inexact
  rw [w.1, w.2] at this
  revert this; decide

end Fs.C08
