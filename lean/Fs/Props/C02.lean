import Fs.Proofs.Fold
/-!
# C02 — unquoted identifiers fold to upper case; quoted ones are kept verbatim

Statements only (lemmas: `Fs/Proofs/Fold.lean`).  `Fs.Fold.canon` is the model of what fakesnow does to a parsed
statement before anything else looks at it (`upper_case_unquoted_identifiers`, `cursor.py:157`, plus the `.upper()`
calls on the keyword text it keeps: `expr.key_command`, `checks.py`, `set_schema`, `create_database`, …); `CaseEq`
relates two spellings of one statement.  What is *proved* is fakesnow's own part: after `canon` nothing of the
spelling is left, so every later stage — as any function of the folded tree and the state — yields the same outcome,
and the names it reports are the folded names.  (`C02/merge-delete-lowercase` was repaired in /repo, commit 9db44bc; with
it the invariance theorem holds without an envelope.)  That sqlglot builds the same tree for both spellings and that DuckDB
matches names case-insensitively is trusted and exercised by the twin-run correspondence (`harness/props/c02.py`).
-/
namespace Fs.C02
open Fs.Fold

/-- `… WHEN MATCHED THEN delete` vs `… THEN DELETE` -/
def mergeLower : Node := .node 7 [.ident ⟨"t".toList, false⟩, .kwFolded "delete".toList]
def mergeUpper : Node := .node 7 [.ident ⟨"T".toList, false⟩, .kwFolded "DELETE".toList]

/-- **Case invariance** (full): two spellings of a statement — keywords and unquoted identifiers in any letter case,
    quoted identifiers and literals identical — fold to the same tree. -/
theorem C02_case_invariant (a b : Node) (h : CaseEq a b) : canon a = canon b :=
  canon_caseEq a b h

/-- **Therefore the complete outcome is invariant**: whatever the rest of the pipeline and the engine do — any
    function `rest` of the folded statement and the state `σ` producing any outcome (rows, column names, rowcount,
    status text, error, new state) — both spellings give the same outcome. -/
theorem C02_outcome_invariant {σ ω : Type} (rest : Node → σ → ω) (a b : Node) (h : CaseEq a b) (s : σ) :
    rest (canon a) s = rest (canon b) s := by
  rw [canon_caseEq a b h]

/-- Regression witness for the repaired defect `C02/merge-delete-lowercase`: the two MERGE spellings are `CaseEq`
    and are recognised alike now, whereas the comparison before the repair (`== "DELETE"` on the text as written)
    rejected the lower-case spelling (→ AssertionError). -/
theorem C02_old_merge_then_case_sensitive :
    CaseEq mergeLower mergeUpper ∧ canon mergeLower = canon mergeUpper ∧
    thenIsDelete "delete".toList = thenIsDelete "DELETE".toList ∧
    thenIsDeleteOld "delete".toList = false ∧ thenIsDeleteOld "DELETE".toList = true := by
  refine ⟨?_, ?_, by decide, by decide, by decide⟩
  · simp [mergeLower, mergeUpper, CaseEq, CaseEq.CaseEqList, upper]; decide
  · apply canon_caseEq
    simp [mergeLower, mergeUpper, CaseEq, CaseEq.CaseEqList, upper]; decide

/-- the MERGE THEN keyword is recognised in every spelling -/
theorem C02_merge_then_invariant (a b : List Char) (h : upper a = upper b) : thenIsDelete a = thenIsDelete b := by
  simp [thenIsDelete, h]

/-- folding is a normal form: a second pass changes nothing (the tree handed on is already "as Snowflake names it") -/
theorem C02_canon_idempotent (n : Node) : canon (canon n) = canon n := canon_idem n

/-- **Reported in upper case**: the name of an unquoted identifier is its upper-cased text, contains no lower-case
    ASCII letter, and does not depend on how it was spelled. -/
theorem C02_reported_upper (raw raw' : List Char) (h : upper raw = upper raw') :
    (⟨raw, false⟩ : Ident).norm = upper raw ∧ (⟨raw, false⟩ : Ident).norm = (⟨raw', false⟩ : Ident).norm ∧
    ∀ c ∈ (⟨raw, false⟩ : Ident).norm, ¬ (97 ≤ c.toNat ∧ c.toNat ≤ 122) := by
  refine ⟨rfl, ?_, ?_⟩
  · simp [Ident.norm, h]
  · simpa [Ident.norm] using upper_no_lower raw

/-- **Quoted identifiers are reported exactly as written.** -/
theorem C02_quoted_verbatim (raw : List Char) : (⟨raw, true⟩ : Ident).norm = raw := rfl

/-- **Quoted and unquoted naming of the same object**: `"ABC"` and `abc` (any case) are the same name, and
    `checks.equal` says so; a quoted name that is not the upper-cased text is a different name. -/
theorem C02_same_object (raw : List Char) :
    (⟨upper raw, true⟩ : Ident).norm = (⟨raw, false⟩ : Ident).norm ∧
    Ident.equal ⟨upper raw, true⟩ ⟨raw, false⟩ = true ∧
    ∀ q : List Char, Ident.equal ⟨q, true⟩ ⟨raw, false⟩ = true ↔ q = upper raw := by
  refine ⟨rfl, by simp [Ident.equal, Ident.norm], fun q => by simp [Ident.equal, Ident.norm]⟩

/-- **Status messages** (`cursor.py:304-319`): the object name in "… successfully created/dropped" is the folded name
    of the statement's first identifier — upper-cased if unquoted, verbatim if quoted — for every statement shape. -/
theorem C02_status_name (n : Node) : statusName n = (firstIdent n).map Ident.norm := by
  simp only [statusName, firstIdent_canon, Option.map_map]
  congr 1; funext i
  simp only [Function.comp, Ident.norm]
  cases i.quoted <;> simp [upper_idem]

/-- …and it is the same for two spellings of the statement. -/
theorem C02_status_name_invariant (a b : Node) (h : CaseEq a b) : statusName a = statusName b := by
  simp only [statusName, canon_caseEq a b h]

/-- **Keyword text kept in the tree** (`kind` of CREATE/DROP/DESCRIBE, the USE kind): the code upper-cases it
    before every comparison, so the decision is the same for every spelling. -/
theorem C02_kind_invariant (a b : List Char) (h : upper a = upper b) (k : String) : kindIs a k = kindIs b k := by
  simp [kindIs, h]

/-- **Lookup, partial**: when no stored name differs from the referenced (folded) name only by letter case, the
    engine's case-insensitive lookup finds exactly what Snowflake's exact lookup finds and reports the same name. -/
theorem C02_lookup_partial (stored : List (List Char)) (i : Ident)
    (henv : ∀ n ∈ stored, upper n = upper i.norm → n = i.norm) : duckFind stored i.norm = sfFind stored i.norm :=
  find_agree stored i.norm henv

/-- outside that envelope (finding `C02/quoted-name-matched-case-insensitively`): a column created as `"abc"` is found
    by the unquoted reference `ABC` and reported as `abc`, where Snowflake knows no such column -/
theorem finding_C02_quoted_name_matched_case_insensitively :
    duckFind ["abc".toList] (⟨"ABC".toList, false⟩ : Ident).norm = some "abc".toList ∧
    sfFind ["abc".toList] (⟨"ABC".toList, false⟩ : Ident).norm = none := by decide

/-- **Session variables, partial**: for unquoted variable names SET and UNSET/`$name` agree on the key, whatever
    the spelling. -/
theorem C02_variable_key_partial (raw raw' : List Char) (h : upper raw = upper raw') :
    setKey ⟨raw, false⟩ = unsetKey ⟨raw', false⟩ := by
  simp [setKey, unsetKey, Ident.norm, h]

/-- finding `C02/quoted-variable-name`: `SET "V" = 1` stores the name with its quotes, so `UNSET v` / `$v` — the same
    object by the folding rule — do not find it -/
theorem finding_C02_quoted_variable_name :
    (⟨"V".toList, true⟩ : Ident).norm = (⟨"v".toList, false⟩ : Ident).norm ∧
    setKey ⟨"V".toList, true⟩ ≠ unsetKey ⟨"v".toList, false⟩ := by decide

/-- **Raw-text commands** (`ALTER TABLE … MODIFY COLUMN … SET TAG …`, which sqlglot hands over unparsed): the code
    looks for its keywords in the upper-cased text, so the decision is the same for every spelling — whereas a
    case-sensitive search on the text as written would separate `set tag` from `SET TAG`. -/
theorem C02_raw_command_invariant (a b : List Char) (h : upper a = upper b) : rawHasSetTag a = rawHasSetTag b := by
  simp [rawHasSetTag, h]

theorem C02_raw_command_case_sensitive_differs :
    upper "modify column c set tag t = 'v'".toList = upper "MODIFY COLUMN C SET TAG T = 'V'".toList ∧
    rawHasSetTag "modify column c set tag t = 'v'".toList = true ∧
    rawHasSetTagCaseSensitive "modify column c set tag t = 'v'".toList = false ∧
    rawHasSetTagCaseSensitive "MODIFY COLUMN C SET TAG T = 'V'".toList = true := by decide

/-- **Identifiers compared inside one statement** (a select alias used in JOIN … ON): the lookup is by folded name, so
    every spelling of the reference — any letter case, or the quoted upper-case form — finds the same alias. -/
theorem C02_alias_lookup_invariant (aliases : List Ident) (a b : Ident) (h : a.norm = b.norm) :
    aliasFind aliases a = aliasFind aliases b := by
  simp [aliasFind, h]

/-- regression witness of the repaired defect `C02/join-alias-quoted`: a lookup by identifier node does not find the alias
    `"SID"` for the reference `sid`, although both name the same column -/
theorem C02_old_alias_lookup_by_node :
    (⟨"SID".toList, true⟩ : Ident).norm = (⟨"sid".toList, false⟩ : Ident).norm ∧
    aliasFindByNode [⟨"SID".toList, true⟩] ⟨"sid".toList, false⟩ = none ∧
    aliasFind [⟨"SID".toList, true⟩] ⟨"sid".toList, false⟩ = some ⟨"SID".toList, true⟩ := by decide

/-- **Names given through `IDENTIFIER('…')`**: since the repair `C02/identifier-function-not-folded` the identifier the
    transform yields goes through the fold like any other, so its name is the upper-cased literal — whereas the
    transform used to run after the fold and handed the literal on as written (regression witness: the object created
    by `identifier('customers')` was stored, and listed, as `customers`). -/
theorem C02_identifier_function_folded (lit lit' : List Char) (h : upper lit = upper lit') :
    canon (.ident ⟨lit, false⟩) = canon (.ident ⟨lit', false⟩) ∧
    canon (.ident ⟨"customers".toList, false⟩) = .ident ⟨"CUSTOMERS".toList, false⟩ ∧
    (⟨"customers".toList, false⟩ : Ident).raw ≠ (⟨"customers".toList, false⟩ : Ident).norm := by
  refine ⟨by simp [canon, Ident.norm, h], ?_, by decide⟩
  have hu : upper "customers".toList = "CUSTOMERS".toList := by decide
  show Node.ident ⟨(⟨"customers".toList, false⟩ : Ident).norm, false⟩ = _
  have : (⟨"customers".toList, false⟩ : Ident).norm = "CUSTOMERS".toList := hu
  rw [this]

/-! non-vacuity -/
def stmtA : Node := .node 1 [.kwFolded "schema".toList, .node 2 [.ident ⟨"db1".toList, false⟩, .ident ⟨"My S".toList, true⟩], .lit "x".toList]
def stmtB : Node := .node 1 [.kwFolded "SCHEMA".toList, .node 2 [.ident ⟨"Db1".toList, false⟩, .ident ⟨"My S".toList, true⟩], .lit "x".toList]
example : CaseEq stmtA stmtB := by
  simp [stmtA, stmtB, CaseEq, CaseEq.CaseEqList, upper]; decide
example : statusName stmtA = some "DB1".toList := by decide
example : (⟨"Abc_1$".toList, false⟩ : Ident).norm = "ABC_1$".toList := by decide

end Fs.C02
