import Fs.Proofs.Patch
import Fs.Proofs.Cli
/-!
# C20 — patch() and the CLI switch the fake on and off cleanly

Statements only (helper lemmas are in `Fs/Proofs/Patch.lean`, `Fs/Proofs/Cli.lean`).

* Part 1 is about `Fs.Patch.patchRun fixed`, the model of `fakesnow.patch` (`__init__.py`) **after** the repairs
  `C20/setup-failure-leaks` and `C20/lazy-import-keeps-mock`; the `*_shipped*` theorems are the regression
  witnesses showing that the code as shipped violated the same statements.
* Part 2 is about `Fs.Cli.main`, the model of `fakesnow.cli.main` (`split` + the argparse parser + the hand-off of
  `sys.argv`) **after** the repair `C20/argv-equals-forms`; `C20_argv_shipped_loses_args` is the regression witness.

`harness/props/c20.py` ties both models to the real code on every run.
-/
namespace Fs.C20
open Fs.Patch Fs.Cli

/-! ## Part 1 — patch() -/

/-- **Restoration, for every target list and every way of leaving the block** (normal exit, an `Exception` in the body, a
    `BaseException` such as SystemExit / KeyboardInterrupt, the enclosing generator being closed — `x` ranges over all of `Exit` —,
    patch() failing while it sets up — missing module, missing attribute, non-snowflake function — and refusal):
    afterwards (a) every attribute that existed before, hence every standard and extra target, is the very object it
    was before; (b) no mock made by fakesnow is left anywhere that did not already exist before — in particular not
    in a module that patch() itself imported; (c) unless patch() refused to start, the connection of its FakeSnow
    instance is closed and no other instance is touched. -/
theorem C20_restore (w : World) (extras : List Slot) (x : Exit) :
    (∀ s o, get w.env s = some o → get (patchRun fixed w extras x).after.env s = some o) ∧
    (∀ s i f, get (patchRun fixed w extras x).after.env s = some (.mock i f) → ∃ s', get w.env s' = some (.mock i f)) ∧
    ((patchRun fixed w extras x).outcome ≠ .refused →
      (patchRun fixed w extras x).after.closed = w.nextInst :: w.closed) := by
  rcases patchRun_fixed_summary w extras x with ⟨_, h⟩ | ⟨_, base, st, he, hJ, hc, ha, _, _⟩
  · rw [h]; exact ⟨fun _ _ h => h, fun s _ _ h => ⟨s, h⟩, fun h => absurd rfl h⟩
  · rw [ha]
    refine ⟨fun s o h => ?_, fun s i f h => ?_, fun _ => by simp [cleanup, hc]⟩
    · simp only [cleanup]; rw [hJ]; exact he.1 s o h
    · simp only [cleanup] at h; rw [hJ] at h; exact he.2 s i f h

/-- **Inside the block every target is the fake**: when set-up succeeds, every standard and extra target holds a
    MagicMock, and each target that was a real snowflake function holds *this* instance's fake of that function. -/
theorem C20_inside (w : World) (extras : List Slot) (x : Exit) (wi : World)
    (h : (patchRun fixed w extras x).inside = some wi) :
    ∀ t ∈ targetsOf extras,
      (∃ o, get wi.env t = some o ∧ o.isMock = true) ∧
      (∀ f, get w.env t = some (.real f) → get wi.env t = some (.mock w.nextInst f)) := by
  rcases patchRun_fixed_summary w extras x with ⟨_, h'⟩ | ⟨_, base, st, he, _, _, _, _, hi⟩
  · rw [h'] at h; cases h
  · obtain ⟨rfl, er, em⟩ := hi wi h
    intro t ht
    have hm := em t ht
    constructor
    · cases hgt : get st.w.env t with
      | none => rw [hgt] at hm; simp [isMockO] at hm
      | some o => rw [hgt] at hm; exact ⟨o, rfl, hm⟩
    · intro f hf
      have h1 := he.1 t _ hf
      rcases er t with e | ⟨g, hg1, hg2⟩
      · rw [e, h1] at hm; simp [isMockO, Obj.isMock] at hm
      · rw [h1] at hg1; cases hg1; exact hg2

/-- **Targets are recognised by the object they hold, never by their name**: if some standard or extra target holds an
    object that is not one of the two snowflake functions (whatever the attribute is called — also `connect` or
    `write_pandas`), the body never runs and that attribute is afterwards the very object it was (it is never replaced by a
    fake).  Conversely `C20_inside` gives every target holding a real snowflake function — under any attribute name, e.g.
    `from snowflake.connector import connect as sf_connect` — this instance's fake of that function. -/
theorem C20_non_snowflake_never_faked (w : World) (extras : List Slot) (x : Exit) (t : Slot) (k : Nat)
    (ht : t ∈ targetsOf extras) (h : get w.env t = some (.other k)) :
    (patchRun fixed w extras x).inside = none ∧ get (patchRun fixed w extras x).after.env t = some (.other k) := by
  refine ⟨?_, (C20_restore w extras x).1 t _ h⟩
  cases hins : (patchRun fixed w extras x).inside with
  | none => rfl
  | some wi =>
    exfalso
    rcases patchRun_fixed_summary w extras x with ⟨_, h'⟩ | ⟨_, base, st, he, _, _, _, _, hi⟩
    · rw [h'] at hins; cases hins
    · obtain ⟨_, er, em⟩ := hi wi hins
      have hm := em t ht
      have hb := he.1 t _ h
      rcases er t with e | ⟨f, hf, _⟩
      · rw [e, hb] at hm; simp [isMockO, Obj.isMock] at hm
      · rw [hb] at hf; cases hf

/-- **patch() can be entered again**: whatever the target list and however the block was left (including a failed
    set-up), a later patch() is not refused. -/
theorem C20_reenter (w : World) (hw : WF w) (extras extras' : List Slot) (x x' : Exit)
    (h : (patchRun fixed w extras x).outcome ≠ .refused) :
    (patchRun fixed (patchRun fixed w extras x).after extras' x').outcome ≠ .refused := by
  have hg : guardOk w = true := by
    cases hg : guardOk w with
    | true => rfl
    | false => exfalso; apply h; simp [patchRun, hg]
  have hg' : guardOk (patchRun fixed w extras x).after = true := by
    have hs := hw .connect
    cases hc : get w.env (stdSlot .connect) with
    | none => rw [hc] at hs; cases hs
    | some o =>
      have := (C20_restore w extras x).1 _ o hc
      unfold guardOk at hg ⊢
      rw [this]; rw [hc] at hg; exact hg
  rcases patchRun_fixed_summary (patchRun fixed w extras x).after extras' x' with ⟨hf, _⟩ | ⟨_, _, _, _, _, _, _, hne, _⟩
  · rw [hg'] at hf; cases hf
  · exact hne

/-- **Nested patching is refused without damage**: inside a block every attempt to enter patch() again is refused
    and leaves the environment, the instances and the connections exactly as they are. -/
theorem C20_nested_refused (w : World) (extras extras' : List Slot) (x x' : Exit) (wi : World)
    (h : (patchRun fixed w extras x).inside = some wi) :
    patchRun fixed wi extras' x' = ⟨.refused, none, wi⟩ := by
  have hin := (C20_inside w extras x wi h (stdSlot .connect) (by simp [targetsOf])).1
  obtain ⟨o, ho, hm⟩ := hin
  have hg : guardOk wi = false := by simp [guardOk, ho, hm]
  simp [patchRun, hg]

/-- Regression witness for the repaired defect `C20/setup-failure-leaks`: as shipped (loop outside the try), an
    extra target in a missing module left `snowflake.connector.connect` patched, the instance open and the next
    patch() refused. -/
theorem C20_shipped_setup_failure_leaks :
    let w : World := { env := [((0, 0), .real .connect), ((1, 0), .real .writePandas)], loaded := [0, 1], importable := [] }
    let r := patchRun shipped w [(5, 0)] .normal
    r.outcome = .setupFailed .noModule ∧
    get r.after.env (0, 0) = some (.mock 0 .connect) ∧ r.after.closed = [] ∧
    (patchRun shipped r.after [] .normal).outcome = .refused := by decide

/-- Regression witness for the repaired defect `C20/lazy-import-keeps-mock`: with only the first repair, an extra
    target in a not-yet-imported module that does `from snowflake.connector import connect` was still this
    instance's MagicMock after the block (and, being a mock, was skipped by the next patch()). -/
theorem C20_shipped_lazy_import_keeps_mock :
    let w : World := { env := [((0, 0), .real .connect), ((1, 0), .real .writePandas)], loaded := [0, 1],
                       importable := [(7, [(0, .fromStd .connect)])] }
    let r := patchRun afterFirstFix w [(7, 0)] .normal
    r.outcome = .completed ∧ get r.after.env (7, 0) = some (.mock 0 .connect) ∧
    get (patchRun fixed w [(7, 0)] .normal).after.env (7, 0) = some (.real .connect) := by decide

/-- non-vacuity of `C20_inside` / `C20_nested_refused`: a run with a from-import alias, a lazily imported module
    and a repeated target sets up successfully -/
example :
    let w : World := { env := [((0, 0), .real .connect), ((1, 0), .real .writePandas), ((3, 1), .real .connect)],
                       loaded := [0, 1, 3], importable := [(7, [(0, .fromStd .writePandas), (1, .other 4)])] }
    (patchRun fixed w [(3, 1), (7, 0), (3, 1)] .raises).outcome = .bodyRaised ∧
    WF w ∧ (patchRun fixed w [(3, 1), (7, 0), (3, 1)] .raises).inside.isSome = true := by
  refine ⟨by decide, ?_, by decide⟩
  intro f; cases f <;> decide

/-! ## Part 2 — the command line -/

/-- **`split` never loses or reorders anything**: for every argv, fakesnow's part followed by the target's part is
    the argv. -/
theorem C20_split_total (args : List Tok) (inFlag : Bool) :
    (split args inFlag).1 ++ (split args inFlag).2 = args := by
  induction args generalizing inFlag with
  | nil => rfl
  | cons a rest ih =>
    rw [split_cons]
    split
    · cases rest <;> simp
    · split
      · simp
      · split
        · simp [ih]
        · split <;> simp [ih]

/-- **The target gets exactly its own arguments, in order**: for every sentence of the grammar
    `fsopt* (path | -m mod | --module mod | --module=mod | -mmod) targ*` — any number of fakesnow options in any of
    the forms `-d v`, `--db_path v`, `--db_path=v`, `-dv`, then the target, then *arbitrary* target arguments
    (including ones that look like fakesnow's own options) — `main` runs that target with `sys.argv` equal to its
    name followed by exactly `targs`, and with the last `db_path` given. -/
theorem C20_argv (opts : List FsOpt) (t : Target) (targs : List Tok)
    (ho : ∀ o ∈ opts, o.ok = true) (ht : t.ok = true) :
    main (render opts t targs) = specRun opts t targs := by
  unfold main mainWith
  simp only [split_render opts t targs ho ht, parse_grammar opts t ho ht]
  cases t with
  | path p =>
    cases p with
    | nil => simp [Target.ok] at ht
    | cons c q => simp [Target.parsed, specRun]
  | mSp l m =>
    cases m with
    | nil => simp [Target.ok] at ht
    | cons c q => simp [Target.parsed, specRun, Target.name]
  | mEq m =>
    cases m with
    | nil => simp [Target.ok] at ht
    | cons c q => simp [Target.parsed, specRun, Target.name]
  | mAtt m =>
    cases m with
    | nil => simp [Target.ok] at ht
    | cons c q => simp [Target.parsed, specRun, Target.name]

/-- Regression witness for the repaired defect `C20/argv-equals-forms`: as shipped, `--db_path=p s.py x` ran the
    script without its argument, `-mm a` ran the module without `a`, and `-dp s.py x` likewise. -/
theorem C20_argv_shipped_loses_args :
    mainOld (render [.dEq ['p']] (.path ['s', '.', 'p', 'y']) [['x']]) ≠ specRun [.dEq ['p']] (.path ['s', '.', 'p', 'y']) [['x']] ∧
    mainOld (render [] (.mAtt ['m']) [['a']]) ≠ specRun [] (.mAtt ['m']) [['a']] ∧
    mainOld (render [.dAtt ['p']] (.path ['s', '.', 'p', 'y']) [['x']]) ≠ specRun [.dAtt ['p']] (.path ['s', '.', 'p', 'y']) [['x']] := by
  decide

/-- non-vacuity of `C20_argv`: options in all four forms, a module target, target arguments that look like
    fakesnow's own options -/
example :
    let opts := [FsOpt.dSp false ['a'], .dEq ['-', 'x'], .dAtt ['q'], .dSp true ['b']]
    (∀ o ∈ opts, o.ok = true) ∧ (Target.mSp false ['m']).ok = true ∧
    main (render opts (.mSp false ['m']) [['-', 'm'], ['-', 'd'], ['k']]) =
      .runModule ['m'] [['m'], ['-', 'm'], ['-', 'd'], ['k']] (some ['b']) := by decide

end Fs.C20
