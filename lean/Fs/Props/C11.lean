import Fs.Proofs.JsonNested
/-!
# C11 — VARIANT/OBJECT/ARRAY values behave as JSON documents

Statements only (helper lemmas: `Fs/Proofs/Json*.lean`).  Everything is about
  * `pipeline`  — the JSON rewrites of `cursor._transform` in their order, with sqlglot's traversal rule,
  * `evalDuck`  — DuckDB's evaluation of the rewritten tree (engine model, trusted base),
  * `evalSpec` / `get` — "what navigating the same document in Python gives".
`harness/props/c11.py` ties `evalDuck ∘ pipeline` to the real fakesnow + DuckDB on every run.

Domain.  The unconditional statement over ALL expression trees (`C11_Full`) is false on the pinned tree
(`C11_full_false`, one `finding_*` theorem per recorded finding).  The `_partial` theorems are over the source
shapes the property names (`Ctx`: uses of an extraction chain of any depth/nesting, bare / cast / UPPER / LOWER /
TRIM / ARRAY_SIZE / IS NULL, inside comparison, boolean, arithmetic and concatenation operators and parentheses
of any depth), for ALL documents, under the decidable envelope `Ctx.ok` that excludes exactly the finding regions.
-/
namespace Fs.C11
open Fs.Json

/-- the concatenated path of an extraction chain -/
def flat : Nav → Path
  | .col => []
  | .path n p => flat n ++ p

theorem evalSpec_nav (doc : Env) (n : Nav) (p : Path) :
    evalSpec doc (Nav.path n p).toE = ofOpt (Fs.Json.get doc.doc (flat n ++ p)) := by
  induction n generalizing p with
  | col => simp [Nav.toE, evalSpec, specNav, flat]
  | path n q ih =>
    have := ih q
    simp only [Nav.toE, evalSpec] at this ⊢
    rw [this, flat, get_append doc.doc (flat n ++ q) p]
    cases h : Fs.Json.get doc.doc (flat n ++ q) with
    | none => simp [ofOpt, specNav]
    | some j =>
      cases j <;> simp [ofOpt, specNav]
      cases p <;> simp [Fs.Json.get, step]

/-- **Path access = document navigation, at any depth** (`v:a.b[0]`, `GET_PATH`, and any nesting of them):
    the rewritten expression evaluates in DuckDB to exactly what navigating the document gives; a JSON `null`
    reached by the path is Python's `None`. -/
theorem C11_nav (doc : Env) (n : Nav) (p : Path) :
    evalDuck doc (pipeline (Nav.path n p).toE) = ofOpt (Fs.Json.get doc.doc (flat n ++ p)) := by
  rw [show (Nav.path n p).toE = (Use.bare (.nav (.path n p))).toE from rfl, use_correct doc _ rfl]
  exact evalSpec_nav doc n p

/-- **Subscripts** `x['k']`, `x[i]` on top of a chain navigate one more step — for keys that the f-string
    `$.{key}` renders faithfully (`BIdx.ok`; the others are `finding_bracket_key_unescaped`). -/
theorem C11_nav_subscript_partial (doc : Env) (n : Nav) (i : BIdx) (h : i.ok = true) :
    evalDuck doc (pipeline (.bracket n.toE i)) = specNav (evalSpec doc n.toE) [i.seg] := by
  rw [show E.bracket n.toE i = (Use.bare (.brk n i)).toE from rfl,
    use_correct doc _ (show Use.ok doc (.bare (.brk n i)) = true from h)]; rfl

/-- the text fakesnow writes for a subscript is read by DuckDB's path parser as that one step -/
theorem C11_subscript_path_text (i : BIdx) (h : i.ok = true) : parsePath (bracketPath i) = some [i.seg] :=
  parsePath_bracket i h

/-- a QUOTED subscript made only of digits is a KEY (`v['2024']` → `$.2024` → key "2024"); the integer subscript
    `v[2024]` is a position — the two stay distinct all the way to DuckDB's path parser -/
theorem C11_subscript_digit_key :
    parsePath (bracketPath (.str "2024".toList)) = some [.key "2024".toList] ∧
    parsePath (bracketPath (.num "2024".toList)) = some [.idx 2024] ∧
    (BIdx.str "0".toList).seg = .key "0".toList ∧ (BIdx.num "0".toList).seg = .idx 0 := by decide

/-- **Missing paths and non-matching kinds give NULL** -/
theorem C11_missing (doc : Env) (n : Nav) (p : Path) (h : Fs.Json.get doc.doc (flat n ++ p) = none) :
    evalDuck doc (pipeline (Nav.path n p).toE) = .null := by
  rw [C11_nav, h]; rfl

/-- what "non-matching kind" means: a key applies only to objects, an index only to arrays -/
theorem C11_wrong_kind (j : Json) :
    (∀ k, (∀ o, j ≠ .obj o) → step j (.key k) = none) ∧ (∀ i, (∀ l, j ≠ .arr l) → step j (.idx i) = none) := by
  constructor
  · intro k h; cases j <;> first | rfl | exact absurd rfl (h _)
  · intro i h; cases j <;> first | rfl | exact absurd rfl (h _)

/-- **Extracted strings lose their JSON quotes exactly when converted to text**: for a `:`/GET_PATH extraction
    that reaches the string `s`, the bare value is the JSON string (its text is `"s"` with quotes and escapes),
    while a cast to text, UPPER, LOWER and TRIM see the raw characters. -/
theorem C11_unquote (doc : Env) (n : Nav) (p : Path) (s : List Char) (h : Fs.Json.get doc.doc (flat n ++ p) = some (.str s)) :
    let x := (Nav.path n p).toE
    evalDuck doc (pipeline x) = .json (.str s) ∧
    evalDuck doc (pipeline (.cast x .text)) = .text s ∧
    evalDuck doc (pipeline (.upper x)) = .text (s.map upChar) ∧
    evalDuck doc (pipeline (.lower x)) = .text (s.map loChar) ∧
    evalDuck doc (pipeline (.trim x)) = .text (trimSpaces s) := by
  have hs : evalSpec doc (Nav.path n p).toE = .json (.str s) := by rw [evalSpec_nav, h]; rfl
  refine ⟨?_, ?_, ?_, ?_, ?_⟩
  · rw [C11_nav, h]; rfl
  · rw [show E.cast (Nav.path n p).toE .text = (Use.cast (.nav (.path n p)) .text).toE from rfl,
      use_correct doc _ (by simp [Use.ok, Acc.ok, Acc.isPath, Acc.toE, hs, castOK])]
    simp only [Use.toE, Acc.toE, evalSpec] at hs ⊢; rw [hs]; rfl
  · rw [show E.upper (Nav.path n p).toE = (Use.upper (.nav (.path n p))).toE from rfl,
      use_correct doc _ (by simp [Use.ok, Acc.ok, Acc.isPath])]
    simp only [Use.toE, Acc.toE, evalSpec] at hs ⊢; rw [hs]; rfl
  · rw [show E.lower (Nav.path n p).toE = (Use.lower (.nav (.path n p))).toE from rfl,
      use_correct doc _ (by simp [Use.ok, Acc.ok, Acc.isPath])]
    simp only [Use.toE, Acc.toE, evalSpec] at hs ⊢; rw [hs]; rfl
  · rw [show E.trim (Nav.path n p).toE = (Use.trim (.nav (.path n p))).toE from rfl,
      use_correct doc _ (by simp [Use.ok, Acc.ok, Acc.isPath])]
    simp only [Use.toE, Acc.toE, evalSpec] at hs ⊢; rw [hs]; rfl

/-- … and the JSON text of the bare string is the quoted, escaped form -/
theorem C11_bare_keeps_quotes (s : List Char) : render (.str s) = '"' :: (s.flatMap escChar ++ ['"']) := by
  simp [render, quoteStr]

/-- the full statement: every expression tree the specification gives a meaning to evaluates to that meaning -/
def C11_Full : Prop := ∀ (doc : Env) (e : E), evalSpec doc e ≠ .unsup → evalDuck doc (pipeline e) = evalSpec doc e

/-- **All of it, inside comparisons, boolean and arithmetic expressions**: for every document and every
    expression of the named shapes inside the envelope, the rewritten tree evaluates to the specified value. -/
theorem C11_partial (doc : Env) (c : Ctx) (h : c.ok doc = true) :
    evalDuck doc (pipeline c.toE) = evalSpec doc c.toE := ctx_correct doc c h

/-- **A cast-of-path nested inside another cast-of-path** — `PARSE_JSON(v:payload::varchar):k::t`, the
    double-encoded payload (a document whose string value is itself JSON text): for ALL documents, ALL JSON text parsers
    `pj`, all chains and paths, the inner `::varchar` is rewritten to `->>` as well (the outer rewrite edits the tree in
    place, so sqlglot's traversal continues below it), the payload is parsed from its UNQUOTED text and the outer
    path/cast sees the inner document.  One level of nesting has a theorem; deeper nestings are sampled in the tie. -/
theorem C11_nested_partial (doc : Env) (n : Nav) (p q : Path) (t : Ty)
    (hc : castOK t (evalSpec doc (.jx (nestedInner n p) (.path q))) = true) :
    evalDuck doc (pipeline (.cast (.jx (nestedInner n p) (.path q)) t)) = evalSpec doc (.cast (.jx (nestedInner n p) (.path q)) t) ∧
    evalDuck doc (pipeline (.jx (nestedInner n p) (.path q))) = evalSpec doc (.jx (nestedInner n p) (.path q)) :=
  ⟨nested_cast_correct doc n p q t hc, nested_bare_correct doc n p q⟩

/-- non-vacuity, and what the value is: `{"payload": "{\"k\":\"x\"}"}`, `PARSE_JSON(v:payload::varchar):k::varchar` = `x`;
    had the inner cast kept the JSON quotes (the in-place edit replaced by a copy) the payload would parse to a JSON
    STRING and the result would be NULL -/
example :
    let inner : Json := .obj (.cons "k".toList (.str "x".toList) .nil)
    let env : Env := { doc := .obj (.cons "payload".toList (.str (render inner)) .nil),
                       pj := fun s => if s = render inner then some (some inner) else if s = render (.str (render inner)) then some (some (.str (render inner))) else none }
    let e : E := .cast (.jx (nestedInner .col [.key "payload".toList]) (.path [.key "k".toList])) .text
    evalDuck env (pipeline e) = .text "x".toList ∧ evalSpec env e = .text "x".toList ∧
    -- the tree a non-descending rewrite would leave: inner `->` instead of `->>`
    evalDuck env (.cast (.paren (.jxs (.parseJson (.cast (.paren (.jx .col (.path [.key "payload".toList]))) .text)) (.path [.key "k".toList]))) .text) = .null := by
  decide

/-- **… regardless of operator precedence**: if the Snowflake text was unambiguous (`SrcOK`), the DuckDB text
    sqlglot prints for the rewritten tree — no parentheses but `Paren` nodes and the generator's own wrap — parses
    back, under DuckDB 1.0's operator table (`->` below OR, `->>` at `||`), to the tree that was evaluated. -/
theorem C11_precedence (c : Ctx) (h : SrcOK c.toE = true) : PrecOK (pipeline c.toE) = true := precOK_ctx c h

private def s (x : String) : List Char := x.toList
private def docW : Json :=
  .obj (.cons (s "a") (.obj (.cons (s "b") (.arr (.cons (.num 1) (.cons (.str (s "x")) (.cons .null (.cons (.bool true) .nil))))) .nil))
  (.cons (s "s") (.str (s " q\"u")) (.cons (s "e") (.arr .nil) (.cons (s "a.b") (.num 7) .nil))))
private def envW : Env := { doc := docW }
private def pB (i : Nat) : E := .jx .col (.path [.key (s "a"), .key (s "b"), .idx i])
private def pS : E := .jx .col (.path [.key (s "s")])

/-- the envelope is inhabited by a non-trivial case: `NOT v:a.b[3] OR (v:a.b[0]::int + 1 = 2 AND upper(v:s) = ' Q"U')` -/
example :
    let c : Ctx := .bin .or (.not (.use (.bare (.nav (.path .col [.key (s "a"), .key (s "b"), .idx 3])))))
      (.bin .and (.bin .eq (.bin .add (.use (.cast (.nav (.path .col [.key (s "a"), .key (s "b"), .idx 0])) .int)) (.lit (.int 1))) (.lit (.int 2)))
                 (.bin .eq (.use (.upper (.nav (.path .col [.key (s "s")])))) (.lit (.str (s " Q\"U")))))
    c.ok envW = true ∧ SrcOK c.toE = true ∧ evalSpec envW c.toE = .bool true := by decide

/-- `json_extract_precedence` is needed: without it `NOT v:a.b[3]` prints as `NOT V -> '$.a.b[3]'`, which DuckDB
    reads as `(NOT V) -> …` (sqlglot's own wrap only covers Binary parents) -/
theorem C11_precedence_needed : PrecOK (pipelineNoParen (.not (pB 3))) = false ∧ PrecOK (pipeline (.not (pB 3))) = true := by
  decide

/-- **Order constraint** (cursor.py:170): with `trim_cast_varchar` AFTER `json_extract_cast_as_varchar`, TRIM of an
    extracted string keeps its JSON quotes; in the real order it does not. -/
theorem C11_order :
    evalDuck envW (pipelineTrimLate (.trim pS)) = .text (s "\" q\\\"u\"") ∧
    evalDuck envW (pipeline (.trim pS)) = .text (s "q\"u") ∧ evalSpec envW (.trim pS) = .text (s "q\"u") := by
  decide

/-- **`f.value` of a LATERAL FLATTEN converted to text** (`f.value::varchar`, `TRIM(f.value)`): for every element, the
    string loses its JSON quotes — TRIM because `trim_cast_varchar` runs first and inserts the cast that
    `flatten_value_cast_as_varchar` then turns into `F.VALUE ->> '$'` -/
theorem C11_flatten_value_text (doc : Env) :
    evalDuck doc (pipelineAll (.cast .fval .text)) = evalSpec doc (.cast .fval .text) ∧
    evalDuck doc (pipelineAll (.trim .fval)) = evalSpec doc (.trim .fval) := by
  have h1 : pipelineAll (.cast .fval .text) = .jxs .fval (.path []) := by decide
  have h2 : pipelineAll (.trim .fval) = .trim (.jxs .fval (.path [])) := by decide
  rw [h1, h2]
  obtain ⟨d, pj⟩ := doc
  cases d <;> simp [evalDuck, evalSpec, arrow2, arrow, scalarOf, ofOpt, PathLit.parse, navDuck, specCast, specText, duckText, mapText, textOf]

/-- **Third order constraint** (undocumented in cursor.py): `flatten_value_cast_as_varchar` must run AFTER
    `trim_cast_varchar`; ahead of it, TRIM(f.value) of the element `" pad "` keeps the JSON spelling -/
theorem C11_order_flatten_value :
    let env : Env := { doc := .str " pad ".toList }
    evalDuck env (pipelineFlattenEarly (.trim .fval)) = .text "\" pad \"".toList ∧
    evalDuck env (pipelineAll (.trim .fval)) = .text "pad".toList ∧ evalSpec env (.trim .fval) = .text "pad".toList := by
  decide

/-- (C11/text-of-non-path-variant-keeps-quotes also covers UPPER/LOWER directly on `f.value`) -/
theorem finding_flatten_value_upper :
    let env : Env := { doc := .str "x".toList }
    evalDuck env (pipelineAll (.upper .fval)) = .text "\"X\"".toList ∧ evalSpec env (.upper .fval) = .text "X".toList := by
  decide

/-- C11/flatten-outer-ignored — FLATTEN(…, OUTER => TRUE) over an empty/missing array: documented one row with NULL,
    the rewrite ignores the argument and yields no row -/
theorem finding_flatten_outer_ignored :
    flattenImpl (.json (.arr .nil)) = .ok [] ∧ flattenOuterSpec (.json (.arr .nil)) = .ok [.null] := ⟨rfl, rfl⟩

/-- C11/flatten-native-string-list — FLATTEN(ARRAY_CONSTRUCT('a','b')) / FLATTEN(['a','b']) is a ConversionException;
    number lists work -/
theorem finding_flatten_native_string_list :
    flattenNativeListImpl [.str "a".toList] = .error .conv ∧ flattenNativeListImpl [.num 1, .num 2] = .ok [.json (.num 1), .json (.num 2)] :=
  ⟨rfl, rfl⟩

/-! ### Findings on the pinned tree (each is a `known:` entry; the envelope excludes exactly these) -/

/-- C11/array-size-empty — ARRAY_SIZE of an empty array is NULL, not 0 (the CASE trick) -/
theorem finding_array_size_empty :
    evalDuck envW (pipeline (.arraySize (.jx .col (.path [.key (s "e")])))) = .null ∧
    evalSpec envW (.arraySize (.jx .col (.path [.key (s "e")]))) = .int 0 := by decide

/-- C11/chained-brackets — `v['a']['b']`: the inner subscript is not rewritten (the replaced outer node is not
    descended into) and DuckDB rejects it -/
theorem finding_chained_brackets :
    evalDuck envW (pipeline (.bracket (.bracket .col (.str (s "a"))) (.str (s "b")))) = .err .binder ∧
    (∃ j, evalSpec envW (.bracket (.bracket .col (.str (s "a"))) (.str (s "b"))) = .json j) := by
  refine ⟨by decide, ⟨_, rfl⟩⟩

/-- C11/string-eq-literal — a bare extracted string compared with a text literal: DuckDB casts the literal to JSON -/
theorem finding_string_eq_literal :
    evalDuck envW (pipeline (.bin .eq (pB 1) (.lit (.str (s "x"))))) = .err .conv ∧
    evalSpec envW (.bin .eq (pB 1) (.lit (.str (s "x")))) = .bool true := by decide

/-- C11/text-of-non-path-variant-keeps-quotes — a string reached by a subscript (or the VARIANT itself) keeps its
    quotes under a cast to text / UPPER / LOWER / TRIM: the unquoting rewrites only recognise `:`-paths -/
theorem finding_text_of_non_path :
    evalDuck envW (pipeline (.cast (.bracket .col (.str (s "s"))) .text)) = .text (s "\" q\\\"u\"") ∧
    evalSpec envW (.cast (.bracket .col (.str (s "s"))) .text) = .text (s " q\"u") := by decide

/-- C11/bracket-key-unescaped — `v['a.b']` is sent as `$.a.b` and navigates a → b -/
theorem finding_bracket_key_unescaped :
    parsePath (bracketPath (.str (s "a.b"))) = some [.key (s "a"), .key (s "b")] ∧
    evalDuck envW (pipeline (.bracket .col (.str (s "a.b")))) ≠ evalSpec envW (.bracket .col (.str (s "a.b"))) := by
  decide

theorem C11_full_false : ¬ C11_Full := by
  intro h
  have := h envW (.arraySize (.jx .col (.path [.key (s "e")]))) (by decide)
  revert this; decide

/-! ### OBJECT_CONSTRUCT, FLATTEN, SPLIT -/

/-- **OBJECT_CONSTRUCT drops NULL-valued pairs** — when every NULL among the arguments is the literal `NULL` -/
theorem C11_object_construct_partial (ps : Pairs) (h : noHiddenNull ps = true) (hne : objectConstructSpec ps ≠ []) :
    objectConstructDuck ps = .ok (objectConstructSpec ps) := by
  unfold objectConstructDuck
  rw [objectConstruct_partial ps h]
  cases hs : objectConstructSpec ps with
  | nil => exact absurd hs hne
  | cons a l => rfl

/-- C11/object-construct-empty — `OBJECT_CONSTRUCT()` (or one whose pairs are all dropped) is a ParserException
    instead of `{}` -/
theorem finding_object_construct_empty :
    objectConstructDuck [(some (s "a"), .litNull)] = .error .parser ∧ objectConstructSpec [(some (s "a"), .litNull)] = [] :=
  ⟨rfl, rfl⟩

/-- C11/array-literal-native-list, C11/array-literal-heterogeneous — an array literal is not turned into a JSON
    document: it comes back as a native list, or fails when the items differ in type -/
theorem finding_array_literal :
    arrayLitImpl [.num 1, .num 2] = .native [.num 1, .num 2] ∧ arrayLitImpl [.num 1, .str (s "a")] = .err := by decide

/-- … and then no NULL survives while every other pair does, in order -/
theorem C11_object_construct_drops (ps : Pairs) :
    objectConstructSpec ps = ps.filterMap (fun kv => kv.1.bind fun k => kv.2.val.map fun v => (k, v)) := by
  unfold objectConstructSpec
  congr 1; funext kv; obtain ⟨k, a⟩ := kv
  cases k <;> cases h : a.val <;> simp [h]

/-- OBJECT_CONSTRUCT_KEEP_NULL keeps them as JSON null -/
theorem C11_object_construct_keep_null (ps : Pairs) (h : ps.all (fun kv => kv.1.isSome) = true) :
    (objectConstructKeepNull ps).length = ps.length := by
  induction ps with
  | nil => rfl
  | cons kv ps ih =>
    obtain ⟨k, a⟩ := kv
    simp only [List.all_cons, Bool.and_eq_true] at h
    cases k with
    | none => simp at h
    | some k => simp only [objectConstructKeepNull, List.filterMap_cons, Option.map_some, List.length_cons] at ih ⊢
                rw [ih h.2]

example : noHiddenNull [(some (s "a"), .expr (some (.num 1))), (some (s "b"), .litNull), (none, .expr (some (.num 2)))] = true := by decide

/-- C11/object-construct-hidden-null — a value that is NULL but not the literal `NULL` (a missing path, a NULL
    column) is kept as `"k":null` -/
theorem finding_object_construct_hidden_null :
    objectConstructImpl [(some (s "a"), .expr (some (.num 1))), (some (s "b"), .expr none)] = [(s "a", .num 1), (s "b", .null)] ∧
    objectConstructSpec [(some (s "a"), .expr (some (.num 1))), (some (s "b"), .expr none)] = [(s "a", .num 1)] := by decide

/-- **FLATTEN yields every element once, in order** (`f.value`; a JSON null element is NULL) -/
theorem C11_flatten (l : JList) :
    ∃ rows, flattenImpl (.json (.arr l)) = .ok rows ∧ rows.length = l.length ∧
      ∀ i, i < l.length → rows[i]? = some (ofOpt (l.get? i)) := by
  exact ⟨_, rfl, by simp [toList_length], fun i h => toList_get l i h⟩

/-- `f.value::varchar` gives each element converted to text (strings unquoted), in order -/
theorem C11_flatten_text (l : JList) : flattenTextImpl (.json (.arr l)) = flattenTextSpec (.json (.arr l)) := by
  simp only [flattenTextImpl, flattenImpl, flattenTextSpec, flattenSpec, Except.map, List.map_map]
  congr 1
  apply List.map_congr_left
  intro j _
  cases j <;> rfl

/-- C11/flatten-object — FLATTEN of an object is a ConversionException instead of its values -/
theorem finding_flatten_object :
    flattenImpl (.json (.obj (.cons (s "k") (.num 1) .nil))) = .error .conv ∧
    flattenSpec (.json (.obj (.cons (s "k") (.num 1) .nil))) = .ok [.json (.num 1)] := ⟨rfl, rfl⟩

/-- **SPLIT** (one-character separator): the pieces joined by the separator are the string, and no piece
    contains the separator — every piece once, in order -/
theorem C11_split (sep : Char) (str : List Char) :
    [sep].intercalate (splitOn sep str) = str ∧ ∀ p ∈ splitOn sep str, sep ∉ p :=
  ⟨splitOn_join sep str, splitOn_no_sep sep str⟩

end Fs.C11
