import Fs.Proofs.Vars
import Fs.Proofs.Params
import Fs.Model.Split
/-!
# C15 — session variables substitute exactly, per connection

Statements only (lemmas: `Fs/Proofs/Vars.lean`).  `Fs.Vars.Impl.inline` models the **repaired**
`Variables.inline_variables` (fix-B `91ee0e3`: one `re.sub` over `(?<!\$)\$(\w+)` with a callback), `oldInline` the
pinned code (kept for the regression witnesses), `Env`/`wstep` the per-connection dict and SET/UNSET.
`harness/props/c15.py` ties them to the real code on every run.
-/
namespace Fs.C15
open Fs.Vars

/-! ## substitution is exact -/

/-- **Exactness**: for every dict and every text, the repaired code returns exactly the text in which
    each reference (`$` not preceded by `$`, then the longest run of word characters) is replaced by the value of
    that name, and nothing else is changed; values are not scanned; the first undefined reference is the error. -/
theorem C15_exact (env : Env) (t : List Char) : Impl.inline env t = Spec.inline env t :=
  inlineGo_eq env (.copy false) t

/-- **Text that is not a reference is never rewritten**: splitting a text into references and other
    characters loses nothing, so only the `ref` tokens of `Spec.inline` can differ from the input. -/
theorem C15_text_untouched (t : List Char) : render (tokenize (.copy false) t) = t := by
  simpa [St.pendingText] using render_tokenize (.copy false) t

/-- a text without any reference comes back unchanged, whatever variables are set -/
theorem C15_no_reference (env : Env) (t : List Char) (h : hasRef false t = false) : Impl.inline env t = .ok t :=
  inlineGo_noref env false t h

/-- **A reference means its own full name — never a prefix of it**: `$w` followed by a non-word character
    is resolved by looking up exactly `upper w` (so `$var10` never goes through `var1`), in any letter case; the value
    is inserted as it is (a `$x` or `\1` inside it is not touched) and the rest of the text is substituted
    independently. -/
theorem C15_reference (env : Env) (c : Char) (w post : List Char) (hc : isWord c = true)
    (hw : ∀ d ∈ w, isWord d = true) (hpost : ∀ d, post.head? = some d → isWord d = false) :
    Impl.inline env ('$' :: c :: w ++ post) =
      match env.get (upper (c :: w)) with
      | some v => (Impl.inline env post).app v
      | none => .undefined (upper (c :: w)) := by
  simp only [Impl.inline, inlineGo_eq]
  rw [tokenize_ref c w post hc hw hpost]
  simp only [substAll]
  cases env.get (upper (c :: w)) <;> rfl

example : Impl.inline [("V1".toList, "'A'".toList), ("V10".toList, "'$v1\\1'".toList)] "select $v10, $V1;".toList
    = .ok "select '$v1\\1', 'A';".toList := by decide

/-- a dollar-quoted string whose body starts with `$name` (`$$$rate …$$`) holds no reference: each `$` of `$$$` has a `$`
    next to it; and a statement may hold any number of references — all of them are substituted -/
example : Impl.inline [("RATE".toList, "5".toList)] "select $$$rate per unit$$, $rate".toList
    = .ok "select $$$rate per unit$$, 5".toList ∧
    Impl.inline [("A".toList, "1".toList)] "$a,$a,$a,$a,$a,$a,$a,$a,$a,$a,$A".toList = .ok "1,1,1,1,1,1,1,1,1,1,1".toList := by decide

/-- **Undefined variable**: if every reference before `$w` is defined and `w` is not, the error names `$W`
    (upper-cased) — and by `C15_no_execution` nothing is executed. -/
theorem C15_undefined (env : Env) (pre : List Tok) (w : List Char) (post : List Tok)
    (hpre : ∀ n, Tok.ref n ∈ pre → env.get (upper n) ≠ none) (hw : env.get (upper w) = none) :
    substAll env (pre ++ .ref w :: post) = .undefined (upper w) := by
  induction pre with
  | nil => simp [substAll, hw]
  | cons p ps ih =>
    have ih' := ih (fun n hn => hpre n (by simp [hn]))
    cases p with
    | txt c => simp [substAll, ih', Res.app]
    | ref n =>
      have := hpre n (by simp)
      cases hg : env.get (upper n) with
      | none => exact absurd hg this
      | some v => simp [substAll, hg, ih', Res.app]

/-- a statement whose inlining fails changes no dict and reaches no later phase: `use` returns the error and
    the world is the same -/
theorem C15_no_execution (w : World) (i : Nat) (t : List Char) : (wstep w (.use i t)).1 = w := rfl

/-! ## bound parameter values are data, not references -/

/-- **A `$word` inside a bound value is never a variable reference**: for every dict, every template of `%`-free
    text / `%%` / `%s` whose own text references no variable, and every list of bound values — whatever `$name`s
    (defined or not) they contain — the text executed is the template with the values inserted verbatim: the
    variable phase has run before the values arrive and never sees them. -/
theorem C15_bound_values_not_inlined (env : Env) (ps : List Fs.Params.Piece) (hw : ∀ p ∈ ps, p.wf)
    (hr : hasRef false (Fs.Params.render ps) = false) (vs : List (List Char)) (hne : vs ≠ []) :
    execBound env (Fs.Params.render ps) (.seq vs) = some (Fs.Params.substSeq ps vs, false) := by
  have hi : Impl.inline env (Fs.Params.render ps) = .ok (Fs.Params.render ps) := C15_no_reference env _ hr
  have he : (Fs.Params.Args.seq vs).isEmpty = false := by
    cases vs with
    | nil => exact absurd rfl hne
    | cons v vs => rfl
  simp only [execBound, Fs.Params.phases, inlineOpt, hi, Option.map_some, Fs.Params.rewrite, he,
    Fs.Params.Style.clientSide, Bool.not_false, Bool.and_self, if_true]
  rw [show Fs.Params.fmt (Fs.Params.render ps) (.seq vs) = Fs.Params.substSeq ps vs from Fs.Params.fmtGo_seq vs ps hw vs]

example : execBound [("USD".toList, "5".toList)] "select %s".toList (.seq ["'costs $USD'".toList]) =
    some (.ok "select 'costs $USD'".toList, false) := by decide

/-- with references in the command the two phases compose: first the variables, then the values -/
theorem C15_bound_phases (env : Env) (cmd : List Char) (a : Fs.Params.Args) :
    execBound env cmd a = (inlineOpt env cmd).map fun c => Fs.Params.rewrite .pyformat c a := rfl

/-- known finding C15/percent-in-value-with-params: a variable value containing `%` is pasted into the text that
    `%` then formats — `set p = '50%'` makes `execute("select $p, %s", (1,))` fail inside the formatting -/
theorem finding_C15_percent_in_value_with_params :
    execBound [("P".toList, "'50%'".toList)] "select $p, %s".toList (.seq [['1']]) = some (.unsupported, false) ∧
    execBound [("P".toList, "'a%sb'".toList)] "select $p, %s".toList (.seq [['1']]) = some (.err, false) := by decide

/-! ## SET / UNSET / scope -/

/-- after `SET n = v`, `n` stands for `v`; every other name keeps its meaning (in particular names of which
    `n` is a prefix, or which are prefixes of `n`) -/
theorem C15_set (e : Env) (n v m : List Char) :
    (e.set n v).get m = if m = n then some v else e.get m := by
  by_cases h : m = n
  · subst h; simp [get_set_same]
  · simp [h, get_set_other e n m v h]

/-- after `UNSET n`, `n` is undefined and every other name keeps its meaning -/
theorem C15_unset (e : Env) (hd : e.nodup) (n m : List Char) :
    (e.unset n).get m = if m = n then none else e.get m := by
  by_cases h : m = n
  · subst h; simp [get_unset_same e m hd]
  · simp [h, get_unset_other e n m h]

/-- every dict reachable by SET/UNSET from the empty one has unique keys (hypothesis of `C15_unset`) -/
theorem C15_nodup_invariant (ops : List (Bool × List Char × List Char)) :
    Env.nodup (ops.foldl (fun (e : Env) o => if o.1 then Env.set e o.2.1 o.2.2 else Env.unset e o.2.1) ([] : Env)) := by
  suffices h : ∀ e : Env, Env.nodup e →
      Env.nodup (ops.foldl (fun (e : Env) o => if o.1 then Env.set e o.2.1 o.2.2 else Env.unset e o.2.1) e) from h [] trivial
  induction ops with
  | nil => intro e h; simpa using h
  | cons o os ih =>
    intro e h
    simp only [List.foldl_cons]
    apply ih
    split
    · exact nodup_set e _ _ h
    · exact nodup_unset e _ h

/-- **Per connection**: a SET / UNSET / statement on connection `j` leaves the dict of every other
    connection `i` as it was (so what `$name` means on `i` is unchanged), for every world -/
theorem C15_scope (w : World) (o : Op) (i : Nat)
    (hj : match o with | .set j _ _ => j ≠ i | .unset j _ => j ≠ i | .use _ _ => True) :
    (wstep w o).1.env i = w.env i := by
  cases o with
  | set j n v => simp only [wstep, World.env]; simp [List.getD, List.getElem?_set_ne hj]
  | unset j n =>
    simp only [wstep]
    split
    · rfl
    · simp only [World.env]; simp [List.getD, List.getElem?_set_ne hj]
  | use j t => rfl

/-- and on its own connection a SET is visible to every later statement (whatever cursor runs it) -/
theorem C15_set_visible (w : World) (i : Nat) (hi : i < w.length) (n v : List Char) :
    ((wstep w (.set i n v)).1.env i).get n = some v := by
  simp [wstep, World.env, List.getD, hi, get_set_same]

/-- **No memo, no sharing**: what a statement is inlined to is a function of its own connection's dict and its
    text — nothing else (no cache keyed by the text, no other connection's dict). -/
theorem C15_use_own_dict (w : World) (i : Nat) (t : List Char) :
    (wstep w (.use i t)).2 = .text (Impl.inline (w.env i) t) := rfl

/-- the byte-identical text on two connections, one right after the other: each sees its own variables (or its own
    undefined-variable error) -/
theorem C15_same_text_two_connections (w : World) (i j : Nat) (t : List Char) :
    (wrun w [.use i t, .use j t]).2 = [.text (Impl.inline (w.env i) t), .text (Impl.inline (w.env j) t)] := rfl

/-- `executemany` is one `execute` per row: a row that SETs the variable it references sees the SET of the row before
    (`SET total = 0`, then rows `$total + 5`, `$total + 7` — values as the repaired SET stores them) -/
example :
    let w1 := (wstep [[("TOTAL".toList, "0".toList)]] (.set 0 "TOTAL".toList "(0 + 5)".toList)).1
    (wrun w1 [.use 0 "SET total = $total + 7".toList]).2 = [.text (.ok "SET total = (0 + 5) + 7".toList)] := by decide

/-- **An undefined reference raises even in a statement a nop pattern matches** (`call proc($nope)` with
    `nop_regexes=["^call "]`): inlining comes before the nop decision (`Fs.Split.executePhased` with the variable
    phase as preparation). -/
theorem C15_undefined_not_nopped {W R P} (env : Env) (pats : Option (List P)) (m : P → List Char → Bool) (ok : R)
    (exec : W → List Char → W × Except (List Char) R) (w : W) (cmd : List Char) (n : List Char)
    (h : Impl.inline env cmd = .undefined n) :
    Fs.Split.executePhased (fun c => match Impl.inline env c with | .ok t => .ok t | .undefined x => .error x)
      pats m ok exec w cmd = (w, .error n) := by
  simp [Fs.Split.executePhased, h]

/-- **`cursor.describe` is a use-site like any other**: it executes `DESCRIBE <command>`, and inlining that text
    is inlining the command — the same substitutions, the same undefined-variable error. -/
theorem C15_describe_same_references (env : Env) (cmd : List Char) :
    Impl.inline env ("DESCRIBE ".toList ++ cmd) = (Impl.inline env cmd).app "DESCRIBE ".toList :=
  inlineGo_prefix env "DESCRIBE ".toList cmd (by decide) (by decide) false

/-! ## regression witnesses: the pinned code violated the property (repaired in fix-B 91ee0e3) -/

/-- `$var10` was rewritten through `var1` -/
theorem C15_old_prefix :
    oldInline [("VAR1".toList, "'A'".toList), ("VAR10".toList, "'B'".toList)] "select $var10".toList
      = .ok "select 'A'0".toList ∧
    Spec.inline [("VAR1".toList, "'A'".toList), ("VAR10".toList, "'B'".toList)] "select $var10".toList
      = .ok "select 'B'".toList := by decide

/-- substituted values were scanned again by the later substitutions and by the undefined-variable check -/
theorem C15_old_rescan :
    oldInline [("A".toList, "'$b'".toList), ("B".toList, "2".toList)] "select $a".toList = .ok "select '2'".toList ∧
    oldInline [("A".toList, "'$5'".toList)] "select $a".toList = .undefined "5".toList ∧
    Spec.inline [("A".toList, "'$5'".toList)] "select $a".toList = .ok "select '$5'".toList := by decide

/-! ## the full statement and the recorded finding -/

/-- The property says "text that is not a variable reference is never rewritten": a `$word` inside a string
    literal, `$$` string, quoted identifier or comment is not a reference.  Full statement: a text with no
    reference *between tokens* comes back unchanged. -/
def C15_Full : Prop := ∀ (env : Env) (t : List Char), refInCode t = false → Impl.inline env t = .ok t

/-- known finding C15/dollar-in-literal-or-comment: the substitution is purely textual -/
theorem finding_C15_dollar_in_literal :
    refInCode "select 'costs $5'".toList = false ∧
    Impl.inline [] "select 'costs $5'".toList = .undefined "5".toList ∧
    Impl.inline [("S".toList, "'x'".toList)] "select '$s' -- $s".toList = .ok "select ''x'' -- 'x'".toList := by decide

theorem C15_full_false : ¬ C15_Full := by
  intro h
  have := h [] "select 'costs $5'".toList (by decide)
  revert this; decide

/-- the envelope: no `$word` inside a literal / identifier / comment either -/
theorem C15_partial (env : Env) (t : List Char) (hc : refInCode t = false) (hl : refInLiteral t = false) :
    Impl.inline env t = .ok t := by
  apply inlineGo_noref
  rw [← refAt_or .top false t]
  simp only [refInCode, refInLiteral] at hc hl
  simp [hc, hl]

example : refInCode "select 'a;b', 1 -- x".toList = false ∧ refInLiteral "select 'a;b', 1 -- x".toList = false := by decide

end Fs.C15
