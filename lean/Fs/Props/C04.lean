import Fs.Proofs.DmlSem
/-!
# C04 — DML changes exactly the right rows and reports the true affected count

Statements only (helper lemmas: `Fs/Proofs/Dml.lean`, `Fs/Proofs/DmlSem.lean`).

* `Impl.step` = the modelled engine (`engine`, DuckDB's DML on the mini relational model, *trusted, tied by
  the correspondence*) followed by the model of the result plumbing at the end of `cursor._execute`
  (`branch`, `finish`; fakesnow's own code).
* `Spec.step` = SQL semantics written declaratively (`Spec.apply`) + what a Snowflake cursor shows (`Spec.obs`).

Tables hold optional integers (NULLs), rows may repeat, predicates are three-valued.  Everything below is
for *all* databases, statements, predicates and histories of the model.
-/
namespace Fs.C04
open Fs.Dml

/-- `s` is INSERT, UPDATE or DELETE (the statements whose status row carries a count) -/
def Counted : Stmt → Prop
  | .truncate _ => False
  | _ => True

/-- the count shown in the first cell of the one-row status result -/
def statusCount (o : Obs) : Option Int :=
  match o.rows with
  | [Cell.int n :: _] => some n
  | _ => none

/-- **Refinement, one statement**: the cursor (engine + result plumbing) answers every DML statement on
    every database exactly as SQL semantics + Snowflake's status conventions prescribe: same new
    database, same status row and column names, same rowcount, same error class. -/
theorem C04_refines (db : DB) (s : Stmt) : Impl.step db s = Spec.step db s :=
  impl_step_eq_spec db s

/-- **Refinement, histories**: for every sequence of DML statements from every database, every
    observation and the final database agree with the specification (a rejected statement leaves the
    database as it was and the history continues). -/
theorem C04_history (db : DB) (ss : List Stmt) : runWith Impl.step db ss = runWith Spec.step db ss :=
  runWith_congr _ _ impl_step_eq_spec db ss

/-- **True count, including zero**: after INSERT / UPDATE / DELETE, `rowcount` and the status row's
    count both equal the number of rows SQL semantics says were affected — for every table and
    predicate, whether that number is 0, 1 or many. -/
theorem C04_count (db db' : DB) (s : Stmt) (o : Obs) (hs : Counted s) (h : Impl.step db s = .ok (db', o)) :
    ∃ n, Spec.apply db s = .ok (db', n) ∧ o.rowcount = n ∧ statusCount o = some (n : Int) ∧ o.rows.length = 1 := by
  rw [C04_refines] at h
  obtain ⟨n, hap, rfl⟩ := (step_ok_iff db db' s o).mp h
  refine ⟨n, hap, ?_⟩
  cases s <;> first | exact ⟨rfl, rfl, rfl⟩ | exact hs.elim

/-- **DELETE removes exactly the rows whose predicate is TRUE** (not FALSE, not UNKNOWN), keeps the others
    in order, and the count is the number removed. -/
theorem C04_delete_rows (db db' : DB) (t : Nat) (p : Option Pred) (o : Obs)
    (h : Impl.step db (.delete t p) = .ok (db', o)) :
    ∃ tb, db[t]? = some tb ∧
      db'[t]? = some { tb with rows := tb.rows.filter (fun r => ¬ whereEval p r = .t) } ∧
      (∀ r, r ∈ (tb.rows.filter (fun r => ¬ whereEval p r = .t)) ↔ r ∈ tb.rows ∧ whereEval p r ≠ .t) ∧
      o.rowcount = tb.rows.countP (fun r => whereEval p r = .t) ∧
      tb.rows.length = (tb.rows.filter (fun r => ¬ whereEval p r = .t)).length + o.rowcount := by
  rw [C04_refines] at h
  obtain ⟨n, hap, rfl⟩ := (step_ok_iff _ _ _ _).mp h
  simp only [Spec.apply] at hap
  cases hdb : db[t]? with
  | none => simp [hdb] at hap
  | some tb =>
    simp only [hdb] at hap
    split at hap
    · simp only [Except.ok.injEq, Prod.mk.injEq] at hap
      obtain ⟨rfl, rfl⟩ := hap
      have hlt : t < db.length := by
        rcases Nat.lt_or_ge t db.length with h1 | h1
        · exact h1
        · rw [List.getElem?_eq_none h1] at hdb; cases hdb
      refine ⟨tb, rfl, by simp [hlt], fun r => by simp [List.mem_filter], rfl, ?_⟩
      exact length_split tb.rows (whereEval p)
    · cases hap

/-- **UPDATE rewrites exactly the rows whose predicate is TRUE**, in place, every right-hand side seeing the
    old row; the other rows and the number of rows are unchanged; the count is the number rewritten. -/
theorem C04_update_rows (db db' : DB) (t : Nat) (sets : List (Nat × Expr)) (p : Option Pred) (o : Obs)
    (h : Impl.step db (.update t sets p) = .ok (db', o)) :
    ∃ tb, db[t]? = some tb ∧
      db'[t]? = some { tb with rows := tb.rows.map (fun r => if whereEval p r = .t then assign sets r else r) } ∧
      o.rowcount = tb.rows.countP (fun r => whereEval p r = .t) ∧ o.rowcount ≤ tb.rows.length := by
  rw [C04_refines] at h
  obtain ⟨n, hap, rfl⟩ := (step_ok_iff _ _ _ _).mp h
  simp only [Spec.apply] at hap
  cases hdb : db[t]? with
  | none => simp [hdb] at hap
  | some tb =>
    simp only [hdb] at hap
    split at hap
    · simp only [Except.ok.injEq, Prod.mk.injEq] at hap
      obtain ⟨rfl, rfl⟩ := hap
      have hlt : t < db.length := by
        rcases Nat.lt_or_ge t db.length with h1 | h1
        · exact h1
        · rw [List.getElem?_eq_none h1] at hdb; cases hdb
      exact ⟨tb, rfl, by simp [hlt], rfl, List.countP_le_length⟩
    · cases hap

/-- **Meaning of SET**: column `j` of the rewritten row is the value of its right-hand side *on the old
    row* if `j` is assigned, and the old value otherwise (so `SET a = b, b = a` swaps). -/
theorem C04_assign (sets : List (Nat × Expr)) (r : Row) (j : Nat) (hj : j < r.length) :
    (assign sets r)[j]? = some (match sets.find? (fun s => s.1 == j) with
      | some s => s.2.eval r
      | none => r[j]) ∧ (assign sets r).length = r.length :=
  ⟨assign_getElem? sets r j hj, assign_length sets r⟩

/-- **INSERT appends exactly the source rows** (VALUES rows, or the rows of the source table whose
    predicate is TRUE, projected), laid out over the target's columns, after the existing rows; nothing is
    removed; the count is the number of rows appended — 0 for an empty source. -/
theorem C04_insert_rows (db db' : DB) (t : Nat) (cols : Option (List Nat)) (src : Src) (o : Obs)
    (h : Impl.step db (.insert t cols src) = .ok (db', o)) :
    ∃ tb new, db[t]? = some tb ∧ Spec.insertRows db tb cols src = .ok new ∧
      db'[t]? = some { tb with rows := tb.rows ++ new } ∧ o.rowcount = new.length ∧
      (tb.rows ++ new).length = tb.rows.length + o.rowcount := by
  rw [C04_refines] at h
  obtain ⟨n, hap, rfl⟩ := (step_ok_iff _ _ _ _).mp h
  simp only [Spec.apply] at hap
  cases hdb : db[t]? with
  | none => simp [hdb] at hap
  | some tb =>
    simp only [hdb] at hap
    cases hi : Spec.insertRows db tb cols src with
    | error e => simp [hi] at hap
    | ok new =>
      simp only [hi, Except.ok.injEq, Prod.mk.injEq] at hap
      obtain ⟨rfl, rfl⟩ := hap
      have hlt : t < db.length := by
        rcases Nat.lt_or_ge t db.length with h1 | h1
        · exact h1
        · rw [List.getElem?_eq_none h1] at hdb; cases hdb
      exact ⟨tb, new, rfl, hi, by simp [hlt], rfl, by simp [Spec.obs]⟩

/-- **Meaning of an INSERT column list**: with distinct listed columns, the `k`-th source value lands in
    the `k`-th listed column, every unlisted column is NULL, and the row has the table's width. -/
theorem C04_place (arity : Nat) (cs : List Nat) (src : Row) (hnd : cs.Nodup) (hin : ∀ c ∈ cs, c < arity) :
    (place arity (some cs) src).length = arity ∧
    (∀ k (hk : k < cs.length), (place arity (some cs) src)[cs[k]]? = some (src.getD k none)) ∧
    (∀ j, j < arity → j ∉ cs → (place arity (some cs) src)[j]? = some none) := by
  refine ⟨by simp [place], fun k hk => ?_, fun j hj hn => ?_⟩
  · have := hin cs[k] (List.getElem_mem hk)
    simp [place, placeCol, this, posOf_getElem cs hnd k hk]
  · simp [place, placeCol, hj, posOf_none cs j hn]

/-- **TRUNCATE empties the target** and answers with the success status row. -/
theorem C04_truncate (db db' : DB) (t : Nat) (o : Obs) (h : Impl.step db (.truncate t) = .ok (db', o)) :
    ∃ tb, db[t]? = some tb ∧ db'[t]? = some { tb with rows := [] } ∧
      o.rows = [[.text successText]] ∧ o.names = ["status"] := by
  rw [C04_refines] at h
  obtain ⟨n, hap, rfl⟩ := (step_ok_iff _ _ _ _).mp h
  simp only [Spec.apply] at hap
  cases hdb : db[t]? with
  | none => simp [hdb] at hap
  | some tb =>
    simp only [hdb, Except.ok.injEq, Prod.mk.injEq] at hap
    obtain ⟨rfl, rfl⟩ := hap
    have hlt : t < db.length := by
      rcases Nat.lt_or_ge t db.length with h1 | h1
      · exact h1
      · rw [List.getElem?_eq_none h1] at hdb; cases hdb
    exact ⟨tb, rfl, by simp [hlt], rfl, rfl⟩

/-- **Frame**: a successful statement changes nothing but the rows of its target: the set of tables, every
    other table, and the target's column count stay as they were. -/
theorem C04_frame (db db' : DB) (s : Stmt) (o : Obs) (h : Impl.step db s = .ok (db', o)) :
    db'.length = db.length ∧ (∀ j, j ≠ s.target → db'[j]? = db[j]?) ∧
    (∀ tb', db'[s.target]? = some tb' → ∃ tb, db[s.target]? = some tb ∧ tb'.arity = tb.arity) := by
  rw [C04_refines] at h
  obtain ⟨n, hap, _⟩ := (step_ok_iff _ _ _ _).mp h
  exact apply_frame db db' s n hap

/-- **Frame over histories**: a table that no statement of the history targets is, at the end, exactly
    what it was at the start, whatever happened to the others (including failed statements). -/
theorem C04_history_frame (db : DB) (ss : List Stmt) (j : Nat) (h : ∀ s ∈ ss, s.target ≠ j) :
    (runWith Impl.step db ss).2[j]? = db[j]? ∧ (runWith Impl.step db ss).2.length = db.length := by
  rw [C04_history]; exact runWith_frame db ss j h

/-- **Shape invariant over histories**: if every row has its table's width at the start, that is still so
    after any history (no statement can leave a ragged table), and every statement got an answer. -/
theorem C04_history_wf (db : DB) (ss : List Stmt) (hwf : DB.wf db) :
    DB.wf (runWith Impl.step db ss).2 ∧ (runWith Impl.step db ss).1.length = ss.length := by
  refine ⟨?_, runWith_outputs_length _ db ss⟩
  rw [C04_history]; exact runWith_wf db ss hwf

/-- **The zero case**: UPDATE / DELETE whose predicate is TRUE on no row (always-false, always-unknown, or an
    empty table) leave the database exactly as it was and report 0 in both `rowcount` and the status row. -/
theorem C04_zero (db db' : DB) (s : Stmt) (o : Obs) (h : Impl.step db s = .ok (db', o)) :
    (∀ t p tb, s = .delete t p → db[t]? = some tb → (∀ r ∈ tb.rows, whereEval p r ≠ .t) →
        db' = db ∧ o.rowcount = 0 ∧ statusCount o = some 0) ∧
    (∀ t sets p tb, s = .update t sets p → db[t]? = some tb → (∀ r ∈ tb.rows, whereEval p r ≠ .t) →
        db' = db ∧ o.rowcount = 0 ∧ statusCount o = some 0) := by
  rw [C04_refines] at h
  obtain ⟨n, hap, rfl⟩ := (step_ok_iff _ _ _ _).mp h
  constructor
  · rintro t p tb rfl hdb hno
    obtain ⟨h1, h2, _⟩ := filter_none tb.rows (whereEval p) id hno
    simp only [Spec.apply, hdb] at hap
    split at hap
    · simp only [Except.ok.injEq, Prod.mk.injEq, h1, h2] at hap
      obtain ⟨rfl, rfl⟩ := hap
      exact ⟨set_self db t tb hdb, rfl, rfl⟩
    · cases hap
  · rintro t sets p tb rfl hdb hno
    obtain ⟨_, h2, h3⟩ := filter_none tb.rows (whereEval p) (assign sets) hno
    simp only [Spec.apply, hdb] at hap
    split at hap
    · simp only [Except.ok.injEq, Prod.mk.injEq, h2, h3] at hap
      obtain ⟨rfl, rfl⟩ := hap
      exact ⟨set_self db t tb hdb, rfl, rfl⟩
    · cases hap

/-- **Three-valued logic**: a comparison with NULL is UNKNOWN on every row, so it selects nothing; AND / OR /
    NOT are the Kleene tables (min / max / swap in the order FALSE < UNKNOWN < TRUE). -/
theorem C04_three_valued :
    (∀ a op r, (Pred.cmp a op (.lit none)).eval r = .u ∧ (Pred.cmp (.lit none) op a).eval r = .u) ∧
    (∀ x y : Tri, (x.and y).rank = min x.rank y.rank ∧ (x.or y).rank = max x.rank y.rank ∧
      x.not.rank = 2 - x.rank) := by
  refine ⟨fun a op r => ?_, fun x y => by cases x <;> cases y <;> decide⟩
  simp only [Pred.eval]
  generalize Opnd.eval r a = v
  cases v <;> simp [Opnd.eval]

/-- **NULL-safe equality** (`EQUAL_NULL(a, b)`, `a IS NOT DISTINCT FROM b`; `IS DISTINCT FROM` is its negation) is two-valued on
    every row: TRUE when both sides are NULL or equal non-NULLs, FALSE otherwise — in particular FALSE, not UNKNOWN, when exactly
    one side is NULL, so `NOT EQUAL_NULL(col, x)` is TRUE on the rows where `col` is NULL and UPDATE/DELETE must affect them. -/
theorem C04_equal_null (a b : Opnd) (r : Row) :
    (Pred.eqNull a b).eval r ≠ .u ∧
    ((Pred.eqNull a b).eval r = .t ↔ a.eval r = b.eval r) ∧
    ((Pred.not (Pred.eqNull a b)).eval r = .t ↔ a.eval r ≠ b.eval r) ∧
    (Pred.eqNull a b).eval r = (Pred.eqNull b a).eval r := by
  simp only [Pred.eval]
  cases ha : Opnd.eval r a <;> cases hb : Opnd.eval r b <;> simp [Tri.ofBool, Tri.not]
  · rename_i x y; by_cases h : x = y <;> simp [h, Tri.not, eq_comm]

/-- known finding `C04/duckdb-contradictory-range-filter` (an engine defect the fake inherits): on the table below
    `DELETE … WHERE C0 = -1 AND C0 > C1 AND 0 <= C1` must delete nothing — the predicate is TRUE on no row — while DuckDB 1.0.0
    deletes the row (2, 0) and reports 1. -/
theorem finding_C04_duckdb_contradictory_range_filter :
    let p : Pred := .and (.and (.cmp (.col 0) .eq (.lit (some (-1)))) (.cmp (.col 0) .gt (.col 1))) (.cmp (.lit (some 0)) .le (.col 1))
    let rows : List Row := [[some 0, some (-2)], [none, none], [some (-1), some 3], [some 1, some 1], [some 2, some 0], [some (-2), some 2]]
    rows.countP (fun r => p.eval r = .t) = 0 ∧
    (Impl.step [⟨2, rows⟩] (.delete 0 (some p))).map (fun r => r.2.rowcount) = .ok 0 := by decide

/-- **A rejected statement leaves no result on the cursor**: whatever the cursor held from an earlier statement, after a
    statement that raises, `rowcount` is None and there is no open result set (the earlier statement's count and status row are
    gone); after a successful one the cursor holds exactly that statement's observation. -/
theorem C04_failed_statement_clears_result (prev : CurRes) (db : DB) (s : Stmt) :
    (∀ e, Impl.step db s = .error e → Impl.executeOn prev db s = ({ result := none, rowcount := none }, .error e)) ∧
    (∀ db' o, Impl.step db s = .ok (db', o) →
      Impl.executeOn prev db s = ({ result := some ⟨o.names, o.rows⟩, rowcount := some o.rowcount }, .ok db')) := by
  constructor
  · intro e h; simp [Impl.executeOn, h]
  · intro db' o h; simp [Impl.executeOn, h]

/-! ### execute_string, nop_regexes -/

/-- **`execute_string` = one cursor per statement**: when every statement of the script is accepted, the i-th
    returned cursor holds exactly what a separate `cursor.execute` of the i-th statement shows — its own status row,
    names and rowcount — and the database ends where the one-by-one history ends. -/
theorem C04_execute_string (db : DB) (ss : List Stmt) (os : List Obs)
    (h : (executeString Impl.step db ss).1 = .ok os) :
    (runWith Impl.step db ss).1 = os.map .ok ∧ (runWith Impl.step db ss).2 = (executeString Impl.step db ss).2 := by
  induction ss generalizing db os with
  | nil => simp only [executeString, Except.ok.injEq] at h; subst h; exact ⟨rfl, rfl⟩
  | cons s ss ih =>
    simp only [executeString, runWith] at h ⊢
    cases hs : Impl.step db s with
    | error e => simp [hs, Except.map] at h
    | ok r =>
      obtain ⟨db', o⟩ := r
      simp only [hs] at h ⊢
      cases hr : (executeString Impl.step db' ss).1 with
      | error e => simp [hr, Except.map] at h
      | ok os' =>
        simp only [hr, Except.map, Except.ok.injEq] at h
        subst h
        obtain ⟨h1, h2⟩ := ih db' os' hr
        exact ⟨by simp [h1], h2⟩

/-- … and a rejected statement ends the script with its error, leaving the database as the accepted prefix left it
    (`executeString` stops at the first error; nothing after it runs). -/
theorem C04_execute_string_error (db : DB) (s : Stmt) (ss : List Stmt) (e : Err) (h : Impl.step db s = .error e) :
    executeString Impl.step db (s :: ss) = (.error e, db) := by
  simp [executeString, h]

/-- witness: a script run on one shared cursor misreports — a DELETE that removes nothing, followed by a two-row
    INSERT, shows rowcount 2 for the DELETE (`executeStringShared`), where `execute_string` must show 0. -/
theorem C04_shared_cursor_misreports :
    ((executeStringShared Impl.step [⟨1, [[some 1]]⟩]
        [.delete 0 (some (.const .f)), .insert 0 none (.values 1 [[some 5], [some 6]])]).1.map fun os => os.map (·.rowcount)) = .ok [2, 2] ∧
    ((executeString Impl.step [⟨1, [[some 1]]⟩]
        [.delete 0 (some (.const .f)), .insert 0 none (.values 1 [[some 5], [some 6]])]).1.map fun os => os.map (·.rowcount)) = .ok [0, 2] := by
  decide

/-- **`nop_regexes` look at the start of the statement only**: for a plain-word pattern no longer than the
    statement's leading keyword, whether the statement is no-op'd depends on that keyword alone — not on anything
    that follows (identifiers, literals, bound values containing the word). -/
theorem C04_nop_only_at_start (word head rest rest' : List Char) (h : word.length ≤ head.length) :
    matchAtStart word (head ++ rest) = matchAtStart word (head ++ rest') := by
  simp only [matchAtStart, List.length_append]
  have e1 : (head ++ rest).take word.length = head.take word.length := by
    rw [List.take_append_of_le_length h]
  have e2 : (head ++ rest').take word.length = head.take word.length := by
    rw [List.take_append_of_le_length h]
  rw [e1, e2]
  have : decide (word.length ≤ head.length + rest.length) = decide (word.length ≤ head.length + rest'.length) := by
    simp [Nat.le_trans h (Nat.le_add_right _ _)]
  rw [this]

/-- … so on an instance configured with words that no DML keyword starts with, every DML statement behaves exactly
    as without the option. -/
theorem C04_nop_no_effect (words : List (List Char)) (text : List Char) (db : DB) (s : Stmt)
    (h : ∀ w ∈ words, matchAtStart w text = false) : Impl.stepNop words text db s = Impl.step db s := by
  have : words.any (fun w => matchAtStart w text) = false := by
    rw [List.any_eq_false]; intro w hw; simp [h w hw]
  simp [Impl.stepNop, this]

example : matchAtStart "GRANT".toList "insert into GRANTED0 (CALL0) values (1)".toList = false ∧
    matchAtStart "CALL".toList "call p()".toList = true := by decide

/-! ### DDL status rows -/

/-- **DDL status text**: for every object name, CREATE DATABASE / SCHEMA / TABLE / VIEW and DROP answer with
    the Snowflake sentence naming the object — upper-cased unless quoted — and nothing else; ALTER, COMMENT
    ON TABLE, ALTER … SET COMMENT and TRUNCATE answer `Statement executed successfully.` -/
theorem C04_ddl_status (n : Ident) :
    ddlStatus .createDatabase n = some ("Database ".toList ++ n.norm ++ " successfully created.".toList) ∧
    ddlStatus .createSchema n = some ("Schema ".toList ++ n.norm ++ " successfully created.".toList) ∧
    ddlStatus .createTable n = some ("Table ".toList ++ n.norm ++ " successfully created.".toList) ∧
    ddlStatus .createView n = some ("View ".toList ++ n.norm ++ " successfully created.".toList) ∧
    ddlStatus .drop n = some (n.norm ++ " successfully dropped.".toList) ∧
    (∀ k ∈ [DdlKind.alter, .commentOnTable, .alterSetComment, .truncate],
      ddlStatus k n = some "Statement executed successfully.".toList) ∧
    (n.quoted = true → n.norm = n.raw) ∧ (n.quoted = false → n.norm = n.raw.map upperAscii) := by
  refine ⟨rfl, rfl, rfl, rfl, rfl, ?_, fun h => by simp [Ident.norm, h], fun h => by simp [Ident.norm, h]⟩
  intro k hk
  simp only [List.mem_cons, List.not_mem_nil, or_false] at hk
  rcases hk with rfl | rfl | rfl | rfl <;> rfl

theorem lastPart_no_dot (cs acc : List Char) (h : '.' ∉ cs) :
    cs.foldl (fun acc c => if c = '.' then [] else acc ++ [c]) acc = acc ++ cs := by
  induction cs generalizing acc with
  | nil => simp
  | cons c cs ih =>
    simp only [List.mem_cons, not_or] at h
    simp only [List.foldl_cons, if_neg (Ne.symm h.1)]
    rw [ih _ h.2]; simp

/-- **`IDENTIFIER('name')` as object name**: for an unqualified literal the status names the *upper-cased* literal —
    `create table identifier('orders')` answers "Table ORDERS successfully created." — exactly what Snowflake shows (the
    status branch's own `.upper()` is what does it: `transforms.identifier` runs after the general upper-casing). -/
theorem C04_ddl_status_identifier (k : DdlKind) (lit : List Char) (hk : k.named = true) (h : '.' ∉ lit) :
    ddlStatus k (identifierArg lit) = Spec.ddlStatus k (Spec.identifierName lit) false ∧
    ddlStatus k (identifierArg lit) = some (statusPrefix k ++ lit.map upperAscii ++ statusSuffix k) := by
  have : lastPart lit = lit := by simpa [lastPart] using lastPart_no_dot lit [] h
  simp [ddlStatus, Spec.ddlStatus, hk, identifierArg, Spec.identifierName, this, Ident.norm]

/-- known finding `C04/ddl-status-identifier-qualified`: `create table identifier('s1.q2')` answers "Table S1.Q2 …" (the whole
    literal is one identifier) where the object's own name is Q2. -/
theorem finding_C04_ddl_status_identifier_qualified :
    ddlStatus .createTable (identifierArg "s1.q2".toList) ≠ Spec.ddlStatus .createTable (Spec.identifierName "s1.q2".toList) false := by
  decide

/-- **Bound values are data, whatever they contain**: with the code's phase order (inline session variables into the command
    text, then bind pyformat/format parameters) the literals that reach the engine are exactly the bound values — for every
    variable substitution `f`, every command and every value list (a value such as 'charged at $rate per unit' is stored as is). -/
theorem C04_bound_values_untouched (f : List Char → List Char) (cmd : List Seg) (vs : List (List Char))
    (hcmd : litValues cmd = []) (hlen : placeholders cmd ≤ vs.length) :
    litValues (prepare f cmd vs) = vs.take (placeholders cmd) := by
  unfold prepare
  induction cmd generalizing vs with
  | nil => simp [inlineSegs, bindSegs, litValues, placeholders]
  | cons s r ih =>
    cases s with
    | text t => simpa [inlineSegs, bindSegs, litValues, placeholders] using ih vs (by simpa [litValues] using hcmd) (by simpa [placeholders] using hlen)
    | lit v => simp [litValues] at hcmd
    | ph =>
      cases vs with
      | nil => simp [placeholders] at hlen
      | cons v vs' =>
        simp only [inlineSegs, bindSegs, litValues, placeholders, List.take_succ_cons, List.cons.injEq, true_and]
        exact ih vs' (by simpa [litValues] using hcmd) (by simpa [placeholders] using hlen)

/-- witness: binding first and inlining afterwards rewrites the value (`$rate` ↦ `5`). -/
theorem C04_swapped_phases_rewrite_values :
    let f : List Char → List Char := fun s => if s = "$rate".toList then "5".toList else s
    litValues (prepareSwapped f [.text "insert into t values (".toList, .ph, .text ")".toList] ["$rate".toList]) = ["5".toList] ∧
    litValues (prepare f [.text "insert into t values (".toList, .ph, .text ")".toList] ["$rate".toList]) = ["$rate".toList] := by
  decide

/-- the full DDL-status statement: for every kind and name, whether or not an IF [NOT] EXISTS made the
    statement a no-op, the cursor answers what Snowflake answers, through a well-formed status select -/
def C04_ddl_Full : Prop :=
  ∀ k n noop, statusSqlWellFormed k n = true ∧ ddlStatus k n = Spec.ddlStatus k n noop

/-- envelope of `C04_ddl_status_partial`: exactly the cases outside every DDL finding region -/
def DdlEnv (k : DdlKind) (n : Ident) (noop : Bool) : Prop := ddlFinding k n noop = none

/-- **DDL status, partial**: outside the three recorded finding regions the cursor's status row is
    Snowflake's and the status select is well formed. -/
theorem C04_ddl_status_partial (k : DdlKind) (n : Ident) (noop : Bool) (h : DdlEnv k n noop) :
    statusSqlWellFormed k n = true ∧ ddlStatus k n = Spec.ddlStatus k n noop := by
  simp only [DdlEnv, ddlFinding] at h
  split at h
  · cases h
  · rename_i h1
    split at h
    · cases h
    · rename_i h2
      split at h
      · cases h
      · rename_i h3
        constructor
        · simp only [statusSqlWellFormed, Bool.or_eq_true, Bool.not_eq_true']
          cases hk : k.splicesName
          · simp
          · simp only [hk, true_and] at h1; simpa using h1
        · simp only [ddlStatus, Spec.ddlStatus, h3, if_false]
          cases hk : k.named
          · simp
          · simp only [hk, true_and] at h2; simp [h2]

/-- known finding `C04/ddl-status-if-exists-noop`: `CREATE TABLE IF NOT EXISTS t` on an existing table says
    "Table T successfully created." where Snowflake says "T already exists, statement succeeded." -/
theorem finding_C04_ddl_status_if_exists_noop :
    ddlStatus .createTable ⟨['t'], false⟩ ≠ Spec.ddlStatus .createTable ⟨['t'], false⟩ true := by decide

/-- known finding `C04/ddl-quote-in-name`: a quoted name containing `'` makes the status select
    (and the table-comment side-table insert) malformed: the statement has run, then a raw ParserException
    escapes. -/
theorem finding_C04_ddl_quote_in_name :
    statusSqlWellFormed .createTable ⟨['a', '\'', 'b'], true⟩ = false := by decide

/-- known finding `C04/comment-on-column-no-status`: COMMENT ON COLUMN returns no status row. -/
theorem finding_C04_comment_on_column_no_status (n : Ident) :
    ddlStatus .commentOnColumn n = none ∧ Spec.ddlStatus .commentOnColumn n false = some successText.toList :=
  ⟨rfl, rfl⟩

theorem C04_ddl_full_false : ¬ C04_ddl_Full := fun h =>
  finding_C04_ddl_status_if_exists_noop (h .createTable ⟨['t'], false⟩ true).2

/-! ### regression witnesses for the repaired defects -/

/-- `C04/zero-rowcount` (repaired): with `affected_count or num_rows`, a DELETE on an empty table reported
    rowcount 1 while its own status row said 0. -/
theorem C04_old_zero_rowcount :
    (Impl.stepOld [⟨1, []⟩] (.delete 0 none)).map (fun r => (r.2.rowcount, statusCount r.2)) = .ok (1, some 0) ∧
    (Impl.step [⟨1, []⟩] (.delete 0 none)).map (fun r => (r.2.rowcount, statusCount r.2)) = .ok (0, some 0) := by
  decide

/-- `C04/truncate-status` (repaired): TRUNCATE used to return DuckDB's bare count row instead of a status. -/
theorem C04_old_truncate_no_status :
    (Impl.stepOld [⟨1, [[some 5], [none]]⟩] (.truncate 0)).map (fun r => r.2.rows) = .ok [[.int 2]] := by decide

/-! ### non-vacuity -/

/-- a history with NULLs, duplicates, a column list, a self-insert, a swap, an always-unknown predicate and
    a failing statement in the middle -/
example :
    (runWith Impl.step [⟨2, [[some 1, none], [some 1, none], [none, some 3]]⟩, ⟨2, []⟩]
      [ .insert 1 (some [1]) (.select 0 (some [.opnd (.col 0)]) (some (.isNull (.col 1)))),
        .delete 0 (some (.cmp (.col 0) .eq (.lit none))),
        .insert 5 none (.values 2 [[some 1, some 2]]),
        .update 0 [(0, .opnd (.col 1)), (1, .opnd (.col 0))] (some (.notNull (.col 0))),
        .delete 1 none ]) =
    ([ .ok ⟨["number of rows inserted"], [[.int 2]], 2⟩,
       .ok ⟨["number of rows deleted"], [[.int 0]], 0⟩,
       .error .catalog,
       .ok ⟨["number of rows updated", "number of multi-joined rows updated"], [[.int 2, .int 0]], 2⟩,
       .ok ⟨["number of rows deleted"], [[.int 2]], 2⟩ ],
     [⟨2, [[none, some 1], [none, some 1], [none, some 3]]⟩, ⟨2, []⟩]) := by decide

example : DdlEnv .createTable ⟨['m', 'y', ' ', 't'], true⟩ false := by unfold DdlEnv; decide
example : Counted (.update 0 [] none) := trivial

end Fs.C04
