import Fs.Proofs.Rewrite
/-!
# C10 — rewritten Snowflake functions return what Snowflake documents  (partial)

There is no Snowflake here: the oracle is the documented semantics as transcribed (`*Spec`).  The theorems cover
fakesnow's OWN part of each construct — index arithmetic, argument assignment, defaults, result-type decisions,
which forms are answered and which are passed on to be rejected, and that a node-local rewrite acts the same in
every context.  The functions' values (RE2 matching, calendar arithmetic, SHA-256, decimal parsing) are DuckDB's
and are only compared differentially by `harness/props/c10.py`.
Constructs covered: REGEXP_SUBSTR, TO_NUMBER/TO_DECIMAL/TO_NUMERIC (+TRY_), DATEADD, EQUAL_NULL, VALUES columnN,
RANDOM(seed), SHA2/SHA2_HEX/SHA2_BINARY, TRIM, expression contexts.
-/
namespace Fs.C10
open Fs.Rewrite Fs.Json

/-! ### REGEXP_SUBSTR -/

/-- the full statement: for every matcher, subject and literal arguments in the documented domain -/
def C10_regexp_substr_Full : Prop :=
  ∀ {M : Type} (extractAll : List Char → Nat → List M) (subject : List Char) (a : RxArgs),
    a.inDomain = true → rxImpl extractAll subject a = rxSpec extractAll subject a

/-- **Index arithmetic of the REGEXP_SUBSTR rewrite**: slicing the subject at `position`, asking DuckDB for all
    matches of the chosen group and subscripting with the literal `occurrence - 1` (which sqlglot prints as
    `[occurrence]`, 1-based) is the `occurrence`-th match from `position` — and NULL when there are fewer matches;
    defaults: position 1, occurrence 1, group 0.  Envelope: not (`e` parameter without a group). -/
theorem C10_regexp_substr_index_partial {M : Type} (extractAll : List Char → Nat → List M) (subject : List Char)
    (a : RxArgs) (hd : a.inDomain = true) (hok : a.ok = true) :
    rxImpl extractAll subject a = rxSpec extractAll subject a := by
  simp only [RxArgs.inDomain, Bool.and_eq_true, decide_eq_true_eq] at hd
  simp only [RxArgs.ok, Bool.not_eq_true', Bool.and_eq_false_iff] at hok
  unfold rxImpl rxSpec rxRewrite duckSlice genIndex
  simp only [filter_not_contains_e, Bool.false_eq_true, if_false]
  have hocc : ((a.occurrence.getD 1 : Nat) : Int) - 1 + 1 = ((a.occurrence.getD 1 - 1 : Nat) : Int) + 1 := by omega
  rw [hocc, duckListAt_succ]
  cases hg : a.group with
  | some g => simp
  | none =>
    rcases hok with h | h
    · have h' : ¬ ('e' ∈ a.params.getD []) := by simpa using h
      simp [h']
    · simp [hg] at h

example : (RxArgs.inDomain { position := some 5, occurrence := some 2, params := some ['i'], group := none }) = true ∧
    (RxArgs.ok { position := some 5, occurrence := some 2, params := some ['i'], group := none }) = true := by decide

/-- C10/regexp-substr-e-default-group — with the `e` parameter and no group Snowflake returns sub-match 1; the code
    tests for `e` after removing it, so group 0 (the whole match) is returned -/
theorem finding_regexp_substr_e_default_group :
    let a : RxArgs := { params := some ['e'] }
    let ex : List Char → Nat → List Nat := fun _ g => [g]
    rxImpl ex [] a = some 0 ∧ rxSpec ex [] a = some 1 := by decide

theorem C10_regexp_substr_full_false : ¬ C10_regexp_substr_Full := by
  intro h
  have := h (fun _ g => [g]) [] { params := some ['e'] } (by decide)
  revert this; decide

/-! ### REGEXP_REPLACE -/

/-- **REGEXP_REPLACE is answered only in the form whose documented meaning is "replace every match"**: for a literal
    or `$$…$$` pattern (the latter is made a literal by `dollar_quoted_string`, which runs before), the rewrite adds
    the global flag exactly when no position/occurrence/parameters argument was given — then the documented defaults
    (position 1, occurrence 0 = all) make "every match" the documented result, with replacement defaulting to '' —
    and every call that gives one of them is rejected, whatever its value. -/
theorem C10_regexp_replace (p : StrNode) (hp : p ≠ .expr) (a : RrArgs)
    (hpos : (a.position.isSome ∨ a.occurrence.isSome ∨ a.params.isSome) → a.hasReplacement = true) :   -- arguments are positional
    (∀ d, rrRule (dollarQuotedString p) a = .rewritten d →
        a.position = none ∧ a.occurrence = none ∧ a.params = none ∧ a.docIsReplaceAll = true ∧ d = !a.hasReplacement) ∧
    ((a.position.isSome ∨ a.occurrence.isSome ∨ a.params.isSome) → rrRule (dollarQuotedString p) a = .rejected) := by
  have hl : dollarQuotedString p = .lit := by cases p <;> first | rfl | exact absurd rfl hp
  obtain ⟨r, po, oc, pa⟩ := a
  by_cases hany : (po.isSome ∨ oc.isSome ∨ pa.isSome)
  · have hr : r = true := hpos hany
    subst hr
    have hrej : rrRule (dollarQuotedString p) ⟨true, po, oc, pa⟩ = .rejected := by
      cases po <;> cases oc <;> cases pa <;> simp [rrRule, hl, RrArgs.count] at hany ⊢
    refine ⟨fun d h => ?_, fun _ => hrej⟩
    rw [hrej] at h; cases h
  · have h1 : po = none := by cases po <;> simp at hany ⊢
    have h2 : oc = none := by cases oc <;> simp at hany ⊢
    have h3 : pa = none := by cases pa <;> simp at hany ⊢
    subst h1 h2 h3
    refine ⟨fun d h => ?_, fun h => absurd h hany⟩
    cases r <;> simp [rrRule, hl, RrArgs.count] at h <;> simp [RrArgs.docIsReplaceAll, ← h]

example : rrRule (dollarQuotedString .raw) { hasReplacement := true } = .rewritten false := by decide

/-- **Order constraint**: were `dollar_quoted_string` to run AFTER `regex_replace`, a `$$…$$` pattern would not be
    a literal yet, the rewrite would be skipped and DuckDB would replace only the first match -/
theorem C10_dollar_order : rrRule .raw { hasReplacement := true } = .untouched ∧
    rrRule (dollarQuotedString .raw) { hasReplacement := true } = .rewritten false := by decide

/-- C10/regexp-pattern-backslash-unescaped-twice — the regex `\\\\` (one literal backslash; `$$\\\\$$`, or `'\\\\\\\\'` in a
    single-quoted constant) reaches DuckDB as a lone `\\`: the rewrite un-escapes text the tokenizer already un-escaped;
    patterns without a doubled backslash are unchanged -/
theorem finding_regexp_pattern_unescaped_twice :
    unescapeBackslashes ['\\', '\\'] = ['\\'] ∧ unescapeBackslashes ['\\', 'd', '+'] = ['\\', 'd', '+'] := by decide

/-! ### TO_NUMBER / TO_DECIMAL / TO_NUMERIC -/

/-- **Overload assignment**: for every argument list Snowflake has an overload for, `_get_to_number_args` applied
    to the slots sqlglot fills positionally yields exactly that overload's (format, precision, scale) -/
theorem C10_to_number_args (args : List NArg) (ov : Option NArg × Option NArg × Option NArg)
    (h : toNumberOverload args = some ov) :
    getToNumberArgs (slots args).1 (slots args).2.1 (slots args).2.2 = ov := by
  match args, h with
  | [], h => simp [toNumberOverload] at h; subst h; rfl
  | [.str], h => simp [toNumberOverload] at h; subst h; rfl
  | [.str, p], h => simp [toNumberOverload] at h; subst h; rfl
  | [.str, p, s], h => simp [toNumberOverload] at h; subst h; rfl
  | [.num p], h => simp [toNumberOverload] at h; subst h; rfl
  | [.num p, s], h => simp [toNumberOverload] at h; subst h; rfl
  | .num _ :: _ :: _ :: _, h => simp [toNumberOverload] at h
  | .str :: _ :: _ :: _ :: _, h => simp [toNumberOverload] at h

/-- … for all 3³ presence/kind patterns of the three slots the function is total and never invents an argument:
    whatever it returns as precision/scale is one of the given slots -/
theorem C10_to_number_args_total (f p s : Option NArg) :
    let r := getToNumberArgs f p s
    (r.2.1 = none ∨ r.2.1 = f ∨ r.2.1 = p) ∧ (r.2.2 = none ∨ r.2.2 = p ∨ r.2.2 = s) ∧ (r.1 = none ∨ r.1 = f) := by
  cases f with
  | none => cases p <;> simp [getToNumberArgs]
  | some a => cases a <;> cases p <;> simp [getToNumberArgs]

/-- **Result type, default DECIMAL(38,0)**: TO_NUMBER and TO_DECIMAL/TO_NUMERIC/TRY_TO_* (two code paths) give the
    documented type for every supported argument list, and reject the format overloads -/
theorem C10_decimal_type (args : List NArg) (out : NumOut) (h : toNumberSpec args = some out) :
    toNumberRule (slots args).1 (slots args).2.1 (slots args).2.2 = out ∧ toDecimalAnonRule args = out := by
  match args, h with
  | [], h => simp [toNumberSpec, toNumberOverload] at h; subst h; exact ⟨rfl, rfl⟩
  | [.str], h => simp [toNumberSpec, toNumberOverload] at h; subst h; exact ⟨rfl, rfl⟩
  | [.str, p], h => simp [toNumberSpec, toNumberOverload] at h; subst h; exact ⟨rfl, rfl⟩
  | [.str, p, s], h => simp [toNumberSpec, toNumberOverload] at h; subst h; exact ⟨rfl, rfl⟩
  | [.num p], h => simp [toNumberSpec, toNumberOverload] at h; subst h; exact ⟨rfl, rfl⟩
  | [.num p, s], h => simp [toNumberSpec, toNumberOverload] at h; subst h; exact ⟨rfl, rfl⟩
  | .num _ :: _ :: _ :: _, h => simp [toNumberSpec, toNumberOverload] at h
  | .str :: _ :: _ :: _ :: _, h => simp [toNumberSpec, toNumberOverload] at h

theorem C10_decimal_default : toNumberRule none none none = .decimal (.num 38) (.num 0) ∧
    toDecimalAnonRule [] = .decimal (.num 38) (.num 0) := ⟨rfl, rfl⟩

/-- C10/to-number-numeric-truncates — documented rounding is half away from zero; DuckDB's DECIMAL → DECIMAL cast
    (a numeric, not string, first argument) truncates: 12.345 → 12.34 -/
theorem finding_to_number_numeric_truncates : roundHalfAway 12345 10 = 1235 ∧ truncDiv 12345 10 = 1234 ∧
    roundHalfAway (-25) 10 = -3 ∧ truncDiv (-25) 10 = -2 := by decide

/-- C10/to-number-round-overflow — '99.995' as DECIMAL(4,2): the truncated mantissa fits 4 digits, the rounded one
    (10000) does not; DuckDB checks before rounding and returns 100.00 -/
theorem finding_to_number_round_overflow :
    fitsDigits (truncDiv 99995 10) 4 = true ∧ fitsDigits (roundHalfAway 99995 10) 4 = false := by decide

/-- **The reported result type is the computed one**: for ALL precisions and scales, the (precision, scale) that
    `cursor.description` reads back from DuckDB's type text `DECIMAL(p,s)` is (p, s) — with the type decision above:
    TO_NUMBER/TO_DECIMAL/TO_NUMERIC(x, p, s) report NUMBER(p, s) for every scale, not only one-digit ones -/
theorem C10_decimal_description (p s : Nat) : parseDecimalType (renderDecimalType p s) = (p, s) := by
  unfold parseDecimalType renderDecimalType
  have hpre : ("DECIMAL(".toList ++ natDigits p ++ ',' :: (natDigits s ++ [')'])).take 8 = "DECIMAL(".toList := by
    rw [List.append_assoc]; exact List.take_left' rfl
  have hdrop : ("DECIMAL(".toList ++ natDigits p ++ ',' :: (natDigits s ++ [')'])).drop 8 = natDigits p ++ ',' :: (natDigits s ++ [')']) := by
    rw [List.append_assoc]; exact List.drop_left' rfl
  rw [if_pos hpre, hdrop]
  obtain ⟨h1, h2⟩ := takeWhile_append_stop isDigit (natDigits p) ',' (natDigits s ++ [')']) (natDigits_all p) (by decide)
  obtain ⟨h3, h4⟩ := takeWhile_append_stop isDigit (natDigits s) ')' [] (natDigits_all s) (by decide)
  simp only [h1, h2, h3, h4, digitsVal_natDigits]

/-- a reader that only accepts a one-digit scale reports NUMBER(38,0) for DECIMAL(20,10) -/
theorem C10_decimal_description_two_digit_scale :
    parseDecimalType (renderDecimalType 20 10) = (20, 10) ∧ parseDecimalTypeOneDigitScale (renderDecimalType 20 10) = (38, 0) := by
  decide

/-! ### TO_TIMESTAMP(<integer> [, scale]) -/

/-- **TO_TIMESTAMP of an integer is a TIMESTAMP_NTZ for every scale**: the cast fakesnow adds makes the result
    naive whatever function sqlglot chose; without the cast it is naive only for scales 3 and 6 -/
theorem C10_to_timestamp_type (scale : Option Nat) :
    toTimestampTzAware true scale = false ∧
    (toTimestampTzAware false scale = true ↔ (scale.isSome ∧ scale ≠ some 3 ∧ scale ≠ some 6)) := by
  refine ⟨by simp [toTimestampTzAware], ?_⟩
  cases scale with
  | none => simp [toTimestampTzAware]
  | some n =>
    by_cases h3 : n = 3
    · subst h3; simp [toTimestampTzAware, unixToTimeFn, TsFn.tzAware]
    · by_cases h6 : n = 6
      · subst h6; simp [toTimestampTzAware, unixToTimeFn, TsFn.tzAware]
      · have : unixToTimeFn (some n) = .toTimestamp := by
          unfold unixToTimeFn; split <;> simp_all
        simp [toTimestampTzAware, this, TsFn.tzAware, h3, h6]

/-- C10/to-timestamp-float-tz-aware — a float argument is not an `exp.UnixToTime`, gets no cast, and DuckDB's
    to_timestamp is TIMESTAMP WITH TIME ZONE -/
theorem finding_to_timestamp_float : TsFn.toTimestamp.tzAware = true := rfl

/-- **NUMBER(p) keeps its precision**: only the parameter-less type becomes BIGINT; NUMBER(p) is DECIMAL(p,0) — a
    value of p+1 digits does not fit (rejected; NULL for TRY_CAST), one of p digits does -/
theorem C10_number_one_parameter (p : Nat) (hp : 1 ≤ p) :
    integerPrecision [p] = .decimal p 0 ∧ (integerPrecision [p]).fitsIntDigits p = true ∧
    (integerPrecision [p]).fitsIntDigits (p + 1) = false ∧ integerPrecision [] = .bigint := by
  simp [integerPrecision, NumType.fitsIntDigits]

/-! ### DATEADD -/

def C10_dateadd_type_Full : Prop := ∀ u s, dateaddImpl u s = dateaddSpec u s

/-- **DATEADD result type**: DATE iff the input is a date and the unit is a day or larger — for inputs written as a
    cast to DATE (or TO_DATE) and every unit but QUARTER, and for timestamp / string-literal inputs with every unit -/
theorem C10_dateadd_type_partial (u : DUnit) (s : DShape) (h : s ≠ .dateExpr ∧ ¬ (u = .quarter ∧ s = .castDate)) :
    dateaddImpl u s = dateaddSpec u s := by
  obtain ⟨h1, h2⟩ := h
  cases u <;> cases s <;> first | rfl | exact absurd rfl h1 | exact absurd ⟨rfl, rfl⟩ h2

example : (DShape.castDate ≠ .dateExpr ∧ ¬ (DUnit.month = .quarter ∧ DShape.castDate = .castDate)) := by decide

/-- C10/dateadd-quarter, C10/dateadd-date-expression — QUARTER is not in the unit list, and only a syntactic cast
    is recognised as a DATE (a DATE column, CURRENT_DATE, a nested DATEADD are not): TIMESTAMP instead of DATE -/
theorem finding_dateadd_type :
    dateaddImpl .quarter .castDate = .timestamp ∧ dateaddSpec .quarter .castDate = .date ∧
    dateaddImpl .day .dateExpr = .timestamp ∧ dateaddSpec .day .dateExpr = .date := by decide

theorem C10_dateadd_type_full_false : ¬ C10_dateadd_type_Full := by
  intro h; have := h .quarter .castDate; revert this; decide

/-! ### EQUAL_NULL -/

/-- **EQUAL_NULL = IS NOT DISTINCT FROM**, for every type and all values incl. NULL -/
theorem C10_equal_null {α} [DecidableEq α] (a b : Option α) : isNotDistinct a b = equalNullSpec a b := by
  cases a <;> cases b <;> simp [isNotDistinct, equalNullSpec]

/-- C10/equal-null-created-database — the macro exists only in databases created by connect() -/
theorem finding_equal_null_created_database : equalNullAvailable .connect = true ∧ equalNullAvailable .createStatement = false :=
  ⟨rfl, rfl⟩

/-! ### VALUES -/

/-- **VALUES column names**: `COLUMN1 … COLUMNn`, 1-based, one per column of the first row, pairwise distinct;
    only for an un-aliased VALUES under a SELECT -/
theorem C10_values_names (n : Nat) :
    (valuesColumns n).length = n ∧
    (∀ i, i < n → (valuesColumns n)[i]? = some ("COLUMN".toList ++ natDigits (i + 1))) ∧
    (∀ i j, i < n → j < n → (valuesColumns n)[i]? = (valuesColumns n)[j]? → i = j) ∧
    valuesRule true false n = some (valuesColumns n) ∧ valuesRule false false n = none ∧ valuesRule true true n = none := by
  refine ⟨by simp [valuesColumns], ?_, ?_, rfl, rfl, rfl⟩
  · intro i hi
    simp [valuesColumns, List.getElem?_map, List.getElem?_range hi, columnName]
  · intro i j hi hj h
    simp only [valuesColumns, List.getElem?_map, List.getElem?_range hi, List.getElem?_range hj, Option.map_some,
      Option.some.injEq] at h
    exact columnName_inj i j h

/-! ### RANDOM(seed) -/

/-- **Seed mapping** `seed ↦ seed/2147483647 − 0.5`: injective, and inside `setseed`'s domain [-1, 1] exactly for
    −1073741823 ≤ seed ≤ 3221225470 (so for every non-negative int32 seed) -/
theorem C10_random_seed (s s' : Int) :
    (seedNum s = seedNum s' → s = s') ∧
    (seedInDomain s = true ↔ (-1073741823 ≤ s ∧ s ≤ 3221225470)) := by
  constructor
  · intro h; unfold seedNum at h; omega
  · simp only [seedInDomain, seedNum, seedDen, int32Max, Bool.and_eq_true]
    constructor
    · intro ⟨h1, h2⟩
      have h1 := of_decide_eq_true h1
      have h2 := of_decide_eq_true h2
      omega
    · intro h
      exact ⟨decide_eq_true (by omega), decide_eq_true (by omega)⟩

def C10_random_Full : Prop := ∀ calls, (randomImpl calls).rewritten = randomSpecRewritten calls

/-- **Every RANDOM call becomes a 64-bit integer** — when the SELECT contains at most one; and a literal seed is the
    seed handed to `setseed` -/
theorem C10_random_partial (calls : List RandArg) (h : calls.length ≤ 1) :
    (randomImpl calls).rewritten = randomSpecRewritten calls ∧
    (∀ n, calls = [.lit n] → (randomImpl calls).seed = some n) := by
  match calls, h with
  | [], _ => exact ⟨rfl, by intro n h; cases h⟩
  | [c], _ => exact ⟨rfl, by intro n h; cases h; rfl⟩

/-- C10/random-twice, C10/random-negative-seed — only the first RANDOM of a SELECT is rewritten (the second reaches
    DuckDB as `RANDOM(1)`: BinderException); a negative seed is not a literal node and is silently ignored -/
theorem finding_random :
    (randomImpl [.lit 1, .lit 1]).rewritten = [true, false] ∧ randomSpecRewritten [.lit 1, .lit 1] = [true, true] ∧
    (randomImpl [.other]).seed = none := by decide

/-- C10/random-nested-select — directly under one SELECT the call is wrapped once; in a CTE/subquery twice -/
theorem finding_random_nested_select : randomWraps 1 = 1 ∧ randomWraps 2 = 2 := ⟨rfl, rfl⟩

theorem C10_random_full_false : ¬ C10_random_Full := by
  intro h; have := h [.lit 1, .lit 1]; revert this; decide

/-! ### SHA2 -/

/-- **SHA2 length handling**: an answer is only ever a 256-bit digest, given exactly when the requested length is
    256 (or defaulted) — hex for SHA2/SHA2_HEX, bytes for SHA2_BINARY; every other length is passed on untouched
    (DuckDB has no such function: rejected, not answered wrongly) -/
theorem C10_sha2 (fn : ShaFn) (len : Option Nat) :
    ((sha2Rule fn len).bits = some 256 ↔ len.getD 256 = 256) ∧
    (len.getD 256 ≠ 256 → sha2Rule fn len = .passedOn) ∧
    (len.getD 256 = 256 → sha2Rule fn len = (if fn = .sha2Binary then .bin256 else .hex256)) := by
  unfold sha2Rule
  by_cases h : len.getD 256 = 256
  · cases fn <;> simp [h, ShaOut.bits]
  · cases fn <;> simp [h, ShaOut.bits]

/-! ### alias reuse in JOIN … ON -/

/-- **Every join is decided on its own**: for every alias set and every join list, the i-th join's ON is rewritten
    iff IT names a select alias as a bare left operand — independent of what the other joins look like (no ON,
    USING, compound, parenthesised), before or after it -/
theorem C10_alias_in_join (aliases : List Nat) (js : List JoinOn) :
    (aliasInJoin aliases js).length = js.length ∧
    ∀ i : Nat, (aliasInJoin aliases js)[i]? = (js[i]?).map (rewriteJoin aliases) := by
  induction js with
  | nil => exact ⟨rfl, fun i => by simp [aliasInJoin]⟩
  | cons j js ih =>
    refine ⟨by simp [aliasInJoin, ih.1], fun i => ?_⟩
    cases i with
    | zero => simp [aliasInJoin]
    | succ i => simpa [aliasInJoin] using ih.2 i

/-- a loop that leaves at the first join with nothing to substitute misses every later join -/
theorem C10_alias_in_join_no_break :
    aliasInJoin [1] [.noOn, .aliasLeft 1] = [false, true] ∧ aliasInJoinBreak [1] [.noOn, .aliasLeft 1] = [false, false] ∧
    aliasInJoin [1] [.other, .aliasLeft 1, .aliasLeft 2] = [false, true, false] := by decide

/-! ### ARRAY_AGG -/

/-- ARRAY_AGG collects the non-NULL inputs — when there is at least one -/
theorem C10_array_agg_partial (xs : List (Option Int)) (h : xs.filterMap id ≠ []) : arrayAggImpl xs = arrayAggSpec xs := by
  unfold arrayAggImpl arrayAggSpec
  cases hx : xs.filterMap id with
  | nil => exact absurd hx h
  | cons a l => rfl

/-- C10/array-agg-empty-null — over no (non-NULL) rows the result is NULL, documented an empty ARRAY -/
theorem finding_array_agg_empty : arrayAggImpl [none] = none ∧ arrayAggSpec [none] = some [] := by decide

/-- C10/array-agg-within-group-keeps-nulls — the WITHIN GROUP rewrite has no NULL filter: NULL inputs appear in the
    ARRAY (documented: omitted) -/
theorem finding_array_agg_within_group_nulls :
    arrayAggWithinImpl [some 1, none] = [some 1, none] ∧ arrayAggSpec [some 1, none] = some [1] := by decide

/-! ### DATEDIFF (year / quarter / month) -/

/-- boundary counting is additive and antisymmetric: DATEDIFF(u, a, c) = DATEDIFF(u, a, b) + DATEDIFF(u, b, c),
    DATEDIFF(u, a, b) = −DATEDIFF(u, b, a), DATEDIFF(u, a, a) = 0 — the relations the tie checks on DuckDB's `date_diff` -/
theorem C10_datediff_additive (u : DUnit) (a b c : Int × Int) :
    dateDiffYM u a c = dateDiffYM u a b + dateDiffYM u b c ∧ dateDiffYM u a b = -dateDiffYM u b a ∧ dateDiffYM u a a = 0 := by
  unfold dateDiffYM; omega

/-- C10/sha2-nonliteral-size-answered — the model of `sha256` speaks about bare number literals (`Option Nat`); a size
    written as any other expression (`-256`, `256 - 512`) reaches sqlglot's own SHA2 rendering, which answers with the
    256-bit digest.  Recorded from the tie; the rule for literals is `C10_sha2`. -/
theorem finding_sha2_nonliteral_size : sha2Rule .sha2 none = .hex256 ∧ sha2Rule .sha2 (some 224) = .passedOn := by decide

/-! ### TRIM -/

/-- TRIM(s) strips blanks -/
theorem C10_trim_partial (s : List Char) : trimImpl s none = trimSpec s none := rfl

/-- TRIM(x::varchar, chars): with the operand explicitly cast to text the node is left as it is and the characters are
    stripped as documented, for every string and character set -/
theorem C10_trim_text_cast (s : List Char) (chars : Option (List Char)) : trimImplG true s chars = trimSpec s chars := rfl

/-- C10/trim-chars — `TRIM(s, chars)`: the characters argument is dropped -/
theorem finding_trim_chars : trimImpl "xxaxx".toList (some ['x']) = "xxaxx".toList ∧ trimSpec "xxaxx".toList (some ['x']) = ['a'] := by
  decide

/-! ### Wherever the construct appears -/

/-- **Context commutation**: under sqlglot's traversal a rewrite rule acts on a construct `e` the same way in
    every context `c` (select list, WHERE, nested call, DML, view, CTE — any tree position) on whose path to `e`
    the rule itself does not fire; the rest of the context is rewritten independently. -/
theorem C10_context (r : X → Option X) (c : Cx) (e : X) (h : c.quiet r e) :
    topDownX r (c.plug e) = (c.map (topDownX r)).plug (topDownX r e) := by
  induction c with
  | hole => rfl
  | n1 f c ih => simp only [Cx.plug, Cx.map]; rw [topDownX_n1 r _ _ h.1, ih h.2]
  | n2l f c b ih => simp only [Cx.plug, Cx.map]; rw [topDownX_n2 r _ _ _ h.1, ih h.2]
  | n2r f a c ih => simp only [Cx.plug, Cx.map]; rw [topDownX_n2 r _ _ _ h.1, ih h.2]
  | n3l f c b d ih => simp only [Cx.plug, Cx.map]; rw [topDownX_n3 r _ _ _ _ h.1, ih h.2]
  | n3m f a c d ih => simp only [Cx.plug, Cx.map]; rw [topDownX_n3 r _ _ _ _ h.1, ih h.2]
  | n3r f a b c ih => simp only [Cx.plug, Cx.map]; rw [topDownX_n3 r _ _ _ _ h.1, ih h.2]

/-- **… also under a context that is itself rewritten**: an IN-PLACE rule (REGEXP_REPLACE's, which patches the node and
    returns it) reaches a construct at any depth, with no hypothesis on the context — REGEXP_REPLACE nested in the
    subject of another REGEXP_REPLACE is rewritten like the outer one.  (For REPLACING rules the hypothesis of
    `C10_context` is needed: `C10_context_hypothesis_needed`.) -/
theorem C10_context_in_place (g : Nat → Nat) (c : Cx) (e : X) :
    inPlaceX g (c.plug e) = (c.inPlace g).plug (inPlaceX g e) := by
  induction c with
  | hole => rfl
  | n1 f c ih => simp only [Cx.plug, Cx.inPlace, inPlaceX, ih]
  | n2l f c b ih => simp only [Cx.plug, Cx.inPlace, inPlaceX, ih]
  | n2r f a c ih => simp only [Cx.plug, Cx.inPlace, inPlaceX, ih]
  | n3l f c b d ih => simp only [Cx.plug, Cx.inPlace, inPlaceX, ih]
  | n3m f a c d ih => simp only [Cx.plug, Cx.inPlace, inPlaceX, ih]
  | n3r f a b c ih => simp only [Cx.plug, Cx.inPlace, inPlaceX, ih]

/-- REGEXP_REPLACE (7 ↦ 8) inside REGEXP_REPLACE: in place both are rewritten, as a replacing rule only the outer one -/
theorem C10_nested_in_place_vs_replacing :
    inPlaceX (fun f => if f = 7 then 8 else f) (.n1 7 (.n1 7 (.leaf 0))) = .n1 8 (.n1 8 (.leaf 0)) ∧
    topDownX (fun | .n1 7 a => some (.n1 8 a) | _ => none) (.n1 7 (.n1 7 (.leaf 0))) = .n1 8 (.n1 7 (.leaf 0)) := by decide

/-- a rule that only looks at the node's own function symbol: function 7 with one argument becomes function 8 -/
private def ruleW : X → Option X
  | .n1 7 a => some (.n1 8 a)
  | _ => none

example : (Cx.n2r 1 (.n1 7 (.leaf 0)) (.n3m 2 (.leaf 1) .hole (.leaf 2))).quiet ruleW (.n1 7 (.leaf 5)) := by
  simp [Cx.quiet, ruleW]

/-- the hypothesis is needed: a construct nested directly inside ANOTHER instance of the same rewritten construct is
    not rewritten (the replaced outer node is not descended into).  For the constructs of C10 this is not observable
    (sqlglot's DuckDB generator renders the left-over inner node acceptably); C11's chained subscripts are the
    observable instance. -/
theorem C10_context_hypothesis_needed :
    topDownX ruleW (.n1 7 (.n1 7 (.leaf 0))) = .n1 8 (.n1 7 (.leaf 0)) := by decide

end Fs.C10
