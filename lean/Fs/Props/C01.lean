import Fs.Proofs.Types
/-!
# C01 — stored values read back unchanged, in the connector's Python types   (partial)

Statements only; everything is about `Fs/Model/Types.lean`.  What is proved here is fakesnow's own part: the type
rewrites choose DuckDB storage types wide enough for every value of the Snowflake type (`C01_width_partial`), the Python
type handed out is the connector's (`C01_pytype_partial`), CLONE/CTAS/INSERT … SELECT move exactly the selected rows
and touch nothing else (`C01_clone`, `C01_ctas`, `C01_insert_select`), `_insert_df` only re-encodes dict/list cells
(`C01_insert_df_cells`).  That DuckDB stores and returns what it is given, and pyarrow's conversions, are **not** proved:
they are exercised by the correspondence check (`harness/props/c01.py`) on every run.
-/
namespace Fs.C01
open Fs.Types

/-! ## width adequacy -/

/-- the full statement: every value exactly representable in a Snowflake type fits the DuckDB type fakesnow chooses -/
def C01_Width_Full : Prop := ∀ k v, dom k v → duckDom (toDuck k) v

/-- false on the pinned tree: the integer family (synonyms of NUMBER(38,0) in Snowflake) is stored as BIGINT -/
theorem C01_width_full_false : ¬ C01_Width_Full := fun h => by
  have := h .int (.num 9223372036854775808 0) (by simp [dom])
  simp [toDuck, pipeline, semiStructured, timestampNtz, floatToDouble, integerPrecision, duckOf, duckDom] at this

/-- finding `C01/int-family-int64`: 2^63 is an INT value in Snowflake and does not fit the chosen BIGINT -/
theorem finding_C01_int64 :
    dom .int (.num 9223372036854775808 0) ∧ toDuck .int = .bigint ∧ ¬ duckDom (toDuck .int) (.num 9223372036854775808 0) := by
  refine ⟨by simp [dom], rfl, ?_⟩
  simp [toDuck, pipeline, semiStructured, timestampNtz, floatToDouble, integerPrecision, duckOf, duckDom]

/-- envelope: values of an integer-family column lie in the int64 range -/
def WidthEnv (k : Kind) (v : Val) : Prop := isIntFamily k = true → int64 v

/-- **Width adequacy**: for every column kind the Snowflake parser produces and every value exactly representable in
    it — all 38-digit decimals at every scale, every binary64 pattern (denormals, ±max, NaNs), any text, years
    1–9999 at microsecond resolution, any bytes, any JSON text — the value lies in the domain of the DuckDB type
    fakesnow's rewrites choose; for the integer family under the int64 envelope. -/
theorem C01_width_partial (k : Kind) (v : Val) (henv : WidthEnv k v) (h : dom k v) : duckDom (toDuck k) v :=
  width_partial k v henv h

example : WidthEnv (.decimal 38 37) (.num (10 ^ 38 - 1) 37) ∧ dom (.decimal 38 37) (.num (10 ^ 38 - 1) 37) := by
  constructor
  · intro h; cases h
  · simp [dom]
example : WidthEnv .int (.num (-9223372036854775808) 0) ∧ dom .int (.num (-9223372036854775808) 0) := by
  constructor
  · intro _; simp [int64]
  · simp [dom]

/-- every type spelling of the property's list is parsed and gets a real DuckDB type (none is left as an unknown name) -/
theorem C01_types_supported :
    ∀ n ∈ ["BOOLEAN", "NUMBER", "DECIMAL", "NUMERIC", "INT", "INTEGER", "BIGINT", "SMALLINT", "TINYINT", "BYTEINT", "FLOAT",
           "FLOAT4", "FLOAT8", "DOUBLE", "DOUBLE PRECISION", "REAL", "VARCHAR", "CHAR", "CHARACTER", "STRING", "TEXT", "DATE",
           "TIME", "TIMESTAMP", "TIMESTAMP_NTZ", "DATETIME", "TIMESTAMP_TZ", "BINARY", "VARBINARY", "VARIANT", "OBJECT", "ARRAY"],
      ∃ k, parseSf n = some k ∧ toDuck k ≠ .unknown := by decide

/-- **Each rewrite is necessary** (so dropping or reordering one away is a broken lemma, not just a failed test):
    without `float_to_double` FLOAT is a 32-bit REAL that cannot hold 0.1; without `integer_precision` INT is 32-bit
    and cannot hold 2^31; without `semi_structured_types` VARIANT is not a DuckDB type at all. -/
theorem C01_rewrites_necessary :
    (dom .float (.dbl 0x3FB999999999999A) ∧
      ¬ duckDom (duckOf (integerPrecision (timestampNtz (semiStructured .float)))) (.dbl 0x3FB999999999999A)) ∧
    (dom .int (.num 2147483648 0) ∧
      ¬ duckDom (duckOf (floatToDouble (timestampNtz (semiStructured .int)))) (.num 2147483648 0)) ∧
    duckOf (integerPrecision (floatToDouble (timestampNtz .variant))) = .unknown := by
  refine ⟨⟨by simp [dom], ?_⟩, ⟨by simp [dom], ?_⟩, rfl⟩
  · simp [semiStructured, timestampNtz, integerPrecision, duckOf, duckDom]
  · simp [semiStructured, timestampNtz, floatToDouble, duckOf, duckDom]

/-- finding `C01/decimal-param-exponent`: the smallest magnitude at scale 9, `Decimal('1E-9')`, is rendered in scientific
    notation by the pyformat binding and rejected; a 38-digit value at scale 37 is rendered plainly -/
theorem finding_C01_decimal_param_exponent :
    pyformatDecimalAccepted 1 (-9) = false ∧ pyformatDecimalAccepted 38 (-37) = true ∧ pyformatDecimalAccepted 3 (-2) = true := by decide

/-! ## Python types -/

def C01_Pytype_Full : Prop := ∀ k, pyOf (toDuck k) = connPy k

/-- finding `C01/number-scale0-decimal`: a NUMBER(p,0) column is handed out as Decimal, the connector uses int -/
theorem finding_C01_number_scale0 (p : Nat) : pyOf (toDuck (.decimal p 0)) = .decimal ∧ connPy (.decimal p 0) = .int :=
  ⟨rfl, rfl⟩

theorem C01_pytype_full_false : ¬ C01_Pytype_Full := fun h => by
  have := h (.decimal 38 0)
  simp [toDuck, pipeline, semiStructured, timestampNtz, floatToDouble, integerPrecision, duckOf, pyOf, connPy] at this

/-- **Python type table**: for every column kind except NUMBER(p,0), the Python type of a fetched value is the one the
    Snowflake connector uses (int, Decimal, float, str, bool, date, time, naive/aware datetime, bytes, JSON text). -/
theorem C01_pytype_partial (k : Kind) (h : ∀ p, k ≠ .decimal p 0) : pyOf (toDuck k) = connPy k := by
  cases k <;> try rfl
  rename_i p s
  cases s with
  | zero => exact absurd rfl (h p)
  | succ s => rfl

example : (∀ p, Kind.decimal 10 2 ≠ .decimal p 0) ∧ (∀ p, Kind.timestampTz ≠ .decimal p 0) := by
  constructor <;> intro p h <;> cases h

/-- **Description of numeric columns**: for every declared NUMBER(p,s) — any precision, any scale, two-digit scales
    included — `cursor.description` of the stored column reports FIXED with exactly the declared precision and scale
    (it is the scale that makes the connector build `Decimal` vs `int`); the integer family reports FIXED(38,0), the
    float family REAL. -/
theorem C01_description_numeric (k : Kind) (d : SfName × Option Nat × Option Nat) (h : declDescr k = some d) :
    sfDescr (toDuck k) = d := by
  cases k <;> simp [declDescr] at h <;> subst h <;> rfl

example : declDescr (.decimal 38 37) = some (.fixed, some 38, some 37) ∧ sfDescr (toDuck (.decimal 12 12)) = (.fixed, some 12, some 12) := by
  decide

/-! ## CLONE / CTAS / INSERT … SELECT -/

/-- **CLONE**: when `CREATE TABLE new CLONE src` succeeds, `new` has exactly the columns and rows of `src` — every row
    once, duplicates and NULL cells included — and every other table, `src` itself included, is unchanged. -/
theorem C01_clone (db db' : Db) (new src : String) (h : clone db new src = some db') :
    get db' new = get db src ∧ (get db src).isSome ∧ ∀ n, n ≠ new → get db' n = get db n :=
  clone_spec db db' new src h

/-- **CREATE TABLE AS**: the new table holds exactly the selected rows, projected, in multiplicity; nothing else changes. -/
theorem C01_ctas (db db' : Db) (new : String) (orReplace : Bool) (q : Query) (h : ctas db new orReplace q = some db') :
    (∃ t, get db q.src = some t ∧
      get db' new = some { cols := q.projCols t.cols, rows := (t.rows.filter q.pred).map q.proj }) ∧
    ∀ n, n ≠ new → get db' n = get db n :=
  ctas_spec db db' new orReplace q h

/-- **INSERT … SELECT**: the target keeps all its rows and gains exactly the selected source rows (so each row's
    multiplicity is old + selected), the reported count is the number of selected rows, and every other table is
    unchanged. -/
theorem C01_insert_select (db db' : Db) (tgt : String) (q : Query) (cnt : Nat) (h : insertSelect db tgt q = some (db', cnt)) :
    (∃ t s, get db tgt = some t ∧ get db q.src = some s ∧
      get db' tgt = some { t with rows := t.rows ++ (s.rows.filter q.pred).map q.proj } ∧
      cnt = ((s.rows.filter q.pred).map q.proj).length ∧
      ∀ r : Row, ((t.rows ++ (s.rows.filter q.pred).map q.proj).count r) =
        t.rows.count r + ((s.rows.filter q.pred).map q.proj).count r) ∧
    ∀ n, n ≠ tgt → get db' n = get db n :=
  insert_select_spec db db' tgt q cnt h

/-- non-vacuity: a clone of a table with a duplicate row and a NULL, next to a bystander -/
example :
    let db : Db := [("SRC", { cols := ["A", "B"], rows := [[some 1, none], [some 1, none], [none, some 2]] }),
                    ("BY", { cols := ["X"], rows := [[some 7]] })]
    (clone db "NEW" "SRC").map (fun d => (get d "NEW", get d "BY")) =
      some (some { cols := ["A", "B"], rows := [[some 1, none], [some 1, none], [none, some 2]] },
            some { cols := ["X"], rows := [[some 7]] }) := by decide

/-! ## write_pandas -/

/-- **`_insert_df` cell preparation**: in object columns dict and list cells are replaced by their `json.dumps` text —
    and, `dumps` being injective, distinct documents stay distinct; every other cell (strings in particular, NULLs,
    numbers) and every cell of a non-object column is passed through untouched. -/
theorem C01_insert_df_cells (dumps : List Char → List Char) (hinj : ∀ a b, dumps a = dumps b → a = b) :
    (∀ j, prepCell dumps true (.dict j) = .str (dumps j) ∧ prepCell dumps true (.list j) = .str (dumps j)) ∧
    (∀ j j', prepCell dumps true (.dict j) = prepCell dumps true (.dict j') → j = j') ∧
    (∀ oc c, (∀ j, c ≠ .dict j) → (∀ j, c ≠ .list j) → prepCell dumps oc c = c) ∧
    (∀ c, prepCell dumps false c = c) := by
  refine ⟨fun j => ⟨rfl, rfl⟩, ?_, ?_, ?_⟩
  · intro j j' h
    simp only [prepCell, if_true, PCell.str.injEq] at h
    exact hinj _ _ h
  · intro oc c h1 h2
    cases c <;> first | rfl | exact absurd rfl (h1 _) | exact absurd rfl (h2 _)
  · intro c; cases c <;> rfl

end Fs.C01
