import Fs.Proofs.MergeCounts
/-!
# C12 — MERGE leaves the target as Snowflake's MERGE would, with true counts   (partial)

`Fs.Merge.impl` is the code's decomposition (merge_candidates + one DELETE/UPDATE/INSERT per clause re-joined on
the key, transforms_merge.py); `Fs.Merge.spec` is MERGE semantics (per joined pair the first applicable clause,
unmatched source rows inserted by the first applicable insert clause, every other row untouched).
Partial: the full refinement is false (see `finding_C12_over_delete`); it is proved under H1/H2.
-/
namespace Fs.C12
open Fs.Merge

/-- The full statement the property asks for on every deterministic merge. It is FALSE for the code as it is
    (`C12_full_false`), which is the recorded finding `C12/over-delete`. -/
def C12_Full : Prop := ∀ cs tgt src, H1c tgt src → (impl cs tgt src).Perm (spec cs tgt src)

/-- witness: two target rows share a key, the clause conditions look at target columns -/
def csW : List Clause :=
  [.mDelete (fun t _ => t.vals.getD 0 0 == 1), .mUpdate (fun _ _ => true) (fun old sv => [old.getD 0 0, sv.getD 0 0])]
def tgtW : List TRow := [⟨some [1], [1, 10]⟩, ⟨some [1], [2, 20]⟩, ⟨some [2], [1, 30]⟩]
def srcW : List SRow := [⟨some [1], [99]⟩, ⟨some [3], [77]⟩]

/-- **Finding C12/over-delete**: the DELETE of clause 0 is re-joined on the key only, so it also removes the
    row (1,2,20) whose own clause is the UPDATE: the decomposition over-deletes. -/
theorem finding_C12_over_delete : ¬ (impl csW tgtW srcW).Perm (spec csW tgtW srcW) := by
  intro h
  have := h.length_eq
  revert this
  decide

theorem C12_full_false : ¬ C12_Full := by
  intro h
  exact finding_C12_over_delete (h csW tgtW srcW (h1cb_iff.mp (by decide)))

/-- **C12_partial — target contents**: when each target row joins at most one source row (H1: deterministic
    merge) and all target rows joining one source row select the same clause (H2: e.g. unique target keys, or
    conditions over source columns only), the code's decomposition leaves the target equal, as a multiset of
    rows, to MERGE semantics — for every clause list with arbitrary conditions, arbitrary key-preserving UPDATE assignments
    (`f old source`) and arbitrary INSERT row builders (`mk source`, inserting the source key), every row shape
    (composite keys, any number of columns), every target and source (duplicates, NULL keys, empty tables). -/
theorem C12_partial {cs tgt src} (h1 : H1 tgt src) (h2 : H2 cs tgt src) :
    (impl cs tgt src).Perm (spec cs tgt src) := merge_partial h1 h2

/-- the Boolean envelope the driver evaluates is exactly the hypothesis pair of `C12_partial` -/
theorem C12_envelope {cs tgt src} : (h1b tgt src = true ↔ H1 tgt src) ∧ (h1cb tgt src = true ↔ H1c tgt src) ∧
    (h2b cs tgt src = true ↔ H2 cs tgt src) := by
  refine ⟨h1b_iff, h1cb_iff, ?_⟩
  unfold h2b H2
  simp only [List.all_eq_true, Bool.or_eq_true, Bool.not_eq_true', Bool.and_eq_false_iff, beq_iff_eq]
  constructor
  · intro h s hs t ht t' ht' a b
    rcases h s hs t ht t' ht' with (h' | h') | h'
    · rw [a] at h'; cases h'
    · rw [b] at h'; cases h'
    · exact h'
  · intro h s hs t ht t' ht'
    by_cases a : on t s = true
    · by_cases b : on t' s = true
      · exact Or.inr (h s hs t ht t' ht' a b)
      · exact Or.inl (Or.inr (by simpa using b))
    · exact Or.inl (Or.inl (by simpa using a))

/-- **Counts**: for every deterministic merge (each target row joins at most one source row, duplicates
    counted) with at least one candidate row, each reported count (COUNT_IF over merge_candidates) equals the
    number of rows MERGE semantics inserts / updates / deletes. -/
theorem C12_counts {cs tgt src} (h : H1c tgt src) (k : Kind) (hne : (cands cs tgt src).isEmpty = false) :
    implCount cs tgt src k = some (specCount cs tgt src k) := by
  unfold implCount
  simp only [hne, Bool.false_eq_true, if_false]
  exact congrArg some (count_eq h k)

/-- **Finding C12/counts-null-no-candidates** framed: with no candidate row at all the true counts are 0,
    but COUNT_IF over the empty helper table reports NULL. -/
theorem finding_C12_counts_null {cs tgt src} (h : H1c tgt src) (k : Kind) (he : (cands cs tgt src).isEmpty = true) :
    implCount cs tgt src k = none ∧ specCount cs tgt src k = 0 := by
  constructor
  · simp [implCount, he]
  · rw [← count_eq h k]
    rw [List.isEmpty_iff.mp he]; rfl

/-- Spec sanity ("every other row is untouched"): a target row that joins no source row is in the result. -/
theorem C12_spec_untouched {cs tgt src} {t : TRow} (ht : t ∈ tgt) (hn : ∀ s ∈ src, on t s = false) :
    t ∈ spec cs tgt src := by
  unfold spec
  apply List.mem_append_left
  rw [List.mem_filterMap]
  refine ⟨t, ht, ?_⟩
  unfold specRow
  have : src.find? (on t) = none := by
    rw [List.find?_eq_none]; intro s hs; simp [hn s hs]
  rw [this]

/-- Spec sanity ("unmatched source rows are inserted"): with an unconditional insert clause and no earlier
    insert clause applying, every source row joining no target row yields its row. -/
theorem C12_spec_inserts {cs tgt src} {s : SRow} (hs : s ∈ src) (hn : ∀ t ∈ tgt, on t s = false)
    {i : Nat} (hi : opN cs s = some i) : mkRowAt cs i s ∈ spec cs tgt src := by
  unfold spec
  apply List.mem_append_right
  unfold specInserts
  rw [List.mem_filterMap]
  refine ⟨s, ?_, by simp [hi]⟩
  rw [List.mem_filter]
  refine ⟨hs, ?_⟩
  simp only [Bool.not_eq_true', List.any_eq_false]
  intro t ht; simp [hn t ht]

/-- non-vacuity: a non-trivial merge (duplicate target keys, NULL keys, delete+update+insert clauses)
    satisfies H1c, H1 and H2 -/
def csE : List Clause :=
  [.mDelete (fun _ s => s.vals.getD 0 0 == 0), .mUpdate (fun _ _ => true) (fun old sv => [old.getD 0 0, sv.getD 0 0]),
   .nInsert (fun _ => true) (fun sv => [0, sv.getD 0 0])]
def tgtE : List TRow := [⟨some [1], [1, 10]⟩, ⟨some [1], [2, 20]⟩, ⟨some [2], [1, 30]⟩, ⟨none, [0, 0]⟩]
def srcE : List SRow := [⟨some [1], [99]⟩, ⟨some [2], [0]⟩, ⟨some [3], [77]⟩, ⟨none, [5]⟩]
example : H1c tgtE srcE ∧ H1 tgtE srcE ∧ H2 csE tgtE srcE ∧ (cands csE tgtE srcE).isEmpty = false := by
  refine ⟨h1cb_iff.mp (by decide), H1c_H1 (h1cb_iff.mp (by decide)), ?_, by decide⟩
  exact (C12_envelope (cs := csE)).2.2.mp (by decide)


/-! ### ON forms: the NULL-safe join is the ordinary join over re-encoded keys

The correspondence renders `ON t.k IS NOT DISTINCT FROM s.k` (NULL joins NULL) and sends the rows to the model with a NULL
key re-encoded as the key value `0,…,0`, which the generator never uses.  The theorem below is what makes every other
theorem of this file apply to that ON form unchanged: on well-formed keys the model's join over the encoded keys is
exactly NULL-safe equality of the original keys. -/

/-- NULL-safe key equality: NULL joins NULL, a value joins an equal value -/
def onNS (t : TRow) (s : SRow) : Bool := t.key == s.key

/-- the harness's encoding of a possibly-NULL key of `nk` columns -/
def encKey (nk : Nat) : Option (List Nat) → Option (List Nat)
  | none => some (List.replicate nk 0)
  | some k => some k

/-- keys the generator produces: `nk` columns, every value ≥ 1 -/
def KeyOk (nk : Nat) (k : Option (List Nat)) : Prop := ∀ l, k = some l → l.length = nk ∧ ∀ x ∈ l, 1 ≤ x

theorem replicate_zero_ne_of_pos {nk : Nat} (h : 0 < nk) {l : List Nat} (hl : l.length = nk) (hp : ∀ x ∈ l, 1 ≤ x) :
    (List.replicate nk 0 == l) = false ∧ (l == List.replicate nk 0) = false := by
  have hne : List.replicate nk 0 ≠ l := by
    intro e
    cases l with
    | nil => simp at hl; omega
    | cons x xs =>
      have hx : 1 ≤ x := hp x (by simp)
      have : x ∈ List.replicate nk 0 := by rw [e]; simp
      have := List.eq_of_mem_replicate this
      omega
  constructor
  · exact beq_eq_false_iff_ne.mpr hne
  · exact beq_eq_false_iff_ne.mpr (Ne.symm hne)

theorem C12_nullsafe_encoding (nk : Nat) (h : 0 < nk) (t : TRow) (s : SRow) (ht : KeyOk nk t.key) (hs : KeyOk nk s.key) :
    on { t with key := encKey nk t.key } { s with key := encKey nk s.key } = onNS t s := by
  obtain ⟨tk, tv⟩ := t
  obtain ⟨sk, sv⟩ := s
  cases tk with
  | none =>
    cases sk with
    | none => simp [on, onNS, encKey]
    | some l =>
      obtain ⟨hl, hp⟩ := hs l rfl
      simp [on, onNS, encKey, (replicate_zero_ne_of_pos h hl hp).1]
  | some k =>
    cases sk with
    | none =>
      obtain ⟨hl, hp⟩ := ht k rfl
      simp [on, onNS, encKey, (replicate_zero_ne_of_pos h hl hp).2]
    | some l => simp [on, onNS, encKey]

example : KeyOk 2 (some [1, 3]) ∧ KeyOk 2 none := by
  refine ⟨?_, ?_⟩
  · intro l hl; cases hl; simp
  · intro l hl; cases hl

end Fs.C12
