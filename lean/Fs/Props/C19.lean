import Fs.Proofs.SchedLock
/-!
# C19 — concurrent sessions behave as if their statements ran one at a time   (partial)

Statements only (model `Fs/Model/Sched.lean`, lemmas `Fs/Proofs/Sched*.lean`).

A *schedule* is any list of session ids; a turn lets a session run up to and including its next engine call (or lock
operation).  The theorems quantify over **all** schedules.  What is not modelled (named in the claim): the scheduling
of real threads, the GIL, DuckDB's internal locking – one engine call is taken to be atomic.
-/
namespace Fs.C19
open Fs.Sched

/-- **Serializability, single-call statements**: when every statement of every session is one engine call
    (INSERT / UPDATE / DELETE / SELECT / SHOW …; any number of sessions, any programs, any shared tables), every
    schedule of engine calls *is* an execution of whole statements one at a time, in the order of the schedule:
    same final engine state, same results in every session. -/
theorem C19_serializable_single_call (c : Cfg) (h : SC c) (σ : List Nat) : runSched c σ = runStmts c σ :=
  sc_run σ c h

/-- Serializability at full strength: for every set of programs and every complete schedule of engine calls, the
    results seen by the sessions are the results of SOME order of whole statements.  **False** for the code: multi-call
    statements are observable half-done (`finding_*`, `C19_serializable_full_false`). -/
def C19_serializable_Full : Prop :=
  ∀ (progs : List (List Stmt)) (σ : List Nat),
    allDone (runSched (Cfg.init progs) σ) progs.length = true → serializableB progs σ = true

/-- **Independent turns commute** – the lemma behind the harness's schedule enumeration: swapping adjacent turns of
    different sessions that touch different keys changes nothing, so one representative per equivalence class suffices. -/
theorem C19_independent_commute (c : Cfg) (i j : Nat) (hij : i ≠ j)
    (hk : ∀ ki kj, nextKey c i = some ki → nextKey c j = some kj → ki ≠ kj) :
    turn (turn c i) j = turn (turn c j) i := turn_comm c i j hij hk

/-- **Serializability, disjoint footprints**: when the sessions' programs touch pairwise disjoint objects (each thread
    works on its own tables – multi-call statements, CREATE TABLE … COMMENT, MERGE included), every schedule gives
    the same outcome as letting any chosen session run first, all of its turns together, and the others afterwards.
    Applied session by session: the outcome is that of running the sessions one after another. -/
theorem C19_serializable_disjoint (c : Cfg) (h : Disj c) (σ : List Nat) (i : Nat) :
    runSched c σ = runSched c (σ.filter (· == i) ++ σ.filter (· != i)) := front σ i c h

/-- every session's program consists of `connect(database, schema)` calls under the instance lock: ANY of the four
    combinations of create_database_on_connect / create_schema_on_connect, any databases and schemas – in particular
    the *same* new database and schema in all sessions – and any spelling (letter case) of the names: `conn.py` folds
    the names before the ladder runs, and the lock is one per instance, not per name as written -/
def OnlyLockedConnects (progs : List (List Stmt)) : Prop :=
  ∀ p ∈ progs, ∀ st ∈ p, ∃ (cd cs : Bool) (d s : Name), st = connectSpelled (some 0) cd cs d s

/-- **Concurrent connects all succeed** (after the `fix:` commit that runs the connect bootstrap under an instance
    lock): for any number of sessions, any flag combination, any spelling of the names, any schedule, no engine call
    of any connect ever fails – the check-then-ATTACH / check-then-CREATE SCHEMA ladder is never raced. -/
theorem C19_locked_connects_succeed (progs : List (List Stmt)) (h : OnlyLockedConnects progs) (σ : List Nat) (i : Nat) :
    Res.err ∉ ((runSched (Cfg.init progs) σ).loc i).out := by
  have hinv : Inv (Cfg.init progs) := by
    refine ⟨fun j => by simp [Cfg.init], fun j st hst => ?_, fun j => Or.inl ⟨rfl, by simp [Cfg.init]⟩⟩
    simp only [Cfg.init] at hst
    rw [List.getD_eq_getElem?_getD] at hst
    cases hq : progs[j]? with
    | none => rw [hq] at hst; simp at hst
    | some p =>
      rw [hq] at hst
      obtain ⟨cd, cs, d, s, rfl⟩ := h p (List.mem_of_getElem? hq) st hst
      exact ⟨cd, cs, d.id, s.id, rfl⟩
  exact (inv_run σ _ hinv).1 i

/-- Witness for a lock keyed by the name *as written* (two spellings of one database → two locks): the sessions do not
    exclude each other and the second ATTACH fails under the alternating schedule.  (One lock per *folded* name would be
    fine; the model takes the lock number from the real trace, so either design is followed, not presumed.) -/
theorem C19_lock_per_spelling_races :
    Res.err ∈ ((runSched (Cfg.init [[connectSpelled (some 1) true true ⟨0, 0⟩ ⟨1, 0⟩],
                                    [connectSpelled (some 2) true true ⟨0, 1⟩ ⟨1, 0⟩]]) [0, 1, 0, 1, 0, 1]).loc 1).out := by
  decide

/-- Witness for "no lock when create_database_on_connect is off": two sessions creating the same new schema in an
    existing database race CREATE SCHEMA. -/
theorem C19_unlocked_schema_race :
    let c0 : Cfg := { g := setG (fun _ => {}) (.db 0) { ex := true, info := true },
                      loc := (Cfg.init [[connectWith none false true 0 1], [connectWith none false true 0 1]]).loc }
    Res.err ∈ ((runSched c0 [0, 1, 0, 1]).loc 1).out := by
  decide

/-- Regression witness for the repaired defect `C19/connect-race`: without the lock, two sessions connecting to the
    same new database under the alternating schedule both see "absent", both ATTACH, and the second one fails. -/
theorem C19_unlocked_connect_race :
    Res.err ∈ ((runSched (Cfg.init [[connectStmt false 0 1], [connectStmt false 0 1]]) [0, 1, 0, 1]).loc 1).out := by
  decide

/-- the same schedule with the lock: nobody fails (instance of `C19_locked_connects_succeed`, evaluated) -/
example : ((runSched (Cfg.init [[connectStmt true 0 1], [connectStmt true 0 1]])
    [0, 1, 0, 1, 0, 1, 0, 0, 0, 0, 0, 1, 1, 1, 1, 1, 1]).loc 1).out = [.flag true, .flag true, .flag true] := by decide

/-- Finding `C19/torn-table-comment`: session 1's SHOW TABLES between the two engine calls of session 0's
    `CREATE TABLE t COMMENT = '…'` sees the table without its comment – an outcome no statement-level order produces
    (before the statement the table is absent, after it the comment is there). -/
theorem finding_C19_torn_table_comment :
    ((runSched (Cfg.init [[createTable 0 (some 7)], [showStmt 0]]) [0, 1, 0]).loc 1).out = [.tmeta true none] ∧
    ∀ τ ∈ [[0, 1], [1, 0]],
      ((runStmts (Cfg.init [[createTable 0 (some 7)], [showStmt 0]]) τ).loc 1).out ≠ [.tmeta true none] := by
  decide

/-- Finding `C19/torn-merge`: session 1 reads the target between MERGE's UPDATE and INSERT. -/
theorem finding_C19_torn_merge :
    let progs := [[createTable 0 none, insertStmt 0 1 1, mergeStmt 0 [(1, 10), (2, 20)]], [selectStmt 0]]
    ((runSched (Cfg.init progs) [0, 0, 0, 1, 0]).loc 1).out = [.rows [(1, 10)]] ∧
    ∀ τ ∈ [[0, 0, 0, 1], [0, 0, 1, 0], [0, 1, 0, 0], [1, 0, 0, 0]],
      ((runStmts (Cfg.init progs) τ).loc 1).out ≠ [.rows [(1, 10)]] := by
  decide

theorem C19_serializable_full_false : ¬ C19_serializable_Full := fun h =>
  absurd (h [[createTable 0 (some 7)], [showStmt 0]] [0, 1, 0] (by decide)) (by decide)

/-- **No lost inserts**: concurrent single-call INSERTs into one table all arrive – whatever the schedule, the
    final table of `n` sessions inserting once each holds exactly the rows of the sessions that took their turn.
    (Instance of the single-call theorem; stated for two sessions and evaluated on both orders.) -/
theorem C19_no_lost_insert (σ : List Nat) :
    let progs := [[insertStmt 0 1 1], [insertStmt 0 2 2]]
    let c0 : Cfg := { g := setG (fun _ => {}) (.tbl 0) { ex := true }, loc := (Cfg.init progs).loc }
    runSched c0 σ = runStmts c0 σ :=
  sc_run σ _ (by
    intro i
    refine ⟨rfl, fun s hs => ?_⟩
    simp only [Cfg.init] at hs
    match i, hs with
    | 0, hs => simp at hs; subst hs; rfl
    | 1, hs => simp at hs; subst hs; rfl
    | n + 2, hs => simp at hs)

/-! ### non-vacuity -/

/-- `SC` is inhabited by sessions sharing a table; `Disj` by sessions with multi-call statements on their own tables -/
example : SC { g := fun _ => {}, loc := (Cfg.init [[insertStmt 0 1 1, selectStmt 0], [insertStmt 0 2 2]]).loc } := by
  intro i
  refine ⟨rfl, fun s hs => ?_⟩
  simp only [Cfg.init] at hs
  match i, hs with
  | 0, hs => simp at hs; rcases hs with rfl | rfl <;> rfl
  | 1, hs => simp at hs; subst hs; rfl
  | n + 2, hs => simp at hs

example : OnlyLockedConnects [[connectSpelled (some 0) true true ⟨0, 0⟩ ⟨1, 0⟩],
    [connectSpelled (some 0) true true ⟨0, 1⟩ ⟨1, 2⟩, connectSpelled (some 0) false true ⟨0, 2⟩ ⟨2, 0⟩],
    [connectSpelled (some 0) true false ⟨3, 0⟩ ⟨1, 0⟩, connectSpelled (some 0) false false ⟨3, 1⟩ ⟨1, 1⟩]] := by
  intro p hp st hst
  simp at hp
  rcases hp with rfl | rfl | rfl <;> simp at hst
  · exact ⟨_, _, _, _, hst⟩
  · rcases hst with rfl | rfl <;> exact ⟨_, _, _, _, rfl⟩
  · rcases hst with rfl | rfl <;> exact ⟨_, _, _, _, rfl⟩

end Fs.C19
