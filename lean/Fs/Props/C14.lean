import Fs.Proofs.Connect
/-!
# C14 — connect() does what its options say in every configuration

Statements only (helper lemmas: `Fs/Proofs/Connect.lean`).  Everything is about `Fs.Connect.connect`, the model of
`FakeSnow.connect` + `FakeSnowflakeConnection.__init__` (conn.py:44-104) **after** the repair
`C14/schema-without-db`, for *arbitrary* option values and *arbitrary* catalog states `w`;
`C14_shipped_schema_without_db` is the regression witness for the code as shipped; `finding_C14_auto_create_db_named_like_builtin_schema`
is the witness of the recorded finding that makes the full statement `C14_Full` false, and `InEnv` the envelope of the partial theorems.
`harness/props/c14.py` ties the model to the real code on the complete 1152-configuration product.
-/
namespace Fs.C14
open Fs.Connect

/-- the full statement: the ladder is the declarative specification for all options and all catalog states -/
def C14_Full : Prop := ∀ (o : Opts) (w : World), connect o w = Spec.connect o w

/-- envelope: connect does not have to attach a database named like a built-in DuckDB schema (MAIN, INFORMATION_SCHEMA,
    PG_CATALOG).  Connecting to such a database when it already exists is inside the envelope. -/
def InEnv (o : Opts) (w : World) : Prop := bootstrapFails o w = false

instance (o : Opts) (w : World) : Decidable (InEnv o w) := by unfold InEnv; infer_instance

/-- Known finding `C14/auto-create-db-named-like-builtin-schema`: `C14_Full` is false — with create_database_on_connect=True,
    `connect(database="main")` on an empty instance attaches MAIN and then raises from the bootstrap instead of returning
    a session with current database MAIN. -/
theorem finding_C14_auto_create_db_named_like_builtin_schema : ¬ C14_Full := by
  intro h
  have := h { database := some ['m', 'a', 'i', 'n'], schema := none, createDb := true, createSchema := true, dbPath := false }
            { attached := [], disk := [], paths := [] }
  revert this
  decide

/-- **The ladder is the declarative specification** (partial: inside `InEnv`): for all option values (names in any letter
    case, given or not, both flags, with or without db_path) and all catalog states, `connect` succeeds and returns exactly
    the session and the catalog state that `Spec.connect` describes: the database is created iff allowed ∧ named ∧ absent;
    the schema iff allowed ∧ named ∧ its database is there afterwards ∧ absent; the session has a current database /
    schema iff they exist afterwards; names are reported upper-cased. -/
theorem C14_conforms_partial (o : Opts) (w : World) (he : InEnv o w) : connect o w = Spec.connect o w := by
  unfold connect connectWith
  simp only [show bootstrapFails o w = false from he, Bool.false_eq_true, if_false, rung_db, rung_schema, rung_context]
  obtain ⟨hp, _⟩ := afterSchema_frame o w
  unfold Spec.connect
  simp only [← Spec.afterSchema.eq_1 o w]
  rw [hp]

/-- **connect succeeds in every configuration** of the envelope -/
theorem C14_succeeds (o : Opts) (w : World) (he : InEnv o w) : ∃ s, (connect o w).1 = .ok s := by
  rw [C14_conforms_partial o w he]; exact ⟨_, rfl⟩

/-- **Current database / schema exactly when the objects exist, names reported upper-cased either way**: whatever
    the configuration, after connect the session's `database_set` (`schema_set`) flag equals the existence of the
    requested database (schema) in the catalog state connect leaves behind, and `conn.database` / `conn.schema`
    are the requested names upper-cased. -/
theorem C14_context_iff_exists (o : Opts) (w : World) (he : InEnv o w) (s : Session) (h : (connect o w).1 = .ok s) :
    s.database = o.database.map upper ∧ s.schema = o.schema.map upper ∧
    s.databaseSet = (truthy o.db && dbExists (connect o w).2 o.DB) ∧
    s.schemaSet = (truthy o.db && truthy o.sc && schemaExists (connect o w).2 o.DB o.SC) := by
  rw [C14_conforms_partial o w he] at h ⊢
  simp only [Spec.connect, Outcome.ok.injEq] at h
  subst h
  refine ⟨rfl, rfl, ?_, ?_⟩
  · show Spec.dbAfter o w = (truthy o.db && dbExists (Spec.afterSchema o w) o.DB)
    cases hd : truthy o.db with
    | false => simp [Spec.dbAfter, hd]
    | true => rw [dbExists_afterSchema o w hd]; simp
  · show Spec.schemaAfter o w = (truthy o.db && truthy o.sc && schemaExists (Spec.afterSchema o w) o.DB o.SC)
    cases hd : truthy o.db with
    | false => simp [Spec.schemaAfter, Spec.dbAfter, hd]
    | true =>
      cases hs : truthy o.sc with
      | false => simp [Spec.schemaAfter, hs]
      | true => rw [schemaExists_afterSchema o w hd hs]; simp

/-- **Nothing else is created**: with `create_database_on_connect = False` no catalog is attached and no file is
    made; with `create_schema_on_connect = False` every catalog that was there is exactly as it was. -/
theorem C14_creates_only_allowed (o : Opts) (w : World) (he : InEnv o w) :
    (o.createDb = false → (connect o w).2.attached.map (·.name) = w.attached.map (·.name) ∧ (connect o w).2.disk = w.disk) ∧
    (o.createSchema = false → ∀ c ∈ w.attached, c ∈ (connect o w).2.attached) := by
  rw [C14_conforms_partial o w he]
  constructor
  · intro h
    simp only [Spec.connect, Spec.afterDb, Spec.createsDb, h, Bool.false_and, Bool.false_eq_true, if_false]
    split
    · simp only [addSchema, List.map_map]
      refine ⟨?_, ?_⟩
      · congr 1; funext c; simp only [Function.comp]; split <;> rfl
      · first | rfl | trivial
    · exact ⟨rfl, rfl⟩
  · intro h c hc
    simp only [Spec.connect, Spec.createsSchema, h, Bool.false_and, Bool.false_eq_true, if_false, Spec.afterDb]
    split
    · simp [attachDb, hc]
    · exact hc

/-- **Connecting never disturbs existing data or other sessions**: every catalog that existed is still there under
    the same name and storage with all its schemas and their content, in order (a schema may have been appended);
    every database file is still there; the search path of every other session's cursor is what it was, and the new
    session uses a fresh cursor. -/
theorem C14_frame (o : Opts) (w : World) (he : InEnv o w) :
    (∀ c ∈ w.attached, ∃ c' ∈ (connect o w).2.attached, c'.name = c.name ∧ c'.file = c.file ∧ c.schemas <+: c'.schemas) ∧
    w.disk <+: (connect o w).2.disk ∧
    (connect o w).2.paths.take w.paths.length = w.paths ∧
    (connect o w).2.paths.length = w.paths.length + 1 ∧
    (connect o w).2.nextConn = w.nextConn + 1 := by
  rw [C14_conforms_partial o w he]
  have hdisk : w.disk <+: (Spec.afterDb o w).disk := by
    unfold Spec.afterDb
    split
    · simp only [attachDb]
      repeat' split
      all_goals first | exact List.prefix_append _ _ | exact List.prefix_refl _
    · exact List.prefix_refl _
  have hatt : ∀ c ∈ w.attached, c ∈ (Spec.afterDb o w).attached := by
    intro c hc
    unfold Spec.afterDb attachDb
    split
    · simp [hc]
    · exact hc
  refine ⟨?_, ?_, ?_, ?_, rfl⟩
  · intro c hc
    simp only [Spec.connect]
    split
    · simp only [addSchema, List.mem_map]
      by_cases hm : upper c.name = o.DB
      · exact ⟨_, ⟨c, hatt c hc, rfl⟩, by simp [hm]⟩
      · exact ⟨_, ⟨c, hatt c hc, rfl⟩, by simp [hm]⟩
    · exact ⟨c, hatt c hc, rfl, rfl, List.prefix_refl _⟩
  · simp only [Spec.connect]
    split
    · exact hdisk
    · exact hdisk
  · obtain ⟨hp, _⟩ := afterSchema_frame o w
    simp only [Spec.connect, ← Spec.afterSchema.eq_1 o w, hp]
    simp
  · obtain ⟨hp, _⟩ := afterSchema_frame o w
    simp only [Spec.connect, ← Spec.afterSchema.eq_1 o w, hp]
    simp

/-- **Letter case does not matter**: two calls whose database and schema names differ only in letter case do
    exactly the same. -/
theorem C14_letter_case (o o' : Opts) (w : World) (he : InEnv o w) (he' : InEnv o' w)
    (hd : o.database.map upper = o'.database.map upper) (hs : o.schema.map upper = o'.schema.map upper)
    (h1 : o.createDb = o'.createDb) (h2 : o.createSchema = o'.createSchema) (h3 : o.dbPath = o'.dbPath) :
    connect o w = connect o' w := by
  have e1 : o.db = o'.db := hd
  have e2 : o.sc = o'.sc := hs
  rw [C14_conforms_partial o w he, C14_conforms_partial o' w he']
  have key : ∀ (db sc : Option Name) (a b c : Bool) (p q : Opts),
      p.db = db → p.sc = sc → p.createDb = a → p.createSchema = b → p.dbPath = c →
      q.db = db → q.sc = sc → q.createDb = a → q.createSchema = b → q.dbPath = c →
      Spec.connect p w = Spec.connect q w := by
    intro db sc a b c p q p1 p2 p3 p4 p5 q1 q2 q3 q4 q5
    simp only [Spec.connect, Spec.afterDb, Spec.createsDb, Spec.createsSchema, Spec.schemaAfter, Spec.dbAfter,
      Opts.DB, Opts.SC, p1, p2, p3, p4, p5, q1, q2, q3, q4, q5]
  exact key o'.db o'.sc o'.createDb o'.createSchema o'.dbPath o o' e1 e2 h1 h2 h3 rfl rfl rfl rfl rfl

/-- Regression witness for the repaired defect `C14/schema-without-db`: as shipped, with
    `create_database_on_connect=False`, `create_schema_on_connect=True` and the database missing, connect raised a raw
    BinderException instead of returning a connection without a current database. -/
theorem C14_shipped_schema_without_db :
    let o : Opts := { database := some ['d', 'b', '1'], schema := some ['s', '1'], createDb := false, createSchema := true, dbPath := false }
    let w : World := { attached := [], disk := [], paths := [] }
    (connectShipped o w).1 = .binderError ∧
    (connect o w).1 = .ok ⟨some ['D', 'B', '1'], some ['S', '1'], false, false, 0⟩ := by decide

/-- non-vacuity: a configuration that creates the database from an existing file and the schema in it, next to
    another session and another catalog -/
example :
    let o : Opts := { database := some ['d', 'B'], schema := some ['s'], createDb := true, createSchema := true, dbPath := true }
    let w : World := { attached := [⟨['X'], [(['T'], 7)], false⟩], disk := [(['D', 'B'], [(['K'], 3)])],
                       paths := [(0, some (['X'], ['T']))], nextConn := 1 }
    connect o w =
      (.ok ⟨some ['D', 'B'], some ['S'], true, true, 1⟩,
       { attached := [⟨['X'], [(['T'], 7)], false⟩, ⟨['D', 'B'], [(['K'], 3), (['S'], 0)], true⟩],
         disk := [(['D', 'B'], [(['K'], 3)])],
         paths := [(0, some (['X'], ['T'])), (1, some (['D', 'B'], ['S']))], nextConn := 2 }) := by decide

/-- non-vacuity of `InEnv`: connecting to a database named MAIN that already exists is inside the envelope, and gives it as
    current database -/
example :
    let o : Opts := { database := some ['M', 'a', 'i', 'n'], schema := none, createDb := true, createSchema := true, dbPath := false }
    let w : World := { attached := [⟨['M', 'A', 'I', 'N'], [], false⟩], disk := [], paths := [] }
    InEnv o w ∧ (connect o w).1 = .ok ⟨some ['M', 'A', 'I', 'N'], none, true, false, 0⟩ := by decide

end Fs.C14
