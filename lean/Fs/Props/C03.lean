import Fs.Proofs.Names
/-!
# C03 — names resolve against each connection's own current database and schema

Statements only (helper lemmas: `Fs/Proofs/Names.lean`).  `Impl` is the model of fakesnow's session bookkeeping
(`conn.py`, `cursor.py:225-335`, `transforms.set_schema`, `checks.py`) over the modelled DuckDB catalog and
search path; `Spec` is one `Ctx` per connection with names resolved from it alone; `World.abs` reads the context a
connection reports.  The correspondence check (`harness/props/c03.py`) ties `Impl.step`, `Spec.step` and `region`
to the real code on every run.

The full statement `C03_Full` is false on the current tree (`C03_full_false`); the `_partial` theorems prove it for
every history outside the finding regions recognised by `region` (each region has a `finding_*` witness showing that
it really is a deviation, so the envelope excludes nothing that holds).
-/
namespace Fs.C03
open Fs.Names

/-- what one step must satisfy: the code answers like the specification run on the reported contexts, leaves
    the world the specification leaves, and every connection stays coherent (reported names = `*_set` flags =
    DuckDB search path = catalog) -/
def StepOK (w : World) (i : Nat) (st : Stmt) : Prop :=
  (Impl.step w i st).1 = (Spec.step w.abs i st).1 ∧
  (Impl.step w i st).2.abs = (Spec.step w.abs i st).2 ∧
  (Impl.step w i st).2.coherent = true

/-- **Full statement of C03** on the model: from every coherent world, every statement on every connection. -/
def C03_Full : Prop := ∀ (w : World) (i : Nat) (st : Stmt), w.coherent = true → StepOK w i st

/-- a world with one connection in DB 11 / schema 21 -/
def w1 : World :=
  { cat := { dbs := [memoryDb, 11, 12], schemas := [(11, 21), (12, 21)], objs := [⟨11, 21, 31, .table, [7]⟩] },
    sessions := [⟨some 11, some 21, true, true, (11, 21)⟩] }

/-- two connections sharing DB 11 / schema 21, one connection without any context -/
def w2 : World :=
  { w1 with sessions := [⟨some 11, some 21, true, true, (11, 21)⟩, ⟨some 11, some 21, true, true, (11, 21)⟩,
                         ⟨none, none, false, false, (memoryDb, mainS)⟩] }

/-- The full statement does not hold for the code as it is (witness: `USE DATABASE` keeps the stale schema). -/
theorem C03_full_false : ¬ C03_Full := by
  intro h
  have := (h w1 0 (.useDb 12) (by decide)).2.1
  revert this; decide

/-- **C03 for one step, partial** (envelope: the step is outside every finding region): context bookkeeping,
    name resolution, 90105/90106 and the effect on the shared catalog are exactly the specification's, and
    coherence is preserved. -/
theorem C03_step_partial (w : World) (i : Nat) (st : Stmt) (hw : w.coherent = true) (henv : region w i st = none) :
    StepOK w i st :=
  ⟨(step_refines_world w i st hw henv).1, (step_refines_world w i st hw henv).2, step_coherent w i st hw henv⟩

/-- **C03 for histories, partial**: for every history of connects and statements on any number of connections,
    started from an empty instance, whose steps stay outside the finding regions: every statement result equals the
    specification's, the final contexts and catalog are the specification's, and every connection is coherent. -/
theorem C03_history_partial (ops : List Op) (henv : clean World.init ops = true) :
    (Impl.run World.init ops).1 = (Spec.run World.init.abs ops).1 ∧
    (Impl.run World.init ops).2.abs = (Spec.run World.init.abs ops).2 ∧
    (Impl.run World.init ops).2.coherent = true :=
  run_refines World.init ops (by decide) henv

/-- the same from any coherent world (the induction behind `C03_history_partial`) -/
theorem C03_history_from_partial (w : World) (ops : List Op) (hw : w.coherent = true) (henv : clean w ops = true) :
    (Impl.run w ops).1 = (Spec.run w.abs ops).1 ∧ (Impl.run w ops).2.abs = (Spec.run w.abs ops).2 ∧
    (Impl.run w ops).2.coherent = true :=
  run_refines w ops hw henv

/-- **Set at connect** (any `create_database_on_connect` / `create_schema_on_connect`): the new connection's context
    is the named database / schema as far as they exist after the connect, existing connections keep theirs — with
    no envelope.  Partial part: all connections stay coherent unless the connect names something that is missing and
    not created (`connectRegion`: the connection then *reports* a database / schema it does not have). -/
theorem C03_connect (w : World) (d s : Option Name) (cd cs : Bool) :
    (Impl.connect w d s cd cs).abs = Spec.connect w.abs d s cd cs ∧
    (w.coherent = true → connectRegion w d s cd cs = none → (Impl.connect w d s cd cs).coherent = true) :=
  ⟨connect_refines w d s cd cs, fun hw henv => connect_coherent w d s cd cs henv hw⟩

/-- with the default create flags only a schema without a database is outside the envelope -/
theorem C03_connect_default (w : World) (d s : Option Name) (h : s.isSome → d.isSome) :
    connectRegion w d s true true = none := by
  cases d with
  | none =>
    cases s with
    | none => simp [connectRegion, Impl.newSession, Session.coherent]
    | some s => simp at h
  | some d =>
    have hd : (w.cat.connDb d true).hasDb d = true := by
      simp only [Cat.connDb, if_true, Cat.ensureDb]; split
      · assumption
      · simp [Cat.hasDb]
    cases s with
    | none => simp [connectRegion, Impl.newSession, Session.coherent, hd]
    | some s =>
      have hs : ((w.cat.connDb d true).connSchema d s true).hasSchema d s = true := by
        simp only [Cat.connSchema, hd, Bool.and_self, if_true, Cat.ensureSchema]; split
        · assumption
        · simp [Cat.hasSchema, Cat.hasDb] at hd ⊢; exact hd
      simp [connectRegion, Impl.newSession, Session.coherent, hs]

/-- **Resolution, partial**: on a coherent connection whose context is database `d`, schema `s`, a statement on
    the unqualified name `n` or the schema-qualified name `s'.n` does exactly what the same statement on the fully
    qualified name built from the context does (envelope: DuckDB's fall-back to `d.main` does not apply). -/
theorem C03_resolve_partial (c : Cat) (ss : Session) (op : TOp) (d s s' n : Name) (hc : ss.coherent c = true)
    (hctx : ss.abs = ⟨some d, some s⟩) (henv : op.isCreate = true ∨ fallsBack c ss.path (.q1 n) = false) :
    exec c ss (.tab op (.q1 n)) = exec c ss (.tab op (.q3 d s n)) ∧
    exec c ss (.tab op (.q2 s' n)) = exec c ss (.tab op (.q3 d s' n)) := by
  rcases coherent_cases hc with rfl | ⟨d0, rfl, _⟩ | ⟨d0, sc, rfl, _⟩ <;> simp [Session.abs] at hctx
  obtain ⟨rfl, rfl⟩ := hctx
  have h1 := resolve_agree hc (.q1 n) op.isCreate (by simp [Session.guard, TRef.needDb, TRef.needSchema]) henv
  simp only [Session.abs, Ctx.resolveT, if_true] at h1
  have h1' := (Except.ok.inj h1).symm
  constructor
  · simp only [exec, h1']; rfl
  · simp [exec, duckResolve]

/-- **Resolution in two-table statements** (INSERT…SELECT, CTAS, CLONE, UPDATE…FROM, DELETE…USING, MERGE): a
    schema-qualified target or source denotes the object of that schema in the connection's current database — not a
    same-named object of the current schema — for every statement kind (no fall-back envelope: only one-part names can
    fall back to `main`). -/
theorem C03_resolve_two (c : Cat) (ss : Session) (op : COp) (d s s' n : Name) (r : TRef) (hc : ss.coherent c = true)
    (hctx : ss.abs = ⟨some d, some s⟩) :
    exec c ss (.two op (.q2 s' n) r) = exec c ss (.two op (.q3 d s' n) r) ∧
    exec c ss (.two op r (.q2 s' n)) = exec c ss (.two op r (.q3 d s' n)) := by
  rcases coherent_cases hc with rfl | ⟨d0, rfl, _⟩ | ⟨d0, sc, rfl, _⟩ <;> simp [Session.abs] at hctx
  obtain ⟨rfl, rfl⟩ := hctx
  constructor <;> simp [exec, duckResolve]

/-- schemas 21 and 22 of database 11 both have a table 31; the source table 32 lives in 21; one connection in 11.21 -/
def wM : World :=
  { cat := { dbs := [memoryDb, 11], schemas := [(11, 21), (11, 22)],
             objs := [⟨11, 21, 31, .table, [1]⟩, ⟨11, 22, 31, .table, [1]⟩, ⟨11, 21, 32, .table, [1, 7]⟩] },
    sessions := [⟨some 11, some 21, true, true, (11, 21)⟩] }

/-- the history of the seeded change C03/r2m1 on the model: `MERGE INTO s2.t …` issued from schema S1 (which has its own
    table T) inserts into DB.S2.T and leaves DB.S1.T alone -/
theorem C03_merge_target_outside_current_schema :
    wM.coherent = true ∧ region wM 0 (.two .merge (.q2 22 31) (.q1 32)) = none ∧
    (Impl.step wM 0 (.two .merge (.q2 22 31) (.q1 32))).1 = .ok ∧
    ((Impl.step wM 0 (.two .merge (.q2 22 31) (.q1 32))).2.cat.find 11 22 31).map (·.rows) = some [1, 7] ∧
    ((Impl.step wM 0 (.two .merge (.q2 22 31) (.q1 32))).2.cat.find 11 21 31).map (·.rows) = some [1] := by decide

/-- MERGE with a qualified source cannot be built by fakesnow at all (sqlglot ParseError; C12's finding) -/
theorem finding_merge_qualified_source :
    region w1 0 (.two .merge (.q1 31) (.q2 21 31)) = some .mergeQualifiedSource ∧
    (Impl.step w1 0 (.two .merge (.q1 31) (.q2 21 31))).1 = .err .raw := by decide

/-- **Other ways to name a table**: on a coherent connection with a current schema, a statement whose table is named
    through `IDENTIFIER('<name>')` / `IDENTIFIER($var)` does exactly what the statement on the plain name does, at every
    qualification level (no envelope); so does `write_pandas(conn, df, table, database, schema)` — result, error code and
    effect (since the repair /repo fba55e9 its engine errors are translated like everywhere else). -/
theorem C03_name_forms (c : Cat) (ss : Session) (op : TOp) (v : Nat) (r : TRef) (hs : ss.guard (true, true) = none) :
    ss.guard (Stmt.tabI op r).needs = none ∧ exec c ss (.tabI op r) = exec c ss (.tab op r) ∧
    exec c ss (.writePandas v r) = exec c ss (.tab (.insert v) r) := by
  exact ⟨hs, rfl, rfl⟩

/-- `IDENTIFIER('db.schema.table')` is checked as if it were unqualified: on a connection without a current schema the
    fully qualified name fails with 90106 -/
theorem finding_identifier_function_unqualified :
    region w2 2 (.tabI .select (.q3 11 21 31)) = some .identifierFunctionUnqualified ∧
    (Impl.step w2 2 (.tabI .select (.q3 11 21 31))).1 = .err .noDb ∧
    (Spec.step w2.abs 2 (.tabI .select (.q3 11 21 31))).1 = .rows [7] := by decide

/-- write_pandas on a connection without a current database / schema is not stopped by 90105 / 90106: DuckDB resolves the
    bare name in its own search path (here: 2003 because `memory.main` has no such table) -/
theorem finding_write_pandas_bypasses_guards :
    region w2 2 (.writePandas 5 (.q1 31)) = some .writePandasBypassesGuards ∧
    (Impl.step w2 2 (.writePandas 5 (.q1 31))).1 = .err .catalog ∧
    (Spec.step w2.abs 2 (.writePandas 5 (.q1 31))).1 = .err .noDb ∧
    region w1 0 (.writePandas 5 (.q2 21 31)) = none ∧
    ((Impl.step w1 0 (.writePandas 5 (.q2 21 31))).2.cat.find 11 21 31).map (·.rows) = some [7, 5] := by decide

/-- **Reports**: on a coherent connection with a current schema, `conn.database`/`conn.schema` (the reported
    context) and `SELECT CURRENT_DATABASE(), CURRENT_SCHEMA()` name the same database and schema, and that schema
    exists in the shared catalog. -/
theorem C03_reports (w : World) (i : Nat) (ss : Session) (hi : w.sessions[i]? = some ss)
    (hc : ss.coherent w.cat = true) (hs : ss.schemaSet = true) :
    (Impl.step w i .selectCtx).1 = .ctx ss.abs.db ss.abs.schema ∧
    ∃ d s, ss.abs = ⟨some d, some s⟩ ∧ ss.database = some d ∧ ss.schema = some s ∧ w.cat.hasSchema d s = true := by
  rcases coherent_cases hc with rfl | ⟨d0, rfl, _⟩ | ⟨d0, sc, rfl, h⟩ <;> simp at hs
  refine ⟨by simp [Impl.step, hi, Session.guard, Stmt.needs, Stmt.rawFails, exec, Session.abs], d0, sc, ?_⟩
  simp [Session.abs, h]

/-- **90105 / 90106 change nothing** (no envelope: every world, coherent or not): a statement whose first table
    reference lacks a database (schema) on a connection without a current database (schema) fails with that error
    and the world — catalog and every connection — is unchanged. -/
theorem C03_need_ctx (w : World) (i : Nat) (st : Stmt) (ss : Session) (hi : w.sessions[i]? = some ss)
    (hraw : st.rawFails = false) :
    (st.needs.1 = true → ss.databaseSet = false → Impl.step w i st = (.err .noDb, w)) ∧
    (st.needs.2 = true → (st.needs.1 = true → ss.databaseSet = true) → ss.schemaSet = false →
      Impl.step w i st = (.err .noSchema, w)) := by
  constructor
  · intro h1 h2; simp [Impl.step, hi, Session.guard, h1, h2, hraw]
  · intro h1 h2 h3
    cases hn : st.needs.1
    · simp [Impl.step, hi, Session.guard, h1, hn, h3, hraw]
    · simp [Impl.step, hi, Session.guard, h1, hn, h2 hn, h3, hraw]

/-- which statements need a context is the statement's qualification level, for every single-table statement -/
theorem C03_needs_levels (op : TOp) (d s n : Name) :
    (Stmt.tab op (.q1 n)).needs = (true, true) ∧ (Stmt.tab op (.q2 s n)).needs = (true, false) ∧
    (Stmt.tab op (.q3 d s n)).needs = (false, false) ∧
    (∀ i, (Stmt.sch (.create i) (.q1 s)).needs = (true, false) ∧ (Stmt.sch (.drop i) (.q1 s)).needs = (true, false) ∧
      (Stmt.sch (.create i) (.q2 d s)).needs = (false, false) ∧ (Stmt.sch (.drop i) (.q2 d s)).needs = (false, false)) := by
  simp [Stmt.needs, TRef.needDb, TRef.needSchema, SRef.needDb]

/-- **Own context** (no envelope): a statement on connection `i` never changes what any other connection reports
    or where DuckDB resolves its names. -/
theorem C03_local (w : World) (i j : Nat) (st : Stmt) (hij : j ≠ i) :
    (Impl.step w i st).2.sessions[j]? = w.sessions[j]? := by
  simp only [Impl.step]
  cases w.sessions[i]? with
  | none => rfl
  | some ss =>
    simp only
    split
    · rfl
    · cases ss.guard st.needs with
      | some e => rfl
      | none => simp [Ne.symm hij]

/-- …and in the specification another connection's context changes only when its current schema is dropped. -/
theorem C03_local_spec (w : SWorld) (i j : Nat) (st : Stmt) (x xj : Ctx) (hi : w.ctxs[i]? = some x)
    (hj : w.ctxs[j]? = some xj) (hij : j ≠ i) :
    (Spec.step w i st).2.ctxs[j]? = some xj ∨
    ∃ d s, xj = ⟨some d, some s⟩ ∧ (sexec w.cat x st).2.2.2 = some (d, s) ∧
      (Spec.step w i st).2.ctxs[j]? = some ⟨some d, none⟩ := by
  simp only [Spec.step, hi, List.getElem?_map, List.getElem?_set, Ne.symm hij, if_false, hj, Option.map_some]
  cases hd : (sexec w.cat x st).2.2.2 with
  | none => left; rfl
  | some p =>
    obtain ⟨d, s⟩ := p
    by_cases h : xj.db = some d ∧ xj.schema = some s
    · right
      refine ⟨d, s, ?_, rfl, ?_⟩
      · cases xj; simp at h; simp [h]
      · simp [Ctx.clear, h]
    · left; simp [Ctx.clear, h]

/-- **Objects are shared**: a statement on a fully qualified name has the same result and the same effect on the
    catalog whichever connection issues it, whatever that connection's context (no envelope). -/
theorem C03_shared (w : World) (i j : Nat) (a b : Session) (hi : w.sessions[i]? = some a) (hj : w.sessions[j]? = some b)
    (op : TOp) (d s n : Name) :
    (Impl.step w i (.tab op (.q3 d s n))).1 = (Impl.step w j (.tab op (.q3 d s n))).1 ∧
    (Impl.step w i (.tab op (.q3 d s n))).2.cat = (Impl.step w j (.tab op (.q3 d s n))).2.cat := by
  simp [Impl.step, hi, hj, Session.guard, Stmt.needs, Stmt.rawFails, TRef.needDb, TRef.needSchema, exec, duckResolve]

/-! ## Findings: every region of `region` is a real deviation (witnesses on coherent worlds) -/

/-- `USE DATABASE` on a connection with a current schema: conn.schema stays `21` where the specification has none -/
theorem finding_use_database_stale_schema :
    w1.coherent = true ∧ region w1 0 (.useDb 12) = some .useDatabaseStaleSchema ∧
    (Impl.step w1 0 (.useDb 12)).2.abs ≠ (Spec.step w1.abs 0 (.useDb 12)).2 ∧
    (Impl.step w1 0 (.useDb 12)).2.coherent = false := by decide

/-- …after which an unqualified CREATE TABLE lands in `12.main` although the connection reports schema `21` -/
theorem finding_use_database_then_create_lands_in_main :
    ((Impl.run w1 [.stmt 0 (.useDb 12), .stmt 0 (.tab (.create .table 0 false) (.q1 32))]).2.cat.find 12 mainS 32).isSome = true ∧
    ((Impl.run w1 [.stmt 0 (.useDb 12)]).2.sessions.map Session.abs) = [⟨some 12, some 21⟩] := by decide

theorem finding_drop_database_unsupported :
    region w1 0 (.dropDb 12) = some .dropDatabaseUnsupported ∧
    (Impl.step w1 0 (.dropDb 12)).1 = .err .raw ∧ (Spec.step w1.abs 0 (.dropDb 12)).1 = .ok := by decide

theorem finding_use_without_kind :
    region w1 0 (.useBare 12) = some .useWithoutKind ∧
    (Impl.step w1 0 (.useBare 12)).2.abs ≠ (Spec.step w1.abs 0 (.useBare 12)).2 := by decide

/-- connection 1 drops the schema that is current for connection 0: connection 0 keeps reporting it -/
theorem finding_schema_dropped_by_other_connection :
    w2.coherent = true ∧ region w2 1 (.sch (.drop false) (.q1 21)) = some .schemaDroppedByOtherConnection ∧
    ((Impl.step w2 1 (.sch (.drop false) (.q1 21))).2.sessions.map Session.abs)[0]? = some ⟨some 11, some 21⟩ ∧
    (Spec.step w2.abs 1 (.sch (.drop false) (.q1 21))).2.ctxs[0]? = some ⟨some 11, none⟩ ∧
    (Impl.step w2 1 (.sch (.drop false) (.q1 21))).2.coherent = false := by decide

/-- second table unqualified on a connection without a database: DuckDB answers (2003) instead of 90105 -/
theorem finding_non_first_table_unqualified :
    region w2 2 (.join (.q3 11 21 31) (.q1 31)) = some .nonFirstTableUnqualified ∧
    (Impl.step w2 2 (.join (.q3 11 21 31) (.q1 31))).1 = .err .catalog ∧
    (Spec.step w2.abs 2 (.join (.q3 11 21 31) (.q1 31))).1 = .err .noDb := by decide

def w3 : World :=
  { cat := { dbs := [memoryDb, 11], schemas := [(11, 21)], objs := [⟨11, mainS, 32, .table, [4]⟩] },
    sessions := [⟨some 11, some 21, true, true, (11, 21)⟩] }

/-- an unqualified name with no object in the current schema is answered from `11.main` -/
theorem finding_unqualified_falls_back_to_main :
    w3.coherent = true ∧ region w3 0 (.tab .select (.q1 32)) = some .unqualifiedFallsBackToMain ∧
    (Impl.step w3 0 (.tab .select (.q1 32))).1 = .rows [4] ∧
    (Spec.step w3.abs 0 (.tab .select (.q1 32))).1 = .err .catalog := by decide

theorem finding_current_schema_main_when_none :
    region w2 2 .selectCtx = some .currentSchemaMainWhenNone ∧
    (Impl.step w2 2 .selectCtx).1 = .ctx (some memoryDb) (some mainS) ∧
    (Spec.step w2.abs 2 .selectCtx).1 = .ctx none none := by decide

theorem finding_use_schema_without_database :
    region w2 2 (.sch .use (.q1 21)) = some .useSchemaWithoutDatabase ∧
    (Impl.step w2 2 (.sch .use (.q1 21))).1 = .err .binder ∧
    (Spec.step w2.abs 2 (.sch .use (.q1 21))).1 = .err .noDb := by decide

/-- a connect naming a database that is missing and not created: the connection reports it (`conn.database = 11`)
    although it has no current database (every unqualified name fails with 90105) -/
theorem finding_connect_names_missing_context :
    connectRegion World.init (some 11) none false false = some .connectNamesMissingContext ∧
    (Impl.connect World.init (some 11) none false false).sessions.map (·.database) = [some 11] ∧
    (Impl.connect World.init (some 11) none false false).abs.ctxs = [⟨none, none⟩] ∧
    (Impl.step (Impl.connect World.init (some 11) none false false) 0 (.tab .select (.q1 31))).1 = .err .noDb := by decide

/-- once another connection has created that database, the connection's own qualified USE SCHEMA gives it the full
    context (database_set included): unqualified names resolve again -/
theorem C03_named_database_created_later :
    let w := (Impl.run (Impl.connect (Impl.connect World.init (some 11) (some 21) false false) none none false false)
      [.stmt 1 (.createDb 11 false), .stmt 1 (.sch (.create false) (.q2 11 21)), .stmt 0 (.sch .use (.q2 11 21)),
       .stmt 0 (.tab (.create .table 0 true) (.q1 31))])
    w.1 = [.ok, .ok, .ok, .ok] ∧ w.2.coherent = true ∧ (w.2.cat.find 11 21 31).isSome = true := by decide

/-- DROP SCHEMA IF EXISTS on the connection's own current schema behaves like DROP SCHEMA: no current schema
    afterwards (90106), whether the schema is written bare or qualified; on a missing schema it changes nothing -/
theorem C03_drop_if_exists :
    (Impl.run w1 [.stmt 0 (.sch (.drop true) (.q1 21)), .stmt 0 (.tab (.create .table 0 true) (.q1 32))]).1 = [.ok, .err .noSchema] ∧
    (Impl.run w1 [.stmt 0 (.sch (.drop true) (.q2 11 21)), .stmt 0 (.tab .select (.q1 31))]).1 = [.ok, .err .noSchema] ∧
    Impl.step w1 0 (.sch (.drop true) (.q1 29)) = (.ok, w1) ∧ (Impl.step w1 0 (.sch (.drop false) (.q1 29))).1 = .err .catalog := by
  decide

/-! ## Regression witnesses for the repaired defects (the code before the `fix:` commits) -/

/-- before the repair `USE SCHEMA d.s` recorded only the schema name -/
def oldUseSchema (ss : Session) (d s : Name) : Session := { ss with schema := some s, schemaSet := true, path := (d, s) }

/-- C03/use-schema-qualified: the old bookkeeping reports database 11 while DuckDB resolves in 12.21 -/
theorem C03_old_use_schema_qualified_incoherent :
    (oldUseSchema ⟨some 11, some 21, true, true, (11, 21)⟩ 12 21).coherent w1.cat = false ∧
    (exec w1.cat ⟨some 11, some 21, true, true, (11, 21)⟩ (.sch .use (.q2 12 21))).2.2.coherent w1.cat = true := by decide

/-- before the repair DROP SCHEMA compared the bare name and only cleared `conn.schema` -/
def oldDropReset (ss : Session) (s : Name) : Session := if ss.schema = some s then { ss with schema := none } else ss

/-- C03/drop-schema-other-db and C03/dropped-current-schema-2003: dropping `12.21` cleared the schema of a
    connection in `11.21`; dropping the own schema left `schema_set` (and the search path) on the dropped schema -/
theorem C03_old_drop_schema_incoherent :
    (oldDropReset ⟨some 11, some 21, true, true, (11, 21)⟩ 21).coherent (w1.cat.applyS (.drop false) 12 21).2 = false ∧
    (oldDropReset ⟨some 11, some 21, true, true, (11, 21)⟩ 21).coherent (w1.cat.applyS (.drop false) 11 21).2 = false ∧
    (exec w1.cat ⟨some 11, some 21, true, true, (11, 21)⟩ (.sch (.drop false) (.q2 12 21))).2.2.abs = ⟨some 11, some 21⟩ ∧
    (Impl.step w1 0 (.sch (.drop false) (.q1 21))).2.coherent = true ∧
    (Impl.run w1 [.stmt 0 (.sch (.drop false) (.q1 21)), .stmt 0 (.tab (.create .table 0 false) (.q1 32))]).1 = [.ok, .err .noSchema] := by
  decide

/-! ## Non-vacuity: the envelope contains real histories -/

/-- two connections, both kinds of USE SCHEMA, creation/insert/select at all three levels, a connection dropping
    its own current schema, 90106 afterwards — all inside the envelope -/
def demo : List Op :=
  [.connect (some 11) (some 21) true true, .connect (some 12) none true true, .connect none none true true,
   .stmt 0 (.tab (.create .table 0 false) (.q1 31)), .stmt 0 (.tab (.insert 5) (.q1 31)),
   .stmt 1 (.sch (.create true) (.q1 22)), .stmt 1 (.sch .use (.q2 11 21)), .stmt 1 (.tab (.insert 6) (.q1 31)),
   .stmt 2 (.tab .select (.q3 11 21 31)), .stmt 2 (.tab .select (.q2 21 31)), .stmt 1 (.sch .use (.q2 12 22)),
   .stmt 1 (.tab (.create .view 9 false) (.q2 22 33)), .stmt 1 (.sch (.drop true) (.q1 22)), .stmt 1 (.tab .select (.q1 33)),
   .stmt 0 (.join (.q1 31) (.q2 21 31)), .stmt 0 .selectCtx]

example : clean World.init demo = true := by decide
example : (Impl.run World.init demo).1 =
    [.ok, .ok, .ok, .ok, .ok, .rows [5, 6], .err .noDb, .ok, .ok, .ok, .err .noSchema, .rows [4], .ctx (some 11) (some 21)] := by
  decide
example : w1.coherent = true ∧ region w1 0 (.sch .use (.q2 12 21)) = none := by decide

end Fs.C03
