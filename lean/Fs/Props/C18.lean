import Fs.Proofs.Crash
/-!
# C18 — with db_path, committed state survives exit, exceptions and kills   (partial)

Statements only (model `Fs/Model/Crash.lean`, lemmas `Fs/Proofs/Crash.lean`).

What is proved is the **logic**: fakesnow's decomposition of statements into engine calls (`calls`), with DuckDB
taken as a durable log (a call outside a transaction is durable when it returns; BEGIN…COMMIT is durable at COMMIT;
nothing else reaches the file).  A kill is a cut of the flattened call sequence after `k` calls; clean exit and an
exception leaving `patch()` are the cut after the last call.  DuckDB's WAL/fsync behaviour, the atomicity of a single
engine call and the OS are **trusted**, and validated on every run by killing real processes at every engine call.

A well-formed history is a list of `TxUnit`s (autocommit statement | BEGIN…COMMIT block | BEGIN…ROLLBACK block).
-/
namespace Fs.C18
open Fs.Crash

def Ok (us : List TxUnit) : Prop := ∀ u ∈ us, u.ok = true

/-- number of engine calls of a list of units -/
def ncalls (us : List TxUnit) : Nat := (flat (hist us)).length

/-- **Characterisation, all histories × all crash points**: from any durable log, after a kill following exactly `k`
    engine calls, a later process finds: the old log, then the effects of every unit completed before the kill (in
    order; nothing for rolled-back blocks), then the durable prefix of the interrupted unit – which is empty when the
    interrupted unit is a transaction block. -/
theorem C18_crash_characterisation (us : List TxUnit) (hok : Ok us) (log : List Eff) (k : Nat) :
    recover (crash ⟨log, none⟩ (hist us) k) = log ++ crashSpec us k :=
  crash_char us ⟨log, none⟩ k rfl hok

theorem crashSpec_done (done rest : List TxUnit) (k : Nat) (hk : ncalls done ≤ k) :
    crashSpec (done ++ rest) k = done.flatMap TxUnit.eff ++ crashSpec rest (k - ncalls done) := by
  induction done generalizing k with
  | nil => simp [ncalls, hist, flat]
  | cons u us ih =>
    have hn : ncalls (u :: us) = (flat u.stmts).length + ncalls us := by simp [ncalls, hist, flat_append]
    have h1 : (flat u.stmts).length ≤ k := by omega
    simp only [List.cons_append, crashSpec, h1, if_true, List.flatMap_cons]
    rw [ih (k - (flat u.stmts).length) (by omega), hn, List.append_assoc, Nat.sub_sub]

/-- **Committed work survives**: every unit that completed (and, for a block, committed) before the kill point is
    found by the later process, completely and in order, whatever was running when the process died. -/
theorem C18_committed_survive (done rest : List TxUnit) (hok : Ok (done ++ rest)) (log : List Eff) (k : Nat)
    (hk : ncalls done ≤ k) :
    (log ++ done.flatMap TxUnit.eff) <+: recover (crash ⟨log, none⟩ (hist (done ++ rest)) k) := by
  rw [C18_crash_characterisation _ hok, crashSpec_done done rest k hk, ← List.append_assoc]
  exact List.prefix_append _ _

/-- **Uncommitted work is absent**: a kill anywhere inside a BEGIN … COMMIT block (before the COMMIT call returned)
    or a BEGIN … ROLLBACK block leaves exactly the state before the BEGIN. -/
theorem C18_uncommitted_absent (done rest : List TxUnit) (u : TxUnit) (hok : Ok (done ++ u :: rest))
    (hu : ∃ b, u = .txc b ∨ u = .txr b ∨ u = .txf b) (log : List Eff) (k : Nat)
    (hk : ncalls done ≤ k) (hk' : k < ncalls done + (flat u.stmts).length) :
    recover (crash ⟨log, none⟩ (hist (done ++ u :: rest)) k) = log ++ done.flatMap TxUnit.eff := by
  rw [C18_crash_characterisation _ hok, crashSpec_done done (u :: rest) k hk]
  have : ¬ (flat u.stmts).length ≤ k - ncalls done := by omega
  obtain ⟨b, rfl | rfl | rfl⟩ := hu <;> simp [crashSpec, this, TxUnit.partialEff]

/-- **Clean exit / exception leaving `patch()`**: after the last call the files hold exactly the committed units. -/
theorem C18_clean_exit (us : List TxUnit) (hok : Ok us) (log : List Eff) :
    recover (finish ⟨log, none⟩ (hist us)) = log ++ us.flatMap TxUnit.eff := by
  have := C18_crash_characterisation us hok log (ncalls us)
  have h2 := crashSpec_done us [] (ncalls us) (Nat.le_refl _)
  simp only [List.append_nil] at h2
  rw [h2] at this
  simpa [crash, finish, ncalls, crashSpec] using this

/-- **A COMMIT that fails commits nothing**: when DuckDB rejects the COMMIT of a transaction (commit-time PRIMARY KEY /
    UNIQUE conflict with a concurrent transaction of the same instance) the exception reaches the caller
    (`cursor.py:259-266` turns only "no transaction is active" into the success row) and a later process finds none of
    that transaction's work – exactly what the session was told.  (A handler that answers every failing COMMIT with the
    success row tells the session "committed" for work that `recover` does not contain.) -/
theorem C18_failed_commit_leaves_nothing (done : List TxUnit) (body : List Stmt) (hok : Ok (done ++ [.txf body]))
    (log : List Eff) :
    recover (finish ⟨log, none⟩ (hist (done ++ [.txf body]))) = log ++ done.flatMap TxUnit.eff := by
  rw [C18_clean_exit _ hok]; simp [TxUnit.eff]

/-- **Leaving a `with` block is not a commit**: a transaction opened with BEGIN inside
    `with snowflake.connector.connect(...) as conn:` (or a cursor `with` block) and still open when the block ends stays
    uncommitted – `__exit__` issues no engine call – so whichever way the process ends afterwards, a later process finds
    exactly what was durable before the BEGIN. -/
theorem C18_with_exit_is_not_a_commit (log : List Eff) (body : List Stmt) (hb : (body.all fun s => !s.isTxCtl && !s.isAttach) = true) :
    calls .connExit = [] ∧
    recover (finish ⟨log, none⟩ (.begin :: body ++ [.connExit])) = log := by
  refine ⟨rfl, ?_⟩
  have hq := flat_qw body (ok_body body hb)
  have hf : flat (.begin :: body ++ [.connExit]) = [.begin] ++ flat body := by simp [flat, calls]
  simp only [recover, finish]
  rw [hf, run_append]
  have h1 : (⟨log, none⟩ : Eng).run [.begin] = { disk := log, tx := some [] } := by simp [Eng.run, Eng.call]
  rw [h1, run_qw_tx _ _ [] rfl hq]

/-- **Durable means durable** (any history, well-formed or not): what is found after a kill at `k` is a prefix of
    what is found after a kill at any later point – later activity never loses or reorders committed effects. -/
theorem C18_durable_monotone (e : Eng) (h : List Stmt) (k k' : Nat) (hkk : k ≤ k') :
    recover (crash e h k) <+: recover (crash e h k') := by
  have : (flat h).take k' = (flat h).take k ++ ((flat h).take k').drop k := by
    have := List.take_append_drop k ((flat h).take k')
    rw [List.take_take, Nat.min_eq_left hkk] at this
    exact this.symm
  simp only [recover, crash]
  rw [this, run_append]
  exact disk_mono _ _

/-- the kill hits unit `u` after `j` of its calls: what the later process finds -/
def tornAt (log : List Eff) (done : List TxUnit) (u : TxUnit) (j : Nat) : List Eff :=
  log ++ done.flatMap TxUnit.eff ++ u.partialEff j

theorem C18_interrupted (done rest : List TxUnit) (u : TxUnit) (hok : Ok (done ++ u :: rest)) (log : List Eff) (j : Nat)
    (hj : j < (flat u.stmts).length) :
    recover (crash ⟨log, none⟩ (hist (done ++ u :: rest)) (ncalls done + j)) = tornAt log done u j := by
  rw [C18_crash_characterisation _ hok, crashSpec_done done (u :: rest) _ (Nat.le_add_right _ _)]
  have hj' : ¬ (flat u.stmts).length ≤ j := by omega
  simp [crashSpec, hj', tornAt]

/-- Statement atomicity at full strength: an interrupted unit is fully there or not at all.  **False** for fakesnow's
    multi-call statements in autocommit (see the `finding_` theorems). -/
def C18_stmt_atomic_Full : Prop :=
  ∀ (log : List Eff) (done : List TxUnit) (u : TxUnit) (j : Nat), u.ok = true → j < (flat u.stmts).length →
    tornAt log done u j = log ++ done.flatMap TxUnit.eff ∨
    tornAt log done u j = log ++ done.flatMap TxUnit.eff ++ u.eff

/-- **Statement atomicity, partial**: a unit is fully there or not at all when it is a transaction block (whatever
    multi-call statements it contains) or a statement with at most one durable engine call (INSERT/UPDATE/DELETE,
    COMMENT ON, CREATE SCHEMA/VIEW, DROP, CREATE TABLE without comment and lengths, SELECT). -/
theorem C18_stmt_atomic_partial (log : List Eff) (done : List TxUnit) (u : TxUnit) (j : Nat)
    (hat : u.atomic = true) :
    tornAt log done u j = log ++ done.flatMap TxUnit.eff ∨
    tornAt log done u j = log ++ done.flatMap TxUnit.eff ++ u.eff := by
  cases u with
  | auto s =>
    have hp : ((calls s).take j).filterMap wOf <+: effs s := List.IsPrefix.filterMap _ (List.take_prefix _ _)
    have hl : (effs s).length ≤ 1 := by simpa [TxUnit.atomic] using hat
    obtain ⟨t, ht⟩ := hp
    simp only [tornAt, TxUnit.partialEff, TxUnit.eff]
    cases hx : ((calls s).take j).filterMap wOf with
    | nil => left; simp
    | cons a l =>
      right
      rw [hx] at ht
      have : (a :: l ++ t).length ≤ 1 := by rw [ht]; exact hl
      simp at this
      have hl0 : l = [] := by cases l <;> simp_all
      have ht0 : t = [] := by cases t <;> simp_all <;> omega
      subst hl0 ht0
      rw [← ht]; simp
  | txc b => left; simp [tornAt, TxUnit.partialEff]
  | txr b => left; simp [tornAt, TxUnit.partialEff]
  | txf b => left; simp [tornAt, TxUnit.partialEff]

/-- Finding `C18/torn-table-metadata`: `CREATE TABLE t (… VARCHAR(10)) COMMENT = '…'` killed after the DDL call:
    the table is there, its comment and VARCHAR length are not. -/
theorem finding_C18_torn_table_metadata :
    tornAt [] [] (.auto (.createTable 0 (some 7) (some 10))) 1 = [.mkTable 0] ∧
    (TxUnit.auto (.createTable 0 (some 7) (some 10))).eff = [.mkTable 0, .setComment 0 7, .setLen 0 10] := by
  decide

/-- Finding `C18/torn-merge`: MERGE killed between its UPDATE and its INSERT: matched rows updated, unmatched not inserted. -/
theorem finding_C18_torn_merge :
    (dump (tornAt [.mkTable 0, .rows 0 (.ins 1 1)] [] (.auto (.merge 0 [(1, 10), (2, 20)])) 4)).tables
      = [⟨0, none, none, [(1, 10)]⟩] ∧
    (dump ([.mkTable 0, .rows 0 (.ins 1 1)] ++ (TxUnit.auto (.merge 0 [(1, 10), (2, 20)])).eff)).tables
      = [⟨0, none, none, [(1, 10), (2, 20)]⟩] := by
  decide

/-- Regression witness for repair 0e75b9f (`C13/merge-commit-conflict-on-bogus-comment`): MERGE used to make one more
    durable call – an upsert of the key `(db, schema, 'MERGE_CANDIDATES')` in `_fs_tables_ext`, the same key for every
    MERGE of every session (so two overlapping transactions containing a MERGE conflicted at COMMIT); the repaired
    decomposition writes the target table only. -/
theorem C18_merge_no_bookkeeping_write (t : Nat) (src : List (Nat × Nat)) :
    Eff.junkComment ∈ (mergeCallsOld t src).filterMap wOf ∧
    effs (.merge t src) = [.rows t (.mergeUpd src), .rows t (.mergeIns src)] := by
  constructor
  · simp [mergeCallsOld, List.filterMap_cons, wOf]
  · simp [effs, calls, List.filterMap_cons, wOf]

theorem C18_stmt_atomic_full_false : ¬ C18_stmt_atomic_Full := by
  intro h
  have := h [] [] (.auto (.createTable 0 (some 7) (some 10))) 1 rfl (by decide)
  revert this; decide

/-- the same multi-call statements inside an explicit transaction cannot be torn (instance of the partial theorem) -/
theorem C18_tx_block_atomic (log : List Eff) (done : List TxUnit) (body : List Stmt) (j : Nat) :
    tornAt log done (.txc body) j = log ++ done.flatMap TxUnit.eff :=
  by simp [tornAt, TxUnit.partialEff]

/-- **CREATE DATABASE / connect bootstrap heal**: the state "file attached, info-schema extensions (and macros) not yet
    created" is observationally the completed state – the next `connect` re-runs the idempotent bootstrap, and the
    observable dump does not depend on it.  (So the two-call CREATE DATABASE is *not* observably torn.) -/
theorem C18_create_database_heals (log : List Eff) (d : Nat) :
    dump (log ++ [.attach d]) = dump (log ++ [.attach d, .info d]) ∧
    dump (log ++ [.attach d]) = dump (log ++ [.attach d, .info d, .macros d]) := by
  constructor
  · have := dump_snoc_info (log ++ [.attach d]) d
    simpa using this.symm
  · have h1 := dump_snoc_info (log ++ [.attach d]) d
    have h2 := dump_snoc_macros (log ++ [.attach d, .info d]) d
    simp only [List.append_assoc, List.cons_append, List.nil_append] at h1 h2
    rw [h2, h1]

/-- **In-memory instances never touch the disk, and directories do not interfere**: an instance without db_path
    leaves every directory unchanged and reads nothing durable; an instance with db_path `p` changes directory `p` only. -/
theorem C18_memory_isolated (fs : Files) (h : List Stmt) (k : Nat) :
    runInst fs none h k = fs ∧ visible fs none = [] ∧
    ∀ p q, q ≠ p → runInst fs (some p) h k q = fs q := by
  refine ⟨rfl, rfl, ?_⟩
  intro p q hq; simp [runInst, hq]

/-! ### non-vacuity -/

/-- a non-trivial well-formed history: connect, a multi-call CREATE TABLE inside a transaction, an autocommit
    insert, a rolled-back block, a MERGE -/
def demo : List TxUnit :=
  [.auto (.connect true true 1), .txc [.createTable 0 (some 7) (some 10), .dml 0 (.ins 1 1)],
   .auto (.dml 0 (.ins 2 2)), .txr [.dml 0 (.del 1)], .auto (.merge 0 [(1, 10), (3, 30)])]

example : Ok demo := by intro u hu; simp [demo] at hu; rcases hu with rfl | rfl | rfl | rfl | rfl <;> rfl

/-- killed inside the transaction block (after BEGIN, CREATE TABLE, its comment upsert): only the connect effects are there -/
example : recover (crash Eng.init (hist demo) 12) = [.attach 0, .info 0, .macros 0, .mkSchema 1] := by decide

/-- clean exit: the dump a later process must see -/
example : (dump (recover (finish Eng.init (hist demo)))).tables = [⟨0, some 7, some 10, [(1, 10), (2, 2), (3, 30)]⟩] := by decide

end Fs.C18
