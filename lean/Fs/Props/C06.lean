import Fs.Proofs.Descr
/-!
# C06 — cursor.description matches the result of every executed statement

Statements only (helper lemmas: `Fs/Proofs/Descr.lean`).  `Fs.Descr` models `fakesnow/types.py`
(`duckdb_to_sf_type`, `describe_as_rowtype`, the `DECIMAL(p,s)` regex), what `description` re-describes per
statement kind (`describeLast`, cursor.py:113-123,353) and the cursor/connection fields `description` and
`describe()` touch.  DuckDB's DESCRIBE typing and pyarrow's Python types (`pyOf`) are modelled engine
behaviour, tied by the correspondence check.
-/
namespace Fs.C06
open Fs.Descr

/-- **DECIMAL(p,s) round trip**: for every precision and scale, the regex of `describe_as_rowtype` reads back
    exactly the numbers DuckDB's DESCRIBE printed, and the column comes out as FIXED with that precision/scale. -/
theorem C06_decimal_parse (p s : Nat) :
    searchDec (renderDecimal p s) = some (p, s) ∧
    asColumnInfo (renderDecimal p s) = some { type := .fixed, precision := some p, scale := some s } := by
  have h1 : searchDec (renderDecimal p s) = some (p, s) := by
    have e : renderDecimal p s = decimalWord ++ ('(' :: (digits p ++ [','] ++ digits s ++ [')'] ++ [])) := by
      simp [renderDecimal]
    rw [e, searchDec_skip _ _ (by decide)]
    simp only [searchDec, matchHere_render]
  have hdec : isDecimal (renderDecimal p s) = true := by
    simp [isDecimal, renderDecimal, startsWith, decimalWord]
  refine ⟨h1, ?_⟩
  have hl : lookup decimalWord table = some .fixed := by decide
  simp only [asColumnInfo, hdec, if_true, h1, hl]

/-- **A DECIMAL without parameters** (`DECIMAL`) is FIXED(38,0), as the code's `else 38 / else 0` says. -/
theorem C06_decimal_default : asColumnInfo "DECIMAL".toList = some { type := .fixed, precision := some 38, scale := some 0 } := by
  decide

/-- **Type table**: every DuckDB type of the dictionary maps to the Snowflake type code, precision, scale and
    length the connector expects (FIXED=0 38/0, REAL=1, TEXT=2 with 16 MiB, DATE=3, VARIANT=5, TIMESTAMP_TZ=7,
    TIMESTAMP_NTZ=8, BINARY=11 with 8 MiB, TIME=12, BOOLEAN=13; time-like types precision 0 scale 9). -/
theorem C06_type_table :
    (["BIGINT", "INTEGER", "HUGEINT", "DOUBLE", "VARCHAR", "DATE", "JSON", "TIMESTAMP WITH TIME ZONE", "TIMESTAMP",
      "TIMESTAMP_NS", "BLOB", "TIME", "BOOLEAN"].map fun t =>
        (asColumnInfo t.toList).map fun ci => (ci.type.code, ci.precision, ci.scale, ci.length)) =
    [some (0, some 38, some 0, none), some (0, some 38, some 0, none), some (0, some 38, some 0, none),
     some (1, none, none, none), some (2, none, none, some 16777216), some (3, none, none, none),
     some (5, none, none, none), some (7, some 0, some 9, none), some (8, some 0, some 9, none),
     some (8, some 0, some 9, none), some (11, none, none, some 8388608), some (12, some 0, some 9, none),
     some (13, none, none, none)] := by decide

/-- **Types agree with values**: for every non-decimal type of the dictionary except HUGEINT, the described
    Snowflake type matches the Python type of the fetched value (FIXED scale 0 ↔ int, REAL ↔ float, TEXT/VARIANT ↔
    str, DATE, TIME, TIMESTAMP_NTZ/TZ ↔ datetime, BINARY ↔ bytes, BOOLEAN ↔ bool). -/
theorem C06_agrees_table :
    (["BIGINT", "INTEGER", "DOUBLE", "VARCHAR", "DATE", "JSON", "TIMESTAMP WITH TIME ZONE", "TIMESTAMP",
      "TIMESTAMP_NS", "BLOB", "TIME", "BOOLEAN"].all fun t =>
        match asColumnInfo t.toList, pyOf t.toList with
        | some ci, some py => agrees ci py
        | _, _ => false) = true := by decide

/-- **… and for decimals with a fractional part**: DECIMAL(p,s) with s > 0 is FIXED scale s ↔ Decimal, for all p, s. -/
theorem C06_agrees_decimal (p s : Nat) (hs : 0 < s) :
    ∃ ci, asColumnInfo (renderDecimal p s) = some ci ∧ pyOf (renderDecimal p s) = some .decimal ∧ agrees ci .decimal = true := by
  have hdec : isDecimal (renderDecimal p s) = true := by simp [isDecimal, renderDecimal, startsWith, decimalWord]
  refine ⟨_, (C06_decimal_parse p s).2, by simp [pyOf, hdec], ?_⟩
  simp [agrees, hs]

/-- **One entry per result column, by position**: whatever the column names are — repeated names from self joins, `a.*, b.*`, the
    same alias twice — the description has exactly as many entries as DESCRIBE returned rows, with the same names in the same
    order, and the i-th entry carries the i-th column's own type. -/
theorem C06_rowtype_positional (rows : List (List Char × List Char)) (out : List (List Char × ColumnInfo))
    (h : describeAsRowtype rows = some out) :
    out.length = rows.length ∧ out.map (·.1) = rows.map (·.1) ∧
    ∀ (i : Nat) (n t : List Char), rows[i]? = some (n, t) → ∃ ci, asColumnInfo t = some ci ∧ out[i]? = some (n, ci) := by
  induction rows generalizing out with
  | nil => simp only [describeAsRowtype, Option.some.injEq] at h; subst h; simp
  | cons r rest ih =>
    obtain ⟨n0, t0⟩ := r
    simp only [describeAsRowtype] at h
    cases hci : asColumnInfo t0 with
    | none => simp [hci] at h
    | some ci0 =>
      cases hr : describeAsRowtype rest with
      | none => simp [hci, hr] at h
      | some out' =>
        simp only [hci, hr, Option.some.injEq] at h
        subst h
        obtain ⟨h1, h2, h3⟩ := ih out' hr
        refine ⟨by simp [h1], by simp [h2], fun i n t hi => ?_⟩
        cases i with
        | zero => simp only [List.getElem?_cons_zero, Option.some.injEq, Prod.mk.injEq] at hi; obtain ⟨rfl, rfl⟩ := hi; exact ⟨ci0, hci, rfl⟩
        | succ j => simpa using h3 j n t (by simpa using hi)

/-- witness: keyed by name, `select 1 as a, 'x' as a` is described by ONE entry, and it has the second column's type. -/
theorem C06_by_name_loses_columns :
    (describeAsRowtypeByName [("A".toList, "INTEGER".toList), ("A".toList, "VARCHAR".toList)]).map (fun o => o.map fun e => e.2.type) = some [.text] ∧
    (describeAsRowtype [("A".toList, "INTEGER".toList), ("A".toList, "VARCHAR".toList)]).map (fun o => o.map fun e => e.2.type) = some [.fixed, .text] := by
  decide

/-- the full statement over declared types: description reports the declared type code, precision and scale -/
def C06_declared_Full : Prop := ∀ d, describedCore d = some (declaredCore d)

/-- **Declared types**: for every declared Snowflake type outside the recorded finding region — in particular `NUMBER(p)` and
    `NUMBER(p,s)` for ALL p, s (precision and scale are the declared ones, not 38/0), every integer / float / text spelling, and
    `TIMESTAMP_NTZ(p)` for every p (always a plain TIMESTAMP, never an unmapped unit type) — the composition of the rewrites' type
    mapping and `types.py` yields exactly the declared type code, precision and scale. -/
theorem C06_declared_partial (d : Decl) (h : declFinding d = none) : describedCore d = some (declaredCore d) := by
  have hts : (asColumnInfo "TIMESTAMP".toList).map ColumnInfo.core = some (SfType.timestamp_ntz, some 0, some 9) := by decide
  have htn : (asColumnInfo "TIMESTAMP_NS".toList).map ColumnInfo.core = some (SfType.timestamp_ntz, some 0, some 9) := by decide
  have hbi : (asColumnInfo "BIGINT".toList).map ColumnInfo.core = some (SfType.fixed, some 38, some 0) := by decide
  cases d with
  | number p s =>
    cases p with
    | none => cases s <;> exact hbi
    | some p =>
      show (asColumnInfo (renderDecimal p (s.getD 0))).map ColumnInfo.core = some (declaredCore (.number (some p) s))
      rw [(C06_decimal_parse p (s.getD 0)).2]
      simp [ColumnInfo.core, declaredCore]
  | tsPlain p =>
    cases p with
    | none => exact hts
    | some p =>
      simp only [declFinding] at h
      have h3 : ¬ p ≤ 3 := by intro hp; simp [hp] at h
      have h0 : p ≠ 0 := by omega
      by_cases h6 : p ≤ 6
      · have e : toDuck (.tsPlain (some p)) = "TIMESTAMP".toList := by
          show (if p = 0 then _ else if p ≤ 3 then _ else if p ≤ 6 then _ else _) = _; rw [if_neg h0, if_neg h3, if_pos h6]
        show (asColumnInfo (toDuck (.tsPlain (some p)))).map ColumnInfo.core = _
        rw [e]; exact hts
      · have e : toDuck (.tsPlain (some p)) = "TIMESTAMP_NS".toList := by
          show (if p = 0 then _ else if p ≤ 3 then _ else if p ≤ 6 then _ else _) = _; rw [if_neg h0, if_neg h3, if_neg h6]
        show (asColumnInfo (toDuck (.tsPlain (some p)))).map ColumnInfo.core = _
        rw [e]; exact htn
  | _ => decide

/-- known finding `C06/type-unmapped`, declared-type side: `TIMESTAMP(3)` / `DATETIME(3)` become TIMESTAMP_MS and description raises. -/
theorem finding_C06_declared_timestamp_precision : describedCore (.tsPlain (some 3)) = none ∧ ¬ C06_declared_Full :=
  ⟨by decide, fun h => by have := h (.tsPlain (some 3)); revert this; decide⟩

/-- the full "types agree with values" statement over everything DuckDB can hand back in this model -/
def C06_agrees_Full : Prop :=
  ∀ t ci py, asColumnInfo t = some ci → pyOf t = some py → agrees ci py = true

/-- known finding `C06/fixed-scale0-decimal-value`: DECIMAL(p,0) and HUGEINT columns are described as FIXED scale 0
    (right) but their values are fetched as `Decimal`, not `int` (the value side is C01's subject). -/
theorem finding_C06_fixed_scale0_decimal_value :
    (∃ ci, asColumnInfo "HUGEINT".toList = some ci ∧ pyOf "HUGEINT".toList = some .decimal ∧ agrees ci .decimal = false) ∧
    (∃ ci, asColumnInfo (renderDecimal 10 0) = some ci ∧ pyOf (renderDecimal 10 0) = some .decimal ∧ agrees ci .decimal = false) := by
  decide

theorem C06_agrees_full_false : ¬ C06_agrees_Full := fun h => by
  have := h "HUGEINT".toList { type := .fixed, precision := some 38, scale := some 0 } .decimal (by decide) (by decide)
  revert this; decide

/-- known finding `C06/type-unmapped`: DuckDB types outside the dictionary (lists, UUID, INTERVAL, …) make
    `description` raise NotImplementedError. -/
theorem finding_C06_type_unmapped :
    asColumnInfo "INTEGER[]".toList = none ∧ asColumnInfo "UUID".toList = none ∧ asColumnInfo "INTERVAL".toList = none := by
  decide

/-- regression witness for the repaired defect `C06/type-unmapped:HUGEINT`: without the dictionary entry the
    lookup of `HUGEINT` (the type of `sum(<integer>)`, MERGE counts, big integer literals) fails. -/
theorem C06_old_hugeint_unmapped : lookup "HUGEINT".toList (table.filter (·.1 != "HUGEINT")) = none := by decide

/-! ### availability -/

/-- the full statement: after every successfully executed statement `description` is that statement's -/
def C06_available_Full : Prop := ∀ k, k ≠ .beforeExecute → describeLast k = .ofResult

/-- **Availability, partial**: after queries (incl. SHOW/DESCRIBE rewritten to selects) and after every statement
    answered with a status select (DML, DDL, SET/UNSET, no-op'd statements, COMMENT, TRUNCATE, and — since the
    `fix:` — BEGIN/COMMIT/ROLLBACK/USE), `description` describes exactly the statement's own result. -/
theorem C06_available_partial (k : Kind) (h : k = .query ∨ k = .statusSelect) : describeLast k = .ofResult := by
  rcases h with rfl | rfl <;> rfl

/-- known finding `C06/describe-seeded-query`: for `RANDOM(seed)`, `_last_sql` is
    `SELECT setseed(..); <query>` and DESCRIBE describes the `setseed` call. -/
theorem finding_C06_describe_seeded_query : describeLast .seededQuery = .ofOther := rfl

/-- known finding `C06/describe-raw-command`: statements passed through as DuckDB commands (SHOW DATABASES,
    EXPLAIN) cannot be re-described: `description` raises. -/
theorem finding_C06_describe_raw_command : describeLast .rawCommand = .raises := rfl

/-- known finding `C06/describe-before-execute`: before any execute, `description` raises a 2003 error about
    a table named None instead of returning None. -/
theorem finding_C06_describe_before_execute : describeLast .beforeExecute = .raises := rfl

theorem C06_available_full_false : ¬ C06_available_Full := fun h => by
  have := h .seededQuery (by decide)
  revert this; decide

/-! ### purity -/

/-- **Reading `description` changes nothing**: for every engine whose DESCRIBE leaves the engine state alone,
    every connection and every cursor: data, session and *all* cursors (this one's pending result set, fetch
    position, rowcount, sqlstate included) are exactly what they were. -/
theorem C06_description_pure {D S R Q} (e : Engine D R Q) (hpure : ∀ d q p, (e.describe d q p).1 = d)
    (c : Conn D S R Q) (i : Nat) : (description e c i).1 = c := by
  unfold description
  cases c.cursors[i]? with
  | none => rfl
  | some cur => simp [hpure]

/-- **`description` depends on the last execution only**: two cursors (on connections with the same engine state)
    whose last executed SQL and parameters are equal get the same description — whatever else they hold and
    whatever they executed or described before.  In particular a cursor that re-executes a text after the catalog
    changed, or with differently typed parameters, is described like a fresh cursor would be. -/
theorem C06_description_last_only {D S R Q} (e : Engine D R Q) (c c' : Conn D S R Q) (i j : Nat) (cur cur' : Cur R Q)
    (hd : c.duck = c'.duck) (hi : c.cursors[i]? = some cur) (hj : c'.cursors[j]? = some cur')
    (hsql : cur.lastSql = cur'.lastSql) (hpar : cur.lastParams = cur'.lastParams) :
    (description e c i).2 = (description e c' j).2 := by
  simp [description, hi, hj, hd, hsql, hpar]

/-- **`describe(q)` does not execute `q`**: only the engine's DESCRIBE is called; data, session and every *other*
    cursor are unchanged, the cursor itself now holds the DESCRIBE rows (as after any execute). -/
theorem C06_describe_pure {D S R Q} (e : Engine D R Q) (hpure : ∀ d q p, (e.describe d q p).1 = d) (descOf : Q → Q)
    (c : Conn D S R Q) (i : Nat) (q : Q) (params : Option Q) :
    (describe e descOf c i q params).1.duck = c.duck ∧ (describe e descOf c i q params).1.session = c.session ∧
    (describe e descOf c i q params).1.cursors.length = c.cursors.length ∧
    ∀ j, j ≠ i → (describe e descOf c i q params).1.cursors[j]? = c.cursors[j]? := by
  unfold describe
  cases c.cursors[i]? with
  | none => exact ⟨rfl, rfl, rfl, fun _ _ => rfl⟩
  | some cur =>
    refine ⟨hpure _ _ _, rfl, by simp, fun j hj => ?_⟩
    simp [Ne.symm hj]

/-- **`describe(q)` = `description` after executing `q`**: both hand `DESCRIBE q` with the same parameters to the
    engine and convert the rows with the same function, so for a pure DESCRIBE they return the same thing. -/
theorem C06_describe_eq_description {D S R Q} (e : Engine D R Q) (descOf : Q → Q) (c : Conn D S R Q) (i : Nat) (q : Q)
    (params : Option Q) (cur : Cur R Q) (hc : c.cursors[i]? = some cur) (hlast : cur.lastSql = some q)
    (hpar : cur.lastParams = params) :
    (describe e descOf c i q params).2 = (description e c i).2 := by
  simp [describe, description, hc, hlast, hpar]

/-- **`execute_string`: every returned cursor describes its own statement**: the i-th cursor of a script is described by
    `DESCRIBE <statement i>` — not by the last statement of the script — whatever the other statements are. -/
theorem C06_script_cursor_own_description {D S R Q} (e : Engine D R Q) (d : D) (s : S) (stmts : List Q) (i : Nat) (q : Q)
    (hq : stmts[i]? = some q) :
    (description e ⟨d, s, scriptCursors stmts⟩ i).2 = (e.describe d (some q) none).2 := by
  simp [description, scriptCursors, List.getElem?_map, hq]

/-- **`describe()` of a seeded query sends no `setseed`**: the seed prefix is added only when the *top-level*
    statement carries the seed; under a DESCRIBE wrapper exactly one statement — the DESCRIBE — is sent, so the
    session's random generator is not touched.  (Executing the seeded query itself does send the prefix.) -/
theorem C06_describe_sends_no_setseed (seed : Option Nat) :
    sent ⟨true, seed⟩ = [.statement] ∧ (∀ s, sent ⟨false, some s⟩ = [.setseed s, .statement]) ∧ sent ⟨false, none⟩ = [.statement] := by
  cases seed <;> exact ⟨rfl, fun _ => rfl, rfl⟩

/-- **Reading `description` twice gives the same answer**: with a pure DESCRIBE, a second read (no execute in between) returns
    what the first returned — the answer is a function of the cursor's stored SQL/parameters and the engine state only
    (the stored parameters are the cursor's own copy; nothing the caller does to its argument objects afterwards matters). -/
theorem C06_description_stable {D S R Q} (e : Engine D R Q) (hpure : ∀ d q p, (e.describe d q p).1 = d) (c : Conn D S R Q) (i : Nat) :
    (description e (description e c i).1 i).2 = (description e c i).2 := by
  rw [C06_description_pure e hpure c i]

/-- the full statement for `describe(q)` over statement kinds: it returns the description `q` would have -/
def C06_describe_Full : Prop := ∀ k, k ≠ .beforeExecute → describeOf k = .ofResult

/-- **`describe(q)`, partial**: for queries (also seeded ones) `describe(q)` yields the query's own columns. -/
theorem C06_describe_partial (k : Kind) (h : k = .query ∨ k = .seededQuery) : describeOf k = .ofResult := by
  rcases h with rfl | rfl <;> rfl

/-- known finding `C06/describe-non-query`: `describe()` of DML, DDL, USE, SET, BEGIN … raises (`DESCRIBE insert …` is not a
    statement) instead of returning the status-row description the statement would have; it changes nothing, though
    (`C06_describe_pure`). -/
theorem finding_C06_describe_non_query : describeOf .statusSelect = .raises ∧ ¬ C06_describe_Full :=
  ⟨rfl, fun h => by have := h .statusSelect (by decide); revert this; decide⟩

/-! ### non-vacuity -/
example : searchDec "DECIMAL(10,2)".toList = some (10, 2) := by decide
example : renderDecimal 38 10 = "DECIMAL(38,10)".toList := by decide

end Fs.C06
