import Fs.Proofs.Http
/-!
# C17 — the HTTP server answers exactly like the in-process fake

Statements only (helpers in `Fs/Proofs/Http.lean`); everything is about `Fs/Model/Http.lean`, the model of
`arrow.py`/`server.py` and of the connector's Arrow decoding, tied to the real stack by
`harness/props/c17.py` on every run.  Reference behaviour ("spec") is what the in-process fake connection
returns for the same statement.

* wire values: `C17_ts_roundtrip`, `C17_ts_wire_ranges`, `C17_time_roundtrip`, `C17_null_roundtrip`
  (+ regression witnesses `C17_float_fraction_inexact`, `C17_nomask_loses_null` for the repaired defects)
* Python types / metadata: `C17_pytype_partial`, `C17_decimal_meta`, `finding_C17_*`
* statement outcome: `C17_Full`, `C17_full_false`, `C17_response_partial`, `C17_response_classified`
* sessions: `C17_token_slice`, `C17_auth_refused`, `C17_session_local`, `C17_login_local`, `C17_data_frame`, `C17_sharing`,
  `C17_failed_statement_touches_nothing`, `C17_tx_only_commit_publishes`
-/
namespace Fs.C17
open Fs.Http

/-! ## wire values -/

/-- **Every timestamp survives the wire**: for *every* integer microsecond count (so every int64 value,
    every one of the 10^6 sub-second fractions, negative epochs included) the struct the server builds is
    decoded by the connector to the same instant; a TIMESTAMP_TZ value comes back aware with offset 0 (UTC),
    a TIMESTAMP_NTZ value naive.  In particular the int32 cast never raises (no HTTP 500). -/
theorem C17_ts_roundtrip (hasTz : Bool) (us : Int) :
    (encodeTs hasTz us).map decodeTs = some (us, if hasTz then some 0 else none) :=
  decode_encode hasTz us

/-- the struct fields are what Snowflake's layout requires: epoch = floor(us / 10^6) (floor, not truncation,
    so pre-1970 values keep a non-negative fraction), fraction = whole microseconds in nanoseconds within
    [0, 10^9), epoch within int64 whenever `us` is, timezone field 1440 (= UTC) exactly for TIMESTAMP_TZ. -/
theorem C17_ts_wire_ranges (hasTz : Bool) (us : Int) (h : -9223372036854775808 ≤ us ∧ us ≤ 9223372036854775807) :
    ∃ w, encodeTs hasTz us = some w ∧ w.epoch = us / 1000000 ∧ w.fraction = (us % 1000000) * 1000 ∧
      0 ≤ w.fraction ∧ w.fraction < 1000000000 ∧ w.fraction % 1000 = 0 ∧
      -9223372036854775808 ≤ w.epoch ∧ w.epoch ≤ 9223372036854775807 ∧
      w.tz = (if hasTz then some 1440 else none) := by
  have e1 := epochOf_eq us
  have e2 := fractionOf_eq us
  unfold M at e1 e2
  refine ⟨{ epoch := epochOf us, fraction := fractionOf us, tz := if hasTz then some 1440 else none }, ?_,
    e1, e2, ?_, ?_, ?_, ?_, ?_, rfl⟩
  · unfold encodeTs; rw [castInt32_fraction]; rfl
  all_goals (dsimp only; first | (rw [e2]; omega) | (rw [e1]; omega))

/-- non-vacuity / floor division: one microsecond before the epoch is (−1 s, +999 999 000 ns) -/
example : encodeTs false (-1) = some { epoch := -1, fraction := 999999000, tz := none } := by decide
example : (encodeTs true (-62135596800000000 + 65)).map decodeTs = some (-62135596800000000 + 65, some 0) := by decide

/-- **Regression witness for the repaired defect `C17/fraction-float`**: the fraction as the code computed it
    before the `fix:` commit — `subsecond * 1e9` in IEEE doubles — is not an integer for 65 µs (it is
    65000.00000000001), so the safe cast to int32 raised and the server answered HTTP 500; 64 µs is exact.
    (Kernel evaluation of binary64 arithmetic; no axiom beyond the standard ones.) -/
theorem C17_float_fraction_inexact : floatFractionExact 65 = false ∧ floatFractionExact 64 = true := by
  constructor <;> decide +kernel

/-- **TIME**: every time of day with microsecond precision is decoded to the same (h, m, s, µs). -/
theorem C17_time_roundtrip (t : Nat) (h : t < 86400000000) :
    timeToMicros (decodeTime (encodeTime t)) = t ∧
    (decodeTime (encodeTime t)).1 < 24 ∧ (decodeTime (encodeTime t)).2.1 < 60 ∧
    (decodeTime (encodeTime t)).2.2.1 < 60 ∧ (decodeTime (encodeTime t)).2.2.2 < 1000000 := by
  refine ⟨time_rt t h, ?_⟩
  unfold decodeTime encodeTime
  simp only
  omega

example : decodeTime (encodeTime 86399999999) = (23, 59, 59, 999999) := by decide

/-- **NULLs stay NULL, values stay values**: a timestamp column with NULLs anywhere is decoded to exactly
    what the in-process cursor returns — for every column content. -/
theorem C17_null_roundtrip (hasTz : Bool) (xs : List (Option Int)) :
    (encodeCol true hasTz xs).map decodeCol = some (specCol hasTz xs) :=
  encodeCol_masked hasTz xs

/-- **Regression witness for the repaired defect `C17/null-timestamp`**: without the mask (the code before the
    `fix:` commit) a NULL timestamp reached the client as 1970-01-01 00:00:00. -/
theorem C17_nomask_loses_null :
    (encodeCol false false [none]).map decodeCol = some [some (0, none)] ∧
    specCol false [none] = [none] := by decide

/-! ## Python types and metadata -/

/-- the arrow field metadata carries a DECIMAL column's declared precision and scale unchanged (the
    `precision or 38` / `scale or 0` defaults only replace absent values: a declared precision is ≥ 1 and
    scale 0 `or 0` is 0) -/
theorem C17_decimal_meta (p s : Nat) (hp : 1 ≤ p) : arrowMeta (.decimal p s) = (p, s, 0) := by
  unfold arrowMeta rowtypeNums pyOr
  cases p with
  | zero => omega
  | succ p => cases s <;> rfl

/-- **Same Python type over HTTP as in-process**, for every column type of the table except the three recorded
    regions: DECIMAL(p,0) (`int` over HTTP — what the Snowflake connector does — vs `Decimal` in-process),
    BINARY (`bytearray` vs `bytes`), and types missing from `duckdb_to_sf_type` (HTTP 500). -/
def TyInEnv (t : DuckTy) : Prop := isFixedScale0 t = false ∧ t ≠ .blob ∧ t ≠ .other
instance (t : DuckTy) : Decidable (TyInEnv t) := by unfold TyInEnv; infer_instance

theorem C17_pytype_partial (t : DuckTy) (h : TyInEnv t) : httpPy t = inprocPy t := by
  obtain ⟨h0, hb, ho⟩ := h
  cases t <;> try rfl
  · exact absurd rfl hb
  · rename_i p s
    cases s with
    | zero => simp [isFixedScale0] at h0
    | succ s => simp [httpPy, sfType, inprocPy, arrowMeta, rowtypeNums, pyOr]

example : TyInEnv (.decimal 38 10) ∧ TyInEnv .timestamptz ∧ TyInEnv .bigint := by decide

/-- finding `C17/fixed-scale0-int-vs-decimal` -/
theorem finding_C17_fixed_scale0 (p : Nat) :
    httpPy (.decimal p 0) = some .int ∧ inprocPy (.decimal p 0) = some .decimal := by
  constructor
  · cases p <;> rfl
  · rfl

/-- finding `C17/binary-bytearray-vs-bytes` -/
theorem finding_C17_binary : httpPy .blob = some .bytearray ∧ inprocPy .blob = some .bytes := ⟨rfl, rfl⟩

/-- part of finding `C17/http500-undescribable-rows`: a column type outside the table has no rowtype -/
theorem finding_C17_type_unmapped : httpPy .other = none := rfl

/-! ## the outcome of one statement -/

/-- the full statement: for every outcome of `execute`, the client over HTTP observes what the in-process
    client observes (error triple, or row count, rowcount and description availability) -/
def C17_Full : Prop := ∀ e : Exec, implObs e = specObs e

/-- `C17_Full` is false on the repaired tree too — three recorded regions -/
theorem C17_full_false : ¬ C17_Full := fun h => by
  have := h .otherExc
  simp [implObs, specObs] at this

/-- **In the envelope** — the statement raised a Snowflake `ProgrammingError`, or succeeded with a describable
    result — the HTTP client sees exactly the in-process outcome: same (errno, sqlstate, message), or same
    number of rows, same `rowcount` (incl. 0 and > 1), description available. -/
theorem C17_response_partial (e : Exec) (h : execInEnv e = true) : implObs e = specObs e := by
  cases e with
  | progErr _ _ _ => rfl
  | otherExc => cases h
  | ok d n rc =>
    cases d with
    | true =>
      have hn : n ≤ 1000000 := by
        simp only [execInEnv, batchRows] at h; exact of_decide_eq_true h
      have hb : batches n ≤ 1 := by unfold batches batchRows; omega
      simp [implObs, specObs, hb]
    | false => cases h

example : execInEnv (.progErr 2003 "42S02" "m") = true ∧ execInEnv (.ok true 0 0) = true ∧
    execInEnv (.ok true 3 3) = true ∧ execInEnv (.ok true 1000000 1000000) = true := by decide

/-- **Any result of up to 1 000 000 rows is one record batch** — whatever its size in between (1, 1001, 10 000, …), so
    `to_ipc` never refuses it; one row more is two batches (finding `C17/http500-multi-batch`, exact threshold). -/
theorem C17_single_batch (n : Nat) : batches n ≤ 1 ↔ n ≤ 1000000 := by
  unfold batches batchRows; omega

/-- the classifier is exact: outside the envelope a finding key is assigned, inside none, and outside the
    outcomes really differ (so no finding region hides an agreeing case) -/
theorem C17_response_classified (e : Exec) :
    (execInEnv e = true ↔ findingOf e = "-") ∧ (execInEnv e = false → implObs e ≠ specObs e) := by
  cases e with
  | progErr _ _ _ => simp [execInEnv, findingOf]
  | otherExc => simp [execInEnv, findingOf, implObs, specObs]
  | ok d n rc =>
    cases d with
    | false => cases n <;> simp [execInEnv, findingOf, implObs, specObs]
    | true =>
      have hb := C17_single_batch n
      by_cases hn : n ≤ 1000000
      · have := hb.mpr hn
        simp [execInEnv, findingOf, implObs, specObs, batchRows, hn, this]
      · have : ¬ batches n ≤ 1 := fun h => hn (hb.mp h)
        simp [execInEnv, findingOf, implObs, specObs, batchRows, hn, this]

/-- finding `C17/http500-multi-batch`: a describable result of 1 000 001 rows is answered with HTTP 500 -/
theorem finding_C17_http500_multi_batch (rc : Nat) :
    implObs (.ok true 1000001 rc) = .http500 ∧ specObs (.ok true 1000001 rc) = .ok 1000001 rc .cols := by
  constructor <;> simp [implObs, specObs, batches, batchRows]

/-- finding `C17/http500-untranslated-exception` -/
theorem finding_C17_http500_untranslated : implObs .otherExc = .http500 ∧ specObs .otherExc = .raw := ⟨rfl, rfl⟩
/-- finding `C17/description-unavailable-empty` (a row-less result that cannot be described: an empty result with a
    LIST-typed column; before the status-row fix 1f4a227 also USE, BEGIN, COMMIT/ROLLBACK inside a transaction) -/
theorem finding_C17_description_empty (rc : Nat) :
    implObs (.ok false 0 rc) = .ok 0 rc .empty ∧ specObs (.ok false 0 rc) = .ok 0 rc .raises := ⟨rfl, rfl⟩
/-- finding `C17/http500-undescribable-rows` (TRUNCATE, HUGEINT/LIST result columns) -/
theorem finding_C17_http500_rows (n rc : Nat) :
    implObs (.ok false (n + 1) rc) = .http500 ∧ specObs (.ok false (n + 1) rc) = .ok (n + 1) rc .raises := ⟨rfl, rfl⟩

/-! ## sessions -/

/-- **Token slice**: `auth[17:-1]` recovers every token from the header the connector sends. -/
theorem C17_token_slice (t : Token) : slice17 (authHeader t) = t := slice17_header t

/-- **401 and nothing touched**: a query whose Authorization header is absent or empty is refused with 390103,
    one whose token is not a live session with 390104 — for *every* request body `q`, well-formed or not (`.malformed`:
    empty, not gzip, not JSON, no `sqlText`): the token is checked before the body is looked at; in both cases the whole
    server state — every session's context and variables, all data — is unchanged. -/
theorem C17_auth_refused (s : Srv) (q : Q) :
    step s (.query none q) = (s, .unauthorized 390103) ∧
    step s (.query (some []) q) = (s, .unauthorized 390103) ∧
    ∀ c cs, lookup s.sessions (slice17 (c :: cs)) = none →
      step s (.query (some (c :: cs)) q) = (s, .unauthorized 390104) := by
  refine ⟨rfl, rfl, ?_⟩
  intro c cs h
  simp only [step, h]

/-- **A statement only touches its own session**: whatever is executed through token `t`, every other
    token's session (instance, current schema, variables) is exactly what it was. -/
theorem C17_session_local (s : Srv) (a : List Char) (q : Q) (t' : Token) (h : t' ≠ slice17 a) :
    lookup (step s (.query (some a) q)).1.sessions t' = lookup s.sessions t' := by
  cases a with
  | nil => rfl
  | cons c cs =>
    simp only [step]
    cases hl : lookup s.sessions (slice17 (c :: cs)) with
    | none => rfl
    | some se => exact lookup_map_ne _ _ _ _ h

/-- a login leaves every other token's session untouched and all data untouched -/
theorem C17_login_local (s : Srv) (tok : Token) (b : Backing) (sch : Option Nat) (t' : Token) (h : t' ≠ tok) :
    lookup (step s (.login tok b sch)).1.sessions t' = lookup s.sessions t' ∧
    (step s (.login tok b sch)).1.data = s.data := by
  cases b <;> exact ⟨lookup_assign_ne _ _ _ _ h, rfl⟩

/-- **A login gets exactly the context it asked for**: the new session's current schema is the one named in the login
    request — and *no* current schema when none was named (the server invents no default such as PUBLIC) —, it has no
    variables and no open transaction, exactly like `FakeSnow.connect(database, schema)` in-process. -/
theorem C17_login_context (s : Srv) (tok : Token) (b : Backing) (sch : Option Nat) :
    ∃ se, lookup (step s (.login tok b sch)).1.sessions tok = some se ∧
      se.schema = sch ∧ se.vars = [] ∧ se.tx = none ∧ se.backing = b := by
  cases b <;> simp [step, assign, lookup]

/-- **Data of other instances is untouched**: a statement run by a session of instance `i` changes no row of
    any instance `j ≠ i` — an `:isolated:`/path-backed login can neither see nor disturb the shared data. -/
theorem C17_data_frame (s : Srv) (a : List Char) (q : Q) (se : Sess) (j : Nat)
    (hl : lookup s.sessions (slice17 a) = some se) (hj : j ≠ se.inst) :
    (step s (.query (some a) q)).1.data.filter (·.1 == j) = s.data.filter (·.1 == j) := by
  cases a with
  | nil =>
    simp only [step]
  | cons c cs =>
    simp only [step, hl]
    exact runQ_data_frame se s.data q j hj

/-- and the session that ran it sees its own statement's effect (own context is per login) -/
theorem C17_own_session (s : Srv) (c : Char) (cs : List Char) (q : Q) (se : Sess)
    (hl : lookup s.sessions (slice17 (c :: cs)) = some se) :
    lookup (step s (.query (some (c :: cs)) q)).1.sessions (slice17 (c :: cs)) = some (runQ se s.data q).1 := by
  simp only [step, hl]
  exact lookup_map_eq _ _ _ _ hl

/-- **A failing statement leaves the transaction state alone**: when the statement sent through token `t` raises a
    Snowflake ProgrammingError, the HTTP request answers the error and changes *nothing* — every session (the caller's
    open transaction and its pending writes included) and all data are exactly what they were, which is what the
    in-process `execute` does.  (The server must not roll back, commit or reset anything on the error path.) -/
theorem C17_failed_statement_touches_nothing (s : Srv) (c : Char) (cs : List Char) (se : Sess)
    (hl : lookup s.sessions (slice17 (c :: cs)) = some se) :
    (step s (.query (some (c :: cs)) .fail)).2 = .error ∧
    (step s (.query (some (c :: cs)) .fail)).1.data = s.data ∧
    ∀ t', lookup (step s (.query (some (c :: cs)) .fail)).1.sessions t' = lookup s.sessions t' := by
  simp only [step, hl, runQ]
  refine ⟨trivial, trivial, fun t' => ?_⟩
  by_cases e : t' = slice17 (c :: cs)
  · rw [e, lookup_map_eq _ _ _ _ hl, hl]
  · exact lookup_map_ne _ _ _ _ e

/-- **Inside an explicit transaction only COMMIT publishes**: any other statement of the session — writes, reads, failing
    statements, ROLLBACK — leaves the committed data (what every other session sees) unchanged; a failing statement keeps
    the pending writes, ROLLBACK discards them, COMMIT appends exactly them. -/
theorem C17_tx_only_commit_publishes (se : Sess) (d : List (Nat × Int)) (w : List Int) (h : se.tx = some w) :
    (∀ q, q ≠ .commit → (runQ se d q).2.1 = d) ∧
    (runQ se d .fail).1.tx = some w ∧ (runQ se d .rollback).1.tx = none ∧
    (runQ se d .commit).2.1 = d ++ w.map (fun v => (se.inst, v)) ∧ (runQ se d .commit).1.tx = none := by
  refine ⟨fun q hq => runQ_tx_data se d q (by rw [h]; rfl) hq, ?_, ?_, ?_, ?_⟩ <;> simp [runQ, h]

/-- non-vacuity: BEGIN, write, failing statement, write, then ROLLBACK resp. COMMIT, observed by the session itself and
    by a second plain login -/
example :
    (run {} [.login ['a'] .shared (some 1), .login ['b'] .shared none,
             .query (some (authHeader ['a'])) .begin, .query (some (authHeader ['a'])) (.put 1),
             .query (some (authHeader ['a'])) .fail, .query (some (authHeader ['a'])) (.put 2),
             .query (some (authHeader ['a'])) .getAll, .query (some (authHeader ['b'])) .getAll,
             .query (some (authHeader ['a'])) .commit, .query (some (authHeader ['b'])) .getAll,
             .query (some (authHeader ['a'])) .begin, .query (some (authHeader ['a'])) (.put 3),
             .query (some (authHeader ['a'])) .fail, .query (some (authHeader ['a'])) .rollback,
             .query (some (authHeader ['b'])) .getAll]).2
    = [.token ['a'], .token ['b'], .status, .status, .error, .status, .rows [1, 2], .rows [], .status, .rows [1, 2],
       .status, .status, .error, .status, .rows [1, 2]] := by decide

/-- **Who shares data**: after *any* sequence of login/query requests (any tokens, forged ones included), two
    live sessions under different tokens use the same instance iff both logged in without asking for an
    isolated or path-backed instance; every instance id in use was created by a login. -/
theorem C17_sharing (reqs : List Req) :
    let s := (run {} reqs).1
    ∀ t1 t2 se1 se2, lookup s.sessions t1 = some se1 → lookup s.sessions t2 = some se2 → t1 ≠ t2 →
      (se1.inst = se2.inst ↔ se1.backing = .shared ∧ se2.backing = .shared) := by
  intro s t1 t2 se1 se2 h1 h2 hne
  have inv : Inv s := inv_run _ reqs inv_init
  have m1 := lookup_mem h1
  have m2 := lookup_mem h2
  have s1 := inv.sharedIff _ m1
  have s2 := inv.sharedIff _ m2
  simp only at s1 s2
  constructor
  · intro e
    by_cases z : se1.inst = 0
    · exact ⟨s1.mp z, s2.mp (e ▸ z)⟩
    · exact absurd (inv.uniq _ m1 _ m2 e z) hne
  · intro ⟨b1, b2⟩
    rw [s1.mpr b1, s2.mpr b2]

/-- non-vacuity: a concrete history with a shared pair, an isolated login, a forged token and a missing header -/
example :
    (run {} [.login ['a'] .shared (some 1), .login ['b'] .shared (some 1), .login ['c'] .isolated none,
             .query (some (authHeader ['a'])) (.put 7), .query (some (authHeader ['c'])) (.put 9),
             .query (some (authHeader ['x'])) (.put 1), .query none .getAll,
             .query (some (authHeader ['a'])) (.setVar 1 5), .query (some (authHeader ['b'])) (.getVar 1),
             .query (some (authHeader ['b'])) .getAll, .query (some (authHeader ['c'])) .getAll]).2
    = [.token ['a'], .token ['b'], .token ['c'], .status, .status, .unauthorized 390104, .unauthorized 390103,
       .status, .val none, .rows [7], .rows [9]] := by decide

end Fs.C17
