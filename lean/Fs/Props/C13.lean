import Fs.Proofs.Tx
/-!
# C13 — transactions are atomic, isolated between connections, and sticky to theirs

Statements only (helper lemmas: `Fs/Proofs/Tx.lean`; model: `Fs/Model/Tx.lean`).

A *history* is a list of `(connection, statement)`; `run m s h` executes it from state `s`.  Every theorem
quantifies over **all** initial states `s`, **all** interleavings `blk` (any number of other connections, doing
anything – including their own transactions and commits – between the statements of connection `c`).
`Mode.duck` is the model of the code (DuckDB aborts a transaction on a run-time error / nested BEGIN);
`Mode.ideal` is the specification (a failing statement fails alone).

Engine behaviour (DuckDB MVCC: lazy snapshot, snapshot + own writes, commit applies the write list) is
*modelled* in `loc` – trusted base, re-validated against the real stack on every run.
-/
namespace Fs.C13
open Fs.Tx

/-- the statements of `c` inside `blk` neither COMMIT nor ROLLBACK (they are "between BEGIN and …") -/
def Inside (c : Nat) (blk : List (Nat × Stmt)) : Prop := ∀ e ∈ blk, e.1 = c → e.2.endsTx = false

/-- none of `c`'s statements in `blk` aborts an open transaction in mode `m` (envelope of the commit theorem) -/
def NoAbort (m : Mode) (c : Nat) (blk : List (Nat × Stmt)) : Prop := ∀ e ∈ blk, e.1 = c → aborts m e.2 = false

/-- the history with `c`'s statements deleted -/
def without (c : Nat) (h : List (Nat × Stmt)) : List (Nat × Stmt) := h.filter fun e => e.1 != c

/-- **Clause 1 – BEGIN … ROLLBACK leaves no trace** (full strength, both modes, also when the transaction
    got aborted on the way): for every state in which `c` is idle and every interleaving `blk`, running
    `BEGIN; …; ROLLBACK` of `c` interleaved with everybody else ends in *exactly* the state reached when `c`'s
    statements are deleted from the history, and every other connection observed exactly the same results. -/
theorem C13_rollback_no_trace (m : Mode) (s : Sys) (c : Nat) (blk : List (Nat × Stmt))
    (hidle : s.tx c = .idle) (hin : Inside c blk) :
    (run m s ((c, .begin) :: blk ++ [(c, .rollback)])).1 = (run m s (without c blk)).1 ∧
    othersObs c ((c, .begin) :: blk ++ [(c, .rollback)]) (run m s ((c, .begin) :: blk ++ [(c, .rollback)])).2
      = (run m s (without c blk)).2 := by
  have hrel : Rel c (step m s c .begin).1 s := by
    refine ⟨by simp [hidle, loc], fun d hd => step_tx_other _ _ _ _ _ hd⟩
  have hopen : ((step m s c .begin).1.tx c).isIdle = false := by simp [hidle, loc, Tx.isIdle]
  obtain ⟨r1, r2, r3, r4⟩ := block_invisible m c blk _ s hrel hopen hin
  have hlen := run_length m (step m s c .begin).1 blk
  constructor
  · show (run m (step m s c .begin).1 (blk ++ [(c, .rollback)])).1 = _
    rw [run_append]
    simp only [run]
    apply Sys.ext'
    · rw [step_com, loc_rollback_open m _ _ r2]; exact r1.1
    · intro d
      by_cases hd : d = c
      · subst hd; rw [step_tx_self, loc_rollback_open m _ _ r2]; simp only [without]; rw [r4, hidle]
      · rw [step_tx_other _ _ _ _ _ hd]; exact r1.2 d hd
  · show othersObs c ((c, .begin) :: (blk ++ [(c, .rollback)]))
        ((step m s c .begin).2 :: (run m (step m s c .begin).1 (blk ++ [(c, .rollback)])).2) = _
    rw [run_append]
    simp only [othersObs, if_true]
    rw [othersObs_append _ _ _ _ _ hlen, r3]
    simp [run, othersObs, without]

/-- what "atomic, and not before" means for one transaction of `c` around the interleaving `blk` -/
def CommitAtomic (m : Mode) (s : Sys) (c : Nat) (blk : List (Nat × Stmt)) : Prop :=
  let h1 := (c, Stmt.begin) :: blk ++ [(c, Stmt.commit)]
  -- not before: until the COMMIT every other connection observes what it observes without `c`
  othersObs c h1 (run m s h1).2 = (run m s (without c blk)).2 ∧
  -- together at COMMIT: the committed store is the store of the run without `c` plus ALL of `c`'s writes, in order
  (run m s h1).1.com = (run m s (without c blk)).1.com.apps (writesOf c blk) ∧
  -- nobody else's transaction state is affected, and `c` is back in autocommit
  (∀ d, d ≠ c → (run m s h1).1.tx d = (run m s (without c blk)).1.tx d) ∧ (run m s h1).1.tx c = .idle

theorem commit_atomic_gen (m : Mode) (s : Sys) (c : Nat) (blk : List (Nat × Stmt))
    (hidle : s.tx c = .idle) (hin : Inside c blk) (hna : NoAbort m c blk) : CommitAtomic m s c blk := by
  have hrel : Rel c (step m s c .begin).1 s := by
    refine ⟨by simp [hidle, loc], fun d hd => step_tx_other _ _ _ _ _ hd⟩
  have hopen : ((step m s c .begin).1.tx c).isIdle = false := by simp [hidle, loc, Tx.isIdle]
  have hpend0 : ((step m s c .begin).1.tx c).pend = some [] := by simp [hidle, loc, Tx.pend]
  obtain ⟨r1, _, r3, _⟩ := block_invisible m c blk _ s hrel hopen hin
  have hp := block_pending m c blk _ [] hpend0 (fun e he hc => ⟨hin e he hc, hna e he hc⟩)
  simp only [List.nil_append] at hp
  have hlen := run_length m (step m s c .begin).1 blk
  have hcm := loc_commit_pend m (run m (step m s c .begin).1 blk).1.com _ _ hp
  refine ⟨?_, ?_, ?_, ?_⟩
  · show othersObs c ((c, .begin) :: (blk ++ [(c, .commit)]))
        ((step m s c .begin).2 :: (run m (step m s c .begin).1 (blk ++ [(c, .commit)])).2) = _
    rw [run_append]
    simp only [othersObs, if_true]
    rw [othersObs_append _ _ _ _ _ hlen, r3]
    simp [run, othersObs, without]
  · show (run m (step m s c .begin).1 (blk ++ [(c, .commit)])).1.com = _
    rw [run_append]; simp only [run]; rw [step_com, hcm]; simp only [without]; rw [r1.1]
  · intro d hd
    show (run m (step m s c .begin).1 (blk ++ [(c, .commit)])).1.tx d = _
    rw [run_append]; simp only [run]; rw [step_tx_other _ _ _ _ _ hd]; exact r1.2 d hd
  · show (run m (step m s c .begin).1 (blk ++ [(c, .commit)])).1.tx c = _
    rw [run_append]; simp only [run]; rw [step_tx_self, hcm]

/-- **Clause 2, specification**: under statement-level failure (`Mode.ideal`) every transaction is atomic,
    whatever statements – failing ones and nested BEGINs included – it contains. -/
theorem C13_commit_atomic_spec (s : Sys) (c : Nat) (blk : List (Nat × Stmt))
    (hidle : s.tx c = .idle) (hin : Inside c blk) : CommitAtomic .ideal s c blk :=
  commit_atomic_gen .ideal s c blk hidle hin (fun e _ _ => by cases e.2 <;> rfl)

/-- Clause 2 at full strength for the code: every BEGIN … COMMIT block is atomic. **False** (see the two
    `finding_` theorems). -/
def C13_commit_atomic_Full : Prop :=
  ∀ (s : Sys) (c : Nat) (blk : List (Nat × Stmt)), s.tx c = .idle → Inside c blk → CommitAtomic .duck s c blk

/-- **Clause 2 for the code, partial**: a BEGIN … COMMIT block of `c` is atomic – invisible to every other
    connection until COMMIT, then published completely – provided none of `c`'s statements in it is a
    run-time-failing statement or a nested BEGIN (Catalog/Binder failures are allowed). -/
theorem C13_commit_atomic_partial (s : Sys) (c : Nat) (blk : List (Nat × Stmt))
    (hidle : s.tx c = .idle) (hin : Inside c blk) (hna : NoAbort .duck c blk) : CommitAtomic .duck s c blk :=
  commit_atomic_gen .duck s c blk hidle hin hna

/-- store with every table empty -/
def empty : Store := fun _ => []

/-- Finding `C13/runtime-error-aborts-tx`: `BEGIN; INSERT (1,1); <conversion error>; COMMIT` commits nothing. -/
theorem finding_C13_runtime_error_aborts_tx :
    ¬ CommitAtomic .duck (Sys.init empty) 0 [(0, .dml 0 (.ins 1 1)), (0, .failRun)] := by
  intro h
  have := congrFun h.2.1 0
  simp [run, step, loc, Sys.setTx, Sys.init, empty, without, writesOf, Store.apps, Store.app, Dml.app] at this

/-- Finding `C13/nested-begin-aborts-tx`: `BEGIN; INSERT (1,1); BEGIN; COMMIT` commits nothing. -/
theorem finding_C13_nested_begin_aborts_tx :
    ¬ CommitAtomic .duck (Sys.init empty) 0 [(0, .dml 0 (.ins 1 1)), (0, .begin)] := by
  intro h
  have := congrFun h.2.1 0
  simp [run, step, loc, Sys.setTx, Sys.init, empty, without, writesOf, Store.apps, Store.app, Dml.app] at this

theorem C13_commit_atomic_full_false : ¬ C13_commit_atomic_Full := fun h =>
  finding_C13_runtime_error_aborts_tx (h _ 0 _ rfl (by intro e he _; simp at he; rcases he with rfl | rfl <;> rfl))

/-- **Envelope transfer**: on every history that never makes an open transaction meet an aborting statement
    (`envOk`, decidable, evaluated by the driver on every explored case) the code model and the
    specification coincide – final state and every observation. -/
theorem C13_partial (s : Sys) (h : List (Nat × Stmt)) (henv : envOk s h = true) :
    run .duck s h = run .ideal s h := run_env h s henv

/-- **Clause 3 – own writes, and only those**: once `c`'s transaction has its snapshot `sn` (with writes `ws`
    so far), then after *any* interleaving in which `c` stays in the transaction, `c` still holds the same
    snapshot and exactly its own DML on top of it – and a read of any table returns precisely that,
    independent of everything the other connections did or committed meanwhile. -/
theorem C13_own_writes (m : Mode) (s : Sys) (c : Nat) (sn : Store) (ws : List W) (blk : List (Nat × Stmt))
    (hp : s.tx c = .pinned sn ws) (hin : Inside c blk) (hna : NoAbort m c blk) :
    (run m s blk).1.view c = sn.apps (ws ++ writesOf c blk) ∧
    ∀ t, (step m (run m s blk).1 c (.sel t)).2 = .rows (sn.apps (ws ++ writesOf c blk) t) := by
  have := block_view m c sn blk s ws hp (fun e he hc => ⟨hin e he hc, hna e he hc⟩)
  constructor
  · simp [Sys.view, this]
  · intro t; simp [this, loc]

/-- **Clause 3, isolation from the transaction's side** (full strength, also through an abort): what a
    pinned connection observes, statement by statement, is what it would observe running alone. -/
theorem C13_isolated_view (m : Mode) (s : Sys) (c : Nat) (blk : List (Nat × Stmt))
    (hp : (s.tx c).sealed = true) (hin : Inside c blk) :
    ownObs c blk (run m s blk).2 = (run m s (blk.filter fun e => e.1 == c)).2 :=
  (block_sealed m c blk s s rfl hp hin).1

/-- **Clause 4 – autocommit**: outside a transaction a DML statement is committed at once: it has exactly the
    effect of `BEGIN; stmt; COMMIT`, and every connection that is idle or has not yet pinned a snapshot –
    the issuing one included – reads the new contents immediately. -/
theorem C13_autocommit (m : Mode) (s : Sys) (c : Nat) (t : Nat) (op : Dml) (hidle : s.tx c = .idle) :
    (step m s c (.dml t op)).1.com = s.com.app ⟨t, op⟩ ∧
    (step m s c (.dml t op)).1 = (run m s [(c, .begin), (c, .dml t op), (c, .commit)]).1 ∧
    ∀ d, (s.tx d = .idle ∨ s.tx d = .fresh) →
      (step m (step m s c (.dml t op)).1 d (.sel t)).2 = .rows (op.app (s.com t)) := by
  refine ⟨by simp [hidle, loc], ?_, ?_⟩
  · apply Sys.ext'
    · simp [run, hidle, loc, Store.apps]
    · intro d
      by_cases hd : d = c
      · subst hd; simp [run, hidle, loc]
      · simp [run, step_tx_other _ _ _ _ _ hd]
  · intro d hd
    by_cases hdc : d = c
    · subst hdc; simp [hidle, loc, Store.app]
    · rw [step_obs, step_tx_other _ _ _ _ _ hdc]
      rcases hd with hd | hd <;> simp [hd, hidle, loc, Store.app]

/-- committed data is what idle and not-yet-pinned connections read ("visible to other connections … at COMMIT") -/
theorem C13_committed_visible (m : Mode) (s : Sys) (d t : Nat) (hd : s.tx d = .idle ∨ s.tx d = .fresh) :
    (step m s d (.sel t)).2 = .rows (s.com t) := by
  rcases hd with hd | hd <;> simp [hd, loc]

/-- **Clause 5 – COMMIT / ROLLBACK without a transaction are successful no-ops**: the state is unchanged and
    the result is the standard status row. -/
theorem C13_noop (m : Mode) (s : Sys) (c : Nat) (hidle : s.tx c = .idle) :
    step m s c .commit = (s, .status) ∧ step m s c .rollback = (s, .status) := by
  constructor <;>
  · apply Prod.ext
    · apply Sys.ext'
      · simp [hidle, loc]
      · intro d
        by_cases hd : d = c
        · subst hd; simp [hidle, loc]
        · exact step_tx_other _ _ _ _ _ hd
    · simp [hidle, loc]

/-- **A statement that fails outside a transaction changes nothing – in particular it leaves no transaction open**:
    Catalog/Binder failures, run-time failures, and a multi-part statement (MERGE) failing part-way.  So afterwards the
    connection is still in autocommit (`C13_autocommit` applies to its next DML) and COMMIT/ROLLBACK are still no-ops
    (`C13_noop`).  (A code change that wraps the parts of a MERGE in a transaction of its own and forgets to roll it
    back on failure breaks exactly this; the correspondence runs such statements followed by DML, another connection's
    reads and a ROLLBACK.) -/
theorem C13_failed_statement_keeps_autocommit (m : Mode) (s : Sys) (c : Nat) (hidle : s.tx c = .idle) :
    (∀ b, (step m s c (.failBind b)).1 = s) ∧ (step m s c .failRun).1 = s ∧ (step m s c .failMulti).1 = s := by
  refine ⟨fun b => ?_, ?_, ?_⟩ <;>
  · apply Sys.ext'
    · simp [hidle, loc]
    · intro d
      by_cases hd : d = c
      · subst hd; simp [hidle, loc]
      · exact step_tx_other _ _ _ _ _ hd

/-- **Sticky to theirs** (`instance.py:83`, `conn.py:124-126`, `conn.py:121-122,146-147`): for every event list
    (connects – opened with or without a database/schema argument, `Ev.connect named` for both values –, cursor creations from the opening thread or from any other thread (`Ev.cursor c foreign`),
    `with conn:` / `with cursor:` blocks ending normally or by an exception (`Ev.blockExit`, which runs nothing), statements on any cursor, `conn.commit()`/`conn.rollback()`) starting from a
    fresh instance, the real plumbing – a new engine connection per `connect()`, cursors sharing their
    connection's – behaves exactly like the history in which each statement is issued by the *fake connection*
    that owns the cursor: same final state, same observations.  So every theorem above, stated per
    connection, holds per fake connection and through all of its cursors, and `conn.commit()` /
    `conn.rollback()` are COMMIT / ROLLBACK of that connection. -/
theorem C13_sticky (m : Mode) (com : Store) (evs : List Ev) :
    (World.run false m (World.init com) evs).1.sys = (run m (Sys.init com) (Book.trace ⟨0, []⟩ evs)).1 ∧
    (World.run false m (World.init com) evs).2.filterMap id = (run m (Sys.init com) (Book.trace ⟨0, []⟩ evs)).2 := by
  have := world_run_sim m evs (World.init com) ⟨0, []⟩ ⟨by simp [World.init], by simp [World.init]⟩
    ⟨by simp [World.init], by simp [World.init]⟩
  exact ⟨this.2.1, this.2.2⟩

/-- Mutant witness: if `connect()` handed the instance's single (root) engine connection (`self.duck_conn` instead of
    `self.duck_conn.cursor()`) to connections opened without a database/schema (`Ev.connect false`) – or to all –, connection 1 would read connection 0's uncommitted insert and a
    ROLLBACK by connection 1 would destroy it – the bookkeeping theorem `C13_sticky` fails. -/
theorem C13_shared_connection_breaks_isolation :
    let evs := [Ev.connect false, .connect false, .cursor 0 false, .cursor 1 false,
                .exec 0 .begin, .exec 0 (.dml 0 (.ins 1 1)), .exec 1 (.sel 0)]
    (World.run true .duck (World.init empty) evs).2.getLast? = some (some (.rows [(1, 1)])) ∧
    (World.run false .duck (World.init empty) evs).2.getLast? = some (some (.rows [])) := by
  constructor <;> decide

/-! ### non-vacuity -/

/-- a non-trivial instance of the hypotheses of `C13_commit_atomic_partial` / `C13_rollback_no_trace`:
    connection 0's transaction (two writes, a read, a Binder failure) interleaved with connection 1's own
    autocommit write and transaction -/
example : Inside 0 [(0, .dml 0 (.ins 1 1)), (1, .dml 1 (.ins 7 7)), (0, .sel 1), (1, .begin), (0, .failBind true),
    (1, .dml 1 (.del 7)), (0, .dml 0 (.upd 1 2)), (1, .commit)] ∧
    NoAbort .duck 0 [(0, .dml 0 (.ins 1 1)), (1, .dml 1 (.ins 7 7)), (0, .sel 1), (1, .begin), (0, .failBind true),
    (1, .dml 1 (.del 7)), (0, .dml 0 (.upd 1 2)), (1, .commit)] := by
  constructor <;> (intro e he hc; simp at he; rcases he with rfl | rfl | rfl | rfl | rfl | rfl | rfl | rfl <;> first | rfl | cases hc)

/-- the same history evaluated: before the COMMIT connection 1 reads nothing of table 0; after it, both rows' final state -/
example : (run .duck (Sys.init empty)
    [(0, .begin), (0, .dml 0 (.ins 1 1)), (1, .sel 0), (0, .dml 0 (.upd 1 2)), (0, .sel 0), (1, .sel 0), (0, .commit), (1, .sel 0)]).2
    = [.empty, .count 1, .rows [], .count 1, .rows [(1, 2)], .rows [], .empty, .rows [(1, 2)]] := by decide

/-- lazy snapshot: the transaction of connection 0 sees what connection 1 committed before 0's first
    table-touching statement, and nothing committed later -/
example : (run .duck (Sys.init empty)
    [(0, .begin), (0, .const), (1, .dml 1 (.ins 5 5)), (0, .sel 1), (1, .dml 1 (.ins 6 6)), (0, .sel 1), (0, .commit), (0, .sel 1)]).2
    = [.empty, .one, .count 1, .rows [(5, 5)], .count 1, .rows [(5, 5)], .empty, .rows [(5, 5), (6, 6)]] := by decide

/-- `envOk` is inhabited by a history with failing statements inside a transaction -/
example : envOk (Sys.init empty) [(0, .begin), (0, .failBind false), (0, .dml 0 (.ins 1 1)), (1, .failRun), (0, .commit)] = true := by
  decide

end Fs.C13
