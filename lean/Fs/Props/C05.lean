import Fs.Proofs.FetchSpec
/-!
# C05 — fetch calls hand out every result row once, in order, at full width

Statements only (helper lemmas are in `Fs/Proofs/Fetch*.lean`).  Everything is about `Fs.Fetch.run`,
the model of `cursor.py` `fetchone/fetchmany/fetchall/arraysize/_execute`-reset; the correspondence
check (`harness/props/c05.py`) ties `run` to the real cursor on every run.
-/
namespace Fs.C05
open Fs.Fetch

/-- cursor just after a statement that produced `rs`, with any arraysize -/
def executed {α} (rs : List α) (asz : Nat) : Cur α := { rows? := some rs, idx? := none, arraysize := asz }
def sexecuted {α} (rs : List α) (asz : Nat) : SCur α := { res? := some rs, pos := 0, arraysize := asz }

def NoExec {α} (ops : List (Op α)) : Prop := ∀ o ∈ ops, o.isExec = false

theorem sim_executed {α} (rs : List α) (asz : Nat) : Sim (executed rs asz) (sexecuted rs asz) := ⟨rfl, rfl, rfl⟩

/-- **Refinement**: from a fresh cursor, the code model answers every op sequence exactly like the
    abstract read-position cursor. -/
theorem C05_refines {α} (ops : List (Op α)) : (run ({} : Cur α) ops).1 = (srun ({} : SCur α) ops).1 :=
  (sim_run _ _ ops ⟨rfl, rfl, rfl⟩).1

/-- **Exactly once, in order**: after a statement producing `rs`, for *every* sequence of fetchone /
    fetchmany(k) / fetchmany() / fetchall / arraysize changes, the rows handed out so far, concatenated,
    are a prefix of `rs` (result order, no row twice, no row skipped). -/
theorem C05_prefix {α} (rs : List α) (asz : Nat) (ops : List (Op α)) (h : NoExec ops) :
    handedAll (run (executed rs asz) ops).1 <+: rs := by
  rw [(sim_run _ _ ops (sim_executed rs asz)).1]
  have := (srun_prefix (sexecuted rs asz) rs rfl ops h).1
  simp only [sexecuted, List.take_zero, List.nil_append] at this
  simp only [sexecuted, this]
  exact List.take_prefix _ _

/-- **Nothing is lost**: once a `fetchall` has been answered, the rows handed out, concatenated, *are*
    the result — every row exactly once. -/
theorem C05_fetchall_complete {α} (rs : List α) (asz : Nat) (ops : List (Op α)) (h : NoExec ops) :
    handedAll (run (executed rs asz) (ops ++ [.all])).1 = rs := by
  have hne : NoExec (ops ++ [Op.all (α := α)]) := by
    intro o ho
    rcases List.mem_append.mp ho with h' | h'
    · exact h o h'
    · simp at h'; subst h'; rfl
  rw [(sim_run _ _ _ (sim_executed rs asz)).1]
  have e := (srun_prefix (sexecuted rs asz) rs rfl _ hne).1
  simp only [sexecuted, List.take_zero, List.nil_append] at e
  simp only [sexecuted, e]
  exact List.take_of_length_le (srun_all_pos rs ops _ rfl h)

/-- **fetchone is the next row**: with `p` rows handed out so far, fetchone returns row `p` of the
    result, or None past the end. -/
theorem C05_fetchone_next {α} (rs : List α) (asz : Nat) (ops : List (Op α)) (h : NoExec ops) :
    (run (executed rs asz) (ops ++ [.one])).1.getLast? =
      some (.row (rs[(handedAll (run (executed rs asz) ops).1).length]?)) ∨
    rs.length ≤ (srun (sexecuted rs asz) ops).2.pos := by
  rcases Nat.lt_or_ge (srun (sexecuted rs asz) ops).2.pos rs.length with hlt | hge
  · left
    have hsim := sim_run _ _ ops (sim_executed rs asz)
    have e := (srun_prefix (sexecuted rs asz) rs rfl ops h).1
    simp only [sexecuted, List.take_zero, List.nil_append] at e
    have hlen : (handedAll (run (executed rs asz) ops).1).length = (srun (sexecuted rs asz) ops).2.pos := by
      rw [hsim.1]; simp only [sexecuted, e, List.length_take]; simp only [sexecuted] at hlt; omega
    rw [hlen, (sim_run _ _ _ (sim_executed rs asz)).1]
    have hres : (srun (sexecuted rs asz) ops).2.res? = some rs := by rw [srun_res _ _ h]; rfl
    clear e hlen hsim
    generalize sexecuted rs asz = s0 at *
    induction ops generalizing s0 with
    | nil => simp [srun, sstep] at *; simp [hres]
    | cons o os ih =>
      simp only [List.cons_append, srun] at *
      have := ih (fun o' ho' => h o' (by simp [ho'])) (sstep s0 o).2 hlt hres
      rw [List.getLast?_cons]
      cases hh : (srun (sstep s0 o).2 (os ++ [Op.one])).1.getLast? with
      | none => rw [hh] at this; cases this
      | some v => rw [hh] at this; simpa using this
  · right; exact hge

/-- **Exhaustion is for ever**: once `fetchall` has been answered, every later fetch (any kind, any
    arraysize) returns an empty list / None — never an error, never a row. -/
theorem C05_exhausted {α} (rs : List α) (asz : Nat) (ops more : List (Op α)) (h : NoExec ops) (hm : NoExec more) :
    ∀ o ∈ ((run (executed rs asz) (ops ++ [.all] ++ more)).1.drop (ops.length + 1)),
      o.handed = [] ∧ o ≠ .noResult := by
  rw [(sim_run _ _ _ (sim_executed rs asz)).1]
  have hpos := srun_all_pos rs ops (sexecuted rs asz) rfl h
  have hne : NoExec (ops ++ [Op.all (α := α)]) := by
    intro o ho
    rcases List.mem_append.mp ho with h' | h'
    · exact h o h'
    · simp at h'; subst h'; rfl
  have hres : (srun (sexecuted rs asz) (ops ++ [.all])).2.res? = some rs := by rw [srun_res _ _ hne]; rfl
  -- split the run at the fetchall
  have split : ∀ (a b : List (Op α)) (s : SCur α),
      (srun s (a ++ b)).1 = (srun s a).1 ++ (srun (srun s a).2 b).1 := by
    intro a b s
    induction a generalizing s with
    | nil => simp [srun]
    | cons x xs ih => simp [srun, ih]
  have hlen : ∀ (a : List (Op α)) (s : SCur α), (srun s a).1.length = a.length := by
    intro a s
    induction a generalizing s with
    | nil => simp [srun]
    | cons x xs ih => simp [srun, ih]
  rw [split (ops ++ [Op.all]) more (sexecuted rs asz)]
  rw [List.drop_append_of_le_length (by rw [hlen]; simp), List.drop_of_length_le (by rw [hlen]; simp), List.nil_append]
  generalize (srun (sexecuted rs asz) (ops ++ [Op.all])).2 = s1 at *
  induction more generalizing s1 with
  | nil => simp [srun]
  | cons m ms ih =>
    intro o ho
    simp only [srun, List.mem_cons] at ho
    have hx := sstep_exhausted s1 rs hres hpos m (hm m (by simp))
    rcases ho with rfl | ho
    · exact ⟨hx.1, hx.2.1⟩
    · exact ih (fun o' ho' => hm o' (by simp [ho'])) (sstep s1 m).2 hx.2.2
        (by rw [sstep_res _ _ (hm m (by simp)), hres]) o ho

/-- **No result set**: before any execute, every fetch raises the no-result-set error and nothing else. -/
theorem C05_no_result {α} (ops : List (Op α)) (h : NoExec ops) :
    ∀ o ∈ (run ({} : Cur α) ops).1, o = .noResult ∨ o = .unit := by
  rw [C05_refines]
  generalize hs : ({} : SCur α) = s0
  have hres : s0.res? = none := by subst hs; rfl
  clear hs
  induction ops generalizing s0 with
  | nil => simp [srun]
  | cons x xs ih =>
    intro o ho
    simp only [srun, List.mem_cons] at ho
    rcases ho with rfl | ho
    · cases x <;> simp [sstep, hres]
    · exact ih (fun o' ho' => h o' (by simp [ho'])) (sstep s0 x).2
        (by rw [sstep_res _ _ (h x (by simp)), hres]) o ho

/-- **fetch_pandas_all agrees with the rows**: at any point of any fetch sequence after a statement producing `rs`,
    `fetch_pandas_all` returns exactly `rs` (all of it, whatever has been fetched already) and leaves the read
    position where it was, so every later fetch answers as if it had not been called. -/
theorem C05_pandas_whole_result {α} (rs : List α) (asz : Nat) (ops more : List (Op α)) (h : NoExec ops) :
    (run (executed rs asz) (ops ++ .pandas :: more)).1 =
      (run (executed rs asz) ops).1 ++ .frame rs :: (run (run (executed rs asz) ops).2 more).1 := by
  have split : ∀ (a b : List (Op α)) (c : Cur α), (run c (a ++ b)).1 = (run c a).1 ++ (run (run c a).2 b).1 := by
    intro a b c
    induction a generalizing c with
    | nil => simp [run]
    | cons x xs ih => simp [run, ih]
  rw [split]
  congr 1
  have hrows : (run (executed rs asz) ops).2.rows? = some rs := by
    have hs := sim_run _ _ ops (sim_executed rs asz)
    rw [hs.2.1, srun_res _ _ h]; rfl
  simp only [run, step, hrows]

/-- **A failed execute leaves no result set**: whatever the cursor held, after an execute (or describe) that
    raised, every fetch raises the no-result-set error until the next successful execute — a stale result is
    never handed out. -/
theorem C05_failed_execute_no_result {α} (c : Cur α) (ops : List (Op α)) (h : NoExec ops) :
    ∀ o ∈ (run c (.fail :: ops)).1.tail, o = .noResult ∨ o = .unit := by
  have hs := sim_run (step c .fail).2 { res? := none, pos := 0, arraysize := c.arraysize } ops ⟨rfl, rfl, rfl⟩
  simp only [run, List.tail_cons]
  rw [hs.1]
  exact srun_no_result ops h _ rfl

/-- **A new execute replaces the old result set completely**: whatever happened before, after
    `execute` the cursor answers like a cursor that has only ever seen the new result (arraysize kept). -/
theorem C05_replace {α} (c : Cur α) (rs : List α) (ops : List (Op α)) :
    (run c (.exec rs :: ops)).1 = .unit :: (run (executed rs c.arraysize) ops).1 := by
  simp [run, step, executed]

/-- **Full width**: a tuple row has one element per result column, in column order, whatever the names. -/
theorem C05_width {β} (r : Row β) : tupleColumnwise r = r.map (·.2) ∧ (tupleColumnwise r).length = r.length := by
  simp [tupleColumnwise]

/-- **DictCursor**: when the column names are distinct, the dict row carries every value under its
    description name, in column order. -/
theorem C05_dict_keys {β} (r : Row β) (h : (r.map (·.1)).Nodup) : dictRow r = r := by
  induction r with
  | nil => rfl
  | cons p ps ih =>
    obtain ⟨k, v⟩ := p
    simp only [List.map_cons, List.nodup_cons] at h
    simp only [dictRow, toDict] at *
    rw [ih h.2]
    have : ps.find? (fun q => q.1 == k) = none := by
      rw [List.find?_eq_none]
      intro q hq hqk
      exact h.1 (by simp only [beq_iff_eq] at hqk; rw [← hqk]; exact List.mem_map_of_mem hq)
    simp [this]

/-- Regression witness for the repaired defect `C05/dup-column-names`: building tuples through the
    per-row dict (the code before the `fix:` commit) loses a column when names repeat. -/
theorem C05_dict_path_loses_width :
    (tupleViaDict [("A", 1), ("A", 2)]).length ≠ ([("A", 1), ("A", 2)] : Row Nat).length := by decide

/-- non-vacuity: a concrete history with interleaved kinds and an arraysize change -/
example : handedAll (run (executed [10, 11, 12, 13, 14] 2)
    [.one, .many 0, .setAs 1, .many 0, .many 3, .one, .all]).1 = [10, 11, 12, 13, 14] := by decide

end Fs.C05
