import Fs.Proofs.Split
import Fs.Model.Vars
/-!
# C16 — execute_string equals one-by-one execution; nop_regexes only no-op matches   (partial)

Statements only (lemmas: `Fs/Proofs/Split.lean`).  What is proved is fakesnow's own part: the literal re-render
round trip (sqlglot's Snowflake generator escaping ∘ its tokenizer = identity, for all strings), the statement
splitter, stop-at-first-failure / one cursor each, and the nop decision logic.  That sqlglot's parse→generate round
trip preserves the meaning of a whole *statement* is NOT proved; it is covered only by the twin-instance comparison of
`harness/props/c16.py`.
-/
namespace Fs.C16
open Fs.Lex Fs.Gen Fs.Split

/-! ## literals survive the re-render -/

/-- **Literal round trip**: for every string `s` — any unicode, quotes, `;`, `--`, `/*`, backslashes, control
    characters — the tokenizer reads the generator's rendering of `s` back as exactly `s`. -/
theorem C16_literal_roundtrip (s rest : List Char) (h : rest.head? ≠ some '\'') :
    lexFrom (.str []) (sfGen s ++ '\'' :: rest) = (lex rest).map (.str s :: ·) := by
  rw [lexFrom_append, run_str_sfGen, lexFrom_cons, step_str_quote']
  simp only [List.nil_append]
  rw [lexFrom_strQ _ rest h]
  cases lex rest <;> simp

/-- **A re-rendered literal is one token** wherever it stands between tokens: semicolons, quotes, comment
    markers and backslashes inside it never become statement structure. -/
theorem C16_literal_structure (pre post s : List Char) (tp : List Tok) (st : St)
    (hpre : run .top pre = (tp, st)) (hb : st.boundary = true) (hpost : post.head? ≠ some '\'') :
    lex (pre ++ sfLit s ++ post) = (lex pre).bind fun a => (lex post).map fun b => a ++ .str s :: b := by
  have hlexpre : lex pre = some (tp ++ pending st) := by simp [lex, lexFrom, hpre, finish_boundary st hb]
  simp only [List.append_assoc, hlexpre, Option.bind_some]
  rw [lex, lexFrom_append, hpre]
  simp only []
  rw [lexFrom_sfLit st hb s post hpost]
  cases lex post <;> simp

example : lex ("insert into t values (".toList ++ sfLit "a;b'--/*\\".toList ++ ");".toList) =
    some ("insertintotvalues(".toList.map .chr ++ [.str "a;b'--/*\\".toList, .chr ')', .semi]) := by decide

/-- **Comments are not statements and not part of them**: a block comment read at a token start yields no token,
    so the tokens of `/* … */ rest` are the tokens of `rest` — a statement with comments before and after it keeps exactly
    its own tokens (and is therefore never dropped by the splitter, which drops token-free parts only: `C16_split`). -/
theorem C16_block_comment_no_tokens (body rest : List Char) (h : '*' ∉ body) :
    lex ('/' :: '*' :: body ++ '*' :: '/' :: rest) = lex rest := by
  have hb := run_block_body body h
  have h1 : step .top '/' = ([], .slash) := by simp [step, stepTop]
  have h2 : step .slash '*' = ([], .block) := by simp [step]
  simp only [List.cons_append]
  rw [lex, lexFrom_cons, h1]
  simp only []
  rw [lexFrom_cons, h2]
  simp only []
  rw [show body ++ '*' :: '/' :: rest = (body ++ ['*', '/']) ++ rest by simp, lexFrom_append, hb]
  show Option.map _ (Option.map _ (Option.map _ (lexFrom St.top rest))) = lexFrom St.top rest
  cases lexFrom St.top rest <;> simp

example : stmtCount "/* a */ update t set v = 1 /* b */; -- x\n ; /* only */ ; select 1 -- t\n".toList = some 2 := by decide

/-- a byte order mark, zero-width and other unusual code points inside a literal are data like any other character -/
example : lex (sfLit ['a', Char.ofNat 0xFEFF, 'b', Char.ofNat 0x200B, Char.ofNat 0x2028]) =
    some [.str ['a', Char.ofNat 0xFEFF, 'b', Char.ofNat 0x200B, Char.ofNat 0x2028]] := by decide

/-- known finding C16/dollar-string-rerender-exposes-reference: `execute_string` re-renders a `$$…$$` string as `'…'`
    BEFORE the statement passes the variable phase.  In `$$$usd$$` no `$` is a reference (each has a `$` next to it), in
    the re-rendered `'$usd'` there is one: through `execute_string` the value becomes `'5'`, executed on its own it stays `$usd`. -/
theorem finding_C16_dollar_string_rerender :
    Fs.Vars.Impl.inline [("USD".toList, "5".toList)] "select $$$usd$$".toList = .ok "select $$$usd$$".toList ∧
    Fs.Vars.Impl.inline [("USD".toList, "5".toList)] ("select ".toList ++ sfLit "$usd".toList) = .ok "select '5'".toList := by
  decide

/-! ## splitting -/

/-- **`;` between tokens separates**: if `s1` leaves the tokenizer between tokens, the tokens of `s1 ; s2` are the
    tokens of `s1`, the separator, the tokens of `s2`. -/
theorem C16_semicolon_separates (s1 s2 : List Char) (t1 : List Tok) (st : St)
    (h1 : run .top s1 = (t1, st)) (hb : st.boundary = true) :
    lex (s1 ++ ';' :: s2) = (lex s2).map fun b => t1 ++ pending st ++ .semi :: b := by
  rw [lex, lexFrom_append, h1]
  simp only []
  rw [lexFrom_cons, step_boundary_semi st hb]
  simp only []
  show Option.map _ (Option.map _ (lex s2)) = _
  cases lex s2 <;> simp

/-- **Splitter**: joining any parts that contain no separator with `;` and splitting again gives back exactly
    the non-empty parts, in order — empty and comment-only statements (no tokens) are ignored. -/
theorem C16_split (parts : List (List Tok)) (h : ∀ p ∈ parts, semiFree p) :
    split (joinSemi parts) = parts.filter (fun q => !q.isEmpty) := by
  cases parts with
  | nil => simp [split, joinSemi, splitGo]
  | cons p ps =>
    rw [split, splitGo_join [] (p :: ps) h (by simp)]
    by_cases hp : p.isEmpty <;> simp [hp, List.filter_cons]

example : stmtCount "select 1; -- only comment\n ; ; /* c */ ; select ';' -- tail\n;".toList = some 2 := by decide

/-! ## one cursor per statement, stop at the first failure -/

/-- **Stops at the first failing statement with the earlier ones applied**: if the statements `a` all succeed
    (reaching world `w1` with results `ra`) and `s` fails in `w1`, then whatever follows is never executed: the world is
    the one `s` left, the results are those of `a`, the error is that of `s`. -/
theorem C16_stops_at_first_failure {W S R E} (exec : W → S → W × Except E R) (w : W) (a : List S) (s : S)
    (rest : List S) (w1 : W) (ra : List R) (ha : runAll exec w a = (w1, ra, none)) (w2 : W) (e : E)
    (hs : exec w1 s = (w2, .error e)) :
    runAll exec w (a ++ s :: rest) = (w2, ra, some e) :=
  runAll_append_fail exec w a s rest w1 ra ha w2 e hs

/-- **Inside an open transaction**: `begin; insert …; insert …; <failing statement>; …` leaves the transaction OPEN
    with every earlier insert applied in it (visible to the same connection, to be committed or rolled back by the
    caller) — exactly what one-by-one execution leaves; `execute_string` does not roll back on failure. -/
theorem C16_open_transaction_kept (c ns : List Nat) (rest : List TxS) :
    runAll txExec ⟨c, none⟩ (.begin :: ns.map .ins ++ .fail :: rest) =
      (⟨c, some (c ++ ns)⟩, () :: ns.map (fun _ => ()), some ()) := by
  have ha : runAll txExec ⟨c, none⟩ (.begin :: ns.map .ins) = (⟨c, some (c ++ ns)⟩, () :: ns.map (fun _ => ()), none) := by
    simp [runAll, txExec, runAll_tx_inserts]
  exact C16_stops_at_first_failure txExec ⟨c, none⟩ (.begin :: ns.map .ins) .fail rest _ _ ha _ () rfl

example : (runAll txExec ⟨[1], none⟩ [.begin, .ins 2, .fail, .ins 3]).1 = ⟨[1], some [1, 2]⟩ ∧
    (runAll txExec ⟨[1], none⟩ [.begin, .ins 2, .fail, .ins 3, .rollback]).1 = ⟨[1], some [1, 2]⟩ := by decide

/-- **One cursor each**: when no statement fails there are exactly as many results as statements. -/
theorem C16_one_cursor_each {W S R E} (exec : W → S → W × Except E R) (w : W) (ss : List S)
    (h : (runAll exec w ss).2.2 = none) : (runAll exec w ss).2.1.length = ss.length :=
  runAll_length exec w ss h

/-- the full statement: `execute_string` behaves like executing the statements one by one -/
def C16_Full : Prop :=
  ∀ (parses : Nat → Bool) (exec : Nat → Nat → Nat × Except Unit Nat) (w : Nat) (ss : List Nat),
    execString parses () exec w ss = oneByOne parses () exec w ss

/-- **Partial**: it does whenever every statement of the text parses. -/
theorem C16_exec_string_partial {W S R E} (parses : S → Bool) (pe : E) (exec : W → S → W × Except E R) (w : W)
    (ss : List S) (h : ss.all parses = true) : execString parses pe exec w ss = oneByOne parses pe exec w ss := by
  simp only [execString, h, if_true, oneByOne]
  apply runAll_congr
  intro w s hs
  have : parses s = true := List.all_eq_true.mp h s hs
  simp [this]

example : ([1, 2, 3] : List Nat).all (fun _ => true) = true := by decide

/-- known finding C16/unparseable-statement-executes-nothing: the whole text is parsed before anything runs, so an
    unparseable *later* statement keeps the earlier ones from being applied (world stays 0 instead of 1) -/
theorem finding_C16_unparseable_executes_nothing :
    execString (fun s => s != 9) () (fun w s => (w + s, Except.ok (ε := Unit) s)) 0 [1, 9] = (0, [], some ()) ∧
    oneByOne (fun s => s != 9) () (fun w s => (w + s, Except.ok (ε := Unit) s)) 0 [1, 9] = (1, [1], some ()) := by
  decide

theorem C16_full_false : ¬ C16_Full := by
  intro h
  have := h (fun s => s != 9) (fun w s => (w + s, Except.ok s)) 0 [1, 9]
  revert this; decide

/-! ## nop_regexes -/

/-- **A matching statement returns the success status and has no effect** (the world is untouched, whatever
    the statement is — it is not even parsed). -/
theorem C16_nop_matches {W R E P C} (pats : Option (List P)) (m : P → C → Bool) (ok : R) (exec : W → C → W × Except E R)
    (w : W) (cmd : C) (h : nopDecision pats m cmd = true) : executeNop pats m ok exec w cmd = (w, .ok ok) := by
  simp [executeNop, h]

/-- **No effect, in every history**: a matching statement can be deleted from any history of statements
    (COMMENT ON, ALTER … SET COMMENT, DML, … before and after it) without changing the final world — whatever the
    world consists of (rows, catalog, comment side tables). -/
theorem C16_nop_history {W R E P C} (pats : Option (List P)) (m : P → C → Bool) (ok : R) (exec : W → C → W × Except E R)
    (w : W) (pre post : List C) (cmd : C) (h : nopDecision pats m cmd = true) :
    runCmds pats m ok exec w (pre ++ cmd :: post) = runCmds pats m ok exec w (pre ++ post) := by
  induction pre generalizing w with
  | nil => simp [runCmds, executeNop, h]
  | cons c cs ih => simp [runCmds, ih]

/-- **Phase order, 1**: a statement whose preparation fails (undefined session variable, bad `%` arguments) raises
    that error whatever the nop patterns are — even a pattern that matches everything does not turn it into the success
    no-op; and nothing is executed. -/
theorem C16_prepare_error_before_nop {W R E P C T} (prep : C → Except E T) (pats : Option (List P)) (m : P → T → Bool)
    (ok : R) (exec : W → T → W × Except E R) (w : W) (cmd : C) (e : E) (h : prep cmd = .error e) :
    executePhased prep pats m ok exec w cmd = (w, .error e) := by
  simp [executePhased, h]

/-- **Phase order, 2**: the nop decision is taken on the PREPARED text (variables inlined, parameters substituted),
    not on the command as written: a statement is no-op'ed iff its prepared text matches. -/
theorem C16_nop_sees_prepared_text {W R E P C T} (prep : C → Except E T) (pats : Option (List P)) (m : P → T → Bool)
    (ok : R) (exec : W → T → W × Except E R) (w : W) (cmd : C) (t : T) (h : prep cmd = .ok t) :
    executePhased prep pats m ok exec w cmd = if nopDecision pats m t then (w, .ok ok) else exec w t := by
  simp [executePhased, h, executeNop]

/-- **Every other statement behaves exactly as without the option**. -/
theorem C16_nop_no_match {W R E P C} (pats : Option (List P)) (m : P → C → Bool) (ok : R) (exec : W → C → W × Except E R)
    (w : W) (cmd : C) (h : nopDecision pats m cmd = false) :
    executeNop pats m ok exec w cmd = executeNop (none : Option (List P)) m ok exec w cmd := by
  have h2 : nopDecision (none : Option (List P)) m cmd = false := rfl
  simp only [executeNop, h, h2]

/-- the decision is exactly "some configured pattern matches the command"; no patterns (None or []) never match -/
theorem C16_nop_decision {P C} (pats : Option (List P)) (m : P → C → Bool) (cmd : C) :
    nopDecision pats m cmd = true ↔ ∃ ps, pats = some ps ∧ ∃ p ∈ ps, m p cmd = true := by
  cases pats with
  | none => simp [nopDecision]
  | some ps => simp [nopDecision, List.any_eq_true]

end Fs.C16
