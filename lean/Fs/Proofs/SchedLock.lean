import Fs.Proofs.Sched
/-! C19: with the instance lock around the connect bootstrap, concurrent connects never fail
    (invariant proof over all schedules). -/
namespace Fs.Sched

/-- the connect ladder after the lock has been taken -/
def body (d s : Nat) : List Instr :=
  [.probe (.db d), .callIfAbsent (.db d) .create, .callIfAbsent (.db d) .setInfo,
   .probe (.schema d s), .callIfAbsent (.schema d s) .create, .probe (.schema d s), .release]

theorem connect_locked (d s : Nat) : connectStmt true d s = .acquire :: body d s := by
  simp [connectStmt, body]

/-- the lock holder is somewhere inside the ladder, and a pending conditional CREATE agrees with the engine state -/
def MidP (l : Loc) (g : Key → Val) : Prop :=
  ∃ d s n, n ≤ 6 ∧ l.cur = (body d s).drop n ∧
    (n = 1 → l.absent = !(g (.db d)).ex) ∧ (n = 4 → l.absent = !(g (.schema d s)).ex)

def Inv (c : Cfg) : Prop :=
  (∀ i, Res.err ∉ (c.loc i).out) ∧
  (∀ i, ∀ st ∈ (c.loc i).rest, ∃ d s, st = connectStmt true d s) ∧
  (∀ i, ((c.loc i).cur = [] ∧ (c.g .lock).held ≠ some i) ∨ ((c.g .lock).held = some i ∧ MidP (c.loc i) c.g))

theorem settle_ne (absent : Bool) (cur : List Instr) (rest : List Stmt) (x : Instr) (xs : List Instr)
    (h : skipCond absent cur = x :: xs) : settle absent cur rest = (x :: xs, rest) := by
  cases rest <;> simp [settle, h]

theorem turn_of_settle (c : Cfg) (i : Nat) (k : Key) (f : Val → Val × Loc) (h : stepOf i (c.loc i) = some (k, f)) :
    turn c i = { g := setG c.g k (f (c.g k)).1, loc := setLoc c.loc i (f (c.g k)).2 } := by
  unfold turn; rw [h]

/-- others are untouched when the holder `i` moves inside the ladder -/
theorem inv_holder_step (c : Cfg) (i : Nat) (hinv : Inv c) (hh : (c.g .lock).held = some i)
    (k : Key) (hk : k ≠ .lock) (v' : Val) (l' : Loc)
    (hout : Res.err ∉ l'.out) (hrest : l'.rest = (c.loc i).rest) (hmid : MidP l' (setG c.g k v')) :
    Inv { g := setG c.g k v', loc := setLoc c.loc i l' } := by
  obtain ⟨h1, h2, h3⟩ := hinv
  refine ⟨fun j => ?_, fun j => ?_, fun j => ?_⟩
  · by_cases hj : j = i
    · subst hj; simpa [setLoc] using hout
    · simpa [setLoc, hj] using h1 j
  · by_cases hj : j = i
    · subst hj; simp only [setLoc, if_true]; rw [hrest]; exact h2 j
    · simpa [setLoc, hj] using h2 j
  · have hl : (setG c.g k v' .lock) = c.g .lock := by simp [setG, Ne.symm hk]
    by_cases hj : j = i
    · subst hj; right; simp only [setLoc, if_true]; exact ⟨by rw [hl]; exact hh, hmid⟩
    · left
      simp only [setLoc, hj, if_false]
      rcases h3 j with ⟨hc, _⟩ | ⟨hhj, _⟩
      · refine ⟨hc, ?_⟩; rw [hl, hh]; intro e; exact hj (Option.some.inj e).symm
      · rw [hh] at hhj; exact absurd (Option.some.inj hhj).symm hj

theorem create_ok (v : Val) (h : v.ex = false) : (Op.create.apply v) = ({ v with ex := true }, .ok) := by
  simp [Op.apply, h]

theorem inv_turn (c : Cfg) (i : Nat) (hinv : Inv c) : Inv (turn c i) := by
  obtain ⟨h1, h2, h3⟩ := hinv
  rcases h3 i with ⟨hcur, hnot⟩ | ⟨hh, d, s, n, hn, hcur, hc1, hc4⟩
  · -- between statements
    cases hr : (c.loc i).rest with
    | nil =>
      have : stepOf i (c.loc i) = none := by simp [stepOf, hcur, hr, settle, skipCond]
      have e : turn c i = c := by unfold turn; rw [this]
      rw [e]; exact ⟨h1, h2, h3⟩
    | cons st r =>
      obtain ⟨d, s, rfl⟩ := h2 i st (by simp [hr])
      have hs : settle (c.loc i).absent (c.loc i).cur (c.loc i).rest = (.acquire :: body d s, r) := by
        rw [hcur, hr, connect_locked]
        cases r <;> simp [settle, skipCond]
      cases hheld : (c.g .lock).held with
      | some h =>
        have e : turn c i = c := by
          apply Cfg.ext'
          · intro k; unfold turn stepOf; rw [hs]; simp only [hheld]; simp [setG]; intro hk; subst hk; rfl
          · intro j; unfold turn stepOf; rw [hs]; simp only [hheld]; simp [setLoc]; intro hj; subst hj; rfl
        rw [e]; exact ⟨h1, h2, h3⟩
      | none =>
        have e : turn c i = { g := setG c.g .lock { (c.g .lock) with held := some i },
                               loc := setLoc c.loc i { (c.loc i) with cur := body d s, rest := r } } := by
          unfold turn stepOf; rw [hs]; simp only [hheld, if_true]
        rw [e]
        refine ⟨fun j => ?_, fun j => ?_, fun j => ?_⟩
        · by_cases hj : j = i
          · subst hj; simpa [setLoc] using h1 j
          · simpa [setLoc, hj] using h1 j
        · by_cases hj : j = i
          · subst hj; simp only [setLoc, if_true]; intro st hst; exact h2 j st (by simp [hr, hst])
          · simpa [setLoc, hj] using h2 j
        · by_cases hj : j = i
          · subst hj; right
            simp only [setLoc, if_true, setG]
            exact ⟨trivial, d, s, 0, by omega, rfl, by omega, by omega⟩
          · left
            simp only [setLoc, hj, if_false, setG, if_true]
            rcases h3 j with ⟨hc, _⟩ | ⟨hhj, _⟩
            · exact ⟨hc, fun e => hj (Option.some.inj e).symm⟩
            · rw [hheld] at hhj; cases hhj
  · -- the lock holder, at position n of the ladder
    have hinv : Inv c := ⟨h1, h2, h3⟩
    have hne1 : Key.db d ≠ Key.lock := by intro h; cases h
    have hne2 : Key.schema d s ≠ Key.lock := by intro h; cases h
    have hout : ∀ r, r ≠ Res.err → Res.err ∉ (c.loc i).out ++ [r] := by
      intro r hr hmem
      rcases List.mem_append.mp hmem with h | h
      · exact h1 i h
      · simp at h; exact hr h.symm
    have step : ∀ (k : Key) (f : Val → Val × Loc), stepOf i (c.loc i) = some (k, f) → k ≠ .lock →
        Res.err ∉ (f (c.g k)).2.out → (f (c.g k)).2.rest = (c.loc i).rest → MidP (f (c.g k)).2 (setG c.g k (f (c.g k)).1) →
        Inv (turn c i) := by
      intro k f hs hk ho hr hm
      rw [turn_of_settle c i k f hs]
      exact inv_holder_step c i hinv hh k hk _ _ ho hr hm
    -- the seven positions
    match n, hn with
    | 0, _ =>
      have hs : stepOf i (c.loc i) = some (.db d, fun v =>
          (v, { (c.loc i) with cur := (body d s).drop 1, rest := (c.loc i).rest, absent := !v.ex, out := (c.loc i).out ++ [.flag v.ex] })) := by
        unfold stepOf; rw [settle_ne _ _ _ (.probe (.db d)) ((body d s).drop 1) (by rw [hcur]; simp [body, skipCond])]
      refine step _ _ hs hne1 (hout _ (by simp)) rfl ⟨d, s, 1, by omega, rfl, ?_, by omega⟩
      intro _; simp [setG]
    | 1, _ =>
      cases habs : (c.loc i).absent with
      | true =>
        have hex : (c.g (.db d)).ex = false := by have := hc1 rfl; rw [habs] at this; simpa using this.symm
        have hs : stepOf i (c.loc i) = some (.db d, fun v =>
            let r := Op.create.apply v
            (r.1, { (c.loc i) with cur := if r.2 = .err then unwind ((body d s).drop 2) else (body d s).drop 2, rest := (c.loc i).rest,
                                    out := (c.loc i).out ++ [r.2] })) := by
          unfold stepOf
          rw [settle_ne _ _ _ (.callIfAbsent (.db d) .create) ((body d s).drop 2) (by rw [hcur, habs]; simp [body, skipCond])]
        refine step _ _ hs hne1 ?_ rfl ?_
        · simp only [create_ok _ hex]; exact hout _ (by simp)
        · simp only [create_ok _ hex]
          exact ⟨d, s, 2, by omega, by simp, by omega, by omega⟩
      | false =>
        have hs : stepOf i (c.loc i) = some (.schema d s, fun v =>
            (v, { (c.loc i) with cur := (body d s).drop 4, rest := (c.loc i).rest, absent := !v.ex, out := (c.loc i).out ++ [.flag v.ex] })) := by
          unfold stepOf
          rw [settle_ne _ _ _ (.probe (.schema d s)) ((body d s).drop 4) (by rw [hcur, habs]; simp [body, skipCond])]
        refine step _ _ hs hne2 (hout _ (by simp)) rfl ⟨d, s, 4, by omega, rfl, by omega, ?_⟩
        intro _; simp [setG]
    | 2, _ =>
      cases habs : (c.loc i).absent with
      | true =>
        have hs : stepOf i (c.loc i) = some (.db d, fun v =>
            let r := Op.setInfo.apply v
            (r.1, { (c.loc i) with cur := if r.2 = .err then unwind ((body d s).drop 3) else (body d s).drop 3, rest := (c.loc i).rest,
                                    out := (c.loc i).out ++ [r.2] })) := by
          unfold stepOf
          rw [settle_ne _ _ _ (.callIfAbsent (.db d) .setInfo) ((body d s).drop 3) (by rw [hcur, habs]; simp [body, skipCond])]
        refine step _ _ hs hne1 ?_ rfl ?_
        · simp only [Op.apply]; exact hout _ (by simp)
        · simp only [Op.apply]
          exact ⟨d, s, 3, by omega, by simp, by omega, by omega⟩
      | false =>
        have hs : stepOf i (c.loc i) = some (.schema d s, fun v =>
            (v, { (c.loc i) with cur := (body d s).drop 4, rest := (c.loc i).rest, absent := !v.ex, out := (c.loc i).out ++ [.flag v.ex] })) := by
          unfold stepOf
          rw [settle_ne _ _ _ (.probe (.schema d s)) ((body d s).drop 4) (by rw [hcur, habs]; simp [body, skipCond])]
        refine step _ _ hs hne2 (hout _ (by simp)) rfl ⟨d, s, 4, by omega, rfl, by omega, ?_⟩
        intro _; simp [setG]
    | 3, _ =>
      have hs : stepOf i (c.loc i) = some (.schema d s, fun v =>
          (v, { (c.loc i) with cur := (body d s).drop 4, rest := (c.loc i).rest, absent := !v.ex, out := (c.loc i).out ++ [.flag v.ex] })) := by
        unfold stepOf
        rw [settle_ne _ _ _ (.probe (.schema d s)) ((body d s).drop 4) (by rw [hcur]; simp [body, skipCond])]
      refine step _ _ hs hne2 (hout _ (by simp)) rfl ⟨d, s, 4, by omega, rfl, by omega, ?_⟩
      intro _; simp [setG]
    | 4, _ =>
      cases habs : (c.loc i).absent with
      | true =>
        have hex : (c.g (.schema d s)).ex = false := by have := hc4 rfl; rw [habs] at this; simpa using this.symm
        have hs : stepOf i (c.loc i) = some (.schema d s, fun v =>
            let r := Op.create.apply v
            (r.1, { (c.loc i) with cur := if r.2 = .err then unwind ((body d s).drop 5) else (body d s).drop 5, rest := (c.loc i).rest,
                                    out := (c.loc i).out ++ [r.2] })) := by
          unfold stepOf
          rw [settle_ne _ _ _ (.callIfAbsent (.schema d s) .create) ((body d s).drop 5) (by rw [hcur, habs]; simp [body, skipCond])]
        refine step _ _ hs hne2 ?_ rfl ?_
        · simp only [create_ok _ hex]; exact hout _ (by simp)
        · simp only [create_ok _ hex]
          exact ⟨d, s, 5, by omega, by simp, by omega, by omega⟩
      | false =>
        have hs : stepOf i (c.loc i) = some (.schema d s, fun v =>
            (v, { (c.loc i) with cur := (body d s).drop 6, rest := (c.loc i).rest, absent := !v.ex, out := (c.loc i).out ++ [.flag v.ex] })) := by
          unfold stepOf
          rw [settle_ne _ _ _ (.probe (.schema d s)) ((body d s).drop 6) (by rw [hcur, habs]; simp [body, skipCond])]
        exact step _ _ hs hne2 (hout _ (by simp)) rfl ⟨d, s, 6, by omega, rfl, by omega, by omega⟩
    | 5, _ =>
      have hs : stepOf i (c.loc i) = some (.schema d s, fun v =>
          (v, { (c.loc i) with cur := (body d s).drop 6, rest := (c.loc i).rest, absent := !v.ex, out := (c.loc i).out ++ [.flag v.ex] })) := by
        unfold stepOf
        rw [settle_ne _ _ _ (.probe (.schema d s)) ((body d s).drop 6) (by rw [hcur]; simp [body, skipCond])]
      exact step _ _ hs hne2 (hout _ (by simp)) rfl ⟨d, s, 6, by omega, rfl, by omega, by omega⟩
    | 6, _ =>
      have hs : stepOf i (c.loc i) = some (.lock, fun v =>
          ({ v with held := none }, { (c.loc i) with cur := [], rest := (c.loc i).rest })) := by
        unfold stepOf
        rw [settle_ne _ _ _ .release [] (by rw [hcur]; simp [body, skipCond])]
      rw [turn_of_settle c i _ _ hs]
      refine ⟨fun j => ?_, fun j => ?_, fun j => ?_⟩
      · by_cases hj : j = i
        · subst hj; simpa [setLoc] using h1 j
        · simpa [setLoc, hj] using h1 j
      · by_cases hj : j = i
        · subst hj; simpa [setLoc] using h2 j
        · simpa [setLoc, hj] using h2 j
      · left
        by_cases hj : j = i
        · subst hj; simp [setLoc, setG]
        · simp only [setLoc, hj, if_false, setG, if_true]
          rcases h3 j with ⟨hc, _⟩ | ⟨hhj, _⟩
          · exact ⟨hc, by simp⟩
          · rw [hh] at hhj; exact absurd (Option.some.inj hhj).symm hj

theorem inv_run (σ : List Nat) : ∀ c, Inv c → Inv (runSched c σ) := by
  induction σ with
  | nil => intro c h; exact h
  | cons i σ ih => intro c h; exact ih _ (inv_turn c i h)

end Fs.Sched
