import Fs.Proofs.Sched
/-! C19: with the instance lock around the connect bootstrap, concurrent connects never fail
    (invariant proof over all schedules). -/
namespace Fs.Sched

/-- the connect ladder after the lock has been taken -/
def body (d s : Nat) : List Instr :=
  [.probe (.db d), .callIfAbsent (.db d) .create, .callIfAbsent (.db d) .setInfo,
   .probe (.schema d s), .callIfAbsent (.schema d s) .create, .probe (.schema d s), .release 0]

/-- the ladder without the schema-creation rung (create_schema_on_connect off) -/
def bodyNS (d s : Nat) : List Instr :=
  [.probe (.db d), .callIfAbsent (.db d) .create, .callIfAbsent (.db d) .setInfo, .probe (.schema d s), .release 0]

/-- the part of the ladder a connect with flags (`cd`, `cs`) runs once it holds the lock -/
def entry (cd cs : Bool) (d s : Nat) : List Instr :=
  match cd, cs with
  | true, true => body d s
  | false, true => (body d s).drop 3
  | false, false => (body d s).drop 5
  | true, false => bodyNS d s

theorem connect_locked (cd cs : Bool) (d s : Nat) : connectWith (some 0) cd cs d s = .acquire 0 :: entry cd cs d s := by
  cases cd <;> cases cs <;> simp [connectWith, entry, body, bodyNS]

/-- the lock holder is somewhere inside the ladder, and a pending conditional CREATE agrees with the engine state -/
def MidP (l : Loc) (g : Key → Val) : Prop :=
  ∃ d s, (∃ n, n ≤ 6 ∧ l.cur = (body d s).drop n ∧
            (n = 1 → l.absent = !(g (.db d)).ex) ∧ (n = 4 → l.absent = !(g (.schema d s)).ex)) ∨
         (∃ m, m ≤ 2 ∧ l.cur = (bodyNS d s).drop m ∧ (m = 1 → l.absent = !(g (.db d)).ex))

def Inv (c : Cfg) : Prop :=
  (∀ i, Res.err ∉ (c.loc i).out) ∧
  (∀ i, ∀ st ∈ (c.loc i).rest, ∃ cd cs d s, st = connectWith (some 0) cd cs d s) ∧
  (∀ i, ((c.loc i).cur = [] ∧ (c.g (.lock 0)).held ≠ some i) ∨ ((c.g (.lock 0)).held = some i ∧ MidP (c.loc i) c.g))

theorem settle_ne (absent : Bool) (cur : List Instr) (rest : List Stmt) (x : Instr) (xs : List Instr)
    (h : skipCond absent cur = x :: xs) : settle absent cur rest = (x :: xs, rest) := by
  cases rest <;> simp [settle, h]

theorem turn_of_settle (c : Cfg) (i : Nat) (k : Key) (f : Val → Val × Loc) (h : stepOf i (c.loc i) = some (k, f)) :
    turn c i = { g := setG c.g k (f (c.g k)).1, loc := setLoc c.loc i (f (c.g k)).2 } := by
  unfold turn; rw [h]

/-- others are untouched when the holder `i` moves inside the ladder -/
theorem inv_holder_step (c : Cfg) (i : Nat) (hinv : Inv c) (hh : (c.g (.lock 0)).held = some i)
    (k : Key) (hk : k ≠ .lock 0) (v' : Val) (l' : Loc)
    (hout : Res.err ∉ l'.out) (hrest : l'.rest = (c.loc i).rest) (hmid : MidP l' (setG c.g k v')) :
    Inv { g := setG c.g k v', loc := setLoc c.loc i l' } := by
  obtain ⟨h1, h2, h3⟩ := hinv
  refine ⟨fun j => ?_, fun j => ?_, fun j => ?_⟩
  · by_cases hj : j = i
    · subst hj; simpa [setLoc] using hout
    · simpa [setLoc, hj] using h1 j
  · by_cases hj : j = i
    · subst hj; simp only [setLoc, if_true]; rw [hrest]; exact h2 j
    · simpa [setLoc, hj] using h2 j
  · have hl : (setG c.g k v' (.lock 0)) = c.g (.lock 0) := by simp [setG, Ne.symm hk]
    by_cases hj : j = i
    · subst hj; right; simp only [setLoc, if_true]; exact ⟨by rw [hl]; exact hh, hmid⟩
    · left
      simp only [setLoc, hj, if_false]
      rcases h3 j with ⟨hc, _⟩ | ⟨hhj, _⟩
      · refine ⟨hc, ?_⟩; rw [hl, hh]; intro e; exact hj (Option.some.inj e).symm
      · rw [hh] at hhj; exact absurd (Option.some.inj hhj).symm hj

theorem create_ok (v : Val) (h : v.ex = false) : (Op.create.apply v) = ({ v with ex := true }, .ok) := by
  simp [Op.apply, h]

theorem midA {l : Loc} {g : Key → Val} (d s n : Nat) (hn : n ≤ 6) (hc : l.cur = (body d s).drop n)
    (h1 : n = 1 → l.absent = !(g (.db d)).ex) (h4 : n = 4 → l.absent = !(g (.schema d s)).ex) : MidP l g :=
  ⟨d, s, Or.inl ⟨n, hn, hc, h1, h4⟩⟩

theorem midB {l : Loc} {g : Key → Val} (d s m : Nat) (hm : m ≤ 2) (hc : l.cur = (bodyNS d s).drop m)
    (h1 : m = 1 → l.absent = !(g (.db d)).ex) : MidP l g :=
  ⟨d, s, Or.inr ⟨m, hm, hc, h1⟩⟩

theorem entry_mid (cd cs : Bool) (d s : Nat) (l : Loc) (g : Key → Val) (hc : l.cur = entry cd cs d s) : MidP l g := by
  cases cd <;> cases cs
  · exact midA d s 5 (by omega) (by simpa [entry] using hc) (by omega) (by omega)
  · exact midA d s 3 (by omega) (by simpa [entry] using hc) (by omega) (by omega)
  · exact midB d s 0 (by omega) (by simpa [entry] using hc) (by omega)
  · exact midA d s 0 (by omega) (by simpa [entry] using hc) (by omega) (by omega)

theorem inv_turn (c : Cfg) (i : Nat) (hinv : Inv c) : Inv (turn c i) := by
  obtain ⟨h1, h2, h3⟩ := hinv
  rcases h3 i with ⟨hcur, hnot⟩ | ⟨hh, d, s, hmid⟩
  · -- between statements
    cases hr : (c.loc i).rest with
    | nil =>
      have : stepOf i (c.loc i) = none := by simp [stepOf, hcur, hr, settle, skipCond]
      have e : turn c i = c := by unfold turn; rw [this]
      rw [e]; exact ⟨h1, h2, h3⟩
    | cons st r =>
      obtain ⟨cd, cs, d, s, rfl⟩ := h2 i st (by simp [hr])
      have hs : settle (c.loc i).absent (c.loc i).cur (c.loc i).rest = (.acquire 0 :: entry cd cs d s, r) := by
        rw [hcur, hr, connect_locked]
        cases r <;> simp [settle, skipCond]
      cases hheld : (c.g (.lock 0)).held with
      | some h =>
        have e : turn c i = c := by
          apply Cfg.ext'
          · intro k; unfold turn stepOf; rw [hs]; simp only [hheld]; simp [setG]; intro hk; subst hk; rfl
          · intro j; unfold turn stepOf; rw [hs]; simp only [hheld]; simp [setLoc]; intro hj; subst hj; rfl
        rw [e]; exact ⟨h1, h2, h3⟩
      | none =>
        have e : turn c i = { g := setG c.g (.lock 0) { (c.g (.lock 0)) with held := some i },
                               loc := setLoc c.loc i { (c.loc i) with cur := entry cd cs d s, rest := r } } := by
          unfold turn stepOf; rw [hs]; simp only [hheld, if_true]
        rw [e]
        refine ⟨fun j => ?_, fun j => ?_, fun j => ?_⟩
        · by_cases hj : j = i
          · subst hj; simpa [setLoc] using h1 j
          · simpa [setLoc, hj] using h1 j
        · by_cases hj : j = i
          · subst hj; simp only [setLoc, if_true]; intro st hst; exact h2 j st (by simp [hr, hst])
          · simpa [setLoc, hj] using h2 j
        · by_cases hj : j = i
          · subst hj; right
            simp only [setLoc, if_true, setG]
            exact ⟨trivial, entry_mid cd cs d s _ _ rfl⟩
          · left
            simp only [setLoc, hj, if_false, setG, if_true]
            rcases h3 j with ⟨hc, _⟩ | ⟨hhj, _⟩
            · exact ⟨hc, fun e => hj (Option.some.inj e).symm⟩
            · rw [hheld] at hhj; cases hhj
  · -- the lock holder, somewhere in its ladder
    have hinv : Inv c := ⟨h1, h2, h3⟩
    have hne1 : Key.db d ≠ Key.lock 0 := by intro h; cases h
    have hne2 : Key.schema d s ≠ Key.lock 0 := by intro h; cases h
    have hout : ∀ r, r ≠ Res.err → Res.err ∉ (c.loc i).out ++ [r] := by
      intro r hr hmem
      rcases List.mem_append.mp hmem with h | h
      · exact h1 i h
      · simp at h; exact hr h.symm
    have step : ∀ (k : Key) (f : Val → Val × Loc), stepOf i (c.loc i) = some (k, f) → k ≠ .lock 0 →
        Res.err ∉ (f (c.g k)).2.out → (f (c.g k)).2.rest = (c.loc i).rest → MidP (f (c.g k)).2 (setG c.g k (f (c.g k)).1) →
        Inv (turn c i) := by
      intro k f hs hk ho hr hm
      rw [turn_of_settle c i k f hs]
      exact inv_holder_step c i hinv hh k hk _ _ ho hr hm
    -- the three kinds of step inside the ladder, for any remaining instruction list `tl`
    have probeStep : ∀ (k : Key) (tl : List Instr), k ≠ .lock 0 →
        skipCond (c.loc i).absent (c.loc i).cur = .probe k :: tl →
        (∀ g' : Key → Val, (∀ x, g' x = c.g x) →
          MidP { (c.loc i) with cur := tl, rest := (c.loc i).rest, absent := !(c.g k).ex, out := (c.loc i).out ++ [.flag (c.g k).ex] } g') →
        Inv (turn c i) := by
      intro k tl hk hsk hm
      have hs : stepOf i (c.loc i) = some (k, fun v =>
          (v, { (c.loc i) with cur := tl, rest := (c.loc i).rest, absent := !v.ex, out := (c.loc i).out ++ [.flag v.ex] })) := by
        unfold stepOf; rw [settle_ne _ _ _ _ _ hsk]
      refine step _ _ hs hk (hout _ (by simp)) rfl (hm _ ?_)
      intro x; simp [setG]; intro hx; subst hx; rfl
    have callStep : ∀ (k : Key) (op : Op) (tl : List Instr), k ≠ .lock 0 →
        skipCond (c.loc i).absent (c.loc i).cur = .callIfAbsent k op :: tl →
        (op.apply (c.g k)).2 = .ok →
        MidP { (c.loc i) with cur := tl, rest := (c.loc i).rest, out := (c.loc i).out ++ [.ok] } (setG c.g k (op.apply (c.g k)).1) →
        Inv (turn c i) := by
      intro k op tl hk hsk hok hm
      have hs : stepOf i (c.loc i) = some (k, fun v =>
          let r := op.apply v
          (r.1, { (c.loc i) with cur := if r.2 = .err then unwind tl else tl, rest := (c.loc i).rest,
                                  out := (c.loc i).out ++ [r.2] })) := by
        unfold stepOf; rw [settle_ne _ _ _ _ _ hsk]
      refine step _ _ hs hk ?_ rfl ?_
      · simp only [hok]; exact hout _ (by simp)
      · simp only [hok]; simpa using hm
    rcases hmid with ⟨n, hn, hcur, hc1, hc4⟩ | ⟨m, hm, hcur, hc1⟩
    · match n, hn with
      | 0, _ =>
        refine probeStep (.db d) ((body d s).drop 1) hne1 (by rw [hcur]; simp [body, skipCond]) (fun g' hg => ?_)
        exact midA d s 1 (by omega) rfl (fun _ => by simp [hg]) (by omega)
      | 1, _ =>
        cases habs : (c.loc i).absent with
        | true =>
          have hex : (c.g (.db d)).ex = false := by have := hc1 rfl; rw [habs] at this; simpa using this.symm
          refine callStep (.db d) .create ((body d s).drop 2) hne1 (by rw [hcur, habs]; simp [body, skipCond])
            (by simp [create_ok _ hex]) ?_
          exact midA d s 2 (by omega) rfl (by omega) (by omega)
        | false =>
          refine probeStep (.schema d s) ((body d s).drop 4) hne2 (by rw [hcur, habs]; simp [body, skipCond]) (fun g' hg => ?_)
          exact midA d s 4 (by omega) rfl (by omega) (fun _ => by simp [hg])
      | 2, _ =>
        cases habs : (c.loc i).absent with
        | true =>
          refine callStep (.db d) .setInfo ((body d s).drop 3) hne1 (by rw [hcur, habs]; simp [body, skipCond])
            (by simp [Op.apply]) ?_
          exact midA d s 3 (by omega) rfl (by omega) (by omega)
        | false =>
          refine probeStep (.schema d s) ((body d s).drop 4) hne2 (by rw [hcur, habs]; simp [body, skipCond]) (fun g' hg => ?_)
          exact midA d s 4 (by omega) rfl (by omega) (fun _ => by simp [hg])
      | 3, _ =>
        refine probeStep (.schema d s) ((body d s).drop 4) hne2 (by rw [hcur]; simp [body, skipCond]) (fun g' hg => ?_)
        exact midA d s 4 (by omega) rfl (by omega) (fun _ => by simp [hg])
      | 4, _ =>
        cases habs : (c.loc i).absent with
        | true =>
          have hex : (c.g (.schema d s)).ex = false := by have := hc4 rfl; rw [habs] at this; simpa using this.symm
          refine callStep (.schema d s) .create ((body d s).drop 5) hne2 (by rw [hcur, habs]; simp [body, skipCond])
            (by simp [create_ok _ hex]) ?_
          exact midA d s 5 (by omega) rfl (by omega) (by omega)
        | false =>
          refine probeStep (.schema d s) ((body d s).drop 6) hne2 (by rw [hcur, habs]; simp [body, skipCond]) (fun g' hg => ?_)
          exact midA d s 6 (by omega) rfl (by omega) (by omega)
      | 5, _ =>
        refine probeStep (.schema d s) ((body d s).drop 6) hne2 (by rw [hcur]; simp [body, skipCond]) (fun g' hg => ?_)
        exact midA d s 6 (by omega) rfl (by omega) (by omega)
      | 6, _ =>
        have hs : stepOf i (c.loc i) = some (.lock 0, fun v =>
            ({ v with held := none }, { (c.loc i) with cur := [], rest := (c.loc i).rest })) := by
          unfold stepOf
          rw [settle_ne _ _ _ (.release 0) [] (by rw [hcur]; simp [body, skipCond])]
        rw [turn_of_settle c i _ _ hs]
        refine ⟨fun j => ?_, fun j => ?_, fun j => ?_⟩
        · by_cases hj : j = i
          · subst hj; simpa [setLoc] using h1 j
          · simpa [setLoc, hj] using h1 j
        · by_cases hj : j = i
          · subst hj; simpa [setLoc] using h2 j
          · simpa [setLoc, hj] using h2 j
        · left
          by_cases hj : j = i
          · subst hj; simp [setLoc, setG]
          · simp only [setLoc, hj, if_false, setG, if_true]
            rcases h3 j with ⟨hc, _⟩ | ⟨hhj, _⟩
            · exact ⟨hc, by simp⟩
            · rw [hh] at hhj; exact absurd (Option.some.inj hhj).symm hj
    · -- ladder without the schema-creation rung
      match m, hm with
      | 0, _ =>
        refine probeStep (.db d) ((bodyNS d s).drop 1) hne1 (by rw [hcur]; simp [bodyNS, skipCond]) (fun g' hg => ?_)
        exact midB d s 1 (by omega) rfl (fun _ => by simp [hg])
      | 1, _ =>
        cases habs : (c.loc i).absent with
        | true =>
          have hex : (c.g (.db d)).ex = false := by have := hc1 rfl; rw [habs] at this; simpa using this.symm
          refine callStep (.db d) .create ((bodyNS d s).drop 2) hne1 (by rw [hcur, habs]; simp [bodyNS, skipCond])
            (by simp [create_ok _ hex]) ?_
          exact midB d s 2 (by omega) rfl (by omega)
        | false =>
          refine probeStep (.schema d s) ((body d s).drop 6) hne2 (by rw [hcur, habs]; simp [bodyNS, body, skipCond]) (fun g' hg => ?_)
          exact midA d s 6 (by omega) rfl (by omega) (by omega)
      | 2, _ =>
        cases habs : (c.loc i).absent with
        | true =>
          refine callStep (.db d) .setInfo ((body d s).drop 5) hne1 (by rw [hcur, habs]; simp [bodyNS, body, skipCond])
            (by simp [Op.apply]) ?_
          exact midA d s 5 (by omega) rfl (by omega) (by omega)
        | false =>
          refine probeStep (.schema d s) ((body d s).drop 6) hne2 (by rw [hcur, habs]; simp [bodyNS, body, skipCond]) (fun g' hg => ?_)
          exact midA d s 6 (by omega) rfl (by omega) (by omega)

theorem inv_run (σ : List Nat) : ∀ c, Inv c → Inv (runSched c σ) := by
  induction σ with
  | nil => intro c h; exact h
  | cons i σ ih => intro c h; exact ih _ (inv_turn c i h)

end Fs.Sched
