import Fs.Model.Cli
/-! Helper lemmas for C20 (command line part): how `split`, `classify`/`items` and `consume` treat the tokens of
    the argv grammar. -/
set_option linter.unusedSimpArgs false
namespace Fs.Cli

/-! ### plain words -/

theorem plain_cons {c : Char} {r : Tok} (h : plain (c :: r) = true) : c ≠ '-' := by
  simpa [plain, startsDash] using h

theorem plain_isM {v : Tok} (h : plain v = true) : isM v = false := by
  cases v with
  | nil => simp [isM]
  | cons c r =>
    have hc := plain_cons h
    simp only [isM, Bool.or_eq_false_iff, decide_eq_false_iff_not]
    constructor <;> intro h' <;> (injection h' with h1 _; exact hc h1)

theorem plain_isModAttached {v : Tok} (h : plain v = true) : isModAttached v = false := by
  cases v with
  | nil => simp [isModAttached, isPrefix]
  | cons c r =>
    have hc := plain_cons h
    have : ('-' == c) = false := by simp; exact fun h' => hc h'.symm
    simp [isModAttached, isPrefix, this]

theorem plain_startsDash {v : Tok} (h : plain v = true) : startsDash v = false := by
  simpa [plain] using h

theorem plain_ne_dd {v : Tok} (h : plain v = true) : v ≠ tDD := by
  intro e; subst e; simp [plain, startsDash, tDD] at h

theorem plain_classify {v : Tok} (h : plain v = true) : classify v = .arg := by
  cases v with
  | nil => rfl
  | cons c r => simp [classify, plain_cons h]

/-! ### `split` on grammar tokens -/

theorem split_cons (a : Tok) (rest : List Tok) (inFlag : Bool) :
    split (a :: rest) inFlag =
      if isM a then
        match rest with
        | [] => ([a], [])
        | v :: r => ([a, v], r)
      else if isModAttached a then ([a], rest)
      else if startsDash a then ((a :: (split rest (!selfContained a)).1), (split rest (!selfContained a)).2)
      else if !inFlag then ([a], rest)
      else (a :: (split rest false).1, (split rest false).2) := by
  rw [split.eq_def]
  rfl

theorem split_flag_value (l : Bool) (v : Tok) (rest : List Tok) (hv : plain v = true) :
    split ((if l then tDbPath else tD) :: v :: rest) false =
      ((if l then tDbPath else tD) :: v :: (split rest false).1, (split rest false).2) := by
  have h1 : isM (if l then tDbPath else tD) = false := by cases l <;> decide
  have h2 : isModAttached (if l then tDbPath else tD) = false := by cases l <;> decide
  have h3 : startsDash (if l then tDbPath else tD) = true := by cases l <;> decide
  have h4 : selfContained (if l then tDbPath else tD) = false := by cases l <;> decide
  rw [split_cons]
  simp only [h1, h2, h3, h4, if_true, Bool.false_eq_true, if_false, Bool.not_false]
  rw [split_cons]
  simp [plain_isM hv, plain_isModAttached hv, plain_startsDash hv]

theorem contains_eq_append (a : Tok) (v : Tok) : (a ++ '=' :: v).contains '=' = true := by
  simp

theorem split_dEq (v : Tok) (rest : List Tok) :
    split ((tDbPath ++ '=' :: v) :: rest) false =
      ((tDbPath ++ '=' :: v) :: (split rest false).1, (split rest false).2) := by
  have h1 : isM (tDbPath ++ '=' :: v) = false := by simp [isM, tDbPath]
  have h2 : isModAttached (tDbPath ++ '=' :: v) = false := by simp [isModAttached, isPrefix, tDbPath]
  have h3 : startsDash (tDbPath ++ '=' :: v) = true := by simp [startsDash, tDbPath]
  have h4 : selfContained (tDbPath ++ '=' :: v) = true := by
    simp [selfContained, startsDashDash, tDbPath]
  rw [split_cons]
  simp only [h1, h2, h3, h4, if_true, Bool.false_eq_true, if_false, Bool.not_true]

theorem split_dAtt (c : Char) (r : Tok) (rest : List Tok) :
    split ((tD ++ c :: r) :: rest) false =
      ((tD ++ c :: r) :: (split rest false).1, (split rest false).2) := by
  have h1 : isM (tD ++ c :: r) = false := by simp [isM, tD]
  have h2 : isModAttached (tD ++ c :: r) = false := by simp [isModAttached, isPrefix, tD]
  have h3 : startsDash (tD ++ c :: r) = true := by simp [startsDash, tD]
  have h4 : selfContained (tD ++ c :: r) = true := by
    simp [selfContained, startsDashDash, tD]
  rw [split_cons]
  simp only [h1, h2, h3, h4, if_true, Bool.false_eq_true, if_false, Bool.not_true]

/-- the tokens an option contributes are kept on fakesnow's side and the scan continues behind them -/
theorem split_opt (o : FsOpt) (ho : o.ok = true) (rest : List Tok) :
    split (o.toks ++ rest) false = (o.toks ++ (split rest false).1, (split rest false).2) := by
  cases o with
  | dSp l v => exact split_flag_value l v rest ho
  | dEq v => exact split_dEq v rest
  | dAtt v =>
    cases v with
    | nil => simp [FsOpt.ok] at ho
    | cons c r => exact split_dAtt c r rest

theorem split_opts (opts : List FsOpt) (h : ∀ o ∈ opts, o.ok = true) (rest : List Tok) :
    split (opts.flatMap FsOpt.toks ++ rest) false =
      (opts.flatMap FsOpt.toks ++ (split rest false).1, (split rest false).2) := by
  induction opts with
  | nil => simp
  | cons o os ih =>
    simp only [List.flatMap_cons, List.append_assoc]
    rw [split_opt o (h o (by simp)), ih (fun o' ho' => h o' (by simp [ho']))]

/-- the scan stops right behind the target -/
theorem split_target (t : Target) (ht : t.ok = true) (targs : List Tok) :
    split (t.toks ++ targs) false = (t.toks, targs) := by
  cases t with
  | path p =>
    simp only [Target.ok, Bool.and_eq_true] at ht
    simp only [Target.toks, List.cons_append, List.nil_append]
    rw [split_cons]
    simp [plain_isM ht.1, plain_isModAttached ht.1, plain_startsDash ht.1]
  | mSp l m =>
    have h1 : isM (if l then tModule else tMs) = true := by cases l <;> decide
    simp only [Target.toks, List.cons_append, List.nil_append]
    rw [split_cons]
    simp [h1]
  | mEq m =>
    have h1 : isM (tModule ++ '=' :: m) = false := by simp [isM, tModule]
    have h2 : isModAttached (tModule ++ '=' :: m) = true := by simp [isModAttached, isPrefix, tModule]
    simp only [Target.toks, List.cons_append, List.nil_append]
    rw [split_cons]
    simp [h1, h2]
  | mAtt m =>
    cases m with
    | nil => simp [Target.ok] at ht
    | cons c r =>
      have h1 : isM (tMs ++ c :: r) = false := by simp [isM, tMs]
      have h2 : isModAttached (tMs ++ c :: r) = true := by simp [isModAttached, isPrefix, tMs]
      simp only [Target.toks, List.cons_append, List.nil_append]
      rw [split_cons]
      simp [h1, h2]

theorem split_render (opts : List FsOpt) (t : Target) (targs : List Tok)
    (ho : ∀ o ∈ opts, o.ok = true) (ht : t.ok = true) :
    split (render opts t targs) false = (opts.flatMap FsOpt.toks ++ t.toks, targs) := by
  simp only [render, List.append_assoc]
  rw [split_opts opts ho, split_target t ht]

/-! ### classification of grammar tokens -/

/-- no option string has three or more characters and a single dash -/
theorem lookupOpt_single_dash (x c : Char) (r : Tok) (hx : x ≠ '-') : lookupOpt ('-' :: x :: c :: r) = none := by
  simp [lookupOpt, tH, tHelp, tD, tDbPath, tMs, tModule, hx]

/-- `split('=', 1)` of a short option with an attached value never yields an option string -/
theorem eqForm_attached (x c : Char) (r : Tok) (hx : x ≠ '=') (hx' : x ≠ '-') (hc : c ≠ '=') :
    eqForm ('-' :: x :: c :: r) = none := by
  have hd : ('-' : Char) ≠ '=' := by decide
  simp only [eqForm, splitEq, hd, hx, hc, if_false]
  cases splitEq r with
  | none => rfl
  | some p =>
    obtain ⟨a, b⟩ := p
    simp only [lookupOpt_single_dash x c a hx', Option.map_none]

theorem classify_dAtt (c : Char) (r : Tok) (hc : c ≠ '=') :
    classify (tD ++ c :: r) = .opt .db (some (c :: r)) true := by
  have hl := lookupOpt_single_dash 'd' c r (by decide)
  have hs := eqForm_attached 'd' c r (by decide) (by decide) hc
  have ht : tD ++ c :: r = '-' :: 'd' :: c :: r := rfl
  rw [ht, classify]
  simp only [hl, hs]
  simp [optionTuples, startsDashDash, lookupOpt, tH, tHelp, tD, tDbPath, tMs, tModule]

theorem classify_mAtt (c : Char) (r : Tok) (hc : c ≠ '=') :
    classify (tMs ++ c :: r) = .opt .mod (some (c :: r)) true := by
  have hl := lookupOpt_single_dash 'm' c r (by decide)
  have hs := eqForm_attached 'm' c r (by decide) (by decide) hc
  have ht : tMs ++ c :: r = '-' :: 'm' :: c :: r := rfl
  rw [ht, classify]
  simp only [hl, hs]
  simp [optionTuples, startsDashDash, lookupOpt, tH, tHelp, tD, tDbPath, tMs, tModule]

theorem classify_dEq (v : Tok) : classify (tDbPath ++ '=' :: v) = .opt .db (some v) false := by
  have ht : tDbPath ++ '=' :: v = '-' :: ('-' :: 'd' :: 'b' :: '_' :: 'p' :: 'a' :: 't' :: 'h' :: '=' :: v) := rfl
  have hl : lookupOpt ('-' :: ('-' :: 'd' :: 'b' :: '_' :: 'p' :: 'a' :: 't' :: 'h' :: '=' :: v)) = none := by
    simp [lookupOpt, tH, tHelp, tD, tDbPath, tMs, tModule]
  have hs : eqForm ('-' :: ('-' :: 'd' :: 'b' :: '_' :: 'p' :: 'a' :: 't' :: 'h' :: '=' :: v)) = some (.db, v, false) := by
    simp [eqForm, splitEq, lookupOpt, startsDashDash, tH, tHelp, tD, tDbPath, tMs, tModule]
  rw [ht, classify]
  simp only [hl, hs]
  simp

theorem classify_mEq (v : Tok) : classify (tModule ++ '=' :: v) = .opt .mod (some v) false := by
  have ht : tModule ++ '=' :: v = '-' :: ('-' :: 'm' :: 'o' :: 'd' :: 'u' :: 'l' :: 'e' :: '=' :: v) := rfl
  have hl : lookupOpt ('-' :: ('-' :: 'm' :: 'o' :: 'd' :: 'u' :: 'l' :: 'e' :: '=' :: v)) = none := by
    simp [lookupOpt, tH, tHelp, tD, tDbPath, tMs, tModule]
  have hs : eqForm ('-' :: ('-' :: 'm' :: 'o' :: 'd' :: 'u' :: 'l' :: 'e' :: '=' :: v)) = some (.mod, v, false) := by
    simp [eqForm, splitEq, lookupOpt, startsDashDash, tH, tHelp, tD, tDbPath, tMs, tModule]
  rw [ht, classify]
  simp only [hl, hs]
  simp

/-! ### `items` and `consume` on grammar tokens -/

def FsOpt.items : FsOpt → List Item
  | .dSp l v => [.O .db none (!l), .A v]
  | .dEq v => [.O .db (some v) false]
  | .dAtt v => [.O .db (some v) true]

def Target.items : Target → List Item
  | .path p => [.A p]
  | .mSp l m => [.O .mod none (!l), .A m]
  | .mEq m => [.O .mod (some m) false]
  | .mAtt m => [.O .mod (some m) true]

theorem items_opt (o : FsOpt) (ho : o.ok = true) (rest : List Tok) :
    items (o.toks ++ rest) = (items rest).map (o.items ++ ·) := by
  cases o with
  | dSp l v =>
    have h1 : (if l then tDbPath else tD) ≠ tDD := by cases l <;> decide
    have h2 : classify (if l then tDbPath else tD) = .opt .db none (!l) := by cases l <;> decide
    simp only [FsOpt.toks, List.cons_append, List.nil_append, FsOpt.items]
    rw [items]; simp only [h1, if_false, h2]
    rw [items]; simp only [plain_ne_dd ho, if_false, plain_classify ho]
    cases items rest <;> simp
  | dEq v =>
    have h1 : tDbPath ++ '=' :: v ≠ tDD := by simp [tDbPath, tDD]
    simp only [FsOpt.toks, List.cons_append, List.nil_append, FsOpt.items]
    rw [items]; simp only [h1, if_false, classify_dEq]
  | dAtt v =>
    cases v with
    | nil => simp [FsOpt.ok] at ho
    | cons c r =>
      have hc : c ≠ '=' := by simpa [FsOpt.ok] using ho
      have h1 : tD ++ c :: r ≠ tDD := by simp [tD, tDD]
      simp only [FsOpt.toks, List.cons_append, List.nil_append, FsOpt.items]
      rw [items]; simp only [h1, if_false, classify_dAtt c r hc]

theorem items_opts (opts : List FsOpt) (h : ∀ o ∈ opts, o.ok = true) (rest : List Tok) :
    items (opts.flatMap FsOpt.toks ++ rest) = (items rest).map (opts.flatMap FsOpt.items ++ ·) := by
  induction opts with
  | nil => simp
  | cons o os ih =>
    simp only [List.flatMap_cons, List.append_assoc]
    rw [items_opt o (h o (by simp)), ih (fun o' ho' => h o' (by simp [ho']))]
    cases items rest <;> simp

theorem items_target (t : Target) (ht : t.ok = true) : items t.toks = some t.items := by
  cases t with
  | path p =>
    simp only [Target.ok, Bool.and_eq_true] at ht
    simp only [Target.toks, Target.items]
    rw [items]; simp only [plain_ne_dd ht.1, if_false, plain_classify ht.1]
    simp [items]
  | mSp l m =>
    simp only [Target.ok, Bool.and_eq_true] at ht
    have h1 : (if l then tModule else tMs) ≠ tDD := by cases l <;> decide
    have h2 : classify (if l then tModule else tMs) = .opt .mod none (!l) := by cases l <;> decide
    simp only [Target.toks, Target.items]
    rw [items]; simp only [h1, if_false, h2]
    rw [items]; simp only [plain_ne_dd ht.1, if_false, plain_classify ht.1]
    simp [items]
  | mEq m =>
    have h1 : tModule ++ '=' :: m ≠ tDD := by simp [tModule, tDD]
    simp only [Target.toks, Target.items]
    rw [items]; simp only [h1, if_false, classify_mEq]
    simp [items]
  | mAtt m =>
    cases m with
    | nil => simp [Target.ok] at ht
    | cons c r =>
      have hc : c ≠ '=' := by simpa [Target.ok] using ht
      have h1 : tMs ++ c :: r ≠ tDD := by simp [tMs, tDD]
      simp only [Target.toks, Target.items]
      rw [items]; simp only [h1, if_false, classify_mAtt c r hc]
      simp [items]

/-- parser state while only fakesnow options have been seen -/
def optState (db : Option Tok) : PState := { db := db }

theorem consume_opt (o : FsOpt) (rest : List Item) (db : Option Tok) :
    consume (o.items ++ rest) (optState db) = consume rest (optState (some o.value)) := by
  cases o <;> simp [FsOpt.items, consume, optState, FsOpt.value]

theorem consume_opts (opts : List FsOpt) (rest : List Item) (db : Option Tok) :
    consume (opts.flatMap FsOpt.items ++ rest) (optState db) = consume rest (optState (lastDb opts db)) := by
  induction opts generalizing db with
  | nil => simp [lastDb]
  | cons o os ih =>
    simp only [List.flatMap_cons, List.append_assoc, lastDb]
    rw [consume_opt, ih]

/-- the Namespace argparse must produce for a target -/
def Target.parsed (t : Target) (db : Option Tok) : PRes :=
  match t with
  | .path p => .ok db none (some p)
  | t => .ok db (some t.name) none

theorem consume_target (t : Target) (db : Option Tok) :
    consume t.items (optState db) = t.parsed db := by
  cases t <;> simp [Target.items, consume, optState, Target.name, Target.parsed]

theorem parse_grammar (opts : List FsOpt) (t : Target) (ho : ∀ o ∈ opts, o.ok = true) (ht : t.ok = true) :
    parseArgs (opts.flatMap FsOpt.toks ++ t.toks) = t.parsed (lastDb opts none) := by
  unfold parseArgs
  rw [items_opts opts ho, items_target t ht]
  simp only [Option.map_some]
  have : ({} : PState) = optState none := rfl
  rw [this, consume_opts, consume_target]

end Fs.Cli
