import Fs.Model.Meta
/-! Helper lemmas for C09 (metadata side tables). -/
namespace Fs.Meta

/-- the side tables say about `t` exactly what was declared -/
def TabOK (tExt : List (Key × Nat)) (cExt : List (Key × Name × Nat)) (t : Tab) : Prop :=
  lookupT tExt t.key = t.comment ∧ ∀ c ∈ t.cols, ∀ n, c.ty = .text n → lookupC cExt t.key c.name = some n

theorem agrees_iff (w : World) (t : Tab) : t.agrees w = true ↔ TabOK w.tExt w.cExt t := by
  simp only [Tab.agrees, TabOK, Bool.and_eq_true, beq_iff_eq, List.all_eq_true]
  constructor
  · rintro ⟨h1, h2⟩
    refine ⟨h1, fun c hc n hn => ?_⟩
    have := h2 c hc
    simpa [hn] using this
  · rintro ⟨h1, h2⟩
    refine ⟨h1, fun c hc => ?_⟩
    cases hty : c.ty <;> simp
    exact h2 c hc _ hty

theorem agree_iff (w : World) : w.agree = true ↔ ∀ t ∈ w.tabs, TabOK w.tExt w.cExt t := by
  simp only [World.agree, List.all_eq_true, agrees_iff]

/-! ### frame lemmas for the side tables -/

theorem lookupT_cons_ne (e : List (Key × Nat)) (k k' : Key) (c : Nat) (h : k' ≠ k) :
    lookupT ((k, c) :: e) k' = lookupT e k' := by
  simp [lookupT, Ne.symm h]

theorem lookupT_cons_eq (e : List (Key × Nat)) (k : Key) (c : Nat) : lookupT ((k, c) :: e) k = some c := by
  simp [lookupT]

theorem lookupC_append_other (rows e : List (Key × Name × Nat)) (k : Key) (c : Name)
    (h : ∀ r ∈ rows, ¬ (r.1 = k ∧ r.2.1 = c)) : lookupC (rows ++ e) k c = lookupC e k c := by
  induction rows with
  | nil => rfl
  | cons r rs ih =>
    have hr := h r (by simp)
    have : (r.1 == k && r.2.1 == c) = false := by
      cases h1 : (r.1 == k) <;> cases h2 : (r.2.1 == c) <;> simp_all
    simp only [lookupC, List.cons_append, List.find?_cons, this]
    exact ih (fun r' hr' => h r' (by simp [hr']))

theorem textRows_key (k : Key) (cols : List Col) : ∀ r ∈ textRows k cols, r.1 = k := by
  intro r hr
  simp only [textRows, List.mem_filterMap] at hr
  obtain ⟨c, _, hc⟩ := hr
  cases h : c.textLen <;> simp [h] at hc
  rw [← hc]

theorem textRows_name (k : Key) (cols : List Col) : ∀ r ∈ textRows k cols, ∃ c ∈ cols, c.name = r.2.1 := by
  intro r hr
  simp only [textRows, List.mem_filterMap] at hr
  obtain ⟨c, hc, hcr⟩ := hr
  cases h : c.textLen <;> simp [h] at hcr
  exact ⟨c, hc, by rw [← hcr]⟩

/-- with distinct column names the newest rows give every text column its own declared length -/
theorem lookupC_textRows (k : Key) (cols : List Col) (e : List (Key × Name × Nat))
    (hd : (cols.map (·.name)).Nodup) : ∀ c ∈ cols, ∀ n, c.ty = .text n → lookupC (textRows k cols ++ e) k c.name = some n := by
  induction cols with
  | nil => intro c hc; cases hc
  | cons x xs ih =>
    intro c hc n hn
    simp only [List.map_cons, List.nodup_cons] at hd
    rcases List.mem_cons.mp hc with rfl | hc'
    · simp [textRows, Col.textLen, hn, lookupC]
    · have hne : x.name ≠ c.name := fun e' => hd.1 (by rw [e']; exact List.mem_map_of_mem hc')
      have ih' := ih hd.2 c hc' n hn
      cases hx : x.textLen with
      | none =>
        have : textRows k (x :: xs) = textRows k xs := by simp [textRows, hx]
        rw [this]; exact ih'
      | some m =>
        have : textRows k (x :: xs) = (k, x.name, m) :: textRows k xs := by simp [textRows, hx]
        rw [this]
        have hb : ((k == k) && (x.name == c.name)) = false := by simp [hne]
        simp only [lookupC, List.cons_append, List.find?_cons, hb]
        exact ih'

/-! ### the live catalog -/

theorem find_some {w : World} {k : Key} {t : Tab} (h : w.find k = some t) : t ∈ w.tabs ∧ t.key = k := by
  simp only [World.find] at h
  exact ⟨List.mem_of_find?_eq_some h, by simpa using List.find?_some h⟩

theorem find_of_nodup (l : List Tab) (hu : (l.map (·.key)).Nodup) {t : Tab} (ht : t ∈ l) :
    l.find? (·.key == t.key) = some t := by
  induction l with
  | nil => cases ht
  | cons x xs ih =>
    simp only [List.map_cons, List.nodup_cons] at hu
    rcases List.mem_cons.mp ht with rfl | ht'
    · simp
    · have : x.key ≠ t.key := fun e => hu.1 (by rw [e]; exact List.mem_map_of_mem ht')
      have hb : (x.key == t.key) = false := by simp [this]
      simp only [List.find?_cons, hb]
      exact ih hu.2 ht'

theorem find_of_uniq {w : World} (hu : w.uniq) {t : Tab} (ht : t ∈ w.tabs) : w.find t.key = some t :=
  find_of_nodup w.tabs hu ht

theorem find_none_not_mem {w : World} {k : Key} (h : w.find k = none) : ∀ t ∈ w.tabs, t.key ≠ k := by
  intro t ht e
  simp only [World.find, List.find?_eq_none] at h
  exact h t ht (by simp [e])

theorem uniq_remove_append (w : World) (k : Key) (t : Tab) (hu : w.uniq) (hk : t.key = k) :
    ((w.remove k ++ [t]).map (·.key)).Nodup := by
  unfold World.uniq at hu
  simp only [World.remove, List.map_append, List.map_cons, List.map_nil]
  rw [List.nodup_append]
  refine ⟨?_, by simp, ?_⟩
  · exact (List.Nodup.sublist (List.Sublist.map _ (List.filter_sublist)) hu)
  · intro a ha b hb
    simp at hb; subst hb
    simp only [List.mem_map, List.mem_filter] at ha
    obtain ⟨x, ⟨_, hx⟩, rfl⟩ := ha
    rw [hk]; simpa using hx

theorem uniq_filter (w : World) (p : Tab → Bool) (hu : w.uniq) : ((w.tabs.filter p).map (·.key)).Nodup :=
  List.Nodup.sublist (List.Sublist.map _ (List.filter_sublist)) hu

theorem map_keys_same (l : List Tab) (f : Tab → Tab) (h : ∀ x, (f x).key = x.key) : (l.map f).map (·.key) = l.map (·.key) := by
  simp [List.map_map, Function.comp_def, h]


/-- invariant: keys are unique and the side tables agree with every live object -/
def Inv (w : World) : Prop := w.uniq ∧ ∀ t ∈ w.tabs, TabOK w.tExt w.cExt t

theorem tabOK_frame {tExt tExt' : List (Key × Nat)} {cExt cExt' : List (Key × Name × Nat)} {t : Tab}
    (h : TabOK tExt cExt t) (h1 : lookupT tExt' t.key = lookupT tExt t.key)
    (h2 : ∀ c, lookupC cExt' t.key c = lookupC cExt t.key c) : TabOK tExt' cExt' t :=
  ⟨by rw [h1]; exact h.1, fun c hc n hn => by rw [h2]; exact h.2 c hc n hn⟩

theorem no_text_ok {cols : List Col} (h : hasText cols = false) : ∀ c ∈ cols, ∀ n, c.ty ≠ .text n := by
  intro c hc n hn
  simp only [hasText, List.any_eq_false] at h
  exact h c hc (by simp [hn, Ty.isText])

/-- a new object placed under `k` (everything else with that key removed), side tables extended by rows of key `k` only -/
theorem inv_replace (w : World) (k : Key) (t : Tab) (tExt' : List (Key × Nat)) (cExt' : List (Key × Name × Nat))
    (hinv : Inv w) (hk : t.key = k) (hnew : TabOK tExt' cExt' t)
    (hT : ∀ k', k' ≠ k → lookupT tExt' k' = lookupT w.tExt k')
    (hC : ∀ k' c, k' ≠ k → lookupC cExt' k' c = lookupC w.cExt k' c) :
    Inv ⟨w.remove k ++ [t], tExt', cExt'⟩ := by
  refine ⟨uniq_remove_append w k t hinv.1 hk, ?_⟩
  intro x hx
  simp only [List.mem_append, List.mem_singleton, World.remove, List.mem_filter] at hx
  rcases hx with ⟨hx, hne⟩ | rfl
  · have hne' : x.key ≠ k := by simpa using hne
    exact tabOK_frame (hinv.2 x hx) (hT _ hne') (fun c => hC _ c hne')
  · exact hnew

/-- an update of the objects stored under `k` that keeps their keys; side tables extended by rows of key `k` only -/
theorem inv_update (w : World) (k : Key) (f : Tab → Tab) (tExt' : List (Key × Nat)) (cExt' : List (Key × Name × Nat))
    (hinv : Inv w) (hkey : ∀ x, (f x).key = x.key)
    (hnew : ∀ x ∈ w.tabs, x.key = k → TabOK tExt' cExt' (f x))
    (hT : ∀ k', k' ≠ k → lookupT tExt' k' = lookupT w.tExt k')
    (hC : ∀ k' c, k' ≠ k → lookupC cExt' k' c = lookupC w.cExt k' c) :
    Inv ⟨w.tabs.map fun x => if x.key == k then f x else x, tExt', cExt'⟩ := by
  constructor
  · unfold World.uniq
    rw [map_keys_same]
    · exact hinv.1
    · intro x; split <;> simp [hkey]
  · intro y hy
    simp only [List.mem_map] at hy
    obtain ⟨x, hx, rfl⟩ := hy
    by_cases hxk : x.key = k
    · simp only [hxk, beq_self_eq_true, if_true]
      exact hnew x hx hxk
    · have : (x.key == k) = false := by simp [hxk]
      simp only [this]
      exact tabOK_frame (hinv.2 x hx) (hT _ hxk) (fun c => hC _ c hxk)


theorem lookupC_rows_other (k : Key) (cols : List Col) (e : List (Key × Name × Nat)) (k' : Key) (c : Name) (h : k' ≠ k) :
    lookupC (textRows k cols ++ e) k' c = lookupC e k' c :=
  lookupC_append_other _ _ _ _ (fun r hr hh => h (by rw [← hh.1]; exact (textRows_key k cols r hr)))

theorem inv_createTable (w : World) (k : Key) (cols : List Col) (comment : Option Nat) (rep : Bool) (pk : Option Name)
    (hinv : Inv w) (hreg : region w (.createTable k cols comment rep pk) = none) :
    Inv (step w (.createTable k cols comment rep pk)).2 := by
  simp only [step]
  split
  · exact hinv
  · rename_i hcond
    simp only [Bool.or_eq_true, Bool.not_eq_true', not_or, Bool.not_eq_true, Bool.not_eq_false] at hcond
    have hd : (cols.map (·.name)).Nodup := by
      have := hcond.1.1.2; simpa [distinctNames] using this
    apply inv_replace w k _ _ _ hinv rfl
    · constructor
      · cases comment with
        | some c => exact lookupT_cons_eq _ _ _
        | none =>
          simp only [region] at hreg
          cases hl : lookupT w.tExt k with
          | none => simp
          | some v => simp [hl] at hreg
      · exact lookupC_textRows k cols w.cExt hd
    · intro k' hne
      cases comment with
      | some c => exact lookupT_cons_ne _ _ _ _ hne
      | none => rfl
    · intro k' c hne
      exact lookupC_rows_other k cols w.cExt k' c hne

/-- CTAS / CLONE / CREATE VIEW outside their regions: no text column, no comment, no stale comment row -/
theorem inv_copy (w : World) (k : Key) (isView : Bool) (cols : List Col) (comment : Option Nat) (hinv : Inv w)
    (hnt : hasText cols = false) (hc : comment = none) (hstale : lookupT w.tExt k = none) :
    Inv ⟨w.remove k ++ [⟨k, isView, cols, comment, none⟩], w.tExt, w.cExt⟩ := by
  apply inv_replace w k _ _ _ hinv rfl
  · refine ⟨by simp [hstale, hc], fun c hcm n hn => absurd hn (no_text_ok hnt c hcm n)⟩
  · intro _ _; rfl
  · intro _ _ _; rfl


theorem stale_none_of {w : World} {k : Key} {x : Option Finding}
    (h : (if (lookupT w.tExt k).isSome = true then some Finding.staleComment else x) = none) : lookupT w.tExt k = none := by
  cases hl : lookupT w.tExt k with
  | none => rfl
  | some v => simp [hl] at h

theorem inv_ctas (w : World) (k src : Key) (sel : List Name) (rep : Bool) (hinv : Inv w)
    (hreg : region w (.ctas k src sel rep) = none) : Inv (step w (.ctas k src sel rep)).2 := by
  simp only [step]
  cases hs : w.find src with
  | none => exact hinv
  | some s =>
    simp only
    cases hsel : selectCols s.cols sel with
    | none => exact hinv
    | some cols =>
      simp only
      split
      · exact hinv
      · simp only [region, hs, hsel, Option.getD_some] at hreg
        cases ht : hasText cols with
        | true => simp [ht] at hreg
        | false =>
          simp only [ht, Bool.false_eq_true, if_false] at hreg
          exact inv_copy w k false cols none hinv ht rfl (stale_none_of hreg)

theorem inv_createView (w : World) (k src : Key) (sel : List Name) (rep : Bool) (hinv : Inv w)
    (hreg : region w (.createView k src sel rep) = none) : Inv (step w (.createView k src sel rep)).2 := by
  simp only [step]
  cases hs : w.find src with
  | none => exact hinv
  | some s =>
    simp only
    cases hsel : selectCols s.cols sel with
    | none => exact hinv
    | some cols =>
      simp only
      split
      · exact hinv
      · simp only [region, hs, hsel, Option.getD_some] at hreg
        cases ht : hasText cols with
        | true => simp [ht] at hreg
        | false =>
          simp only [ht, Bool.false_eq_true, if_false] at hreg
          exact inv_copy w k true cols none hinv ht rfl (stale_none_of hreg)

theorem inv_clone (w : World) (k src : Key) (rep : Bool) (hinv : Inv w)
    (hreg : region w (.clone k src rep) = none) : Inv (step w (.clone k src rep)).2 := by
  simp only [step]
  cases hs : w.find src with
  | none => exact hinv
  | some s =>
    simp only
    split
    · exact hinv
    · simp only [region, hs] at hreg
      cases ht : hasText s.cols with
      | true => simp [ht] at hreg
      | false =>
        cases hc : s.comment with
        | some c => simp [ht, hc] at hreg
        | none =>
          simp only [ht, hc, Option.isSome_none, Bool.or_self, Bool.false_eq_true, if_false] at hreg
          exact inv_copy w k false s.cols none hinv ht rfl (stale_none_of hreg)

theorem inv_drop (w : World) (k : Key) (hinv : Inv w) : Inv { w with tabs := w.remove k } :=
  ⟨uniq_filter w _ hinv.1, fun t ht => hinv.2 t (List.mem_filter.mp ht).1⟩


theorem inv_addCol (w : World) (k : Key) (c : Col) (hinv : Inv w) : Inv (step w (.addCol k c)).2 := by
  simp only [step]
  cases hf : w.find k with
  | none => exact hinv
  | some t =>
    simp only
    split
    · exact hinv
    · rename_i hcond
      simp only [Bool.or_eq_true, not_or, Bool.not_eq_true, List.any_eq_false, beq_iff_eq] at hcond
      apply inv_update w k (fun x => { x with cols := x.cols ++ [c] }) _ _ hinv (fun _ => rfl)
      · intro x hx hxk
        have hxt : x = t := by
          have := find_of_uniq hinv.1 hx; rw [hxk, hf] at this; exact (Option.some.inj this).symm
        subst hxt
        have hok := hinv.2 x hx
        refine ⟨hok.1, ?_⟩
        intro c' hc' n hn
        simp only [List.mem_append, List.mem_singleton] at hc'
        rcases hc' with hc' | rfl
        · have hne : c'.name ≠ c.name := by
            intro e; exact hcond.2 c' hc' (by simp [e])
          rw [lookupC_append_other]
          · exact hok.2 c' hc' n hn
          · intro r hr hh
            obtain ⟨c0, hc0, hname⟩ := textRows_name k [c] r hr
            simp at hc0; subst hc0
            exact hne (by rw [← hh.2, hname])
        · rw [hxk]
          exact lookupC_textRows k [c'] w.cExt (by simp) c' (by simp) n hn
      · intro _ _; rfl
      · intro k' c' hne
        exact lookupC_rows_other k [c] w.cExt k' c' hne

theorem inv_dropCol (w : World) (k : Key) (n : Name) (hinv : Inv w) : Inv (step w (.dropCol k n)).2 := by
  simp only [step]
  cases hf : w.find k with
  | none => exact hinv
  | some t =>
    simp only
    split
    · exact hinv
    · apply inv_update w k (fun x => { x with cols := x.cols.filter (·.name != n) }) _ _ hinv (fun _ => rfl)
      · intro x hx _
        have hok := hinv.2 x hx
        exact ⟨hok.1, fun c hc m hm => hok.2 c (List.mem_filter.mp hc).1 m hm⟩
      · intro _ _; rfl
      · intro _ _ _; rfl


theorem inv_renameCol (w : World) (k : Key) (a b : Name) (hinv : Inv w)
    (hreg : region w (.renameCol k a b) = none) : Inv (step w (.renameCol k a b)).2 := by
  simp only [step]
  cases hf : w.find k with
  | none => exact hinv
  | some t =>
    simp only
    split
    · exact hinv
    · split
      · exact hinv
      · rename_i hab
        split
        · exact hinv
        · simp only [region, hf] at hreg
          have hab' : (a != b) = true := by simpa using hab
          simp only [hab', Bool.true_and] at hreg
          have hnt : t.cols.any (fun c => c.name == a && c.ty.isText) = false := by
            cases h : t.cols.any (fun c => c.name == a && c.ty.isText)
            · rfl
            · simp [h] at hreg
          apply inv_update w k (fun x => { x with cols := x.cols.map fun c => if c.name == a then { c with name := b } else c }) _ _ hinv (fun _ => rfl)
          · intro x hx hxk
            have hxt : x = t := by
              have := find_of_uniq hinv.1 hx; rw [hxk, hf] at this; exact (Option.some.inj this).symm
            subst hxt
            have hok := hinv.2 x hx
            refine ⟨hok.1, ?_⟩
            intro c' hc' n hn
            simp only [List.mem_map] at hc'
            obtain ⟨c, hc, rfl⟩ := hc'
            by_cases hca : c.name = a
            · exfalso
              simp only [hca, beq_self_eq_true, if_true] at hn
              simp only [List.any_eq_false] at hnt
              exact hnt c hc (by simp [hca, hn, Ty.isText])
            · have hb : (c.name == a) = false := by simp [hca]
              simp only [hb] at hn ⊢
              exact hok.2 c hc n hn
          · intro _ _; rfl
          · intro _ _ _; rfl

theorem nodup_rename (l : List Key) (k k' : Key) (hn : l.Nodup) (hk' : k' ∉ l) :
    (l.map fun q => if q == k then k' else q).Nodup := by
  induction l with
  | nil => simp
  | cons x xs ih =>
    simp only [List.nodup_cons, List.mem_cons, not_or] at hn hk'
    simp only [List.map_cons, List.nodup_cons]
    refine ⟨?_, ih hn.2 hk'.2⟩
    intro hmem
    simp only [List.mem_map] at hmem
    obtain ⟨y, hy, hyx⟩ := hmem
    by_cases hxk : x = k <;> by_cases hyk : y = k
    · subst hxk; subst hyk; exact hn.1 hy
    · have h1 : (y == k) = false := by simp [hyk]
      simp [hxk, h1] at hyx
      exact hk'.2 (hyx ▸ hy)
    · have h1 : (x == k) = false := by simp [hxk]
      simp [hyk, h1] at hyx
      exact hk'.1 hyx
    · have h1 : (x == k) = false := by simp [hxk]
      have h2 : (y == k) = false := by simp [hyk]
      simp [h1, h2] at hyx
      exact hn.1 (hyx ▸ hy)

theorem inv_renameTable (w : World) (k : Key) (n : Name) (hinv : Inv w)
    (hreg : region w (.renameTable k n) = none) : Inv (step w (.renameTable k n)).2 := by
  simp only [step]
  cases hf : w.find k with
  | none => exact hinv
  | some t =>
    simp only
    split
    · exact hinv
    · split
      · exact hinv
      · rename_i hnk
        split
        · exact hinv
        · rename_i hfree
          simp only [region, hf] at hreg
          have hnk' : (n == k.2.2) = false := by simpa using hnk
          simp only [hnk', Bool.false_eq_true, if_false] at hreg
          have hnt : hasText t.cols = false := by
            cases h : hasText t.cols
            · rfl
            · simp [h] at hreg
          have hcm : t.comment = none := by
            cases h : t.comment
            · rfl
            · simp [hnt, h] at hreg
          simp only [hnt, hcm, Option.isSome_none, Bool.or_self, Bool.false_eq_true, if_false] at hreg
          have hstale := stale_none_of hreg
          have hfree' : w.find (k.1, k.2.1, n) = none := by
            cases h : w.find (k.1, k.2.1, n)
            · rfl
            · simp [h] at hfree
          constructor
          · unfold World.uniq
            have : (w.tabs.map fun x => if x.key == k then { x with key := (k.1, k.2.1, n) } else x).map (·.key)
                = (w.tabs.map (·.key)).map fun q => if q == k then (k.1, k.2.1, n) else q := by
              simp only [List.map_map]; congr 1; funext x
              simp only [Function.comp]; split <;> rfl
            rw [this]
            apply nodup_rename _ _ _ hinv.1
            intro hmem
            simp only [List.mem_map] at hmem
            obtain ⟨x, hx, hxk⟩ := hmem
            exact find_none_not_mem hfree' x hx hxk
          · intro y hy
            simp only [List.mem_map] at hy
            obtain ⟨x, hx, rfl⟩ := hy
            by_cases hxk : x.key = k
            · have hxt : x = t := by
                have := find_of_uniq hinv.1 hx; rw [hxk, hf] at this; exact (Option.some.inj this).symm
              subst hxt
              simp only [hxk, beq_self_eq_true, if_true]
              refine ⟨by simp [hstale, hcm], fun c hc m hm => absurd hm (no_text_ok hnt c hc m)⟩
            · have : (x.key == k) = false := by simp [hxk]
              simp only [this]
              exact hinv.2 x hx

theorem inv_setComment (w : World) (k : Key) (c : Nat) (hinv : Inv w)
    (hreg : region w (.setComment k c) = none) : Inv (step w (.setComment k c)).2 := by
  simp only [step]
  simp only [region] at hreg
  cases hf : w.find k with
  | none => simp [hf] at hreg
  | some t =>
    have htv : t.isView = false := by
      cases h : t.isView
      · rfl
      · simp [hf, h] at hreg
    have hfun : (fun x : Tab => if (x.key == k && !x.isView) = true then { x with comment := some c } else x)
        = fun x => if x.key == k then (if !x.isView then { x with comment := some c } else x) else x := by
      funext x
      cases h1 : (x.key == k) <;> cases h2 : x.isView <;> simp
    rw [hfun]
    apply inv_update w k (fun x => if !x.isView then { x with comment := some c } else x) _ _ hinv
    · intro x; split <;> rfl
    · intro x hx hxk
      have hxt : x = t := by
        have := find_of_uniq hinv.1 hx; rw [hxk, hf] at this; exact (Option.some.inj this).symm
      subst hxt
      have hok := hinv.2 x hx
      simp only [htv, Bool.not_false, if_true]
      exact ⟨by rw [hxk]; exact lookupT_cons_eq _ _ _, hok.2⟩
    · intro k' hne; exact lookupT_cons_ne _ _ _ _ hne
    · intro _ _ _; rfl

/-- **the invariant is preserved by every statement outside the finding regions** -/
theorem step_inv (w : World) (op : Op) (hinv : Inv w) (hreg : region w op = none) : Inv (step w op).2 := by
  cases op with
  | createTable k cols comment rep pk => exact inv_createTable w k cols comment rep pk hinv hreg
  | ctas k src sel rep => exact inv_ctas w k src sel rep hinv hreg
  | clone k src rep => exact inv_clone w k src rep hinv hreg
  | createView k src sel rep => exact inv_createView w k src sel rep hinv hreg
  | addCol k c => exact inv_addCol w k c hinv
  | dropCol k n => exact inv_dropCol w k n hinv
  | renameCol k a b => exact inv_renameCol w k a b hinv hreg
  | renameTable k n => exact inv_renameTable w k n hinv hreg
  | setComment k c => exact inv_setComment w k c hinv hreg
  | dropTable k =>
    simp only [step]
    cases w.find k with
    | none => exact hinv
    | some t => simp only; split <;> first | exact hinv | exact inv_drop w k hinv
  | dropView k =>
    simp only [step]
    cases w.find k with
    | none => exact hinv
    | some t => simp only; split <;> first | exact hinv | exact inv_drop w k hinv
  | nop => exact hinv

theorem run_inv (w : World) (ops : List Op) (hinv : Inv w) (hc : clean w ops = true) : Inv (run w ops) := by
  induction ops generalizing w with
  | nil => exact hinv
  | cons o os ih =>
    simp only [clean, Bool.and_eq_true, Option.isNone_iff_eq_none] at hc
    exact ih _ (step_inv w o hinv hc.1) hc.2

/-- under the invariant the surfaces computed from the side tables equal the declared ones -/
theorem surfaces_of_inv (w : World) (hinv : Inv w) :
    (∀ k, describeI w k = describeS w k) ∧ (∀ k, infoColumnsI w k = infoColumnsS w k) ∧
    (∀ d s, infoTablesI w d s = infoTablesS w d s) := by
  refine ⟨fun k => ?_, fun k => ?_, fun d s => ?_⟩
  · simp only [describeI, describeS]
    cases hf : w.find k with
    | none => rfl
    | some t =>
      obtain ⟨ht, hk⟩ := find_some hf
      have hok := hinv.2 t ht
      simp only [Option.map_some, Option.some.injEq]
      conv => rhs; rw [← List.map_id t.cols]
      apply List.map_congr_left
      intro c hc
      cases hty : c.ty with
      | text n =>
        have := hok.2 c hc n hty
        rw [hk] at this
        simp only [this, Option.getD_some, id]
        cases c; simp_all
      | _ => rfl
  · simp only [infoColumnsI, infoColumnsS]
    cases hf : w.find k with
    | none => rfl
    | some t =>
      obtain ⟨ht, hk⟩ := find_some hf
      have hok := hinv.2 t ht
      simp only [Option.map_some, Option.some.injEq]
      apply List.map_congr_left
      intro c hc
      cases hty : c.ty with
      | text n =>
        have := hok.2 c hc n hty
        rw [hk] at this
        simp [Ty.isText, Col.textLen, hty, this]
      | _ => simp [Ty.isText, Col.textLen, hty]
  · simp only [infoTablesI, infoTablesS]
    apply List.map_congr_left
    intro t ht
    have hok := hinv.2 t (List.mem_filter.mp ht).1
    simp [hok.1]

end Fs.Meta
