import Fs.Model.Tx
/-! Helper lemmas for C13 (`Fs/Props/C13.lean`): locality of `step`, the block simulation used by the
rollback / commit theorems, pending-write tracking, and the cursor/connection bookkeeping invariant. -/
namespace Fs.Tx

/-! ### facts about `loc` -/

def Tx.isIdle : Tx → Bool
  | .idle => true
  | _ => false

/-- pending writes of an open, non-aborted transaction -/
def Tx.pend : Tx → Option (List W)
  | .fresh => some []
  | .pinned _ ws => some ws
  | _ => none

/-- the connection reads from its own transaction state only (pinned or aborted) -/
def Tx.sealed : Tx → Bool
  | .pinned _ _ => true
  | .aborted => true
  | _ => false

theorem loc_open_com (m : Mode) (com : Store) (t : Tx) (st : Stmt)
    (ht : t.isIdle = false) (hst : st ≠ .commit) : (loc m com t st).1 = com := by
  cases t <;> cases st <;> cases m <;> simp_all [loc, Tx.isIdle]

theorem loc_open_stays (m : Mode) (com : Store) (t : Tx) (st : Stmt)
    (ht : t.isIdle = false) (hst : st.endsTx = false) : (loc m com t st).2.1.isIdle = false := by
  cases t <;> cases st <;> cases m <;> simp_all [loc, Tx.isIdle, Stmt.endsTx]

theorem loc_sealed (m : Mode) (com com' : Store) (t : Tx) (st : Stmt)
    (ht : t.sealed = true) (hst : st.endsTx = false) :
    (loc m com t st).2 = (loc m com' t st).2 ∧ (loc m com t st).2.1.sealed = true := by
  cases t <;> cases st <;> cases m <;> simp_all [loc, Tx.sealed, Stmt.endsTx]

theorem Store.apps_append (s : Store) (a b : List W) : s.apps (a ++ b) = (s.apps a).apps b := by
  simp [Store.apps, List.foldl_append]

theorem loc_pend (m : Mode) (com : Store) (t : Tx) (st : Stmt) (acc : List W)
    (ht : t.pend = some acc) (hst : st.endsTx = false) (ha : aborts m st = false) :
    (loc m com t st).2.1.pend =
      some (acc ++ (match st with | .dml tb op => [⟨tb, op⟩] | _ => [])) := by
  cases t <;> cases st <;> cases m <;> simp [Stmt.endsTx, aborts] at hst ha <;> simp_all [loc, Tx.pend]

theorem loc_commit_pend (m : Mode) (com : Store) (t : Tx) (ws : List W) (ht : t.pend = some ws) :
    loc m com t .commit = (com.apps ws, .idle, .empty) := by
  cases t <;> simp_all [loc, Tx.pend, Store.apps]

theorem loc_rollback_open (m : Mode) (com : Store) (t : Tx) (ht : t.isIdle = false) :
    loc m com t .rollback = (com, .idle, .empty) := by
  cases t <;> simp_all [loc, Tx.isIdle]

/-! ### locality of `step` -/

@[simp] theorem step_tx_self (m : Mode) (s : Sys) (c : Nat) (st : Stmt) :
    (step m s c st).1.tx c = (loc m s.com (s.tx c) st).2.1 := by
  simp [step, Sys.setTx]

theorem step_tx_other (m : Mode) (s : Sys) (c d : Nat) (st : Stmt) (h : d ≠ c) :
    (step m s c st).1.tx d = s.tx d := by
  simp [step, Sys.setTx, h]

@[simp] theorem step_com (m : Mode) (s : Sys) (c : Nat) (st : Stmt) :
    (step m s c st).1.com = (loc m s.com (s.tx c) st).1 := by
  simp [step, Sys.setTx]

@[simp] theorem step_obs (m : Mode) (s : Sys) (c : Nat) (st : Stmt) :
    (step m s c st).2 = (loc m s.com (s.tx c) st).2.2 := by
  simp [step]

theorem Sys.ext' {a b : Sys} (h1 : a.com = b.com) (h2 : ∀ d, a.tx d = b.tx d) : a = b := by
  cases a; cases b; simp only [Sys.mk.injEq]; exact ⟨h1, funext h2⟩

/-- everything except connection `c`'s own transaction state agrees -/
def Rel (c : Nat) (s1 s0 : Sys) : Prop := s1.com = s0.com ∧ ∀ d, d ≠ c → s1.tx d = s0.tx d

theorem rel_step_other (m : Mode) (c d : Nat) (s1 s0 : Sys) (st : Stmt) (h : Rel c s1 s0) (hd : d ≠ c) :
    Rel c (step m s1 d st).1 (step m s0 d st).1 ∧ (step m s1 d st).2 = (step m s0 d st).2 ∧
    (step m s1 d st).1.tx c = s1.tx c ∧ (step m s0 d st).1.tx c = s0.tx c := by
  obtain ⟨hc, ht⟩ := h
  have hdd := ht d hd
  refine ⟨⟨?_, ?_⟩, ?_, ?_, ?_⟩
  · simp [hc, hdd]
  · intro e he
    by_cases hed : e = d
    · subst hed; simp [hc, hdd]
    · rw [step_tx_other _ _ _ _ _ hed, step_tx_other _ _ _ _ _ hed]; exact ht e he
  · simp [hc, hdd]
  · exact step_tx_other _ _ _ _ _ (Ne.symm hd)
  · exact step_tx_other _ _ _ _ _ (Ne.symm hd)

theorem rel_step_self (m : Mode) (c : Nat) (s1 s0 : Sys) (st : Stmt) (h : Rel c s1 s0)
    (ht : (s1.tx c).isIdle = false) (hst : st.endsTx = false) :
    Rel c (step m s1 c st).1 s0 ∧ ((step m s1 c st).1.tx c).isIdle = false := by
  obtain ⟨hc, hx⟩ := h
  refine ⟨⟨?_, ?_⟩, ?_⟩
  · rw [step_com, loc_open_com m _ _ _ ht (by intro h; subst h; simp [Stmt.endsTx] at hst)]; exact hc
  · intro d hd; rw [step_tx_other _ _ _ _ _ hd]; exact hx d hd
  · rw [step_tx_self]; exact loc_open_stays m _ _ _ ht hst

/-! ### runs -/

theorem run_append (m : Mode) (s : Sys) (a b : List (Nat × Stmt)) :
    run m s (a ++ b) = ((run m (run m s a).1 b).1, (run m s a).2 ++ (run m (run m s a).1 b).2) := by
  induction a generalizing s with
  | nil => simp [run]
  | cons x xs ih => obtain ⟨c, st⟩ := x; simp [run, ih]

theorem run_length (m : Mode) (s : Sys) (h : List (Nat × Stmt)) : (run m s h).2.length = h.length := by
  induction h generalizing s with
  | nil => simp [run]
  | cons x xs ih => obtain ⟨c, st⟩ := x; simp [run, ih]

/-- observations of the events not issued by `c` -/
def othersObs (c : Nat) : List (Nat × Stmt) → List Obs → List Obs
  | (d, _) :: h, o :: os => if d = c then othersObs c h os else o :: othersObs c h os
  | _, _ => []

/-- observations of the events issued by `c` -/
def ownObs (c : Nat) : List (Nat × Stmt) → List Obs → List Obs
  | (d, _) :: h, o :: os => if d = c then o :: ownObs c h os else ownObs c h os
  | _, _ => []

theorem othersObs_append (c : Nat) (a b : List (Nat × Stmt)) (oa ob : List Obs) (h : oa.length = a.length) :
    othersObs c (a ++ b) (oa ++ ob) = othersObs c a oa ++ othersObs c b ob := by
  induction a generalizing oa with
  | nil => cases oa <;> simp_all [othersObs]
  | cons x xs ih =>
    obtain ⟨d, st⟩ := x
    cases oa with
    | nil => simp at h
    | cons o os =>
      simp only [List.cons_append, othersObs]
      have := ih os (by simpa using h)
      split <;> simp [this]

/-- **Block simulation**: while `c` sits in an open transaction, running a history with and without `c`'s
    statements keeps the committed store and every other connection's state equal, and every other
    connection observes exactly the same. -/
theorem block_invisible (m : Mode) (c : Nat) (blk : List (Nat × Stmt)) :
    ∀ (s1 s0 : Sys), Rel c s1 s0 → (s1.tx c).isIdle = false →
      (∀ e ∈ blk, e.1 = c → e.2.endsTx = false) →
      Rel c (run m s1 blk).1 (run m s0 (blk.filter fun e => e.1 != c)).1 ∧
      ((run m s1 blk).1.tx c).isIdle = false ∧
      othersObs c blk (run m s1 blk).2 = (run m s0 (blk.filter fun e => e.1 != c)).2 ∧
      (run m s0 (blk.filter fun e => e.1 != c)).1.tx c = s0.tx c := by
  induction blk with
  | nil => intro s1 s0 h ht _; simp [run, othersObs, h, ht]
  | cons x xs ih =>
    obtain ⟨d, st⟩ := x
    intro s1 s0 h ht hb
    by_cases hd : d = c
    · subst hd
      have hst := hb (d, st) (by simp) rfl
      obtain ⟨h', ht'⟩ := rel_step_self m d s1 s0 st h ht hst
      have := ih (step m s1 d st).1 s0 h' ht' (fun e he => hb e (by simp [he]))
      simpa [run, othersObs, List.filter_cons] using this
    · obtain ⟨h', ho, hc1, hc0⟩ := rel_step_other m c d s1 s0 st h hd
      have := ih (step m s1 d st).1 (step m s0 d st).1 h' (by rw [hc1]; exact ht) (fun e he => hb e (by simp [he]))
      obtain ⟨r1, r2, r3, r4⟩ := this
      have hf : ((d, st) :: xs).filter (fun e => e.1 != c) = (d, st) :: xs.filter (fun e => e.1 != c) := by
        simp [hd]
      rw [hf]
      simp only [run, othersObs, hd, if_false]
      refine ⟨r1, r2, ?_, ?_⟩
      · rw [r3]; simp only [step_obs] at ho; simp [ho]
      · rw [r4]; exact hc0

/-- **Pending-write tracking**: in an open, never-aborted transaction the write list is exactly the
    sequence of `c`'s DML statements, whatever the other connections do in between. -/
theorem block_pending (m : Mode) (c : Nat) (blk : List (Nat × Stmt)) :
    ∀ (s : Sys) (acc : List W), (s.tx c).pend = some acc →
      (∀ e ∈ blk, e.1 = c → e.2.endsTx = false ∧ aborts m e.2 = false) →
      ((run m s blk).1.tx c).pend = some (acc ++ writesOf c blk) := by
  induction blk with
  | nil => intro s acc h _; simp [run, writesOf, h]
  | cons x xs ih =>
    obtain ⟨d, st⟩ := x
    intro s acc h hb
    by_cases hd : d = c
    · subst hd
      obtain ⟨h1, h2⟩ := hb (d, st) (by simp) rfl
      have hp := loc_pend m s.com (s.tx d) st acc h h1 h2
      have := ih (step m s d st).1 _ (by rw [step_tx_self]; exact hp) (fun e he => hb e (by simp [he]))
      simp only [run]
      rw [this]
      cases st <;> simp [writesOf, List.filterMap]
    · have := ih (step m s d st).1 acc (by rw [step_tx_other _ _ _ _ _ (Ne.symm hd)]; exact h)
        (fun e he => hb e (by simp [he]))
      simp only [run]
      rw [this]
      simp [writesOf, List.filterMap, hd]

theorem loc_pinned (m : Mode) (com : Store) (sn : Store) (ws : List W) (st : Stmt)
    (hst : st.endsTx = false) (ha : aborts m st = false) :
    (loc m com (.pinned sn ws) st).2.1 =
      .pinned sn (ws ++ (match st with | .dml tb op => [⟨tb, op⟩] | _ => [])) := by
  cases st <;> cases m <;> simp [Stmt.endsTx, aborts] at hst ha <;> simp [loc]

/-- **Snapshot + own writes**: a pinned transaction keeps its snapshot and accumulates exactly its own DML,
    whatever the other connections do in between. -/
theorem block_view (m : Mode) (c : Nat) (sn : Store) (blk : List (Nat × Stmt)) :
    ∀ (s : Sys) (ws : List W), s.tx c = .pinned sn ws →
      (∀ e ∈ blk, e.1 = c → e.2.endsTx = false ∧ aborts m e.2 = false) →
      (run m s blk).1.tx c = .pinned sn (ws ++ writesOf c blk) := by
  induction blk with
  | nil => intro s ws h _; simp [run, writesOf, h]
  | cons x xs ih =>
    obtain ⟨d, st⟩ := x
    intro s ws h hb
    by_cases hd : d = c
    · subst hd
      obtain ⟨h1, h2⟩ := hb (d, st) (by simp) rfl
      have hp := loc_pinned m s.com sn ws st h1 h2
      have := ih (step m s d st).1 _ (by rw [step_tx_self, h]; exact hp) (fun e he => hb e (by simp [he]))
      simp only [run]
      rw [this]
      cases st <;> simp [writesOf, List.filterMap]
    · have := ih (step m s d st).1 ws (by rw [step_tx_other _ _ _ _ _ (Ne.symm hd)]; exact h)
        (fun e he => hb e (by simp [he]))
      simp only [run]
      rw [this]
      simp [writesOf, List.filterMap, hd]

/-- **Sealed view**: once `c` is pinned (or aborted), what `c` observes and how its own transaction state
    evolves does not depend on anything other connections do. -/
theorem block_sealed (m : Mode) (c : Nat) (blk : List (Nat × Stmt)) :
    ∀ (s1 s0 : Sys), s1.tx c = s0.tx c → (s1.tx c).sealed = true →
      (∀ e ∈ blk, e.1 = c → e.2.endsTx = false) →
      ownObs c blk (run m s1 blk).2 = (run m s0 (blk.filter fun e => e.1 == c)).2 ∧
      (run m s1 blk).1.tx c = (run m s0 (blk.filter fun e => e.1 == c)).1.tx c := by
  induction blk with
  | nil => intro s1 s0 h _ _; simp [run, ownObs, h]
  | cons x xs ih =>
    obtain ⟨d, st⟩ := x
    intro s1 s0 h hs hb
    by_cases hd : d = c
    · subst hd
      have hst := hb (d, st) (by simp) rfl
      have hl := loc_sealed m s1.com s0.com (s1.tx d) st hs hst
      have e1 : (step m s1 d st).1.tx d = (step m s0 d st).1.tx d := by
        rw [step_tx_self, step_tx_self, ← h, hl.1]
      have := ih (step m s1 d st).1 (step m s0 d st).1 e1 (by rw [step_tx_self]; exact hl.2)
        (fun e he => hb e (by simp [he]))
      have ho : (loc m s1.com (s1.tx d) st).2.2 = (loc m s0.com (s0.tx d) st).2.2 := by rw [← h, hl.1]
      simp [run, ownObs, this, ho]
    · have e1 : (step m s1 d st).1.tx c = s0.tx c := by rw [step_tx_other _ _ _ _ _ (Ne.symm hd)]; exact h
      have := ih (step m s1 d st).1 s0 e1 (by rw [e1, ← h]; exact hs) (fun e he => hb e (by simp [he]))
      simp [run, ownObs, hd, this]

/-! ### mode transfer: inside the envelope the code behaves like the specification -/

theorem loc_env (com : Store) (t : Tx) (st : Stmt)
    (h : (match t with | .idle => true | .aborted => false | _ => !aborts .duck st) = true) :
    loc .duck com t st = loc .ideal com t st := by
  cases t <;> cases st <;> simp_all [loc, aborts]

theorem run_env (h : List (Nat × Stmt)) : ∀ s : Sys, envOk s h = true → run .duck s h = run .ideal s h := by
  induction h with
  | nil => intro s _; rfl
  | cons x xs ih =>
    obtain ⟨c, st⟩ := x
    intro s he
    simp only [envOk, Bool.and_eq_true] at he
    have e : step .duck s c st = step .ideal s c st := by simp only [step]; rw [loc_env _ _ _ he.1]
    simp only [run]
    rw [← e, ih _ he.2]

/-! ### Layer B: bookkeeping invariant -/

/-- every fake connection has its own engine connection (id = its index) and every cursor uses the
    engine connection of the connection that created it -/
def World.WF (w : World) : Prop :=
  w.conns = List.range w.next ∧ ∀ p ∈ w.curs, p.2 = p.1 ∧ p.1 < w.next

def Match (w : World) (b : Book) : Prop := b.nconns = w.next ∧ b.cursConn = w.curs.map (·.1)

theorem range_get (n c : Nat) : (List.range n)[c]? = if c < n then some c else none := by
  by_cases h : c < n
  · simp [h]
  · simp [h]

theorem world_step_sim (m : Mode) (w : World) (b : Book) (e : Ev) (hw : w.WF) (hb : Match w b) :
    (World.step false m w e).1.WF ∧ Match (World.step false m w e).1 (b.step e).1 ∧
    (match (b.step e).2 with
     | none => (World.step false m w e).1.sys = w.sys ∧ (World.step false m w e).2 = none
     | some (c, st) => (World.step false m w e).1.sys = (step m w.sys c st).1 ∧
                       (World.step false m w e).2 = some (step m w.sys c st).2) := by
  obtain ⟨sys, conns, curs, nxt⟩ := w
  obtain ⟨next, cursConn⟩ := b
  obtain ⟨hc, hk⟩ := hw
  obtain ⟨hn, hm⟩ := hb
  simp only at hc hk hn hm
  subst hc hm
  subst hn
  have hk' : ∀ c, c < next → ∀ p ∈ curs ++ [(c, c)], p.2 = p.1 ∧ p.1 < next := by
    intro c h p hp
    rcases List.mem_append.mp hp with hp | hp
    · exact hk p hp
    · simp at hp; subst hp; exact ⟨rfl, h⟩
  cases e with
  | connect named =>
    refine ⟨⟨?_, ?_⟩, ⟨?_, ?_⟩, ?_⟩
    · simp [World.step, List.range_succ]
    · intro p hp; obtain ⟨h1, h2⟩ := hk p (by simpa [World.step] using hp)
      exact ⟨h1, by simp [World.step]; omega⟩
    · simp [World.step, Book.step]
    · simp [World.step, Book.step]
    · simp [World.step, Book.step]
  | blockExit c exc =>
    simp only [World.step, Book.step]
    exact ⟨⟨rfl, hk⟩, ⟨rfl, rfl⟩, by simp⟩
  | cursor c foreign =>
    simp only [World.step, Book.step, range_get]
    by_cases h : c < next
    · simp only [h, if_true]
      exact ⟨⟨rfl, hk' c h⟩, ⟨rfl, by simp⟩, by simp⟩
    · simp only [h, if_false]
      exact ⟨⟨rfl, hk⟩, ⟨rfl, rfl⟩, by simp⟩
  | exec k st =>
    simp only [World.step, Book.step, List.getElem?_map]
    cases hq : curs[k]? with
    | none => simp; exact ⟨⟨rfl, hk⟩, rfl, rfl⟩
    | some p =>
      obtain ⟨c, d⟩ := p
      have := hk (c, d) (List.mem_of_getElem? hq)
      simp only at this
      obtain ⟨rfl, _⟩ := this
      simp; exact ⟨⟨rfl, hk⟩, rfl, rfl⟩
  | connCommit c =>
    simp only [World.step, Book.step, range_get]
    by_cases h : c < next
    · simp only [h, if_true]
      exact ⟨⟨rfl, hk⟩, ⟨rfl, rfl⟩, by simp⟩
    · simp only [h, if_false]
      exact ⟨⟨rfl, hk⟩, ⟨rfl, rfl⟩, by simp⟩
  | connRollback c =>
    simp only [World.step, Book.step, range_get]
    by_cases h : c < next
    · simp only [h, if_true]
      exact ⟨⟨rfl, hk⟩, ⟨rfl, rfl⟩, by simp⟩
    · simp only [h, if_false]
      exact ⟨⟨rfl, hk⟩, ⟨rfl, rfl⟩, by simp⟩

theorem world_run_sim (m : Mode) (evs : List Ev) : ∀ (w : World) (b : Book), w.WF → Match w b →
    (World.run false m w evs).1.WF ∧
    (World.run false m w evs).1.sys = (run m w.sys (b.trace evs)).1 ∧
    (World.run false m w evs).2.filterMap id = (run m w.sys (b.trace evs)).2 := by
  induction evs with
  | nil => intro w b hw _; simp [World.run, Book.trace, run, hw]
  | cons e es ih =>
    intro w b hw hb
    obtain ⟨h1, h2, h3⟩ := world_step_sim m w b e hw hb
    have := ih _ _ h1 h2
    simp only [World.run, Book.trace]
    cases hq : (b.step e).2 with
    | none =>
      rw [hq] at h3
      simp only
      rw [h3.1] at this
      simp [this, h3.2]
    | some x =>
      obtain ⟨c, st⟩ := x
      rw [hq] at h3
      simp only [run]
      rw [h3.1] at this
      simp [this, h3.2]

end Fs.Tx
