import Fs.Model.Http
/-! Helper lemmas for C17 (wire arithmetic, column validity, session-table invariants). -/
namespace Fs.Http


theorem fractionOf_eq (us : Int) : fractionOf us = (us % M) * 1000 := by
  unfold fractionOf floorSecond M; omega

theorem fractionOf_range (us : Int) : 0 ≤ fractionOf us ∧ fractionOf us ≤ 999999000 := by
  rw [fractionOf_eq]; unfold M; omega

theorem epochOf_eq (us : Int) : epochOf us = us / M := by
  unfold epochOf floorSecond
  exact Int.mul_tdiv_cancel _ (by decide)

theorem castInt32_fraction (us : Int) : castInt32 (fractionOf us) = some (fractionOf us) := by
  have := fractionOf_range us
  unfold castInt32
  rw [if_pos]; omega

theorem decode_encode (hasTz : Bool) (us : Int) :
    (encodeTs hasTz us).map decodeTs = some (us, if hasTz then some 0 else none) := by
  unfold encodeTs
  rw [castInt32_fraction]
  simp only [Option.map_some, decodeTs]
  have h1 : (fractionOf us).tdiv 1000 = us % M := by
    rw [fractionOf_eq]; exact Int.mul_tdiv_cancel _ (by decide)
  rw [h1, epochOf_eq]
  have : us / M * M + us % M = us := by unfold M; omega
  rw [this]
  cases hasTz <;> simp

theorem time_rt (t : Nat) (h : t < 86400000000) :
    timeToMicros (decodeTime (encodeTime t)) = t := by
  unfold timeToMicros decodeTime encodeTime
  simp only
  omega


theorem slice17_header (t : Token) : slice17 (authHeader t) = t := by
  unfold slice17 authHeader
  have : ("Snowflake Token=\"".toList ++ t ++ ['"']).drop 17 = t ++ ['"'] := by
    rw [List.append_assoc]
    exact List.drop_left' (by decide)
  rw [this, List.dropLast_concat]

theorem lookup_mem {ss : List (Token × Sess)} {t : Token} {se : Sess} (h : lookup ss t = some se) :
    (t, se) ∈ ss := by
  unfold lookup at h
  cases hf : ss.find? (·.1 == t) with
  | none => rw [hf] at h; cases h
  | some p =>
    rw [hf] at h
    simp only [Option.map_some, Option.some.injEq] at h
    have hm := List.mem_of_find?_eq_some hf
    have hp := List.find?_some hf
    simp only [beq_iff_eq] at hp
    obtain ⟨a, b⟩ := p
    simp only at hp h
    subst hp; subst h; exact hm

theorem runQ_inst (se : Sess) (d : List (Nat × Int)) (q : Q) :
    (runQ se d q).1.inst = se.inst ∧ (runQ se d q).1.backing = se.backing := by
  cases q <;> simp only [runQ] <;> (try split) <;> simp

/-- data rows of every other instance are untouched by a statement -/
theorem runQ_data_frame (se : Sess) (d : List (Nat × Int)) (q : Q) (i : Nat) (hi : i ≠ se.inst) :
    (runQ se d q).2.1.filter (·.1 == i) = d.filter (·.1 == i) := by
  have hne : ¬ se.inst = i := fun h => hi h.symm
  cases q <;> simp only [runQ] <;> (try split) <;> simp [List.filter_append, hne]

/-- inside an explicit transaction nothing but COMMIT changes the committed data -/
theorem runQ_tx_data (se : Sess) (d : List (Nat × Int)) (q : Q) (h : se.tx.isSome) (hq : q ≠ .commit) :
    (runQ se d q).2.1 = d := by
  cases hx : se.tx with
  | none => rw [hx] at h; cases h
  | some w => cases q <;> simp only [runQ, hx] <;> first | rfl | exact absurd rfl hq

structure Inv (s : Srv) : Prop where
  nodup : (s.sessions.map (·.1)).Nodup
  pos : 1 ≤ s.nextInst
  bound : ∀ p ∈ s.sessions, p.2.inst < s.nextInst
  sharedIff : ∀ p ∈ s.sessions, (p.2.inst = 0 ↔ p.2.backing = .shared)
  uniq : ∀ p ∈ s.sessions, ∀ q ∈ s.sessions, p.2.inst = q.2.inst → p.2.inst ≠ 0 → p.1 = q.1

theorem inv_init : Inv {} := by
  constructor <;> simp

theorem mem_assign {ss : List (Token × Sess)} {t : Token} {se : Sess} {p : Token × Sess}
    (h : p ∈ assign ss t se) : p = (t, se) ∨ (p ∈ ss ∧ p.1 ≠ t) := by
  unfold assign at h
  rcases List.mem_cons.mp h with h | h
  · left; exact h
  · right
    have := List.mem_filter.mp h
    refine ⟨this.1, ?_⟩
    intro e; have h2 := this.2; simp [e] at h2

theorem assign_nodup {ss : List (Token × Sess)} (t : Token) (se : Sess) (h : (ss.map (·.1)).Nodup) :
    ((assign ss t se).map (·.1)).Nodup := by
  unfold assign
  simp only [List.map_cons, List.nodup_cons]
  constructor
  · intro hm
    obtain ⟨p, hp, he⟩ := List.mem_map.mp hm
    have := (List.mem_filter.mp hp).2
    simp [he] at this
  · exact (List.Sublist.map _ (List.filter_sublist)).nodup h

theorem inv_step (s : Srv) (r : Req) (h : Inv s) : Inv (step s r).1 := by
  cases r with
  | login tok b schema =>
    cases b with
    | shared =>
      simp only [step]
      refine ⟨assign_nodup _ _ h.nodup, h.pos, ?_, ?_, ?_⟩
      · intro p hp
        rcases mem_assign hp with rfl | ⟨hp, _⟩
        · exact h.pos
        · exact h.bound p hp
      · intro p hp
        rcases mem_assign hp with rfl | ⟨hp, _⟩
        · simp
        · exact h.sharedIff p hp
      · intro p hp q hq e hne
        rcases mem_assign hp with rfl | ⟨hp, _⟩
        · exact absurd rfl hne
        · rcases mem_assign hq with rfl | ⟨hq, _⟩
          · exact absurd e hne
          · exact h.uniq p hp q hq e hne
    | isolated =>
      simp only [step]
      refine ⟨assign_nodup _ _ h.nodup, (by show 1 ≤ s.nextInst + 1; omega), ?_, ?_, ?_⟩
      · intro p hp
        rcases mem_assign hp with rfl | ⟨hp, _⟩
        · show s.nextInst < s.nextInst + 1; omega
        · have := h.bound p hp; show p.2.inst < s.nextInst + 1; omega
      · intro p hp
        rcases mem_assign hp with rfl | ⟨hp, _⟩
        · have := h.pos; simp; omega
        · exact h.sharedIff p hp
      · intro p hp q hq e hne
        rcases mem_assign hp with rfl | ⟨hp, _⟩
        · rcases mem_assign hq with rfl | ⟨hq, _⟩
          · rfl
          · have := h.bound q hq; simp at e; omega
        · rcases mem_assign hq with rfl | ⟨hq, _⟩
          · have := h.bound p hp; simp at e; omega
          · exact h.uniq p hp q hq e hne
    | path =>
      simp only [step]
      refine ⟨assign_nodup _ _ h.nodup, (by show 1 ≤ s.nextInst + 1; omega), ?_, ?_, ?_⟩
      · intro p hp
        rcases mem_assign hp with rfl | ⟨hp, _⟩
        · show s.nextInst < s.nextInst + 1; omega
        · have := h.bound p hp; show p.2.inst < s.nextInst + 1; omega
      · intro p hp
        rcases mem_assign hp with rfl | ⟨hp, _⟩
        · have := h.pos; simp; omega
        · exact h.sharedIff p hp
      · intro p hp q hq e hne
        rcases mem_assign hp with rfl | ⟨hp, _⟩
        · rcases mem_assign hq with rfl | ⟨hq, _⟩
          · rfl
          · have := h.bound q hq; simp at e; omega
        · rcases mem_assign hq with rfl | ⟨hq, _⟩
          · have := h.bound p hp; simp at e; omega
          · exact h.uniq p hp q hq e hne
  | query auth q =>
    cases auth with
    | none => exact h
    | some a =>
      cases a with
      | nil => exact h
      | cons c cs =>
        simp only [step]
        cases hl : lookup s.sessions (slice17 (c :: cs)) with
        | none => exact h
        | some se =>
          simp only
          have hmem := lookup_mem hl
          have hi := runQ_inst se s.data q
          generalize (runQ se s.data q).1 = se' at hi
          generalize slice17 (c :: cs) = t at *
          -- every entry of the new dict is an old entry with the same key, instance and backing
          have key : ∀ p' ∈ s.sessions.map (fun p => if p.1 == t then (p.1, se') else p),
              ∃ p ∈ s.sessions, p'.1 = p.1 ∧ ((p'.2.inst = p.2.inst ∧ p'.2.backing = p.2.backing) ∨
                (p'.1 = t ∧ p'.2.inst = se.inst ∧ p'.2.backing = se.backing)) := by
            intro p' hp'
            obtain ⟨p, hp, rfl⟩ := List.mem_map.mp hp'
            refine ⟨p, hp, ?_⟩
            by_cases e : p.1 == t
            · simp only [e, if_true]
              exact ⟨trivial, Or.inr ⟨by simpa using e, hi.1, hi.2⟩⟩
            · simp only [e]; exact ⟨rfl, Or.inl ⟨rfl, rfl⟩⟩
          refine ⟨?_, h.pos, ?_, ?_, ?_⟩
          · have : (s.sessions.map (fun p => if p.1 == t then (p.1, se') else p)).map (·.1) = s.sessions.map (·.1) := by
              rw [List.map_map]; apply List.map_congr_left; intro p _; simp only [Function.comp]; split <;> rfl
            simp only [this]; exact h.nodup
          · intro p' hp'
            obtain ⟨p, hp, _, h2 | ⟨_, h2, _⟩⟩ := key p' hp'
            · rw [h2.1]; exact h.bound p hp
            · rw [h2]; exact h.bound _ hmem
          · intro p' hp'
            obtain ⟨p, hp, _, h2 | ⟨_, h2, h3⟩⟩ := key p' hp'
            · rw [h2.1, h2.2]; exact h.sharedIff p hp
            · rw [h2, h3]; exact h.sharedIff _ hmem
          · intro p' hp' q' hq' e hne
            obtain ⟨p, hp, hp1, hp2⟩ := key p' hp'
            obtain ⟨q0, hq, hq1, hq2⟩ := key q' hq'
            rw [hp1, hq1]
            rcases hp2 with hp2 | ⟨hpt, hp2, _⟩ <;> rcases hq2 with hq2 | ⟨hqt, hq2, _⟩
            · exact h.uniq p hp q0 hq (by rw [← hp2.1, ← hq2.1]; exact e) (by rw [← hp2.1]; exact hne)
            · have := h.uniq p hp (t, se) hmem (by rw [← hp2.1, e, hq2]) (by rw [← hp2.1]; exact hne)
              rw [this]; simp only; rw [← hqt, hq1]
            · have := h.uniq (t, se) hmem q0 hq (by simp only; rw [← hp2, e, hq2.1]) (by simp only; rw [← hp2]; exact hne)
              simp only at this; rw [← this, ← hpt, hp1]
            · rw [← hp1, ← hq1, hpt, hqt]

theorem inv_run (s : Srv) (rs : List Req) (h : Inv s) : Inv (run s rs).1 := by
  induction rs generalizing s with
  | nil => exact h
  | cons r rs ih => simp only [run]; exact ih _ (inv_step s r h)



theorem encodeCol_masked (hasTz : Bool) (xs : List (Option Int)) :
    (encodeCol true hasTz xs).map decodeCol = some (specCol hasTz xs) := by
  induction xs with
  | nil => rfl
  | cons x xs ih =>
    cases hm : encodeCol true hasTz xs with
    | none => rw [hm] at ih; cases ih
    | some ss =>
      rw [hm] at ih
      simp only [Option.map_some, Option.some.injEq] at ih
      cases x with
      | none => simp [encodeCol, hm, decodeCol, specCol] at ih ⊢; exact ih
      | some us =>
        have hd := decode_encode hasTz us
        cases he : encodeTs hasTz us with
        | none => rw [he] at hd; cases hd
        | some w =>
          rw [he] at hd
          simp only [Option.map_some, Option.some.injEq] at hd
          simp [encodeCol, hm, he, decodeCol, specCol, hd] at ih ⊢
          exact ih

theorem lookup_cons (p : Token × Sess) (ps : List (Token × Sess)) (t : Token) :
    lookup (p :: ps) t = if p.1 = t then some p.2 else lookup ps t := by
  unfold lookup
  by_cases e : p.1 = t <;> simp [e]

theorem lookup_assign_ne (ss : List (Token × Sess)) (t t' : Token) (se : Sess) (h : t' ≠ t) :
    lookup (assign ss t se) t' = lookup ss t' := by
  unfold assign
  rw [lookup_cons, if_neg (fun e => h e.symm)]
  induction ss with
  | nil => rfl
  | cons p ps ih =>
    by_cases e : p.1 = t
    · rw [List.filter_cons_of_neg (by simp [e]), lookup_cons, if_neg (by rw [e]; exact fun e' => h e'.symm)]
      exact ih
    · rw [List.filter_cons_of_pos (by simp [e]), lookup_cons, lookup_cons, ih]

theorem lookup_map_ne (ss : List (Token × Sess)) (t t' : Token) (se' : Sess) (h : t' ≠ t) :
    lookup (ss.map (fun p => if p.1 == t then (p.1, se') else p)) t' = lookup ss t' := by
  induction ss with
  | nil => rfl
  | cons p ps ih =>
    rw [List.map_cons, lookup_cons, lookup_cons, ih]
    by_cases e : p.1 = t
    · have e2 : ¬ p.1 = t' := by rw [e]; exact fun e' => h e'.symm
      have e3 : ¬ t = t' := fun e' => h e'.symm
      simp [e, e3]
    · simp [e]

/-- the session that ran the statement is replaced by its successor -/
theorem lookup_map_eq (ss : List (Token × Sess)) (t : Token) (se se' : Sess) (h : lookup ss t = some se) :
    lookup (ss.map (fun p => if p.1 == t then (p.1, se') else p)) t = some se' := by
  induction ss with
  | nil => cases h
  | cons p ps ih =>
    rw [lookup_cons] at h
    rw [List.map_cons, lookup_cons]
    by_cases e : p.1 = t
    · simp [e]
    · rw [if_neg e] at h
      simp only [beq_iff_eq, e, if_false]; simpa using ih h

end Fs.Http
