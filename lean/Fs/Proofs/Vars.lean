import Fs.Model.Vars
/-! Helper lemmas for C15. -/
namespace Fs.Vars

theorem dollar_not_word : isWord '$' = false := by decide

theorem Res.app_nil (r : Res) : r.app [] = r := by cases r <;> simp [Res.app]
theorem Res.app_app (a b : List Char) (r : Res) : (r.app b).app a = r.app (a ++ b) := by
  cases r <;> simp [Res.app]

/-- the regex-with-callback scan is substitution over the reference tokens, from every scanner state -/
theorem inlineGo_eq (env : Env) (st : St) (t : List Char) :
    inlineGo env st t = substAll env (tokenize st t) := by
  induction t generalizing st with
  | nil => cases st <;> simp [inlineGo, tokenize, substAll, resolve, Res.app]
           <;> (cases env.get (upper _) <;> simp [Res.app])
  | cons c cs ih =>
    cases st with
    | copy pd =>
      by_cases h : c = '$'
      · cases pd <;> simp [inlineGo, tokenize, substAll, h, ih]
      · simp [inlineGo, tokenize, substAll, h, ih]
    | dollar =>
      by_cases hw : isWord c = true
      · simp [inlineGo, tokenize, hw, ih]
      · by_cases h : c = '$'
        · subst h; simp [inlineGo, tokenize, substAll, dollar_not_word, ih, Res.app_app]
        · simp [inlineGo, tokenize, substAll, hw, h, ih, Res.app_app]
    | name acc =>
      by_cases hw : isWord c = true
      · simp [inlineGo, tokenize, hw, ih]
      · by_cases h : c = '$'
        · subst h; simp [inlineGo, tokenize, substAll, resolve, dollar_not_word, ih]
        · simp [inlineGo, tokenize, substAll, resolve, hw, h, ih]

/-- text the scanner has consumed but not yet emitted -/
def St.pendingText : St → List Char
  | .copy _ => []
  | .dollar => ['$']
  | .name acc => '$' :: acc

theorem render_tokenize (st : St) (t : List Char) : render (tokenize st t) = st.pendingText ++ t := by
  induction t generalizing st with
  | nil => cases st <;> simp [tokenize, render, Tok.render, St.pendingText]
  | cons c cs ih =>
    cases st with
    | copy pd =>
      by_cases h : c = '$'
      · cases pd <;> simp [tokenize, render, Tok.render, St.pendingText, h, ih]
      · simp [tokenize, render, Tok.render, St.pendingText, h, ih]
    | dollar =>
      by_cases hw : isWord c = true
      · simp [tokenize, hw, ih, St.pendingText]
      · by_cases h : c = '$'
        · subst h; simp [tokenize, render, Tok.render, St.pendingText, dollar_not_word, ih]
        · simp [tokenize, render, Tok.render, St.pendingText, hw, h, ih]
    | name acc =>
      by_cases hw : isWord c = true
      · simp [tokenize, hw, ih, St.pendingText]
      · by_cases h : c = '$'
        · subst h; simp [tokenize, render, Tok.render, St.pendingText, dollar_not_word, ih]
        · simp [tokenize, render, Tok.render, St.pendingText, hw, h, ih]

/-- inside a name, word characters extend the name (maximal munch) -/
theorem tokenize_name (acc w post : List Char) (hw : ∀ c ∈ w, isWord c = true) :
    tokenize (.name acc) (w ++ post) = tokenize (.name (acc ++ w)) post := by
  induction w generalizing acc with
  | nil => simp
  | cons c cs ih =>
    have hc := hw c (by simp)
    simp [tokenize, hc, ih (acc ++ [c]) (fun d hd => hw d (by simp [hd]))]

/-- after a name, a text that does not start with a word character is read afresh -/
theorem tokenize_after_name (acc post : List Char) (h : ∀ c, post.head? = some c → isWord c = false) :
    tokenize (.name acc) post = .ref acc :: tokenize (.copy false) post := by
  cases post with
  | nil => simp [tokenize]
  | cons c cs =>
    have hc : isWord c = false := h c rfl
    by_cases hd : c = '$'
    · subst hd; simp [tokenize, dollar_not_word]
    · simp [tokenize, hc, hd]

/-- **a reference**: `$w` (w a non-empty word, not followed by a word character, the `$` not preceded by `$`)
    is one `ref w` token, and the text after it is read afresh -/
theorem tokenize_ref (c : Char) (w post : List Char) (hc : isWord c = true) (hw : ∀ d ∈ w, isWord d = true)
    (hpost : ∀ d, post.head? = some d → isWord d = false) :
    tokenize (.copy false) ('$' :: c :: w ++ post) = .ref (c :: w) :: tokenize (.copy false) post := by
  simp only [tokenize, if_true, Bool.false_eq_true, if_false, hc, List.cons_append]
  rw [tokenize_name [c] w post hw, tokenize_after_name _ post hpost]
  simp

/-- a `$`-free prefix is copied and the rest is scanned as if it stood alone -/
theorem inlineGo_prefix (env : Env) (p t : List Char) (hp : '$' ∉ p) (hne : p ≠ []) (pd : Bool) :
    inlineGo env (.copy pd) (p ++ t) = (inlineGo env (.copy false) t).app p := by
  induction p generalizing pd with
  | nil => exact absurd rfl hne
  | cons c cs ih =>
    have hc : c ≠ '$' := fun e => hp (by simp [e])
    have hcs : '$' ∉ cs := fun h => hp (by simp [h])
    cases cs with
    | nil => simp [inlineGo, hc]
    | cons d ds =>
      have := ih hcs (by simp) false
      simp only [List.cons_append] at this ⊢
      rw [inlineGo]
      simp only [hc, if_false]
      rw [this, Res.app_app]
      rfl

/-! ### the dict -/

theorem get_set_same (e : Env) (n v : List Char) : (e.set n v).get n = some v := by
  induction e with
  | nil => simp [Env.set, Env.get]
  | cons p e ih =>
    obtain ⟨k, x⟩ := p
    by_cases h : k = n <;> simp [Env.set, Env.get, h, ih]

theorem get_set_other (e : Env) (n m v : List Char) (h : m ≠ n) : (e.set n v).get m = e.get m := by
  induction e with
  | nil => simp [Env.set, Env.get, Ne.symm h]
  | cons p e ih =>
    obtain ⟨k, x⟩ := p
    by_cases hk : k = n
    · subst hk; simp [Env.set, Env.get, Ne.symm h]
    · by_cases hm : k = m
      · subst hm; simp [Env.set, Env.get, hk]
      · simp [Env.set, Env.get, hk, hm, ih]

/-- keys are unique when the dict is only built with `set`/`unset` from the empty dict -/
def Env.nodup : Env → Prop
  | [] => True
  | (k, _) :: e => Env.get e k = none ∧ Env.nodup e

theorem get_unset_other (e : Env) (n m : List Char) (h : m ≠ n) : (e.unset n).get m = e.get m := by
  induction e with
  | nil => simp [Env.unset, Env.get]
  | cons p e ih =>
    obtain ⟨k, x⟩ := p
    by_cases hk : k = n
    · subst hk; simp [Env.unset, Env.get, Ne.symm h]
    · by_cases hm : k = m
      · subst hm; simp [Env.unset, Env.get, hk]
      · simp [Env.unset, Env.get, hk, hm, ih]

theorem get_unset_same (e : Env) (n : List Char) (hd : e.nodup) : (e.unset n).get n = none := by
  induction e with
  | nil => simp [Env.unset, Env.get]
  | cons p e ih =>
    obtain ⟨k, x⟩ := p
    by_cases hk : k = n
    · subst hk; simpa [Env.unset] using hd.1
    · simp [Env.unset, Env.get, hk, ih hd.2]

theorem nodup_set (e : Env) (n v : List Char) (hd : e.nodup) : (e.set n v).nodup := by
  induction e with
  | nil => simp [Env.set, Env.nodup, Env.get]
  | cons p e ih =>
    obtain ⟨k, x⟩ := p
    by_cases hk : k = n
    · subst hk; simpa [Env.set, Env.nodup] using hd
    · simp only [Env.set, hk, if_false, Env.nodup]
      exact ⟨by rw [get_set_other e n k v hk]; exact hd.1, ih hd.2⟩

theorem nodup_unset (e : Env) (n : List Char) (hd : e.nodup) : (e.unset n).nodup := by
  induction e with
  | nil => simp [Env.unset, Env.nodup]
  | cons p e ih =>
    obtain ⟨k, x⟩ := p
    by_cases hk : k = n
    · subst hk; simpa [Env.unset] using hd.2
    · simp only [Env.unset, hk, if_false, Env.nodup]
      exact ⟨by rw [get_unset_other e n k hk]; exact hd.1, ih hd.2⟩

/-! ### references inside / outside literals -/

/-- is there any reference at all -/
def hasRef : Bool → List Char → Bool
  | _, [] => false
  | _, [_] => false
  | pd, c :: d :: rest => (c = '$' && !pd && isWord d) || hasRef (c = '$') (d :: rest)

theorem refAt_or (st : Fs.Lex.St) (pd : Bool) (t : List Char) :
    (refAt true st pd t || refAt false st pd t) = hasRef pd t := by
  induction t generalizing st pd with
  | nil => simp [refAt, hasRef]
  | cons c cs ih =>
    cases cs with
    | nil => simp [refAt, hasRef]
    | cons d rest =>
      simp only [refAt, hasRef]
      rw [← ih (Fs.Lex.step st c).2 (decide (c = '$'))]
      cases st.boundary <;> cases (decide (c = '$') && !pd && isWord d) <;> simp <;>
        cases refAt true (Fs.Lex.step st c).2 (decide (c = '$')) (d :: rest) <;> simp

theorem substAll_txt (env : Env) (t : List Char) : substAll env (t.map .txt) = .ok t := by
  induction t with
  | nil => simp [substAll]
  | cons c cs ih => simp [substAll, ih, Res.app]

/-- without any reference every character is plain text -/
theorem tokenize_noref (pd : Bool) (t : List Char) (h : hasRef pd t = false) :
    tokenize (.copy pd) t = t.map .txt := by
  induction t generalizing pd with
  | nil => simp [tokenize]
  | cons c cs ih =>
    cases cs with
    | nil =>
      by_cases hc : c = '$'
      · cases pd <;> simp [tokenize, hc]
      · simp [tokenize, hc]
    | cons d rest =>
      simp only [hasRef, Bool.or_eq_false_iff] at h
      have ih' := ih (decide (c = '$')) h.2
      by_cases hc : c = '$'
      · subst hc
        simp only [decide_true] at ih' h
        cases pd
        · have hd : isWord d = false := by simpa using h.1
          by_cases hdd : d = '$'
          · subst hdd
            simp only [tokenize, if_true] at ih'
            simp [tokenize, dollar_not_word, ih']
          · simp only [tokenize, hdd, if_false] at ih'
            simp [tokenize, hd, hdd, ih']
        · rw [tokenize]; simp [ih']
      · simp only [hc, decide_false] at ih'
        rw [tokenize]; simp [hc, ih']

/-- without any reference the scan copies the text -/
theorem inlineGo_noref (env : Env) (pd : Bool) (t : List Char) (h : hasRef pd t = false) :
    inlineGo env (.copy pd) t = .ok t := by
  rw [inlineGo_eq, tokenize_noref pd t h, substAll_txt]

end Fs.Vars
