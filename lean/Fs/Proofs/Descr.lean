import Fs.Model.Descr
/-! Helper lemmas for C06: decimal digits round trip, the DECIMAL(p,s) regex on DuckDB's rendering. -/
namespace Fs.Descr

theorem digitChar_isDigit (d : Nat) (h : d < 10) : isDigit (Char.ofNat ('0'.toNat + d)) = true := by
  have : d = 0 ∨ d = 1 ∨ d = 2 ∨ d = 3 ∨ d = 4 ∨ d = 5 ∨ d = 6 ∨ d = 7 ∨ d = 8 ∨ d = 9 := by omega
  rcases this with rfl | rfl | rfl | rfl | rfl | rfl | rfl | rfl | rfl | rfl <;> decide

theorem digitChar_val (d : Nat) (h : d < 10) : digitVal (Char.ofNat ('0'.toNat + d)) = d := by
  have : d = 0 ∨ d = 1 ∨ d = 2 ∨ d = 3 ∨ d = 4 ∨ d = 5 ∨ d = 6 ∨ d = 7 ∨ d = 8 ∨ d = 9 := by omega
  rcases this with rfl | rfl | rfl | rfl | rfl | rfl | rfl | rfl | rfl | rfl <;> decide

/-- value of a digit string read after an accumulator -/
theorem foldl_val (cs : List Char) (a : Nat) :
    cs.foldl (fun a c => a * 10 + digitVal c) a = a * 10 ^ cs.length + valOf cs := by
  induction cs generalizing a with
  | nil => simp [valOf]
  | cons c cs ih =>
    simp only [List.foldl_cons, List.length_cons, valOf]
    rw [ih, ih (0 * 10 + digitVal c)]
    simp only [Nat.zero_mul, Nat.zero_add, Nat.pow_succ]
    rw [Nat.add_mul, Nat.mul_assoc, Nat.mul_comm 10, Nat.add_assoc]

theorem valOf_cons (c : Char) (cs : List Char) : valOf (c :: cs) = digitVal c * 10 ^ cs.length + valOf cs := by
  simp only [valOf, List.foldl_cons, Nat.zero_mul, Nat.zero_add]
  exact foldl_val cs (digitVal c)

/-- invariant of the digit loop -/
theorem digitsAux_spec (fuel n : Nat) (acc : List Char) (hf : n < fuel) (hacc : ∀ c ∈ acc, isDigit c = true) :
    (∀ c ∈ digitsAux fuel n acc, isDigit c = true) ∧
    valOf (digitsAux fuel n acc) = n * 10 ^ acc.length + valOf acc ∧
    acc.length < (digitsAux fuel n acc).length := by
  induction fuel generalizing n acc with
  | zero => omega
  | succ fuel ih =>
    have hd : n % 10 < 10 := Nat.mod_lt _ (by omega)
    have hacc' : ∀ c ∈ Char.ofNat ('0'.toNat + n % 10) :: acc, isDigit c = true := by
      intro c hc
      rcases List.mem_cons.mp hc with rfl | h
      · exact digitChar_isDigit _ hd
      · exact hacc c h
    have hval : valOf (Char.ofNat ('0'.toNat + n % 10) :: acc) = (n % 10) * 10 ^ acc.length + valOf acc := by
      rw [valOf_cons, digitChar_val _ hd]
    simp only [digitsAux]
    by_cases hz : n / 10 = 0
    · rw [if_pos hz]
      refine ⟨hacc', ?_, by simp⟩
      rw [hval]
      have : n % 10 = n := by omega
      rw [this]
    · rw [if_neg hz]
      have hlt : n / 10 < fuel := by omega
      obtain ⟨h1, h2, h3⟩ := ih (n / 10) _ hlt hacc'
      refine ⟨h1, ?_, by simp only [List.length_cons] at h3; omega⟩
      rw [h2, hval]
      simp only [List.length_cons, Nat.pow_succ]
      have hn : n = 10 * (n / 10) + n % 10 := (Nat.div_add_mod n 10).symm
      have e1 : (n / 10) * (10 ^ acc.length * 10) = 10 * (n / 10) * 10 ^ acc.length := by
        rw [Nat.mul_comm (10 ^ acc.length) 10, ← Nat.mul_assoc, Nat.mul_comm (n / 10) 10]
      rw [e1, ← Nat.add_assoc, ← Nat.add_mul]
      congr 2
      exact hn.symm

theorem digits_spec (n : Nat) : (∀ c ∈ digits n, isDigit c = true) ∧ valOf (digits n) = n ∧ digits n ≠ [] := by
  obtain ⟨h1, h2, h3⟩ := digitsAux_spec (n + 1) n [] (by omega) (by simp)
  refine ⟨h1, by simpa [valOf, digits] using h2, ?_⟩
  intro h
  simp only [digits] at h
  rw [h] at h3
  simp at h3

/-- a run of digits followed by a non-digit is split exactly there -/
theorem spanDigits_append (ds rest : List Char) (hds : ∀ c ∈ ds, isDigit c = true)
    (hrest : ∀ c, rest.head? = some c → isDigit c = false) : spanDigits (ds ++ rest) = (ds, rest) := by
  induction ds with
  | nil =>
    cases rest with
    | nil => rfl
    | cons c cs => simp [spanDigits, hrest c rfl]
  | cons d ds ih =>
    have hd := hds d (by simp)
    simp only [List.cons_append, spanDigits, hd, if_true]
    rw [ih (fun c hc => hds c (by simp [hc]))]

theorem matchHere_render (p s : Nat) (tail : List Char) :
    matchHere ('(' :: (digits p ++ [','] ++ digits s ++ [')'] ++ tail)) = some (p, s) := by
  obtain ⟨hp1, hp2, hp3⟩ := digits_spec p
  obtain ⟨hs1, hs2, hs3⟩ := digits_spec s
  have e1 : spanDigits (digits p ++ [','] ++ digits s ++ [')'] ++ tail) = (digits p, ',' :: (digits s ++ [')'] ++ tail)) := by
    have := spanDigits_append (digits p) (',' :: (digits s ++ [')'] ++ tail)) hp1 (by intro c hc; simp at hc; subst hc; decide)
    simpa [List.append_assoc] using this
  have e2 : spanDigits (digits s ++ [')'] ++ tail) = (digits s, ')' :: tail) := by
    have := spanDigits_append (digits s) (')' :: tail) hs1 (by intro c hc; simp at hc; subst hc; decide)
    simpa [List.append_assoc] using this
  simp only [matchHere, e1]
  cases hdp : digits p with
  | nil => exact absurd hdp hp3
  | cons a as =>
    rw [← hdp, e2]
    cases hds : digits s with
    | nil => exact absurd hds hs3
    | cons b bs =>
      show some (valOf (digits p), valOf (b :: bs)) = some (p, s)
      rw [← hds, hs2, hp2]

theorem searchDec_skip (pre rest : List Char) (h : ∀ c ∈ pre, c ≠ '(') : searchDec (pre ++ rest) = searchDec rest := by
  induction pre with
  | nil => rfl
  | cons c cs ih =>
    have hc : c ≠ '(' := h c (by simp)
    have : matchHere (c :: (cs ++ rest)) = none := by
      unfold matchHere
      split
      · rename_i heq; injection heq with h1 _; exact absurd h1 hc
      · rfl
    simp only [List.cons_append, searchDec, this]
    exact ih (fun c' hc' => h c' (by simp [hc']))

end Fs.Descr
