import Fs.Model.Types
/-! Helper lemmas for C01 (width adequacy by cases, assoc-list frame lemmas for the copy statements). -/
namespace Fs.Types

theorem width_partial (k : Kind) (v : Val) (henv : isIntFamily k = true → int64 v) (h : dom k v) :
    duckDom (toDuck k) v := by
  cases k <;> cases v <;>
    simp only [dom, toDuck, pipeline, semiStructured, timestampNtz, floatToDouble, integerPrecision, duckOf, duckDom,
      tsMin, tsMax, isIntFamily, int64, forall_const] at * <;>
    first
      | trivial
      | exact h
      | omega
      | (exact ⟨h.1, henv.1, henv.2⟩)
      | (intro b hb; exact h b hb)

/-! assoc-list lemmas -/

theorem get_cons (p : String × Table) (ps : Db) (n : String) :
    get (p :: ps) n = if p.1 = n then some p.2 else get ps n := by
  unfold get
  by_cases e : p.1 = n <;> simp [e]

theorem get_put_same (db : Db) (n : String) (t : Table) : get (put db n t) n = some t := by
  unfold put; rw [get_cons]; simp

theorem get_put_ne (db : Db) (n n' : String) (t : Table) (h : n' ≠ n) : get (put db n t) n' = get db n' := by
  unfold put
  rw [get_cons, if_neg (fun e => h e.symm)]
  induction db with
  | nil => rfl
  | cons p ps ih =>
    by_cases e : p.1 = n
    · rw [List.filter_cons_of_neg (by simp [e]), get_cons, if_neg (by rw [e]; exact fun e' => h e'.symm)]
      exact ih
    · rw [List.filter_cons_of_pos (by simp [e]), get_cons, get_cons, ih]

theorem ctas_spec (db db' : Db) (new : String) (orReplace : Bool) (q : Query) (h : ctas db new orReplace q = some db') :
    (∃ t, get db q.src = some t ∧
      get db' new = some { cols := q.projCols t.cols, rows := (t.rows.filter q.pred).map q.proj }) ∧
    ∀ n, n ≠ new → get db' n = get db n := by
  unfold ctas evalQuery at h
  cases hs : get db q.src with
  | none => rw [hs] at h; simp at h
  | some t =>
    rw [hs] at h
    simp only [Option.map_some] at h
    split at h
    · cases h
    · simp only [Option.some.injEq] at h
      subst h
      exact ⟨⟨t, rfl, get_put_same _ _ _⟩, fun n hn => get_put_ne _ _ _ _ hn⟩

theorem clone_spec (db db' : Db) (new src : String) (h : clone db new src = some db') :
    get db' new = get db src ∧ (get db src).isSome ∧ ∀ n, n ≠ new → get db' n = get db n := by
  unfold clone at h
  obtain ⟨⟨t, ht, hn⟩, hf⟩ := ctas_spec db db' new false (star src) h
  have ft : ∀ l : List Row, l.filter (fun _ => true) = l := fun l => by induction l <;> simp_all
  simp only [star, List.map_id_fun, id_eq, ft] at ht hn
  refine ⟨?_, ?_, hf⟩
  · rw [hn, ht]
  · rw [ht]; rfl

theorem insert_select_spec (db db' : Db) (tgt : String) (q : Query) (cnt : Nat)
    (h : insertSelect db tgt q = some (db', cnt)) :
    (∃ t s, get db tgt = some t ∧ get db q.src = some s ∧
      get db' tgt = some { t with rows := t.rows ++ (s.rows.filter q.pred).map q.proj } ∧
      cnt = ((s.rows.filter q.pred).map q.proj).length ∧
      ∀ r : Row, ((t.rows ++ (s.rows.filter q.pred).map q.proj).count r) =
        t.rows.count r + ((s.rows.filter q.pred).map q.proj).count r) ∧
    ∀ n, n ≠ tgt → get db' n = get db n := by
  unfold insertSelect evalQuery at h
  cases ht : get db tgt with
  | none => rw [ht] at h; simp at h
  | some t =>
    cases hs : get db q.src with
    | none => rw [ht, hs] at h; simp at h
    | some s =>
      rw [ht, hs] at h
      simp only [Option.map_some, Option.some.injEq, Prod.mk.injEq] at h
      obtain ⟨h1, h2⟩ := h
      subst h1
      refine ⟨⟨t, s, rfl, rfl, get_put_same _ _ _, h2.symm, fun r => List.count_append⟩, fun n hn => get_put_ne _ _ _ _ hn⟩

end Fs.Types
