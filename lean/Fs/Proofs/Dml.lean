import Fs.Model.DmlExec
/-! Helper lemmas for C04: the executor's scans equal the declarative reading; frame; well-formedness. -/
namespace Fs.Dml

theorem scanDelete_eq (p : Row → Tri) (rows : List Row) :
    scanDelete p rows = (rows.filter (fun r => ¬ p r = .t), rows.countP (fun r => p r = .t)) := by
  induction rows with
  | nil => rfl
  | cons r rs ih =>
    simp only [scanDelete, ih]
    by_cases h : p r = .t <;> simp [h]

theorem scanUpdate_eq (p : Row → Tri) (f : Row → Row) (rows : List Row) :
    scanUpdate p f rows = (rows.map (fun r => if p r = .t then f r else r), rows.countP (fun r => p r = .t)) := by
  induction rows with
  | nil => rfl
  | cons r rs ih =>
    simp only [scanUpdate, ih]
    by_cases h : p r = .t <;> simp [h]

theorem scanSelect_eq (p : Row → Tri) (f : Row → Row) (rows : List Row) :
    scanSelect p f rows = (rows.filter (fun r => p r = .t)).map f := by
  induction rows with
  | nil => rfl
  | cons r rs ih =>
    simp only [scanSelect, ih]
    by_cases h : p r = .t <;> simp [h]

theorem appendCount_eq (rows new : List Row) : appendCount rows new = (rows ++ new, new.length) := by
  induction new generalizing rows with
  | nil => simp [appendCount]
  | cons r rs ih => simp [appendCount, ih]

/-- the engine computes exactly what SQL semantics prescribe -/
theorem engine_eq_spec (db : DB) (s : Stmt) : engine db s = Spec.apply db s := by
  cases s with
  | insert t cols src =>
    simp only [engine, Spec.apply]
    cases hdb : db[t]? with
    | none => rfl
    | some tb =>
      simp only []
      cases src with
      | values w rows =>
        simp only [srcRows, Spec.insertRows]
        by_cases h1 : rows.all (·.length == w) = true
        · by_cases h2 : colsOk tb.arity cols = true ∧ w = colsWidth tb.arity cols
          · obtain ⟨h2a, h2b⟩ := h2
            subst h2b
            simp [h1, h2a, appendCount_eq]
          · rw [if_pos h1, if_neg (by simpa using h1), if_neg h2]
            simp only [if_neg h2]
        · rw [if_neg h1, if_pos (by simpa using h1)]
      | select sidx proj p =>
        simp only [srcRows, Spec.insertRows]
        cases hs : db[sidx]? with
        | none => rfl
        | some st =>
          simp only []
          by_cases h1 : projMaxCol proj ≤ st.arity ∧ whereMaxCol p ≤ st.arity
          · by_cases h2 : colsOk tb.arity cols = true ∧ projWidth proj st.arity = colsWidth tb.arity cols
            · simp [h1, h2, appendCount_eq, scanSelect_eq]
            · simp [h1, h2]
          · simp [h1]
  | update t sets p =>
    simp only [engine, Spec.apply]
    cases hdb : db[t]? with
    | none => rfl
    | some tb => simp only [scanUpdate_eq]
  | delete t p =>
    simp only [engine, Spec.apply]
    cases hdb : db[t]? with
    | none => rfl
    | some tb => simp only [scanDelete_eq]
  | truncate t => rfl

/-- the cursor's plumbing shows the engine's count as Snowflake would -/
theorem finish_eq_obs (s : Stmt) (n : Nat) : finish (engineResult n) (branch (keyCommand s) n) = Spec.obs s n := by
  cases s <;> rfl

theorem impl_step_eq_spec (db : DB) (s : Stmt) : Impl.step db s = Spec.step db s := by
  simp only [Impl.step, Spec.step, engine_eq_spec]
  cases Spec.apply db s with
  | error e => rfl
  | ok r => obtain ⟨db', n⟩ := r; simp [finish_eq_obs]

theorem runWith_congr (f g : DB → Stmt → Except Err (DB × Obs)) (h : ∀ db s, f db s = g db s) (db : DB) (ss : List Stmt) :
    runWith f db ss = runWith g db ss := by
  induction ss generalizing db with
  | nil => rfl
  | cons s ss ih =>
    simp only [runWith, h]
    cases g db s with
    | error e => simp [ih]
    | ok r => simp [ih]

/-! ### frame -/

/-- every successful statement rewrites only its target slot -/
theorem apply_shape (db db' : DB) (s : Stmt) (n : Nat) (h : Spec.apply db s = .ok (db', n)) :
    ∃ tb rows', db[s.target]? = some tb ∧ db' = db.set s.target { tb with rows := rows' } := by
  cases s with
  | insert t cols src =>
    simp only [Spec.apply] at h
    cases hdb : db[t]? with
    | none => simp [hdb] at h
    | some tb =>
      simp only [hdb] at h
      cases hi : Spec.insertRows db tb cols src with
      | error e => simp [hi] at h
      | ok new =>
        simp only [hi, Except.ok.injEq, Prod.mk.injEq] at h
        exact ⟨tb, _, hdb, h.1.symm⟩
  | update t sets p =>
    simp only [Spec.apply] at h
    cases hdb : db[t]? with
    | none => simp [hdb] at h
    | some tb =>
      simp only [hdb] at h
      split at h
      · simp only [Except.ok.injEq, Prod.mk.injEq] at h
        exact ⟨tb, _, hdb, h.1.symm⟩
      · cases h
  | delete t p =>
    simp only [Spec.apply] at h
    cases hdb : db[t]? with
    | none => simp [hdb] at h
    | some tb =>
      simp only [hdb] at h
      split at h
      · simp only [Except.ok.injEq, Prod.mk.injEq] at h
        exact ⟨tb, _, hdb, h.1.symm⟩
      · cases h
  | truncate t =>
    simp only [Spec.apply] at h
    cases hdb : db[t]? with
    | none => simp [hdb] at h
    | some tb =>
      simp only [hdb, Except.ok.injEq, Prod.mk.injEq] at h
      exact ⟨tb, _, hdb, h.1.symm⟩

theorem apply_frame (db db' : DB) (s : Stmt) (n : Nat) (h : Spec.apply db s = .ok (db', n)) :
    db'.length = db.length ∧ (∀ j, j ≠ s.target → db'[j]? = db[j]?) ∧
    (∀ tb', db'[s.target]? = some tb' → ∃ tb, db[s.target]? = some tb ∧ tb'.arity = tb.arity) := by
  obtain ⟨tb, rows', hdb, rfl⟩ := apply_shape db db' s n h
  refine ⟨by simp, fun j hj => by simp [Ne.symm hj], fun tb' h' => ?_⟩
  have hlt : s.target < db.length := by
    rcases Nat.lt_or_ge s.target db.length with h1 | h1
    · exact h1
    · rw [List.getElem?_eq_none h1] at hdb; cases hdb
  simp only [List.getElem?_set, hlt, if_true] at h'
  exact ⟨tb, hdb, by cases h'; rfl⟩

/-! ### well-formedness: every row has the table's width -/

def Table.wf (tb : Table) : Prop := ∀ r ∈ tb.rows, r.length = tb.arity
def DB.wf (db : DB) : Prop := ∀ tb ∈ db, tb.wf

theorem assign_length (sets : List (Nat × Expr)) (r : Row) : (assign sets r).length = r.length := by
  simp [assign]

theorem place_length (arity : Nat) (cols : Option (List Nat)) (src : Row)
    (h : src.length = colsWidth arity cols) : (place arity cols src).length = arity := by
  cases cols with
  | none => simpa [place, colsWidth] using h
  | some cs => simp [place]

theorem projRow_length (proj : Option (List Expr)) (r : Row) (a : Nat) (h : r.length = a) :
    (projRow proj r).length = projWidth proj a := by
  cases proj with
  | none => simpa [projRow, projWidth] using h
  | some es => simp [projRow, projWidth]

theorem insertRows_wf (db : DB) (hwf : DB.wf db) (tb : Table) (cols : Option (List Nat)) (src : Src) (new : List Row)
    (h : Spec.insertRows db tb cols src = .ok new) : ∀ r ∈ new, r.length = tb.arity := by
  cases src with
  | values w rows =>
    simp only [Spec.insertRows] at h
    split at h
    · cases h
    · rename_i hall
      split at h
      · rename_i hc
        simp only [Except.ok.injEq] at h
        subst h
        intro r hr
        obtain ⟨r0, hr0, rfl⟩ := List.mem_map.mp hr
        apply place_length
        have : rows.all (·.length == w) = true := by simpa using hall
        have := List.all_eq_true.mp this r0 hr0
        simp only [beq_iff_eq] at this
        rw [this, hc.2]
      · cases h
  | select sidx proj p =>
    simp only [Spec.insertRows] at h
    cases hs : db[sidx]? with
    | none => simp [hs] at h
    | some st =>
      simp only [hs] at h
      split at h
      · cases h
      · split at h
        · rename_i hc
          simp only [Except.ok.injEq] at h
          subst h
          intro r hr
          obtain ⟨r1, hr1, rfl⟩ := List.mem_map.mp hr
          obtain ⟨r0, hr0, rfl⟩ := List.mem_map.mp hr1
          apply place_length
          rw [← hc.2]
          apply projRow_length
          exact hwf st (List.mem_of_getElem? hs) r0 (List.mem_filter.mp hr0).1
        · cases h

theorem wf_set (db : DB) (hwf : DB.wf db) (t : Nat) (tb : Table) (htb : tb.wf) : DB.wf (db.set t tb) := by
  intro x hx
  rcases List.mem_or_eq_of_mem_set hx with h | h
  · exact hwf x h
  · subst h; exact htb

theorem apply_wf (db db' : DB) (s : Stmt) (n : Nat) (hwf : DB.wf db) (h : Spec.apply db s = .ok (db', n)) :
    DB.wf db' := by
  cases s with
  | insert t cols src =>
    simp only [Spec.apply] at h
    cases hdb : db[t]? with
    | none => simp [hdb] at h
    | some tb =>
      simp only [hdb] at h
      cases hi : Spec.insertRows db tb cols src with
      | error e => simp [hi] at h
      | ok new =>
        simp only [hi, Except.ok.injEq, Prod.mk.injEq] at h
        rw [← h.1]
        apply wf_set _ hwf
        intro r hr
        rcases List.mem_append.mp hr with h1 | h1
        · exact hwf tb (List.mem_of_getElem? hdb) r h1
        · exact insertRows_wf db hwf tb cols src new hi r h1
  | update t sets p =>
    simp only [Spec.apply] at h
    cases hdb : db[t]? with
    | none => simp [hdb] at h
    | some tb =>
      simp only [hdb] at h
      split at h
      · simp only [Except.ok.injEq, Prod.mk.injEq] at h
        rw [← h.1]
        apply wf_set _ hwf
        intro r hr
        obtain ⟨r0, hr0, rfl⟩ := List.mem_map.mp hr
        have := hwf tb (List.mem_of_getElem? hdb) r0 hr0
        split
        · rw [assign_length]; exact this
        · exact this
      · cases h
  | delete t p =>
    simp only [Spec.apply] at h
    cases hdb : db[t]? with
    | none => simp [hdb] at h
    | some tb =>
      simp only [hdb] at h
      split at h
      · simp only [Except.ok.injEq, Prod.mk.injEq] at h
        rw [← h.1]
        apply wf_set _ hwf
        intro r hr
        exact hwf tb (List.mem_of_getElem? hdb) r (List.mem_filter.mp hr).1
      · cases h
  | truncate t =>
    simp only [Spec.apply] at h
    cases hdb : db[t]? with
    | none => simp [hdb] at h
    | some tb =>
      simp only [hdb, Except.ok.injEq, Prod.mk.injEq] at h
      rw [← h.1]
      apply wf_set _ hwf
      intro r hr
      cases hr

theorem step_ok_iff (db db' : DB) (s : Stmt) (o : Obs) :
    Spec.step db s = .ok (db', o) ↔ ∃ n, Spec.apply db s = .ok (db', n) ∧ o = Spec.obs s n := by
  simp only [Spec.step]
  cases Spec.apply db s with
  | error e => simp
  | ok r =>
    obtain ⟨d, n⟩ := r
    simp only [Except.ok.injEq, Prod.mk.injEq]
    constructor
    · rintro ⟨rfl, rfl⟩; exact ⟨n, ⟨rfl, rfl⟩, rfl⟩
    · rintro ⟨m, ⟨rfl, rfl⟩, rfl⟩; exact ⟨rfl, rfl⟩

end Fs.Dml
