import Fs.Proofs.Fetch
/-! Properties of the abstract read-position cursor; transferred to the code model through `sim_run`. -/
namespace Fs.Fetch

def Op.isExec {α} : Op α → Bool | .exec _ => true | .fail => true | _ => false

theorem sstep_res {α} (s : SCur α) (o : Op α) (h : o.isExec = false) : (sstep s o).2.res? = s.res? := by
  cases o <;> simp [Op.isExec] at h <;> simp only [sstep] <;> (try rfl) <;> (cases hh : s.res? <;> simp [hh])

/-- one non-exec step hands out exactly the rows between the old and the new position -/
theorem sstep_handed {α} (s : SCur α) (o : Op α) (rs : List α) (hr : s.res? = some rs)
    (h : o.isExec = false) :
    (sstep s o).1.handed = (rs.drop s.pos).take ((sstep s o).2.pos - s.pos) ∧ s.pos ≤ (sstep s o).2.pos := by
  cases o with
  | exec _ => simp [Op.isExec] at h
  | fail => simp [Op.isExec] at h
  | setAs n => simp [sstep, Out.handed]
  | pandas => simp [sstep, hr, Out.handed]
  | one =>
    simp only [sstep, hr, Out.handed]
    cases hg : rs[s.pos]? with
    | none =>
      have : rs.length ≤ s.pos := by simpa using hg
      simp [Out.handed, List.drop_eq_nil_of_le this]
    | some r =>
      have hlt : s.pos < rs.length := by
        rcases Nat.lt_or_ge s.pos rs.length with h' | h'
        · exact h'
        · have : rs[s.pos]? = none := by simp [h']
          rw [this] at hg; cases hg
      simp only [Out.handed, Nat.add_sub_cancel_left]
      rw [List.take_one, List.head?_drop, hg]; simp
  | many k => simp [sstep, hr, Out.handed]
  | all =>
    simp only [sstep, hr, Out.handed]
    by_cases hl : rs.length = 0
    · have : rs = [] := List.length_eq_zero_iff.mp hl
      subst this; simp
    · simp only [hl, if_false, Nat.add_sub_cancel_left]
      refine ⟨?_, by omega⟩
      rw [List.take_of_length_le]; simp

theorem srun_res {α} (s : SCur α) (ops : List (Op α)) (h : ∀ o ∈ ops, o.isExec = false) :
    (srun s ops).2.res? = s.res? := by
  induction ops generalizing s with
  | nil => rfl
  | cons o os ih =>
    simp only [srun]
    rw [ih _ (fun o' ho' => h o' (by simp [ho'])), sstep_res _ _ (h o (by simp))]

/-- prefix invariant: everything handed out so far is the prefix of the result up to the position -/
theorem srun_prefix {α} (s : SCur α) (rs : List α) (hr : s.res? = some rs) (ops : List (Op α))
    (h : ∀ o ∈ ops, o.isExec = false) :
    rs.take s.pos ++ handedAll (srun s ops).1 = rs.take (srun s ops).2.pos ∧ s.pos ≤ (srun s ops).2.pos := by
  induction ops generalizing s with
  | nil => simp [srun, handedAll]
  | cons o os ih =>
    have ho := h o (by simp)
    have h1 := sstep_handed s o rs hr ho
    have hr' : (sstep s o).2.res? = some rs := by rw [sstep_res _ _ ho, hr]
    have h2 := ih (sstep s o).2 hr' (fun o' ho' => h o' (by simp [ho']))
    simp only [srun, handedAll, List.flatMap_cons]
    simp only [handedAll] at h2
    obtain ⟨e1, l1⟩ := h1
    obtain ⟨e2, l2⟩ := h2
    refine ⟨?_, by omega⟩
    rw [← e2, ← List.append_assoc]; congr 1
    rw [e1]
    generalize (sstep s o).2.pos = j at *
    have : j = s.pos + (j - s.pos) := by omega
    conv => rhs; rw [this, List.take_add]


/-- after a trailing fetchall the position is at or beyond the end -/
theorem srun_all_pos {α} (rs : List α) (ops : List (Op α)) (s : SCur α) (hr : s.res? = some rs)
    (h : ∀ o ∈ ops, o.isExec = false) : rs.length ≤ (srun s (ops ++ [.all])).2.pos := by
  induction ops generalizing s with
  | nil =>
    simp only [List.nil_append, srun, sstep, hr]
    split <;> omega
  | cons o os ih =>
    simp only [List.cons_append, srun]
    apply ih
    · rw [sstep_res _ _ (h o (by simp)), hr]
    · intro o' ho'; exact h o' (by simp [ho'])

/-- without a result set every fetch raises the no-result-set error -/
theorem srun_no_result {α} (ops : List (Op α)) (h : ∀ o ∈ ops, o.isExec = false) (s : SCur α) (hr : s.res? = none) :
    ∀ o ∈ (srun s ops).1, o = Out.noResult ∨ o = Out.unit := by
  induction ops generalizing s with
  | nil => simp [srun]
  | cons x xs ih =>
    intro o ho
    simp only [srun, List.mem_cons] at ho
    rcases ho with rfl | ho
    · cases x <;> simp [sstep, hr]
    · exact ih (fun o' ho' => h o' (by simp [ho'])) (sstep s x).2
        (by rw [sstep_res _ _ (h x (by simp)), hr]) o ho

/-- at or beyond the end, every further fetch comes back empty and the position stays there -/
theorem sstep_exhausted {α} (s : SCur α) (rs : List α) (hr : s.res? = some rs) (hp : rs.length ≤ s.pos)
    (o : Op α) (h : o.isExec = false) :
    (sstep s o).1.handed = [] ∧ (sstep s o).1 ≠ .noResult ∧ rs.length ≤ (sstep s o).2.pos := by
  have hh := sstep_handed s o rs hr h
  refine ⟨?_, ?_, by omega⟩
  · rw [hh.1, List.drop_eq_nil_of_le hp]; simp
  · cases o <;> simp [sstep, hr]

end Fs.Fetch
