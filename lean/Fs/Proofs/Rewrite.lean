import Fs.Model.Rewrite
import Fs.Proofs.JsonText
/-! Helper lemmas for C10. -/
namespace Fs.Rewrite
open Fs.Json

theorem duckListAt_succ {α} (l : List α) (n : Nat) : duckListAt l ((n : Int) + 1) = l[n]? := by
  unfold duckListAt
  have h : ((n : Int) + 1 ≥ 1) := by omega
  simp only [h, if_true]
  congr 1
  omega

theorem filter_not_contains_e (p : List Char) : (p.filter (· != 'e')).contains 'e' = false := by
  induction p with
  | nil => rfl
  | cons c cs ih =>
    simp only [List.filter]
    split
    · rename_i h
      simp only [List.contains_cons, ih, Bool.or_false]
      simp at h
      simp; exact fun h' => h h'.symm
    · exact ih

theorem natDigits_inj (a b : Nat) (h : natDigits a = natDigits b) : a = b := by
  have := congrArg digitsVal h
  simpa [digitsVal_natDigits] using this

theorem columnName_inj (i j : Nat) (h : columnName i = columnName j) : i = j := by
  unfold columnName at h
  have := natDigits_inj _ _ (List.append_cancel_left h)
  omega

theorem topDownX_fire (r : X → Option X) {e e' : X} (h : r e = some e') : topDownX r e = e' := by
  rw [topDownX.eq_def, h]

theorem topDownX_n1 (r : X → Option X) (f a) (h : r (.n1 f a) = none) : topDownX r (.n1 f a) = .n1 f (topDownX r a) := by
  rw [topDownX.eq_def, h]
theorem topDownX_n2 (r : X → Option X) (f a b) (h : r (.n2 f a b) = none) :
    topDownX r (.n2 f a b) = .n2 f (topDownX r a) (topDownX r b) := by
  rw [topDownX.eq_def, h]
theorem topDownX_n3 (r : X → Option X) (f a b c) (h : r (.n3 f a b c) = none) :
    topDownX r (.n3 f a b c) = .n3 f (topDownX r a) (topDownX r b) (topDownX r c) := by
  rw [topDownX.eq_def, h]

end Fs.Rewrite
