import Fs.Model.ErrScen
/-! Helper lemmas for C07. -/
namespace Fs.Err

theorem Cause.mem_all (c : Cause) : c ∈ Cause.all := by cases c <;> decide
theorem Pos.mem_all (p : Pos) : p ∈ Pos.all := by cases p <;> decide
theorem Qual.mem_all (q : Qual) : q ∈ Qual.all := by cases q <;> decide
theorem RefKind.mem_all (k : RefKind) : k ∈ RefKind.all := by cases k <;> decide

theorem Scenario.mem_forCause (sc : Scenario) : sc ∈ Scenario.forCause sc.cause := by
  obtain ⟨c, p, k, q, a, b⟩ := sc
  simp only [Scenario.forCause, List.mem_flatMap, List.mem_map]
  refine ⟨p, Pos.mem_all p, k, RefKind.mem_all k, q, Qual.mem_all q, a, by cases a <;> simp, b, by cases b <;> simp, rfl⟩

theorem Scenario.mem_all (sc : Scenario) : sc ∈ Scenario.all := by
  simp only [Scenario.all, List.mem_flatMap]
  exact ⟨sc.cause, Cause.mem_all _, Scenario.mem_forCause sc⟩

/-- one call that does not succeed leaves the world as it was, unless a follow-up was reached -/
theorem execCall_fail {D Q} (eng : D → Q → Except DuckExc D) (w : World D) (c : Call Q) (hf : c.followups = [])
    (h : (execCall eng w c).2 ≠ .ok) : (execCall eng w c).1 = w := by
  unfold execCall at h ⊢
  by_cases h1 : c.noDatabase = true ∧ ¬ w.sess.databaseSet = true
  · rw [if_pos h1]
  · rw [if_neg h1] at h ⊢
    by_cases h2 : c.noSchema = true ∧ ¬ w.sess.schemaSet = true
    · rw [if_pos h2]
    · rw [if_neg h2] at h ⊢
      cases he : eng w.duck c.sql with
      | error e =>
        simp only [he] at h ⊢
        cases mapExc e <;> rfl
      | ok d =>
        simp only [he, hf, runFollowups] at h
        exact absurd rfl h

/-- the outcome of one call without follow-ups is never a bare Python exception, and an engine exception
    escapes only if the engine raised one outside {binder, catalog, txNoActive, connection} -/
theorem execCall_outcome {D Q} (eng : D → Q → Except DuckExc D) (w : World D) (c : Call Q) (hf : c.followups = []) :
    (execCall eng w c).2 = .ok ∨ (execCall eng w c).2 = .programming c90105 ∨ (execCall eng w c).2 = .programming c90106 ∨
    ∃ e, eng w.duck c.sql = .error e ∧ mapExc e = some (execCall eng w c).2 := by
  unfold execCall
  by_cases h1 : c.noDatabase = true ∧ ¬ w.sess.databaseSet = true
  · rw [if_pos h1]; exact .inr (.inl rfl)
  · rw [if_neg h1]
    by_cases h2 : c.noSchema = true ∧ ¬ w.sess.schemaSet = true
    · rw [if_pos h2]; exact .inr (.inr (.inl rfl))
    · rw [if_neg h2]
      cases he : eng w.duck c.sql with
      | error e =>
        cases hm : mapExc e with
        | none => simp only [hm]; exact .inl trivial
        | some o => simp only [hm]; exact .inr (.inr (.inr ⟨e, rfl, hm⟩))
      | ok d =>
        simp only [hf, runFollowups]
        exact .inl trivial

theorem execCalls_single {D Q} (eng : D → Q → Except DuckExc D) (w : World D) (c : Call Q) :
    execCalls eng w [c] = execCall eng w c := by
  simp only [execCalls]
  cases hx : execCall eng w c with
  | mk w' o => cases o <;> rfl

/-- on an open connection a single-call statement without variable traffic is exactly its `_execute` call -/
theorem execute_single {D Q} (eng : D → Q → Except DuckExc D) (w : World D) (s : Stmt Q) (c : Call Q)
    (hv : s.varUpdate = .none) (hc : s.calls = [c]) (hopen : w.closed = false) (hu : s.undefinedVar = false)
    (hp : s.parseError = false) :
    (execute eng w s).outcome = (execCall eng w c).2 ∧ (execute eng w s).world = (execCall eng w c).1 := by
  obtain ⟨d, cl, se⟩ := w
  simp only at hopen
  subst hopen
  simp only [execute, hu, hp, hv, hc, applyVar, Bool.false_eq_true, if_false, execCalls_single]
  exact ⟨trivial, trivial⟩

theorem runOps_others {D Q} (eng : D → Q → Except DuckExc D) (w : World D) (st : Option String) (ops : List (CurOp Q))
    (h : ∀ o ∈ ops, o = .other) : runOps eng w st ops = (w, st) := by
  induction ops with
  | nil => rfl
  | cons o os ih =>
    have := h o (by simp)
    subst this
    simp only [runOps]
    exact ih (fun o' ho' => h o' (by simp [ho']))

theorem runOps_append {D Q} (eng : D → Q → Except DuckExc D) (w : World D) (st : Option String) (a b : List (CurOp Q)) :
    runOps eng w st (a ++ b) = runOps eng (runOps eng w st a).1 (runOps eng w st a).2 b := by
  induction a generalizing w st with
  | nil => rfl
  | cons o os ih =>
    cases o with
    | execute s => simp only [List.cons_append, runOps]; exact ih _ _
    | other => simp only [List.cons_append, runOps]; exact ih _ _
    | close => simp only [List.cons_append, runOps]; exact ih _ _

end Fs.Err
