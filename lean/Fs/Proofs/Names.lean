import Fs.Model.Names
/-! Helper lemmas for C03 (session context / name resolution). -/
namespace Fs.Names

/-! ### shapes of a coherent connection -/

theorem coherent_cases {c : Cat} {ss : Session} (h : ss.coherent c = true) :
    ss = ⟨none, none, false, false, (memoryDb, mainS)⟩ ∨
    (∃ d, ss = ⟨some d, none, true, false, (d, mainS)⟩ ∧ c.hasDb d = true) ∨
    (∃ d sc, ss = ⟨some d, some sc, true, true, (d, sc)⟩ ∧ c.hasSchema d sc = true) := by
  obtain ⟨db, sc, dset, sset, path⟩ := ss
  unfold Session.coherent at h
  cases db <;> cases sc <;> cases dset <;> cases sset <;> simp at h
  · left; simp [h]
  · right; left; exact ⟨_, by simp [h.2], h.1⟩
  · right; right; exact ⟨_, _, by simp [h.2], h.1⟩

theorem hasSchema_hasDb {c : Cat} {d s : Name} (h : c.hasSchema d s = true) : c.hasDb d = true := by
  simp [Cat.hasSchema] at h; exact h.1

/-! ### how statements change the catalog -/

/-- `c'` has every database of `c`, and every schema of `c` except possibly `gone` -/
def Cat.Keeps (c c' : Cat) (gone : Option (Name × Name)) : Prop :=
  (∀ d, c.hasDb d = true → c'.hasDb d = true) ∧
  (∀ d s, c.hasSchema d s = true → gone ≠ some (d, s) → c'.hasSchema d s = true)

theorem Cat.Keeps.refl (c : Cat) (g) : Cat.Keeps c c g := ⟨fun _ h => h, fun _ _ h _ => h⟩

theorem keeps_objs (c : Cat) (o : List Obj) (g) : Cat.Keeps c { c with objs := o } g :=
  ⟨fun _ h => h, fun _ _ h _ => h⟩

theorem keeps_addDb (c : Cat) (d : Name) (g) : Cat.Keeps c { c with dbs := c.dbs ++ [d] } g := by
  refine ⟨fun x h => ?_, fun x s h _ => ?_⟩
  · simp [Cat.hasDb] at *; exact Or.inl h
  · simp [Cat.hasSchema, Cat.hasDb] at *; exact ⟨Or.inl h.1, h.2⟩

theorem keeps_addSchema (c : Cat) (p : Name × Name) (g) : Cat.Keeps c { c with schemas := c.schemas ++ [p] } g := by
  refine ⟨fun x h => h, fun x s h _ => ?_⟩
  simp [Cat.hasSchema, Cat.hasDb] at *
  refine ⟨h.1, ?_⟩
  rcases h.2 with h | h
  · exact Or.inl h
  · exact Or.inr (Or.inl h)

theorem coherent_keeps {c c' : Cat} {ss : Session} {g : Option (Name × Name)} (hk : Cat.Keeps c c' g)
    (h : ss.coherent c = true) (hg : ∀ d s, g = some (d, s) → ¬ (ss.abs.db = some d ∧ ss.abs.schema = some s)) :
    ss.coherent c' = true := by
  rcases coherent_cases h with rfl | ⟨d, rfl, hd⟩ | ⟨d, sc, rfl, hs⟩
  · rfl
  · simp [Session.coherent, hk.1 d hd]
  · have : g ≠ some (d, sc) := fun e => hg d sc e (by simp [Session.abs])
    simp [Session.coherent, hk.2 d sc hs this]

theorem createDb_keeps (c : Cat) (d : Name) (i : Bool) (g) : Cat.Keeps c (c.createDb d i).2 g := by
  unfold Cat.createDb; split
  · split <;> exact Cat.Keeps.refl _ _
  · exact keeps_addDb _ _ _

theorem applyT_keeps (c : Cat) (op : TOp) (d s n : Name) (g) : Cat.Keeps c (c.applyT op d s n).2 g := by
  unfold Cat.applyT
  split
  · exact Cat.Keeps.refl _ _
  · cases op <;> simp only <;> repeat' split
    all_goals first | exact Cat.Keeps.refl _ _ | exact keeps_objs _ _ _

theorem keeps_dropSchema (c : Cat) (d s : Name) :
    Cat.Keeps c { c with schemas := c.schemas.filter (· != (d, s)),
                         objs := c.objs.filter fun o => !(o.db == d && o.schema == s) } (some (d, s)) := by
  refine ⟨fun x h => h, fun x y h hne => ?_⟩
  simp at hne
  simp [Cat.hasSchema, Cat.hasDb] at *
  refine ⟨h.1, ?_⟩
  rcases h.2 with h2 | h2
  · exact Or.inl h2
  · right; refine ⟨h2, ?_⟩
    by_cases hx : x = d
    · right; intro hy; exact hne hx.symm hy.symm
    · left; exact hx

theorem applyS_keeps (c : Cat) (op : SOp) (d s : Name) :
    Cat.Keeps c (c.applyS op d s).2 (if op.isDrop = true ∧ (c.applyS op d s).1 = .ok then some (d, s) else none) := by
  unfold Cat.applyS
  split
  · exact Cat.Keeps.refl _ _
  · cases op with
    | create i =>
      simp only [SOp.isDrop, Bool.false_eq_true, false_and, if_false]
      split
      · split <;> exact Cat.Keeps.refl _ _
      · exact keeps_addSchema _ _ _
    | drop i =>
      simp only [SOp.isDrop, true_and]
      split
      · exact Cat.Keeps.refl _ _
      · split
        · split <;> exact Cat.Keeps.refl _ _
        · simp only [if_true]; exact keeps_dropSchema c d s
    | use =>
      simp only [SOp.isDrop, Bool.false_eq_true, false_and, if_false]
      split <;> exact Cat.Keeps.refl _ _

theorem applyS_not_ok_same (c : Cat) (op : SOp) (d s : Name) (h : (c.applyS op d s).1 ≠ .ok) :
    (c.applyS op d s).2 = c := by
  unfold Cat.applyS at *
  split
  · rfl
  · rename_i hdb
    simp only [hdb] at h
    cases op <;> simp only at h ⊢ <;> (repeat' split) <;> simp_all

/-! ### the guards and DuckDB's search path agree with resolution from the context -/

theorem resolve_guard {c : Cat} {ss : Session} (hc : ss.coherent c = true) (r : TRef) (e : Err)
    (hg : ss.guard (r.needDb, r.needSchema) = some e) : ss.abs.resolveT r = .error e := by
  rcases coherent_cases hc with rfl | ⟨d, rfl, _⟩ | ⟨d, sc, rfl, _⟩ <;> cases r <;>
    simp [Session.guard, TRef.needDb, TRef.needSchema, Session.abs, Ctx.resolveT] at * <;> exact hg

theorem resolve_agree {c : Cat} {ss : Session} (hc : ss.coherent c = true) (r : TRef) (create : Bool)
    (hg : ss.guard (r.needDb, r.needSchema) = none) (hf : create = true ∨ fallsBack c ss.path r = false) :
    ss.abs.resolveT r = .ok (duckResolve c ss.path create r) := by
  rcases coherent_cases hc with rfl | ⟨d, rfl, _⟩ | ⟨d, sc, rfl, _⟩ <;> cases r <;>
    simp [Session.guard, TRef.needDb, TRef.needSchema, Session.abs, Ctx.resolveT, duckResolve] at *
  rename_i n
  rcases hf with rfl | hf
  · simp
  · cases create
    · intro _ h1 h2
      simp [fallsBack, h1, h2] at hf
      exact hf
    · simp

theorem rawFails_region {c : Cat} {ss : Session} {st : Stmt} (h : localRegion c ss st = none) : st.rawFails = false := by
  cases hr : st.rawFails
  · rfl
  · cases st with
    | two op a b => simp only [localRegion, hr, if_true] at h; cases h
    | _ => simp [Stmt.rawFails] at hr

/-- a statement stopped by the guards is answered by the specification with the same error, nothing changed -/
theorem guard_refines {c : Cat} {ss : Session} (hc : ss.coherent c = true) (st : Stmt) (e : Err)
    (hreg : localRegion c ss st = none) (hg : ss.guard st.needs = some e) :
    sexec c ss.abs st = (.err e, c, ss.abs, none) := by
  cases st with
  | createDb d i => simp [Stmt.needs, Session.guard] at hg
  | dropDb d => simp [localRegion] at hreg
  | useDb d => simp [Stmt.needs, Session.guard] at hg
  | useBare x => simp [localRegion] at hreg
  | selectCtx => simp [Stmt.needs, Session.guard] at hg
  | tab op r =>
    simp only [Stmt.needs] at hg
    simp [sexec, resolve_guard hc r e hg]
  | join r1 r2 =>
    simp only [Stmt.needs] at hg
    simp [sexec, resolve_guard hc r1 e hg]
  | two op a b =>
    have hraw : (Stmt.two op a b).rawFails = false := rawFails_region hreg
    cases op
    case merge =>
      -- MERGE needs database and schema; its source is unqualified (anything else is in the region)
      cases b with
      | q1 n =>
        rcases coherent_cases hc with rfl | ⟨d, rfl, _⟩ | ⟨d, sc, rfl, _⟩ <;> cases a <;>
          simp [Stmt.needs, Session.guard, Session.abs, sexec, Ctx.resolveT] at * <;> exact hg.symm ▸ rfl
      | q2 _ _ => simp [Stmt.rawFails] at hraw
      | q3 _ _ _ => simp [Stmt.rawFails] at hraw
    all_goals (simp only [Stmt.needs] at hg; simp [sexec, resolve_guard hc a e hg])
  | tabI op r =>
    -- the guard asks for database and schema; outside the region the reference itself needs what is missing
    rcases coherent_cases hc with rfl | ⟨d, rfl, _⟩ | ⟨d, sc, rfl, _⟩ <;> cases r <;>
      simp [Stmt.needs, Session.guard, Session.abs, sexec, Ctx.resolveT, localRegion, TRef.needDb, TRef.needSchema] at * <;>
      exact hg.symm ▸ rfl
  | writePandas v r => simp [Stmt.needs, Session.guard] at hg
  | sch op r =>
    cases op <;> cases r <;> simp [Stmt.needs, Session.guard, SRef.needDb] at hg <;>
      rcases coherent_cases hc with rfl | ⟨d, rfl, _⟩ | ⟨d, sc, rfl, _⟩ <;>
      simp [Session.abs, sexec, Ctx.resolveS] at * <;> exact hg.symm ▸ rfl


/-- what `exec_refines` establishes for one statement on one coherent connection -/
def LocalRefines (c : Cat) (ss : Session) (st : Stmt) : Prop :=
  (exec c ss st).1 = (sexec c ss.abs st).1 ∧
  (exec c ss st).2.1 = (sexec c ss.abs st).2.1 ∧
  (exec c ss st).2.2.abs = Ctx.clear (sexec c ss.abs st).2.2.2 (sexec c ss.abs st).2.2.1 ∧
  (exec c ss st).2.2.coherent (exec c ss st).2.1 = true ∧
  Cat.Keeps c (exec c ss st).2.1 (sexec c ss.abs st).2.2.2

theorem clear_none (x : Ctx) : Ctx.clear none x = x := rfl

theorem refines_tab {c : Cat} {ss : Session} (hc : ss.coherent c = true) (op : TOp) (r : TRef)
    (hreg : localRegion c ss (.tab op r) = none) (hg : ss.guard (Stmt.tab op r).needs = none) :
    LocalRefines c ss (.tab op r) := by
  have hf : op.isCreate = true ∨ fallsBack c ss.path r = false := by
    simp [localRegion] at hreg
    cases h : op.isCreate
    · right; exact hreg h
    · left; rfl
  have ha := resolve_agree hc r op.isCreate hg hf
  simp only [LocalRefines, exec, sexec, ha, clear_none]
  refine ⟨trivial, trivial, trivial, ?_, applyT_keeps _ _ _ _ _ _⟩
  exact coherent_keeps (applyT_keeps _ _ _ _ _ none) hc (by simp)

theorem refines_join {c : Cat} {ss : Session} (hc : ss.coherent c = true) (r1 r2 : TRef)
    (hreg : localRegion c ss (.join r1 r2) = none) (hg : ss.guard (Stmt.join r1 r2).needs = none) :
    LocalRefines c ss (.join r1 r2) := by
  simp only [Stmt.needs] at hg
  simp only [localRegion, hg, Option.isNone_none, Bool.true_and] at hreg
  have hg2 : ss.guard (r2.needDb, r2.needSchema) = none := by
    cases h : ss.guard (r2.needDb, r2.needSchema) with
    | none => rfl
    | some e => simp [h] at hreg
  simp only [hg2, Option.isSome_none, Bool.false_eq_true, if_false] at hreg
  have hfb : fallsBack c ss.path r1 = false ∧ fallsBack c ss.path r2 = false := by
    cases h1 : fallsBack c ss.path r1 <;> cases h2 : fallsBack c ss.path r2 <;> simp [h1, h2] at hreg ⊢
  have h1 := resolve_agree hc r1 false hg (Or.inr hfb.1)
  have h2 := resolve_agree hc r2 false hg2 (Or.inr hfb.2)
  simp only [LocalRefines, exec, sexec, h1, h2, clear_none]
  exact ⟨trivial, trivial, trivial, hc, Cat.Keeps.refl _ _⟩

theorem applyTwo_keeps (c : Cat) (op : COp) (a b : Name × Name × Name) (g) : Cat.Keeps c (c.applyTwo op a b).2 g := by
  unfold Cat.applyTwo
  repeat' split
  all_goals first | exact Cat.Keeps.refl _ _ | exact keeps_objs _ _ _

theorem guard_all_of_full {ss : Session} (h : ss.guard (true, true) = none) (n : Bool × Bool) : ss.guard n = none := by
  obtain ⟨a, b⟩ := n
  simp only [Session.guard] at h ⊢
  cases hd : ss.databaseSet <;> cases hs : ss.schemaSet <;> simp_all

theorem refines_two {c : Cat} {ss : Session} (hc : ss.coherent c = true) (op : COp) (a b : TRef)
    (hreg : localRegion c ss (.two op a b) = none) (hg : ss.guard (Stmt.two op a b).needs = none) :
    LocalRefines c ss (.two op a b) := by
  have hraw : (Stmt.two op a b).rawFails = false := rawFails_region hreg
  simp only [localRegion, hraw, Bool.false_eq_true, if_false, hg, Option.isNone_none, Bool.true_and] at hreg
  have hgb : ss.guard (b.needDb, b.needSchema) = none := by
    cases h : ss.guard (b.needDb, b.needSchema) with
    | none => rfl
    | some e => simp [h] at hreg
  simp only [hgb, Option.isSome_none, Bool.false_eq_true, if_false] at hreg
  have hga : ss.guard (a.needDb, a.needSchema) = none := by
    cases op <;> first | exact hg | exact guard_all_of_full hg _
  have hfa : op.creates = true ∨ fallsBack c ss.path a = false := by
    cases hcr : op.creates
    · right
      cases h : fallsBack c ss.path a
      · rfl
      · simp [hcr, h] at hreg
    · left; rfl
  have hfb : fallsBack c ss.path b = false := by
    cases h : fallsBack c ss.path b
    · rfl
    · simp [h] at hreg
  have h1 := resolve_agree hc a op.creates hga hfa
  have h2 := resolve_agree hc b false hgb (Or.inr hfb)
  simp only [LocalRefines, exec, sexec, h1, h2, clear_none]
  exact ⟨trivial, trivial, trivial, coherent_keeps (applyTwo_keeps c op _ _ none) hc (by simp), applyTwo_keeps _ _ _ _ _⟩

theorem refines_tabI {c : Cat} {ss : Session} (hc : ss.coherent c = true) (op : TOp) (r : TRef)
    (hreg : localRegion c ss (.tabI op r) = none) (hg : ss.guard (Stmt.tabI op r).needs = none) :
    LocalRefines c ss (.tabI op r) := by
  have hfull : ss.guard (true, true) = none := hg
  have hgr := guard_all_of_full hfull (r.needDb, r.needSchema)
  have hreg' : localRegion c ss (.tab op r) = none := by
    simpa [localRegion, hfull] using hreg
  have := refines_tab hc op r hreg' hgr
  simpa [LocalRefines, exec, sexec] using this

theorem refines_writePandas {c : Cat} {ss : Session} (hc : ss.coherent c = true) (v : Nat) (r : TRef)
    (hreg : localRegion c ss (.writePandas v r) = none) : LocalRefines c ss (.writePandas v r) := by
  simp only [localRegion] at hreg
  have hgr : ss.guard (r.needDb, r.needSchema) = none := by
    cases h : ss.guard (r.needDb, r.needSchema) with
    | none => rfl
    | some e => simp [h] at hreg
  have hfb : fallsBack c ss.path r = false := by
    cases h : fallsBack c ss.path r
    · rfl
    · simp [hgr, h] at hreg
  have ha := resolve_agree hc r false hgr (Or.inr hfb)
  simp only [LocalRefines, exec, sexec, ha, clear_none]
  refine ⟨trivial, trivial, trivial, ?_, applyT_keeps _ _ _ _ _ _⟩
  exact coherent_keeps (applyT_keeps _ _ _ _ _ none) hc (by simp)

theorem refines_simple {c : Cat} {ss : Session} (hc : ss.coherent c = true) (st : Stmt)
    (hst : (∃ d i, st = .createDb d i) ∨ (∃ d, st = .useDb d) ∨ st = .selectCtx)
    (hreg : localRegion c ss st = none) : LocalRefines c ss st := by
  rcases hst with ⟨d, i, rfl⟩ | ⟨d, rfl⟩ | rfl
  · simp only [LocalRefines, exec, sexec, clear_none]
    exact ⟨trivial, trivial, trivial, coherent_keeps (createDb_keeps c d i none) hc (by simp), createDb_keeps _ _ _ _⟩
  · rcases coherent_cases hc with rfl | ⟨d0, rfl, h0⟩ | ⟨d0, sc, rfl, _⟩
    · by_cases h : c.hasDb d = true
      · simp [LocalRefines, exec, sexec, h, Session.abs, Ctx.clear, Session.coherent, Cat.Keeps.refl]
      · simp [LocalRefines, exec, sexec, h, Session.abs, Ctx.clear, Session.coherent, Cat.Keeps.refl]
    · by_cases h : c.hasDb d = true
      · simp [LocalRefines, exec, sexec, h, Session.abs, Ctx.clear, Session.coherent, Cat.Keeps.refl]
      · simp [LocalRefines, exec, sexec, h, Session.abs, Ctx.clear, Session.coherent, Cat.Keeps.refl, h0]
    · simp [localRegion] at hreg
  · rcases coherent_cases hc with rfl | ⟨d0, rfl, h0⟩ | ⟨d0, sc, rfl, hs⟩
    · simp [localRegion] at hreg
    · simp [localRegion] at hreg
    · simp [LocalRefines, exec, sexec, Session.abs, Ctx.clear, Session.coherent, Cat.Keeps.refl, hs]


theorem applyS_use_cat (c : Cat) (d s : Name) : (c.applyS .use d s).2 = c := by
  unfold Cat.applyS; split
  · rfl
  · simp only; split <;> rfl

theorem applyS_use_ok (c : Cat) (d s : Name) (h : (c.applyS .use d s).1 = .ok) : c.hasSchema d s = true := by
  unfold Cat.applyS at h
  split at h
  · simp at h
  · simp only at h; split at h
    · assumption
    · simp at h

theorem refines_sch_create {c : Cat} {ss : Session} (hc : ss.coherent c = true) (i : Bool) (r : SRef)
    (hg : ss.guard (Stmt.sch (.create i) r).needs = none) : LocalRefines c ss (.sch (.create i) r) := by
  have hk := fun d s => applyS_keeps c (.create i) d s
  simp only [SOp.isDrop, Bool.false_eq_true, false_and, if_false] at hk
  rcases coherent_cases hc with rfl | ⟨d0, rfl, h0⟩ | ⟨d0, sc, rfl, hs⟩ <;> cases r <;>
    simp [Stmt.needs, Session.guard, SRef.needDb] at hg <;>
    simp only [LocalRefines, exec, sexec, Session.abs, Ctx.resolveS, if_true, Bool.false_eq_true, if_false] <;>
    (rename_i s
     first
     | (rename_i d; have hk' := hk d s; revert hk'; generalize c.applyS (.create i) d s = a; intro hk')
     | (have hk' := hk d0 s; revert hk'; generalize c.applyS (.create i) d0 s = a; intro hk')) <;>
    (by_cases hok : a.1 = .ok <;> simp [hok, clear_none, hk'] <;>
      exact coherent_keeps hk' hc (by simp))


theorem refines_sch_use {c : Cat} {ss : Session} (hc : ss.coherent c = true) (r : SRef)
    (hreg : localRegion c ss (.sch .use r) = none) : LocalRefines c ss (.sch .use r) := by
  have hu := fun d s => applyS_use_cat c d s
  have ho := fun d s => applyS_use_ok c d s
  rcases coherent_cases hc with rfl | ⟨d0, rfl, h0⟩ | ⟨d0, sc, rfl, hs⟩ <;> cases r <;>
    simp [localRegion] at hreg <;>
    simp only [LocalRefines, exec, sexec, Session.abs, Ctx.resolveS, if_true, Bool.false_eq_true, if_false, Option.map] <;>
    (rename_i s
     first
     | (rename_i d; have hu' := hu d s; have ho' := ho d s; revert hu' ho'; generalize c.applyS .use d s = a; intro hu' ho')
     | (have hu' := hu d0 s; have ho' := ho d0 s; revert hu' ho'; generalize c.applyS .use d0 s = a; intro hu' ho')) <;>
    (by_cases hok : a.1 = .ok <;> simp [hok, clear_none, hu', Cat.Keeps.refl, Session.coherent] <;>
      first | exact ho' hok | exact hc | assumption)


theorem applyS_drop_facts (c : Cat) (i : Bool) (d s : Name) :
    Cat.Keeps c (c.applyS (.drop i) d s).2 (if (c.applyS (.drop i) d s).1 = .ok then some (d, s) else none) ∧
    ((c.applyS (.drop i) d s).1 ≠ .ok → (c.applyS (.drop i) d s).2 = c) := by
  have := applyS_keeps c (.drop i) d s
  simp only [SOp.isDrop, true_and] at this
  exact ⟨this, applyS_not_ok_same c (.drop i) d s⟩

theorem refines_sch_drop {c : Cat} {ss : Session} (hc : ss.coherent c = true) (i : Bool) (r : SRef)
    (hg : ss.guard (Stmt.sch (.drop i) r).needs = none) : LocalRefines c ss (.sch (.drop i) r) := by
  have hf := fun d s => applyS_drop_facts c i d s
  rcases coherent_cases hc with rfl | ⟨d0, rfl, h0⟩ | ⟨d0, sc, rfl, hs⟩ <;> cases r <;>
    simp [Stmt.needs, Session.guard, SRef.needDb] at hg <;>
    simp only [LocalRefines, exec, sexec, Session.abs, Ctx.resolveS, if_true, Bool.false_eq_true, if_false] <;>
    (rename_i s
     first
     | (rename_i d; have hf' := hf d s; revert hf'; generalize c.applyS (.drop i) d s = a; intro hf')
     | (have hf' := hf d0 s; revert hf'; generalize c.applyS (.drop i) d0 s = a; intro hf')) <;>
    obtain ⟨hk, hsame⟩ := hf' <;>
    by_cases hok : a.1 = .ok <;> simp [hok] at hk hsame <;> simp [hok, Ctx.clear, hsame, Cat.Keeps.refl, hc]
  all_goals (have hdb := hk.1; have hsch := hk.2)
  all_goals (first | (have hh := hasSchema_hasDb hs) | skip)
  all_goals (repeat' split)
  all_goals simp_all [Session.coherent]
  · rename_i hne
    exact hsch d0 sc hs (fun _ h => hne h.symm)
  · rename_i hne _
    exact hsch d0 sc hs (fun h1 h2 => hne h2.symm h1.symm)


/-- one statement on one coherent connection outside the (connection-local) finding regions -/
theorem exec_refines {c : Cat} {ss : Session} (hc : ss.coherent c = true) (st : Stmt)
    (hreg : localRegion c ss st = none) (hg : ss.guard st.needs = none) : LocalRefines c ss st := by
  cases st with
  | createDb d i => exact refines_simple hc _ (Or.inl ⟨d, i, rfl⟩) hreg
  | dropDb d => simp [localRegion] at hreg
  | useDb d => exact refines_simple hc _ (Or.inr (Or.inl ⟨d, rfl⟩)) hreg
  | useBare x => simp [localRegion] at hreg
  | selectCtx => exact refines_simple hc _ (Or.inr (Or.inr rfl)) hreg
  | tab op r => exact refines_tab hc op r hreg hg
  | join r1 r2 => exact refines_join hc r1 r2 hreg hg
  | two op a b => exact refines_two hc op a b hreg hg
  | tabI op r => exact refines_tabI hc op r hreg hg
  | writePandas v r => exact refines_writePandas hc v r hreg
  | sch op r =>
    cases op
    · exact refines_sch_create hc _ r hg
    · exact refines_sch_drop hc _ r hg
    · exact refines_sch_use hc r hreg

theorem sexec_dropped {c : Cat} {x : Ctx} {st : Stmt} {d s : Name} (h : (sexec c x st).2.2.2 = some (d, s)) :
    ∃ i r, st = .sch (.drop i) r ∧ x.resolveS r = .ok (d, s) := by
  cases st with
  | sch op r =>
    simp only [sexec] at h
    cases hr : x.resolveS r with
    | error e => simp [hr] at h
    | ok p =>
      obtain ⟨d', s'⟩ := p
      simp only [hr] at h
      split at h
      · cases op <;> simp at h
        exact ⟨_, r, rfl, by rw [← h.1, ← h.2]; exact hr⟩
      · simp at h
  | tab op r => simp only [sexec] at h; split at h <;> simp at h
  | join r1 r2 => simp only [sexec] at h; repeat' split at h
                  all_goals simp at h
  | two op r1 r2 => simp only [sexec] at h; repeat' split at h
                    all_goals simp at h
  | tabI op r => simp only [sexec] at h; split at h <;> simp at h
  | writePandas v r => simp only [sexec] at h; split at h <;> simp at h
  | createDb d i => simp [sexec] at h
  | dropDb d => simp only [sexec] at h; split at h <;> simp at h
  | useDb d => simp only [sexec] at h; split at h <;> simp at h
  | useBare d => simp only [sexec] at h; split at h <;> simp at h
  | selectCtx => simp [sexec] at h

theorem region_none {w : World} {i : Nat} {st : Stmt} {ss : Session} (hi : w.sessions[i]? = some ss)
    (h : region w i st = none) :
    localRegion w.cat ss st = none ∧
    ∀ d s, (sexec w.cat ss.abs st).2.2.2 = some (d, s) →
      ∀ j sj, j ≠ i → w.sessions[j]? = some sj → ¬ (sj.abs.db = some d ∧ sj.abs.schema = some s) := by
  simp only [region, hi] at h
  cases hl : localRegion w.cat ss st with
  | some k => simp [hl] at h
  | none =>
    refine ⟨rfl, fun d s hd j sj hji hj => ?_⟩
    obtain ⟨i', r, rfl, hr⟩ := sexec_dropped hd
    simp only [hl, hr] at h
    have ho : othersHold w i d s = false := by
      cases hh : othersHold w i d s
      · rfl
      · simp [hh] at h
    simp only [othersHold, List.any_eq_false, List.mem_range] at ho
    have hlt : j < w.sessions.length := by
      rcases List.getElem?_eq_some_iff.mp hj with ⟨hlt, _⟩; exact hlt
    have := ho j hlt
    simp [hj, hji] at this
    intro ⟨h1, h2⟩
    exact this h1 h2

theorem clear_id_of_not {g : Option (Name × Name)} {x : Ctx}
    (h : ∀ d s, g = some (d, s) → ¬ (x.db = some d ∧ x.schema = some s)) : Ctx.clear g x = x := by
  cases g with
  | none => rfl
  | some p => obtain ⟨d, s⟩ := p; simp [Ctx.clear, h d s rfl]

theorem set_self_map {α β} (l : List α) (f : α → β) (i : Nat) (a : α) (h : l[i]? = some a) :
    (l.map f).set i (f a) = l.map f := by
  apply List.ext_getElem?
  intro j
  rw [List.getElem?_set]
  by_cases hij : i = j
  · subst hij
    rcases List.getElem?_eq_some_iff.mp h with ⟨hlt, he⟩
    simp [hlt, he]
  · simp [hij]


theorem abs_get (w : World) (i : Nat) : w.abs.ctxs[i]? = (w.sessions[i]?).map Session.abs := by
  simp [World.abs]

/-- one step of the code model is one step of the specification on the abstracted world -/
theorem step_refines (w : World) (i : Nat) (st : Stmt) (ss : Session) (hi : w.sessions[i]? = some ss)
    (hc : ss.coherent w.cat = true) (hreg : region w i st = none) :
    (Impl.step w i st).1 = (Spec.step w.abs i st).1 ∧ (Impl.step w i st).2.abs = (Spec.step w.abs i st).2 := by
  obtain ⟨hl, hoth⟩ := region_none hi hreg
  have hai : w.abs.ctxs[i]? = some ss.abs := by rw [abs_get, hi]; rfl
  have hraw := rawFails_region hl
  simp only [Impl.step, Spec.step, hi, hai, hraw, Bool.false_eq_true, if_false]
  cases hg : ss.guard st.needs with
  | some e =>
    have := guard_refines hc st e hl hg
    have hcat : w.abs.cat = w.cat := rfl
    simp only [hcat, this]
    refine ⟨trivial, ?_⟩
    have hid : (Ctx.clear none) = id := by funext x; rfl
    simp only [hid, List.map_id]
    simp only [World.abs]
    rw [set_self_map _ _ _ _ hi]
  | none =>
    obtain ⟨h1, h2, h3, _, _⟩ := exec_refines hc st hl hg
    have hcat : w.abs.cat = w.cat := rfl
    simp only [hcat]
    refine ⟨h1, ?_⟩
    simp only [World.abs, SWorld.mk.injEq]
    refine ⟨h2, ?_⟩
    apply List.ext_getElem?
    intro j
    simp only [List.getElem?_map, List.getElem?_set, List.length_map]
    by_cases hij : i = j
    · subst hij
      rcases List.getElem?_eq_some_iff.mp hi with ⟨hlt, _⟩
      simp [hlt, h3]
    · simp only [hij, if_false]
      cases hj : w.sessions[j]? with
      | none => rfl
      | some sj =>
        simp only [Option.map_some]
        rw [clear_id_of_not]
        intro d s hd
        exact hoth d s hd j sj (fun e => hij e.symm) hj

theorem mem_set_cases {α} {l : List α} {i : Nat} {a x : α} (h : x ∈ l.set i a) :
    x = a ∨ ∃ j, j ≠ i ∧ l[j]? = some x := by
  rcases List.mem_iff_getElem?.mp h with ⟨j, hj⟩
  rw [List.getElem?_set] at hj
  by_cases hij : i = j
  · simp only [hij, if_true] at hj
    split at hj
    · left; exact (Option.some.inj hj).symm
    · cases hj
  · simp only [hij, if_false] at hj
    exact Or.inr ⟨j, fun e => hij e.symm, hj⟩

/-- coherence of every connection is preserved by a step outside the finding regions -/
theorem step_coherent (w : World) (i : Nat) (st : Stmt) (hw : w.coherent = true) (hreg : region w i st = none) :
    (Impl.step w i st).2.coherent = true := by
  simp only [World.coherent, List.all_eq_true] at hw
  simp only [Impl.step]
  cases hi : w.sessions[i]? with
  | none => simpa [World.coherent, List.all_eq_true] using hw
  | some ss =>
    have hc := hw ss (List.mem_iff_getElem?.mpr ⟨i, hi⟩)
    obtain ⟨hl, hoth⟩ := region_none hi hreg
    have hraw := rawFails_region hl
    simp only [hraw, Bool.false_eq_true, if_false]
    cases hg : ss.guard st.needs with
    | some e => simpa [World.coherent, List.all_eq_true] using hw
    | none =>
      obtain ⟨_, _, _, h4, h5⟩ := exec_refines hc st hl hg
      simp only [World.coherent, List.all_eq_true]
      intro x hx
      rcases mem_set_cases hx with rfl | ⟨j, hji, hj⟩
      · exact h4
      · exact coherent_keeps h5 (hw x (List.mem_iff_getElem?.mpr ⟨j, hj⟩))
          (fun d s hd => hoth d s hd j x hji hj)

/-! ### connect -/

theorem hasDb_append (c : Cat) (d x : Name) (h : c.hasDb x = true) : ({ c with dbs := c.dbs ++ [d] } : Cat).hasDb x = true := by
  simp [Cat.hasDb] at *; exact Or.inl h

theorem keeps_ensureDb (c : Cat) (d : Name) : Cat.Keeps c (c.ensureDb d) none := by
  unfold Cat.ensureDb; split
  · exact Cat.Keeps.refl _ _
  · exact keeps_addDb _ _ _

theorem keeps_ensureSchema (c : Cat) (d s : Name) : Cat.Keeps c (c.ensureSchema d s) none := by
  unfold Cat.ensureSchema; split
  · exact Cat.Keeps.refl _ _
  · exact keeps_addSchema _ _ _

theorem Cat.Keeps.trans {a b c : Cat} (h1 : Cat.Keeps a b none) (h2 : Cat.Keeps b c none) : Cat.Keeps a c none :=
  ⟨fun d h => h2.1 d (h1.1 d h), fun d s h hn => h2.2 d s (h1.2 d s h hn) hn⟩

theorem keeps_connDb (c : Cat) (d : Name) (cd : Bool) : Cat.Keeps c (c.connDb d cd) none := by
  unfold Cat.connDb; split
  · exact keeps_ensureDb c d
  · exact Cat.Keeps.refl _ _

theorem keeps_connSchema (c : Cat) (d s : Name) (cs : Bool) : Cat.Keeps c (c.connSchema d s cs) none := by
  unfold Cat.connSchema; split
  · exact keeps_ensureSchema c d s
  · exact Cat.Keeps.refl _ _

theorem newSession_keeps (c : Cat) (d s : Option Name) (cd cs : Bool) :
    Cat.Keeps c (Impl.newSession c d s cd cs).1 none := by
  cases d with
  | none => exact Cat.Keeps.refl _ _
  | some d =>
    cases s with
    | none => exact keeps_connDb c d cd
    | some s => exact (keeps_connDb c d cd).trans (keeps_connSchema _ d s cs)

/-- connect gives the new connection the named context as far as it exists, whatever the create flags -/
theorem connect_refines (w : World) (d s : Option Name) (cd cs : Bool) :
    (Impl.connect w d s cd cs).abs = Spec.connect w.abs d s cd cs := by
  cases d with
  | none => simp [Impl.connect, Impl.newSession, Spec.connect, World.abs, Session.abs]
  | some d =>
    cases s with
    | none =>
      simp only [Impl.connect, Impl.newSession, Spec.connect, World.abs]
      by_cases h : (w.cat.connDb d cd).hasDb d = true
      · simp [h, Session.abs]
      · simp [h, Session.abs]
    | some s =>
      simp only [Impl.connect, Impl.newSession, Spec.connect, World.abs]
      by_cases h1 : ((w.cat.connDb d cd).connSchema d s cs).hasSchema d s = true
      · have := hasSchema_hasDb h1
        simp [h1, this, Session.abs]
      · by_cases h2 : ((w.cat.connDb d cd).connSchema d s cs).hasDb d = true
        · simp [h1, h2, Session.abs]
        · simp [h1, h2, Session.abs]

theorem connect_coherent (w : World) (d s : Option Name) (cd cs : Bool) (henv : connectRegion w d s cd cs = none)
    (hw : w.coherent = true) : (Impl.connect w d s cd cs).coherent = true := by
  simp only [World.coherent, List.all_eq_true] at hw
  simp only [Impl.connect, World.coherent, List.all_eq_true, List.mem_append, List.mem_singleton]
  rintro x (hx | rfl)
  · exact coherent_keeps (newSession_keeps w.cat d s cd cs) (hw x hx) (by simp)
  · simp only [connectRegion] at henv
    by_cases h : (Impl.newSession w.cat d s cd cs).2.coherent (Impl.newSession w.cat d s cd cs).1 = true
    · exact h
    · simp [h] at henv

theorem step_refines_world (w : World) (i : Nat) (st : Stmt) (hw : w.coherent = true) (hreg : region w i st = none) :
    (Impl.step w i st).1 = (Spec.step w.abs i st).1 ∧ (Impl.step w i st).2.abs = (Spec.step w.abs i st).2 := by
  cases hi : w.sessions[i]? with
  | none =>
    have : w.abs.ctxs[i]? = none := by rw [abs_get, hi]; rfl
    simp [Impl.step, Spec.step, hi, this]
  | some ss =>
    simp only [World.coherent, List.all_eq_true] at hw
    exact step_refines w i st ss hi (hw ss (List.mem_iff_getElem?.mpr ⟨i, hi⟩)) hreg

theorem run_refines (w : World) (ops : List Op) (hw : w.coherent = true) (hc : clean w ops = true) :
    (Impl.run w ops).1 = (Spec.run w.abs ops).1 ∧ (Impl.run w ops).2.abs = (Spec.run w.abs ops).2 ∧
    (Impl.run w ops).2.coherent = true := by
  induction ops generalizing w with
  | nil => exact ⟨rfl, rfl, hw⟩
  | cons o os ih =>
    cases o with
    | connect d s cd cs =>
      simp only [clean, Bool.and_eq_true, Option.isNone_iff_eq_none] at hc
      have := ih (Impl.connect w d s cd cs) (connect_coherent w d s cd cs hc.1 hw) hc.2
      simp only [Impl.run, Spec.run, ← connect_refines w d s cd cs]
      exact this
    | stmt i st =>
      simp only [clean, Bool.and_eq_true, Option.isNone_iff_eq_none] at hc
      obtain ⟨h1, h2⟩ := step_refines_world w i st hw hc.1
      have := ih (Impl.step w i st).2 (step_coherent w i st hw hc.1) hc.2
      simp only [Impl.run, Spec.run, ← h2, h1]
      exact ⟨by rw [this.1], this.2.1, this.2.2⟩

end Fs.Names
