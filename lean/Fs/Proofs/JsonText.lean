import Fs.Spec.Json
/-! Helper lemmas for C11: integer text round trip, JSON path text round trip, navigation. -/
namespace Fs.Json

/-! ### digits -/

theorem digitVal_digitChar (d : Nat) (h : d < 10) : digitVal (digitChar d) = d := by
  have : ∀ d : Fin 10, digitVal (digitChar d.val) = d.val := by decide
  exact this ⟨d, h⟩

theorem isDigit_digitChar (d : Nat) (h : d < 10) : isDigit (digitChar d) = true := by
  have : ∀ d : Fin 10, isDigit (digitChar d.val) = true := by decide
  exact this ⟨d, h⟩

theorem digitChar_ne_minus (d : Nat) (h : d < 10) : digitChar d ≠ '-' := by
  have : ∀ d : Fin 10, digitChar d.val ≠ '-' := by decide
  exact this ⟨d, h⟩

def dstep (a : Nat) (c : Char) : Nat := a * 10 + digitVal c

theorem digitsVal_eq (ds : List Char) : digitsVal ds = ds.foldl dstep 0 := rfl

theorem foldl_natDigitsAux (f n : Nat) (acc : List Char) (h : n < f) :
    (natDigitsAux f n acc).foldl dstep 0 = acc.foldl dstep n := by
  induction f generalizing n acc with
  | zero => omega
  | succ f ih =>
    simp only [natDigitsAux]
    split
    · rename_i h0
      have hlt : n < 10 := by omega
      simp only [List.foldl_cons, dstep, Nat.zero_mul, Nat.zero_add]
      rw [digitVal_digitChar _ (Nat.mod_lt _ (by omega)), Nat.mod_eq_of_lt hlt]
    · rename_i h0
      rw [ih (n / 10) _ (by omega)]
      simp only [List.foldl_cons, dstep]
      rw [digitVal_digitChar _ (Nat.mod_lt _ (by omega))]
      congr 1
      omega

theorem digitsVal_natDigits (n : Nat) : digitsVal (natDigits n) = n := by
  rw [digitsVal_eq, natDigits, foldl_natDigitsAux _ _ _ (by omega)]
  rfl

theorem all_natDigitsAux (f n : Nat) (acc : List Char) :
    (natDigitsAux f n acc).all isDigit = acc.all isDigit ∨ f = 0 := by
  induction f generalizing n acc with
  | zero => right; rfl
  | succ f ih =>
    left
    simp only [natDigitsAux]
    split
    · simp [isDigit_digitChar _ (Nat.mod_lt n (by omega : 0 < 10))]
    · rename_i h0
      by_cases hf : f = 0
      · subst hf; simp [natDigitsAux, isDigit_digitChar _ (Nat.mod_lt n (by omega : 0 < 10))]
      · rcases ih (n / 10) (digitChar (n % 10) :: acc) with h | h
        · rw [h]; simp [isDigit_digitChar _ (Nat.mod_lt n (by omega : 0 < 10))]
        · exact absurd h hf

theorem natDigitsAux_ne_nil (f m : Nat) (acc : List Char) (ha : acc ≠ []) : natDigitsAux f m acc ≠ [] := by
  induction f generalizing m acc with
  | zero => simpa [natDigitsAux] using ha
  | succ f ih =>
    rw [natDigitsAux]
    split
    · simp
    · exact ih _ _ (by simp)

theorem natDigits_ne_nil (n : Nat) : natDigits n ≠ [] := by
  unfold natDigits
  rw [natDigitsAux]
  split
  · simp
  · exact natDigitsAux_ne_nil _ _ _ (by simp)

theorem natDigits_all (n : Nat) : (natDigits n).all isDigit = true := by
  rcases all_natDigitsAux (n + 1) n [] with h | h
  · rw [natDigits, h]; rfl
  · omega

theorem isDigit_ne_minus (c : Char) (h : isDigit c = true) : c ≠ '-' := by
  intro hc; subst hc; revert h; decide

theorem parseInt_digits (ds : List Char) (hne : ds ≠ []) (hall : ds.all isDigit = true) :
    parseInt ds = some (digitsVal ds : Int) := by
  cases ds with
  | nil => exact absurd rfl hne
  | cons c cs =>
    have hc : isDigit c = true := by simp [List.all_cons] at hall; exact hall.1
    have hm := isDigit_ne_minus c hc
    unfold parseInt
    split
    · rename_i heq; simp at heq; exact absurd heq.1 hm
    · simp [hall]

/-- **integer text round trip**: DuckDB's CAST of the text `->>` produced for a JSON integer gives it back -/
theorem parseInt_intDigits (n : Int) : parseInt (intDigits n) = some n := by
  cases n with
  | ofNat n =>
    simp only [intDigits]
    rw [parseInt_digits _ (natDigits_ne_nil n) (natDigits_all n), digitsVal_natDigits]
    rfl
  | negSucc n =>
    simp only [intDigits, parseInt]
    have h1 := natDigits_ne_nil (n + 1)
    have h2 := natDigits_all (n + 1)
    simp [h2, h1, digitsVal_natDigits]
    omega

/-! ### navigation: DuckDB's segment loop is `get` -/

theorem foldl_none (p : Path) : p.foldl (fun acc s => acc.bind (step · s)) none = none := by
  induction p with
  | nil => rfl
  | cons s p ih => simpa using ih

theorem navDuck_eq_get (j : Json) (p : Path) : navDuck j p = get j p := by
  unfold navDuck
  induction p generalizing j with
  | nil => rfl
  | cons s p ih =>
    simp only [List.foldl_cons, get, Option.bind_some]
    cases h : step j s with
    | none => simp [foldl_none]
    | some j' => simpa using ih j'

theorem get_append (j : Json) (p q : Path) : get j (p ++ q) = (get j p).bind (get · q) := by
  induction p generalizing j with
  | nil => simp [get]
  | cons s p ih =>
    simp only [List.cons_append, get]
    cases step j s with
    | none => rfl
    | some j' => simpa using ih j'

/-! ### path text: what `indices_to_json_extract` writes is what DuckDB reads, for simple keys -/

theorem takeWhile_all {α} (p : α → Bool) (l : List α) (h : l.all p = true) : l.takeWhile p = l := by
  induction l with
  | nil => rfl
  | cons a l ih => simp only [List.all_cons, Bool.and_eq_true] at h; simp [List.takeWhile, h.1, ih h.2]

theorem dropWhile_all {α} (p : α → Bool) (l : List α) (h : l.all p = true) : l.dropWhile p = [] := by
  induction l with
  | nil => rfl
  | cons a l ih => simp only [List.all_cons, Bool.and_eq_true] at h; simp [List.dropWhile, h.1, ih h.2]

theorem takeWhile_append_stop {α} (p : α → Bool) (l : List α) (c : α) (r : List α) (h : l.all p = true) (hc : p c = false) :
    (l ++ c :: r).takeWhile p = l ∧ (l ++ c :: r).dropWhile p = c :: r := by
  induction l with
  | nil => simp [hc]
  | cons a l ih =>
    simp only [List.all_cons, Bool.and_eq_true] at h
    simp [h.1, ih h.2]

theorem parsePath_key (k : List Char) (h : simpleKey k = true) :
    parsePath (bracketPath (.str k)) = some [.key k] := by
  simp only [simpleKey, Bool.and_eq_true, Bool.not_eq_true', bne_iff_ne, ne_eq] at h
  obtain ⟨⟨⟨hne, hstar⟩, hall⟩, hq⟩ := h
  cases k with
  | nil => simp at hne
  | cons c cs =>
    have hc : c ≠ '"' := by simpa using hq
    simp only [bracketPath, parsePath, List.length_cons]
    rw [parseSegs]
    · simp only [takeWhile_all _ _ hall, dropWhile_all _ _ hall]
      have : ((c :: cs).isEmpty || (c :: cs) == ['*']) = false := by
        simp only [List.isEmpty_cons, Bool.false_or, beq_eq_false_iff_ne, ne_eq]; exact hstar
      simp only [this]
      cases cs <;> simp [parseSegs]
    · intro rest heq; simp at heq; exact hc heq.1

theorem parsePath_num (ds : List Char) (hne : ds ≠ []) (hall : ds.all isDigit = true) :
    parsePath (bracketPath (.num ds)) = some [.idx (digitsVal ds)] := by
  simp only [bracketPath, parsePath]
  have hstop : isDigit ']' = false := by decide
  obtain ⟨ht, hd⟩ := takeWhile_append_stop isDigit ds ']' [] hall hstop
  cases hds : ds with
  | nil => exact absurd hds hne
  | cons c cs =>
    subst hds
    simp only [List.length_cons, List.length_append, List.length_nil]
    rw [parseSegs]
    · simp only [ht, hd]
      simp [parseSegs]

/-- **what fakesnow writes for `x[i]` is read by DuckDB as that one step** -/
theorem parsePath_bracket (i : BIdx) (h : i.ok = true) : parsePath (bracketPath i) = some [i.seg] := by
  cases i with
  | str k => exact parsePath_key k h
  | num ds =>
    simp only [BIdx.ok, Bool.and_eq_true, Bool.not_eq_true'] at h
    exact parsePath_num ds (by intro h0; simp [h0] at h) h.2

end Fs.Json
