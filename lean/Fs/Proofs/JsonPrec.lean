import Fs.Proofs.JsonEval
/-! C11: the rewritten tree prints unambiguously under DuckDB's operator table. -/
namespace Fs.Json

theorem precOK_nav (n : Nav) : PrecOK n.toE = true := by
  induction n with
  | col => rfl
  | path n p ih => simp [Nav.toE, PrecOKg, ih, precArrow]

theorem nav_level_generic (n : Nav) : precGeneric ≤ n.toE.level false n.toE.isJx := by
  cases n <;> simp [Nav.toE, E.level, E.isJx, precGeneric, precPrimary]

theorem precOK_navout (n : Nav) : PrecOK n.out = true := by
  cases n with
  | col => rfl
  | path n p => simp [Nav.out, PrecOKg, precOK_nav, precArrow]

theorem navout_level (n : Nav) (w : Bool) : n.out.level false w = precPrimary := by
  cases n <;> rfl

theorem precOK_accout (a : Acc) : PrecOK a.out = true := by
  cases a with
  | nav n => exact precOK_navout n
  | brk n i =>
    simp only [Acc.out]
    split
    · simp [PrecOKg, precOK_nav, precArrow]
    · simp [PrecOKg, precOK_navout, navout_level]

theorem accout_level (a : Acc) (w : Bool) : a.out.level false w = precPrimary := by
  cases a with
  | nav n => exact navout_level n w
  | brk n i => simp only [Acc.out]; split <;> rfl

theorem precOK_outScalar (a : Acc) : PrecOK a.outScalar = true := by
  cases a with
  | nav n =>
    cases n with
    | col => rfl
    | path n p =>
      have := nav_level_generic n
      simp [Acc.outScalar, PrecOKg, precOK_nav, this]
  | brk n i => exact precOK_accout (.brk n i)

theorem acc_src_level (a : Acc) (w : Bool) : a.toE.level true w = precPrimary := by
  cases a with
  | nav n => cases n <;> rfl
  | brk n i => rfl

theorem precOK_use (u : Use) : PrecOK (pipeline u.toE) = true := by
  cases u with
  | bare a => simp only [Use.toE, pipeline_bare, precOK_accout]
  | cast a t => simp only [Use.toE, pipeline_cast, PrecOKg, precOK_outScalar]
  | upper a => simp only [Use.toE, pipeline_upper, PrecOKg, precOK_outScalar]
  | lower a => simp only [Use.toE, pipeline_lower, PrecOKg, precOK_outScalar]
  | trim a => simp only [Use.toE, pipeline_trim, PrecOKg, precOK_outScalar]
  | arraySize a => simp only [Use.toE, pipeline_arraySize, PrecOKg, precOK_accout]
  | isNull a => simp [Use.toE, pipeline_isNull, PrecOKg, precOK_accout, accout_level, precIs, precPrimary]

/-- the rewrites do not change the level at which an expression prints -/
theorem level_use (u : Use) (w w' : Bool) : (pipeline u.toE).level false w = u.toE.level true w' := by
  cases u with
  | bare a => simp only [Use.toE, pipeline_bare, accout_level, acc_src_level]
  | cast a t => simp only [Use.toE, pipeline_cast]; rfl
  | upper a => simp only [Use.toE, pipeline_upper]; rfl
  | lower a => simp only [Use.toE, pipeline_lower]; rfl
  | trim a => simp only [Use.toE, pipeline_trim]; rfl
  | arraySize a => simp only [Use.toE, pipeline_arraySize]; rfl
  | isNull a => simp only [Use.toE, pipeline_isNull]; rfl

theorem level_ctx (c : Ctx) (w w' : Bool) : (pipeline c.toE).level false w = c.toE.level true w' := by
  cases c with
  | use u => exact level_use u w w'
  | lit l => simp only [Ctx.toE, pipeline_lit]; rfl
  | bin o a b => simp only [Ctx.toE, pipeline_bin]; rfl
  | not a => simp only [Ctx.toE, pipeline_not]; rfl
  | paren a => simp only [Ctx.toE, pipeline_paren]; rfl

theorem precOK_ctx (c : Ctx) (h : SrcOK c.toE = true) : PrecOK (pipeline c.toE) = true := by
  induction c with
  | use u => exact precOK_use u
  | lit l => simp only [Ctx.toE, pipeline_lit]; rfl
  | bin o a b iha ihb =>
    simp only [Ctx.toE, PrecOKg, Bool.and_eq_true] at h
    obtain ⟨⟨⟨ha, hb⟩, hl⟩, hr⟩ := h
    simp only [Ctx.toE, pipeline_bin, PrecOKg, Bool.and_eq_true, iha ha, ihb hb, true_and]
    rw [level_ctx a true true, level_ctx b true true]
    exact ⟨hl, hr⟩
  | not a ih =>
    simp only [Ctx.toE, PrecOKg, Bool.and_eq_true] at h
    simp only [Ctx.toE, pipeline_not, PrecOKg, Bool.and_eq_true, ih h.1, true_and]
    rw [level_ctx a false false]; exact h.2
  | paren a ih =>
    simp only [Ctx.toE, PrecOKg] at h
    simp only [Ctx.toE, pipeline_paren, PrecOKg, ih h]

/-! ### OBJECT_CONSTRUCT, SPLIT, FLATTEN -/

/-- no argument that is not the literal NULL evaluates to NULL -/
def noHiddenNull (ps : Pairs) : Bool := ps.all fun (_, a) => a.isLitNull || a.val.isSome

theorem objectConstruct_partial (ps : Pairs) (h : noHiddenNull ps = true) :
    objectConstructImpl ps = objectConstructSpec ps := by
  induction ps with
  | nil => rfl
  | cons kv ps ih =>
    obtain ⟨k, a⟩ := kv
    simp only [noHiddenNull, List.all_cons, Bool.and_eq_true, Bool.or_eq_true] at h
    have ih' := ih (by simpa [noHiddenNull] using h.2)
    simp only [objectConstructImpl, objectConstructSpec] at ih' ⊢
    rw [List.filterMap_cons, List.filterMap_cons, ih']
    cases k with
    | none => rfl
    | some k =>
      cases a with
      | litNull => rfl
      | expr v =>
        cases v with
        | none => simp [Arg.isLitNull, Arg.val] at h
        | some v => rfl

theorem splitOn_ne_nil (sep : Char) (s : List Char) : splitOn sep s ≠ [] := by
  induction s with
  | nil => simp [splitOn]
  | cons c cs ih =>
    simp only [splitOn]
    split
    · simp
    · split <;> simp

/-- SPLIT loses nothing: joining the pieces with the separator gives the string back -/
theorem splitOn_join (sep : Char) (s : List Char) : [sep].intercalate (splitOn sep s) = s := by
  induction s with
  | nil => simp [splitOn, List.intercalate]
  | cons c cs ih =>
    simp only [splitOn]
    split
    · rename_i hc
      subst hc
      have hne := splitOn_ne_nil c cs
      cases hs : splitOn c cs with
      | nil => exact absurd hs hne
      | cons p ps =>
        rw [hs] at ih
        simp only [List.intercalate] at ih ⊢
        simp only [List.intersperse_cons_cons, List.flatten_cons, List.nil_append]
        simpa using ih
    · cases hs : splitOn sep cs with
      | nil => exact absurd hs (splitOn_ne_nil sep cs)
      | cons p ps =>
        rw [hs] at ih
        simp only [List.intercalate] at ih ⊢
        cases ps with
        | nil => simp at ih ⊢; exact ih
        | cons q qs =>
          simp only [List.intersperse_cons_cons, List.flatten_cons, List.cons_append] at ih ⊢
          rw [ih]

/-- no piece contains the separator -/
theorem splitOn_no_sep (sep : Char) (s : List Char) : ∀ p ∈ splitOn sep s, sep ∉ p := by
  induction s with
  | nil => simp [splitOn]
  | cons c cs ih =>
    simp only [splitOn]
    split
    · intro p hp
      simp only [List.mem_cons] at hp
      rcases hp with rfl | hp
      · simp
      · exact ih p hp
    · rename_i hc
      cases hs : splitOn sep cs with
      | nil => exact absurd hs (splitOn_ne_nil sep cs)
      | cons q qs =>
        rw [hs] at ih
        intro p hp
        simp only [List.mem_cons] at hp
        rcases hp with rfl | hp
        · intro hmem
          simp only [List.mem_cons] at hmem
          rcases hmem with h | h
          · exact hc h.symm
          · exact ih q (by simp) h
        · exact ih p (by simp [hp])

theorem toList_length : ∀ l : JList, l.toList.length = l.length
  | .nil => rfl
  | .cons _ t => by simp [JList.toList, JList.length, toList_length t]

theorem toList_get : ∀ (l : JList) (i : Nat), i < l.length →
    (l.toList.map fun j => ofOpt (some j))[i]? = some (ofOpt (l.get? i))
  | .nil, i, h => by simp [JList.length] at h
  | .cons j t, 0, _ => by simp [JList.toList, JList.get?]
  | .cons j t, i + 1, h => by
    simp only [JList.length, Nat.add_lt_add_iff_right] at h
    simpa [JList.toList, JList.get?] using toList_get t i h

end Fs.Json
