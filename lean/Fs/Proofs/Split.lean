import Fs.Model.Split
import Fs.Model.Gen
import Fs.Proofs.Lex
/-! Helper lemmas for C16. -/
namespace Fs.Split
open Fs.Lex Fs.Gen

/-! ### literal re-render round trip -/

theorem unesc_escChar (c e : Char) (h : escChar c = some e) : unesc e = some c := by
  unfold escChar at h
  split at h
  · next hc => cases h; subst hc; decide
  · split at h
    · next hc => cases h; subst hc; decide
    · split at h
      · next hc => cases h; subst hc; decide
      · split at h
        · next hc => cases h; subst hc; decide
        · split at h
          · next hc => cases h; subst hc; decide
          · split at h
            · next hc => cases h; subst hc; decide
            · split at h
              · next hc => cases h; subst hc; decide
              · split at h
                · next hc => cases h; subst hc; decide
                · cases h

theorem escChar_none_ne_bs (c : Char) (h : escChar c = none) : c ≠ '\\' := by
  intro hc; subst hc; simp [escChar] at h

theorem run_str_sfGen (acc s : List Char) : run (.str acc) (sfGen s) = ([], .str (acc ++ s)) := by
  induction s generalizing acc with
  | nil => simp [sfGen, run]
  | cons c cs ih =>
    unfold sfGen
    cases he : escChar c with
    | some e =>
      simp only []
      have hu := unesc_escChar c e he
      simp [run, step, hu, ih]
    | none =>
      simp only []
      have hb := escChar_none_ne_bs c he
      by_cases hq : c = '\''
      · subst hq; simp [run, step, unesc, ih]
      · simp [run, step, hb, hq, ih]

theorem step_str_quote' (acc : List Char) : step (.str acc) '\'' = ([], .strQ acc) := by simp [step]

theorem lexFrom_sfLit (st : St) (hb : st.boundary = true) (s post : List Char) (h : post.head? ≠ some '\'') :
    lexFrom st (sfLit s ++ post) = (lex post).map (fun b => pending st ++ .str s :: b) := by
  simp only [sfLit, List.cons_append, List.append_assoc, List.nil_append]
  rw [lexFrom_cons, step_boundary_quote st hb]
  simp only []
  rw [lexFrom_append, run_str_sfGen, lexFrom_cons, step_str_quote']
  simp only [List.nil_append]
  rw [lexFrom_strQ _ post h]
  cases lex post <;> simp

/-- the body of a block comment produces no token -/
theorem run_block_body (body : List Char) (h : '*' ∉ body) : run .block (body ++ ['*', '/']) = ([], .top) := by
  induction body with
  | nil => simp [run, step]
  | cons c cs ih =>
    have hc : c ≠ '*' := fun e => h (by simp [e])
    have := ih (fun hm => h (by simp [hm]))
    simp [run, step, hc, this]

/-- `;` read between tokens is the separator -/
theorem step_boundary_semi (st : St) (h : st.boundary = true) : step st ';' = (pending st ++ [.semi], .top) := by
  cases st <;> simp_all [St.boundary, step, stepTop, thenTop, pending]

/-! ### splitting -/

def semiFree (p : List Tok) : Prop := ∀ t ∈ p, t ≠ Tok.semi

theorem splitGo_append (cur p rest : List Tok) (hp : semiFree p) :
    splitGo cur (p ++ rest) = splitGo (cur ++ p) rest := by
  induction p generalizing cur with
  | nil => simp
  | cons t ts ih =>
    have ht : t ≠ .semi := hp t (by simp)
    have := ih (cur ++ [t]) (fun x hx => hp x (by simp [hx]))
    simp [splitGo, ht, this]

theorem splitGo_join (cur : List Tok) (parts : List (List Tok)) (h : ∀ p ∈ parts, semiFree p) (hne : parts ≠ []) :
    splitGo cur (joinSemi parts) =
      match parts with
      | [] => []
      | p :: ps => (if (cur ++ p).isEmpty then [] else [cur ++ p]) ++ ps.filter (fun q => !q.isEmpty) := by
  induction parts generalizing cur with
  | nil => exact absurd rfl hne
  | cons p ps ih =>
    cases ps with
    | nil =>
      have := splitGo_append cur p [] (h p (by simp))
      simp only [List.append_nil] at this
      simp [joinSemi, this, splitGo]
    | cons q qs =>
      have hp := h p (by simp)
      have ih' := ih [] (fun x hx => h x (by simp [hx])) (by simp)
      simp only [joinSemi]
      rw [splitGo_append cur p _ hp]
      simp only [splitGo, if_true]
      rw [show joinSemi (q :: qs) = joinSemi (q :: qs) from rfl, ih']
      simp only [List.nil_append, List.filter_cons]
      by_cases h1 : (cur ++ p).isEmpty <;> by_cases h2 : q.isEmpty <;> simp [h1, h2]

/-! ### running -/

section
variable {W S R E : Type}

theorem runAll_append_fail (exec : W → S → W × Except E R) (w : W) (a : List S) (s : S) (rest : List S)
    (w1 : W) (ra : List R) (ha : runAll exec w a = (w1, ra, none)) (w2 : W) (e : E) (hs : exec w1 s = (w2, .error e)) :
    runAll exec w (a ++ s :: rest) = (w2, ra, some e) := by
  induction a generalizing w ra with
  | nil =>
    simp only [runAll] at ha
    obtain ⟨rfl, rfl⟩ : w = w1 ∧ ([] : List R) = ra := by
      cases ha; exact ⟨rfl, rfl⟩
    simp [runAll, hs]
  | cons x xs ih =>
    simp only [List.cons_append, runAll] at ha ⊢
    cases hx : exec w x with
    | mk w' r =>
      cases r with
      | error e' => simp [hx] at ha
      | ok r' =>
        simp only [hx] at ha ⊢
        have h1 : (runAll exec w' xs).1 = w1 := (Prod.mk.inj ha).1
        have h3 : (runAll exec w' xs).2.2 = none := (Prod.mk.inj (Prod.mk.inj ha).2).2
        have h2 : r' :: (runAll exec w' xs).2.1 = ra := (Prod.mk.inj (Prod.mk.inj ha).2).1
        have := ih w' (runAll exec w' xs).2.1 (by rw [← h1, ← h3])
        rw [this, ← h2]

theorem runAll_length (exec : W → S → W × Except E R) (w : W) (ss : List S) (h : (runAll exec w ss).2.2 = none) :
    (runAll exec w ss).2.1.length = ss.length := by
  induction ss generalizing w with
  | nil => simp [runAll]
  | cons s ss ih =>
    simp only [runAll] at h ⊢
    cases hx : exec w s with
    | mk w' r =>
      cases r with
      | error e => simp [hx] at h
      | ok r' =>
        simp only [hx] at h ⊢
        simp [ih w' h]

theorem runAll_congr (f g : W → S → W × Except E R) (w : W) (ss : List S) (h : ∀ w, ∀ s ∈ ss, f w s = g w s) :
    runAll f w ss = runAll g w ss := by
  induction ss generalizing w with
  | nil => rfl
  | cons s ss ih =>
    have hs := h w s (by simp)
    simp only [runAll, hs]
    cases g w s with
    | mk w' r =>
      cases r with
      | error e => rfl
      | ok r' => simp [ih w' (fun w x hx => h w x (by simp [hx]))]
end

theorem runAll_tx_inserts (c r ns : List Nat) :
    runAll txExec ⟨c, some r⟩ (ns.map .ins) = (⟨c, some (r ++ ns)⟩, ns.map (fun _ => ()), none) := by
  induction ns generalizing r with
  | nil => simp [runAll]
  | cons n ns ih => simp [runAll, txExec, ih (r ++ [n])]

end Fs.Split
