import Fs.Proofs.JsonPipeline
/-! C11: DuckDB's value of the rewritten tree = the specified value, on the named shapes. -/
namespace Fs.Json

theorem arrow_path (v : Val) (p : Path) : arrow v (.path p) = specNav v p := by
  cases v <;> simp [arrow, specNav, PathLit.parse, navDuck_eq_get]

theorem eval_nav (doc : Env) (n : Nav) : evalDuck doc n.toE = evalSpec doc n.toE := by
  induction n with
  | col => rfl
  | path n p ih => simp only [Nav.toE, evalDuck, evalSpec, ih, arrow_path]

theorem eval_navout (doc : Env) (n : Nav) : evalDuck doc n.out = evalSpec doc n.toE := by
  cases n with
  | col => rfl
  | path n p => simp only [Nav.out, Nav.toE, evalDuck, evalSpec, eval_nav, arrow_path]

/-- the rewritten access evaluates to the navigated value (C11_nav core) -/
theorem eval_accout (doc : Env) (a : Acc) (h : a.ok = true) : evalDuck doc a.out = evalSpec doc a.toE := by
  cases a with
  | nav n => exact eval_navout doc n
  | brk n i =>
    have ht : i.truthy = true := by
      cases i with
      | str k => simp only [Acc.ok, BIdx.ok, simpleKey, Bool.and_eq_true] at h; exact h.1.1.1
      | num ds => simp only [Acc.ok, BIdx.ok, Bool.and_eq_true] at h; exact h.1
    simp only [Acc.out, ht, if_true, Acc.toE, evalDuck, evalSpec, eval_nav]
    have hp := parsePath_bracket i h
    cases hv : evalSpec doc n.toE <;> simp [arrow, specNav, PathLit.parse, hp, navDuck_eq_get]

/-- values an extraction can produce -/
theorem specNav_cases (v : Val) (p : Path) :
    specNav v p = .null ∨ (∃ j, specNav v p = .json j) ∨ (∃ e, specNav v p = .err e) ∨ specNav v p = .unsup := by
  cases v <;> simp [specNav]
  rename_i j
  cases get j p with
  | none => simp [ofOpt]
  | some j' => cases j' <;> simp [ofOpt]

theorem eval_outScalar_path (doc : Env) (n : Nav) (p : Path) :
    evalDuck doc (Acc.outScalar (.nav (.path n p))) =
      scalarOf (evalSpec doc (Nav.toE (.path n p))) := by
  simp only [Acc.outScalar, evalDuck, Nav.toE, evalSpec, eval_nav, arrow2, arrow_path]

theorem outScalar_nonpath (a : Acc) (h : a.isPath = false) : a.outScalar = a.out := by
  cases a with
  | nav n => cases n with
    | col => rfl
    | path n p => simp [Acc.isPath] at h
  | brk n i => rfl

theorem duckText_of_nonstr (v : Val) (h : v.isJsonStr = false) : duckText v = specText v := by
  cases v with
  | json j => cases j <;> first | rfl | simp [Val.isJsonStr] at h
  | bool b => cases b <;> rfl
  | _ => rfl

theorem duckCast_of_nonstr (t : Ty) (v : Val) (h : v.isJsonStr = false) : duckCast t v = specCast t v := by
  cases t
  · exact duckText_of_nonstr v h
  · cases v <;> try rfl
    rename_i j; cases j <;> first | rfl | simp [Val.isJsonStr] at h
  · cases v <;> try rfl
    rename_i j; cases j <;> first | rfl | simp [Val.isJsonStr] at h

theorem render_bool_true : render (.bool true) = "true".toList := by simp [render]
theorem render_bool_false : render (.bool false) = "false".toList := by simp [render]

/-- CAST over the `->>` text agrees with the specified cast of the JSON value -/
theorem duckCast_scalar (t : Ty) (v : Val) (hc : castOK t v = true)
    (hv : v = .null ∨ (∃ j, v = .json j) ∨ (∃ e, v = .err e) ∨ v = .unsup) :
    duckCast t (scalarOf v) = specCast t v := by
  rcases hv with h | ⟨j, h⟩ | ⟨e, h⟩ | h <;> subst h
  · cases t <;> rfl
  · cases t
    · rfl
    · cases j with
      | num n => simp [scalarOf, duckCast, specCast, castInt, specCastInt, textOf, render, parseInt_intDigits]
      | str s => rfl
      | null => simp [castOK] at hc
      | bool b => simp [castOK] at hc
      | arr l => simp [castOK] at hc
      | obj o => simp [castOK] at hc
    · cases j with
      | bool b => cases b <;> simp [scalarOf, duckCast, specCast, castBool, specCastBool, textOf, render]
      | str s => rfl
      | null => simp [castOK] at hc
      | num n => simp [castOK] at hc
      | arr l => simp [castOK] at hc
      | obj o => simp [castOK] at hc
  · cases t <;> rfl
  · cases t <;> rfl

theorem duckText_scalar (v : Val)
    (hv : v = .null ∨ (∃ j, v = .json j) ∨ (∃ e, v = .err e) ∨ v = .unsup) :
    duckText (scalarOf v) = specText v := by
  rcases hv with h | ⟨j, h⟩ | ⟨e, h⟩ | h <;> subst h <;> rfl

theorem duckText_duckText (v : Val) : duckText (duckText v) = duckText v := by
  cases v <;> try rfl
  rename_i b; cases b <;> rfl

theorem evalSpec_path_cases (doc : Env) (n : Nav) (p : Path) :
    let v := evalSpec doc (Nav.toE (.path n p))
    v = .null ∨ (∃ j, v = .json j) ∨ (∃ e, v = .err e) ∨ v = .unsup := by
  simp only [Nav.toE, evalSpec]; exact specNav_cases _ _

theorem pipeline_isNull (a : Acc) : pipeline (.isNull a.toE) = .isNull a.out := by
  simp only [pipeline]
  rw [topDown_isNull _ _ rfl, trim_acc, topDown_isNull _ _ rfl, indices_acc]
  simp only [castAsVarchar, casedAsVarchar, castAs_mid, casedAs_mid]
  rw [topDown_isNull _ _ rfl, topDown_isNull _ _ rfl, prec_mid]

/-- **every use of an extracted value**: the rewritten tree evaluates in DuckDB to the specified value -/
theorem use_correct (doc : Env) (u : Use) (h : u.ok doc = true) :
    evalDuck doc (pipeline u.toE) = evalSpec doc u.toE := by
  cases u with
  | bare a => simp only [Use.toE, pipeline_bare]; exact eval_accout doc a h
  | isNull a => simp only [Use.toE, pipeline_isNull, evalDuck, evalSpec, eval_accout doc a h]
  | arraySize a =>
    simp only [Use.ok, Bool.and_eq_true, Bool.not_eq_true'] at h
    simp only [Use.toE, pipeline_arraySize, evalDuck, evalSpec, eval_accout doc a h.1]
    generalize evalSpec doc a.toE = v at h
    cases v <;> try rfl
    rename_i j
    cases j <;> try rfl
    rename_i l
    cases l with
    | nil => simp [Val.isEmptyArr] at h
    | cons x t => simp [caseLenVal, specArraySize, JList.length]
  | cast a t =>
    simp only [Use.ok, Bool.and_eq_true, Bool.or_eq_true, Bool.not_eq_true'] at h
    obtain ⟨⟨hok, hc⟩, hp⟩ := h
    simp only [Use.toE, pipeline_cast, evalDuck, evalSpec]
    by_cases hpath : a.isPath = true
    · cases a with
      | brk n i => simp [Acc.isPath] at hpath
      | nav n => cases n with
        | col => simp [Acc.isPath] at hpath
        | path n p =>
          rw [eval_outScalar_path]
          exact duckCast_scalar t _ hc (evalSpec_path_cases doc n p)
    · have hnp : a.isPath = false := by simpa using hpath
      rw [outScalar_nonpath a hnp, eval_accout doc a hok]
      exact duckCast_of_nonstr t _ (hp.resolve_left (by simp [hnp]))
  | upper a =>
    simp only [Use.ok, Bool.and_eq_true, Bool.or_eq_true, Bool.not_eq_true'] at h
    obtain ⟨hok, hp⟩ := h
    simp only [Use.toE, pipeline_upper, evalDuck, evalSpec]
    by_cases hpath : a.isPath = true
    · cases a with
      | brk n i => simp [Acc.isPath] at hpath
      | nav n => cases n with
        | col => simp [Acc.isPath] at hpath
        | path n p =>
          rw [eval_outScalar_path, duckText_scalar _ (evalSpec_path_cases doc n p)]
          rfl
    · have hnp : a.isPath = false := by simpa using hpath
      rw [outScalar_nonpath a hnp, eval_accout doc a hok,
        duckText_of_nonstr _ (hp.resolve_left (by simp [hnp]))]
  | lower a =>
    simp only [Use.ok, Bool.and_eq_true, Bool.or_eq_true, Bool.not_eq_true'] at h
    obtain ⟨hok, hp⟩ := h
    simp only [Use.toE, pipeline_lower, evalDuck, evalSpec]
    by_cases hpath : a.isPath = true
    · cases a with
      | brk n i => simp [Acc.isPath] at hpath
      | nav n => cases n with
        | col => simp [Acc.isPath] at hpath
        | path n p =>
          rw [eval_outScalar_path, duckText_scalar _ (evalSpec_path_cases doc n p)]
          rfl
    · have hnp : a.isPath = false := by simpa using hpath
      rw [outScalar_nonpath a hnp, eval_accout doc a hok,
        duckText_of_nonstr _ (hp.resolve_left (by simp [hnp]))]
  | trim a =>
    simp only [Use.ok, Bool.and_eq_true, Bool.or_eq_true, Bool.not_eq_true'] at h
    obtain ⟨hok, hp⟩ := h
    simp only [Use.toE, pipeline_trim, evalDuck, evalSpec, duckCast, duckText_duckText]
    by_cases hpath : a.isPath = true
    · cases a with
      | brk n i => simp [Acc.isPath] at hpath
      | nav n => cases n with
        | col => simp [Acc.isPath] at hpath
        | path n p =>
          rw [eval_outScalar_path, duckText_scalar _ (evalSpec_path_cases doc n p)]
          rfl
    · have hnp : a.isPath = false := by simpa using hpath
      rw [outScalar_nonpath a hnp, eval_accout doc a hok,
        duckText_of_nonstr _ (hp.resolve_left (by simp [hnp]))]

/-! ### contexts -/

theorem pipeline_bin (o : Op) (a b : E) : pipeline (.bin o a b) = .bin o (pipeline a) (pipeline b) := by
  simp only [pipeline]
  rw [topDown_bin _ _ _ _ rfl, topDown_bin _ _ _ _ rfl]
  simp only [castAsVarchar, casedAsVarchar]
  rw [topDown_bin _ _ _ _ rfl, topDown_bin _ _ _ _ rfl]

theorem pipeline_not (a : E) : pipeline (.not a) = .not (pipeline a) := by
  simp only [pipeline]
  rw [topDown_not _ _ rfl, topDown_not _ _ rfl]
  simp only [castAsVarchar, casedAsVarchar]
  rw [topDown_not _ _ rfl, topDown_not _ _ rfl]

theorem pipeline_paren (a : E) : pipeline (.paren a) = .paren (pipeline a) := by
  simp only [pipeline]
  rw [topDown_paren _ _ rfl, topDown_paren _ _ rfl]
  simp only [castAsVarchar, casedAsVarchar]
  rw [topDown_paren _ _ rfl, topDown_paren _ _ rfl]

theorem pipeline_lit (l : Lit) : pipeline (.lit l) = .lit l := by
  simp only [pipeline]
  rw [topDown_lit _ _ rfl, topDown_lit _ _ rfl]
  simp only [castAsVarchar, casedAsVarchar]
  rw [topDown_lit _ _ rfl, topDown_lit _ _ rfl]

theorem evalBin_agree (o : Op) (a b : Val) (h : (o == .eq && mixedEq a b) = false) :
    evalBin duckJsonText o a b = evalBin specJsonText o a b := by
  cases o <;> try rfl
  simp only [evalBin]
  cases a <;> cases b <;> (try rfl) <;> (try (simp [mixedEq] at h))
  all_goals first | (rename_i j _; cases j <;> rfl) | (rename_i j; cases j <;> rfl)

theorem ctx_correct (doc : Env) (c : Ctx) (h : c.ok doc = true) :
    evalDuck doc (pipeline c.toE) = evalSpec doc c.toE := by
  induction c with
  | use u => exact use_correct doc u h
  | lit l => simp only [Ctx.toE, pipeline_lit]; rfl
  | bin o a b iha ihb =>
    simp only [Ctx.ok, Bool.and_eq_true, Bool.not_eq_true'] at h
    obtain ⟨⟨ha, hb⟩, hm⟩ := h
    simp only [Ctx.toE, pipeline_bin, evalDuck, evalSpec, iha ha, ihb hb]
    exact evalBin_agree o _ _ hm
  | not a ih => simp only [Ctx.ok] at h; simp only [Ctx.toE, pipeline_not, evalDuck, evalSpec, ih h]
  | paren a ih => simp only [Ctx.ok] at h; simp only [Ctx.toE, pipeline_paren, evalDuck, evalSpec, ih h]

end Fs.Json
