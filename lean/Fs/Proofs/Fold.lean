import Fs.Model.Fold
/-! Helper lemmas for C02 (identifier folding). -/
namespace Fs.Fold

theorem toNat_ofNat_small (n : Nat) (h : n < 55296) : (Char.ofNat n).toNat = n := by
  unfold Char.ofNat
  have : n.isValidChar := Or.inl h
  simp [this, Char.ofNatAux, Char.toNat]

theorem upperC_toNat (c : Char) :
    (upperC c).toNat = if 97 ≤ c.toNat ∧ c.toNat ≤ 122 then c.toNat - 32 else c.toNat := by
  unfold upperC
  split
  · rename_i h; exact toNat_ofNat_small _ (by omega)
  · rfl

/-- an upper-cased character is never a lower-case ASCII letter -/
theorem upperC_not_lower (c : Char) : ¬ (97 ≤ (upperC c).toNat ∧ (upperC c).toNat ≤ 122) := by
  rw [upperC_toNat]; split <;> omega

theorem upperC_idem (c : Char) : upperC (upperC c) = upperC c := by
  have h := upperC_not_lower c
  generalize upperC c = d at h
  unfold upperC; simp [h]

theorem upper_idem (s : List Char) : upper (upper s) = upper s := by
  simp [upper, List.map_map, Function.comp_def, upperC_idem]

theorem upper_no_lower (s : List Char) : ∀ c ∈ upper s, ¬ (97 ≤ c.toNat ∧ c.toNat ≤ 122) := by
  intro c hc
  simp only [upper, List.mem_map] at hc
  obtain ⟨d, _, rfl⟩ := hc
  exact upperC_not_lower d

theorem norm_canon (i : Ident) : (⟨i.norm, i.quoted⟩ : Ident).norm = i.norm := by
  unfold Ident.norm; cases i.quoted <;> simp [upper_idem]

mutual
theorem canon_idem : ∀ n : Node, canon (canon n) = canon n
  | .ident i => by simp [canon, norm_canon]
  | .kwFolded r => by simp [canon, upper_idem]
  | .lit s => by simp [canon]
  | .node t as => by simp [canon, canonList_idem as]
theorem canonList_idem : ∀ l : List Node, canon.canonList (canon.canonList l) = canon.canonList l
  | [] => by simp [canon.canonList]
  | a :: as => by simp [canon.canonList, canon_idem a, canonList_idem as]
end

mutual
theorem canon_caseEq : ∀ a b : Node, CaseEq a b → canon a = canon b
  | .ident a, .ident b, h => by
    obtain ⟨hq, hr⟩ := h
    simp only [canon, Ident.norm]
    cases ha : a.quoted <;> simp [ha] at hr hq <;> simp [hq, hr]
  | .kwFolded a, .kwFolded b, h => by simp [CaseEq] at h; simp [canon, h]
  | .lit a, .lit b, h => by simp [CaseEq] at h; simp [canon, h]
  | .node t as, .node u bs, h => by
    obtain ⟨rfl, hl⟩ := h
    simp [canon, canonList_caseEq as bs hl]
  | .ident _, .kwFolded _, h | .ident _, .lit _, h | .ident _, .node _ _, h
  | .kwFolded _, .ident _, h | .kwFolded _, .lit _, h | .kwFolded _, .node _ _, h
  | .lit _, .ident _, h | .lit _, .kwFolded _, h | .lit _, .node _ _, h
  | .node _ _, .ident _, h | .node _ _, .kwFolded _, h | .node _ _, .lit _, h => by
    simp [CaseEq] at h
theorem canonList_caseEq : ∀ as bs : List Node, CaseEq.CaseEqList as bs →
    canon.canonList as = canon.canonList bs
  | [], [], _ => rfl
  | a :: as, b :: bs, h => by
    simp only [canon.canonList]
    rw [canon_caseEq a b h.1, canonList_caseEq as bs h.2]
  | [], _ :: _, h => by simp [CaseEq.CaseEqList] at h
  | _ :: _, [], h => by simp [CaseEq.CaseEqList] at h
end

mutual
theorem firstIdent_canon : ∀ n : Node, firstIdent (canon n) = (firstIdent n).map fun i => ⟨i.norm, i.quoted⟩
  | .ident i => by simp [canon, firstIdent]
  | .kwFolded r => by simp [canon, firstIdent]
  | .lit s => by simp [canon, firstIdent]
  | .node t as => by simp [canon, firstIdent, firstIdentList_canon as]
theorem firstIdentList_canon : ∀ l : List Node,
    firstIdent.firstIdentList (canon.canonList l) = (firstIdent.firstIdentList l).map fun i => ⟨i.norm, i.quoted⟩
  | [] => by simp [canon.canonList, firstIdent.firstIdentList]
  | a :: as => by
    simp only [canon.canonList, firstIdent.firstIdentList, firstIdent_canon a, firstIdentList_canon as]
    cases firstIdent a <;> simp
end

theorem find_agree (stored : List (List Char)) (ref : List Char)
    (hd : ∀ n ∈ stored, upper n = upper ref → n = ref) : duckFind stored ref = sfFind stored ref := by
  induction stored with
  | nil => rfl
  | cons x xs ih =>
    have ih' := ih (fun n hn => hd n (by simp [hn]))
    simp only [duckFind, sfFind] at ih' ⊢
    by_cases h : upper x = upper ref
    · have := hd x (by simp) h
      simp [List.find?_cons, this]
    · have hne : x ≠ ref := fun e => h (by rw [e])
      simp [List.find?_cons, h, hne, ih']

end Fs.Fold
