import Fs.Model.Sched
/-! Helper lemmas for C19 (`Fs/Props/C19.lean`). -/
namespace Fs.Sched

theorem Cfg.ext' {a b : Cfg} (h1 : ∀ k, a.g k = b.g k) (h2 : ∀ i, a.loc i = b.loc i) : a = b := by
  cases a; cases b; simp only [Cfg.mk.injEq]; exact ⟨funext h1, funext h2⟩

/-! ### locality of a turn -/

theorem turn_loc_other (c : Cfg) (i j : Nat) (h : j ≠ i) : (turn c i).loc j = c.loc j := by
  unfold turn
  cases stepOf i (c.loc i) with
  | none => rfl
  | some p => obtain ⟨k, f⟩ := p; simp [setLoc, h]

theorem turn_g_other (c : Cfg) (i : Nat) (k : Key) (f : Val → Val × Loc) (hs : stepOf i (c.loc i) = some (k, f))
    (k' : Key) (h : k' ≠ k) : (turn c i).g k' = c.g k' := by
  unfold turn; rw [hs]; simp [setG, h]

/-- key of the next scheduling point of session `i` -/
def nextKey (c : Cfg) (i : Nat) : Option Key := (stepOf i (c.loc i)).map (·.1)

/-- **Independent turns commute**: two different sessions whose next scheduling points touch different keys can be
    swapped without changing anything. -/
theorem turn_comm (c : Cfg) (i j : Nat) (hij : i ≠ j)
    (hk : ∀ ki kj, nextKey c i = some ki → nextKey c j = some kj → ki ≠ kj) :
    turn (turn c i) j = turn (turn c j) i := by
  have hji : j ≠ i := Ne.symm hij
  cases hi : stepOf i (c.loc i) with
  | none =>
    have e1 : turn c i = c := by unfold turn; rw [hi]
    have e2 : turn (turn c j) i = turn c j := by
      unfold turn at *
      cases hj : stepOf j (c.loc j) with
      | none => simp [hi]
      | some q => obtain ⟨kj, fj⟩ := q; simp [setLoc, hij, hi]
    rw [e1, e2]
  | some p =>
    obtain ⟨ki, fi⟩ := p
    cases hj : stepOf j (c.loc j) with
    | none =>
      have e1 : turn c j = c := by unfold turn; rw [hj]
      have e2 : turn (turn c i) j = turn c i := by
        unfold turn; simp [hi, setLoc, hji, hj]
      rw [e1, e2]
    | some q =>
      obtain ⟨kj, fj⟩ := q
      have hne : ki ≠ kj := hk ki kj (by simp [nextKey, hi]) (by simp [nextKey, hj])
      have hne' : kj ≠ ki := Ne.symm hne
      apply Cfg.ext'
      · intro k
        unfold turn
        simp only [hi, hj, setLoc, hij, hji, if_false, setG, hne, hne']
        by_cases h1 : k = ki
        · subst h1; simp [hne]
        · by_cases h2 : k = kj
          · subst h2; simp [h1]
          · simp [h1, h2]
      · intro l
        unfold turn
        simp only [hi, hj, setLoc, hij, hji, if_false, setG, hne, hne']
        by_cases h1 : l = i
        · subst h1; simp [hij]
        · by_cases h2 : l = j
          · subst h2; simp [h1]
          · simp [h1, h2]

/-! ### single-call statements: every schedule is already a serial execution -/

/-- every session is between statements and all its remaining statements are one unconditional engine call -/
def SC (c : Cfg) : Prop := ∀ i, (c.loc i).cur = [] ∧ ∀ s ∈ (c.loc i).rest, s.single = true

theorem single_shape (s : Stmt) (h : s.single = true) : ∃ k op, s = [.call k op] := by
  match s, h with
  | [.call k op], _ => exact ⟨k, op, rfl⟩

theorem settle_single (absent : Bool) (k : Key) (op : Op) (rest : List Stmt) :
    settle absent [] ([.call k op] :: rest) = ([.call k op], rest) := by
  cases rest <;> simp [settle, skipCond]

theorem sc_turn (c : Cfg) (i : Nat) (h : SC c) : SC (turn c i) ∧ ((turn c i).loc i).cur = [] := by
  obtain ⟨hcur, hrest⟩ := h i
  have key : ((turn c i).loc i).cur = [] ∧ ∀ s ∈ ((turn c i).loc i).rest, s.single = true := by
    unfold turn stepOf
    cases hr : (c.loc i).rest with
    | nil => simp [hcur, hr, settle, skipCond]
    | cons s rest =>
      obtain ⟨k, op, rfl⟩ := single_shape s (hrest s (by simp [hr]))
      rw [hcur, settle_single]
      simp only [setLoc, if_true]
      refine ⟨by split <;> simp [unwind], fun s hs => hrest s (by simp [hr, hs])⟩
  refine ⟨fun j => ?_, key.1⟩
  by_cases hj : j = i
  · subst hj; exact key
  · rw [turn_loc_other c i j hj]; exact h j

theorem sc_stmtTurn (c : Cfg) (i : Nat) (h : SC c) : stmtTurn c i = turn c i := by
  have := (sc_turn c i h).2
  simp [stmtTurn, stmtTurnAux, this, skipCond]

theorem sc_run (σ : List Nat) : ∀ c, SC c → runSched c σ = runStmts c σ := by
  induction σ with
  | nil => intro c _; rfl
  | cons i σ ih =>
    intro c h
    simp only [runSched, runStmts]
    rw [sc_stmtTurn c i h]
    exact ih _ (sc_turn c i h).1

/-! ### disjoint footprints: a session's turns can be moved in front of everybody else's -/

def instrKeys (is : List Instr) : List Key := is.filterMap Instr.key

/-- keys session state `l` can still touch -/
def keysOf (l : Loc) : List Key := instrKeys l.cur ++ l.rest.flatMap instrKeys

theorem skipCond_sub (absent : Bool) (is : List Instr) : ∀ x ∈ skipCond absent is, x ∈ is := by
  induction is with
  | nil => simp [skipCond]
  | cons a t ih =>
    intro x hx
    cases a with
    | callIfAbsent k op =>
      simp only [skipCond] at hx
      split at hx
      · exact hx
      · exact List.mem_cons_of_mem _ (ih x hx)
    | _ => simpa [skipCond] using hx

theorem settle_sub (absent : Bool) (rest : List Stmt) : ∀ cur,
    (∀ x ∈ (settle absent cur rest).1, x ∈ cur ∨ ∃ s ∈ rest, x ∈ s) ∧
    (∀ s ∈ (settle absent cur rest).2, s ∈ rest) := by
  induction rest with
  | nil => intro cur; simp only [settle]; exact ⟨fun x hx => Or.inl (skipCond_sub _ _ x hx), by simp⟩
  | cons s rest ih =>
    intro cur
    simp only [settle]
    cases hsk : skipCond absent cur with
    | nil =>
      simp only
      obtain ⟨h1, h2⟩ := ih s
      refine ⟨fun x hx => ?_, fun t ht => List.mem_cons_of_mem _ (h2 t ht)⟩
      rcases h1 x hx with h | ⟨t, ht, hxt⟩
      · exact Or.inr ⟨s, by simp, h⟩
      · exact Or.inr ⟨t, List.mem_cons_of_mem _ ht, hxt⟩
    | cons a t =>
      simp only
      refine ⟨fun x hx => Or.inl (skipCond_sub absent cur x (by rw [hsk]; exact hx)), fun t ht => ht⟩

theorem mem_keysOf (l : Loc) (k : Key) : k ∈ keysOf l ↔ (∃ x ∈ l.cur, x.key = some k) ∨ ∃ s ∈ l.rest, ∃ x ∈ s, x.key = some k := by
  simp [keysOf, instrKeys, List.mem_filterMap, List.mem_flatMap]

theorem unwind_sub (is : List Instr) : ∀ x ∈ unwind is, x ∈ is := fun x hx => (List.mem_filter.mp hx).1

/-- the next scheduling point touches a key of the session's footprint, and the footprint only shrinks -/
theorem stepOf_keys (i : Nat) (l : Loc) (k : Key) (f : Val → Val × Loc) (h : stepOf i l = some (k, f)) :
    k ∈ keysOf l ∧ ∀ v, ∀ k' ∈ keysOf (f v).2, k' ∈ keysOf l := by
  unfold stepOf at h
  have hsub := settle_sub l.absent l.rest l.cur
  cases hs : settle l.absent l.cur l.rest with
  | mk is rest' =>
    rw [hs] at h hsub
    cases is with
    | nil => simp at h
    | cons ins cur' =>
      simp only at h hsub
      have hins := hsub.1 ins (by simp)
      have hcur' : ∀ x ∈ cur', x ∈ l.cur ∨ ∃ s ∈ l.rest, x ∈ s := fun x hx => hsub.1 x (by simp [hx])
      have hrest' := hsub.2
      -- footprint of any state whose cur ⊆ cur' and rest ⊆ rest'
      have shrink : ∀ (l' : Loc), (∀ x ∈ l'.cur, x ∈ cur') → l'.rest = rest' → ∀ k' ∈ keysOf l', k' ∈ keysOf l := by
        intro l' hc hr k' hk'
        rw [mem_keysOf] at hk' ⊢
        rcases hk' with ⟨x, hx, hxk⟩ | ⟨s, hs', x, hx, hxk⟩
        · rcases hcur' x (hc x hx) with h1 | ⟨s, hs1, hxs⟩
          · exact Or.inl ⟨x, h1, hxk⟩
          · exact Or.inr ⟨s, hs1, x, hxs, hxk⟩
        · exact Or.inr ⟨s, hrest' s (by rw [← hr]; exact hs'), x, hx, hxk⟩
      have inkeys : ∀ kk, ins.key = some kk → kk ∈ keysOf l := by
        intro kk hkk
        rw [mem_keysOf]
        rcases hins with h1 | ⟨s, hs1, hxs⟩
        · exact Or.inl ⟨ins, h1, hkk⟩
        · exact Or.inr ⟨s, hs1, ins, hxs, hkk⟩
      cases ins with
      | acquire n0 =>
        simp only [Option.some.injEq, Prod.mk.injEq] at h
        obtain ⟨rfl, rfl⟩ := h
        refine ⟨inkeys _ rfl, fun v => ?_⟩
        by_cases hv : v.held = none
        · simp only [hv, if_true]; exact shrink _ (fun x hx => hx) rfl
        · simp only [hv, if_false]; exact fun k' hk' => hk'
      | release n0 =>
        simp only [Option.some.injEq, Prod.mk.injEq] at h
        obtain ⟨rfl, rfl⟩ := h
        exact ⟨inkeys _ rfl, fun v => shrink _ (fun x hx => hx) rfl⟩
      | probe k0 =>
        simp only [Option.some.injEq, Prod.mk.injEq] at h
        obtain ⟨rfl, rfl⟩ := h
        exact ⟨inkeys _ rfl, fun v => shrink _ (fun x hx => hx) rfl⟩
      | call k0 op =>
        simp only [Option.some.injEq, Prod.mk.injEq] at h
        obtain ⟨rfl, rfl⟩ := h
        refine ⟨inkeys _ rfl, fun v => shrink _ (fun x hx => ?_) rfl⟩
        simp only at hx
        split at hx
        · exact unwind_sub _ x hx
        · exact hx
      | callIfAbsent k0 op =>
        simp only [Option.some.injEq, Prod.mk.injEq] at h
        obtain ⟨rfl, rfl⟩ := h
        refine ⟨inkeys _ rfl, fun v => shrink _ (fun x hx => ?_) rfl⟩
        simp only at hx
        split at hx
        · exact unwind_sub _ x hx
        · exact hx

/-- pairwise disjoint footprints -/
def Disj (c : Cfg) : Prop := ∀ i j, i ≠ j → ∀ k, k ∈ keysOf (c.loc i) → k ∉ keysOf (c.loc j)

theorem turn_keys (c : Cfg) (i j : Nat) : ∀ k ∈ keysOf ((turn c i).loc j), k ∈ keysOf (c.loc j) := by
  intro k hk
  by_cases hj : j = i
  · subst hj
    unfold turn at hk
    cases hs : stepOf j (c.loc j) with
    | none => rw [hs] at hk; exact hk
    | some p =>
      obtain ⟨k0, f⟩ := p
      rw [hs] at hk
      simp only [setLoc, if_true] at hk
      exact (stepOf_keys j (c.loc j) k0 f hs).2 _ k hk
  · rw [turn_loc_other c i j hj] at hk; exact hk

theorem disj_turn (c : Cfg) (i : Nat) (h : Disj c) : Disj (turn c i) :=
  fun a b hab k hk hk' => h a b hab k (turn_keys c i a k hk) (turn_keys c i b k hk')

theorem disj_comm (c : Cfg) (i j : Nat) (hij : i ≠ j) (h : Disj c) : turn (turn c i) j = turn (turn c j) i := by
  apply turn_comm c i j hij
  intro ki kj hi hj heq
  subst heq
  simp only [nextKey, Option.map_eq_some_iff] at hi hj
  obtain ⟨⟨k1, f1⟩, h1, rfl⟩ := hi
  obtain ⟨⟨k2, f2⟩, h2, hk⟩ := hj
  simp only at hk; subst hk
  exact h i j hij _ (stepOf_keys i _ _ f1 h1).1 (stepOf_keys j _ _ f2 h2).1

theorem runSched_append (c : Cfg) (a b : List Nat) : runSched c (a ++ b) = runSched (runSched c a) b := by
  induction a generalizing c with
  | nil => rfl
  | cons x xs ih => simp [runSched, ih]

theorem disj_run (σ : List Nat) : ∀ c, Disj c → Disj (runSched c σ) := by
  induction σ with
  | nil => intro c h; exact h
  | cons x xs ih => intro c h; exact ih _ (disj_turn c x h)

/-- a turn of `i` can be moved behind any sequence of other sessions' turns -/
theorem move_turn (τ : List Nat) (i : Nat) : ∀ c, Disj c → (∀ j ∈ τ, j ≠ i) →
    runSched (turn c i) τ = turn (runSched c τ) i := by
  induction τ with
  | nil => intro c _ _; rfl
  | cons j τ ih =>
    intro c h hτ
    have hji : j ≠ i := hτ j (by simp)
    simp only [runSched]
    rw [disj_comm c i j (Ne.symm hji) h]
    exact ih (turn c j) (disj_turn c j h) (fun x hx => hτ x (by simp [hx]))

/-- all turns of session `i` can be moved to the front -/
theorem front (σ : List Nat) (i : Nat) : ∀ c, Disj c →
    runSched c σ = runSched c (σ.filter (· == i) ++ σ.filter (· != i)) := by
  induction σ with
  | nil => intro c _; rfl
  | cons x σ ih =>
    intro c h
    by_cases hx : x = i
    · subst hx
      simp only [List.filter_cons, beq_self_eq_true, if_true, bne_self_eq_false, Bool.false_eq_true, if_false,
        List.cons_append, runSched]
      exact ih _ (disj_turn c x h)
    · have hb : (x == i) = false := by simpa using hx
      have hb' : (x != i) = true := by simp [bne, hb]
      simp only [List.filter_cons, hb, hb', Bool.false_eq_true, if_false, if_true, runSched]
      rw [ih _ (disj_turn c x h), runSched_append, runSched_append]
      simp only [runSched]
      -- move the turn of `x` behind the turns of `i`
      have hm := move_turn (σ.filter (· == i)) x c h (by
        intro j hj; have := (List.mem_filter.mp hj).2; simp at this; subst this; exact fun e => hx e.symm)
      rw [hm]

end Fs.Sched
