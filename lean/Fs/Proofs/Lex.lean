import Fs.Model.Lex
/-! Helper lemmas about the tokenizer automaton `Fs.Lex`. -/
namespace Fs.Lex

theorem run_nil (st : St) : run st [] = ([], st) := rfl

theorem run_cons (st : St) (c : Char) (cs : List Char) :
    run st (c :: cs) = ((step st c).1 ++ (run (step st c).2 cs).1, (run (step st c).2 cs).2) := rfl

theorem run_append (st : St) (a b : List Char) :
    run st (a ++ b) = ((run st a).1 ++ (run (run st a).2 b).1, (run (run st a).2 b).2) := by
  induction a generalizing st with
  | nil => simp [run]
  | cons c cs ih => simp [run, ih, List.append_assoc]

/-- what a boundary state still owes when the next token starts (or the input ends) -/
def pending : St → List Tok
  | .dash => [.chr '-']
  | .slash => [.chr '/']
  | .dollar => [.chr '$']
  | _ => []

theorem finish_boundary (st : St) (h : st.boundary = true) : finish st = some (pending st) := by
  cases st <;> simp_all [St.boundary, finish, pending]

/-- a quote read between tokens opens a string literal -/
theorem step_boundary_quote (st : St) (h : st.boundary = true) : step st '\'' = (pending st, .str []) := by
  cases st <;> simp_all [St.boundary, step, stepTop, thenTop, pending]

/-- after a closing quote, a character other than a quote is read at a token start -/
theorem run_strQ (acc : List Char) (c : Char) (cs : List Char) (h : c ≠ '\'') :
    run (.strQ acc) (c :: cs) = (.str acc :: (run .top (c :: cs)).1, (run .top (c :: cs)).2) := by
  simp [run, step, h, thenTop]

theorem lexFrom_strQ (acc : List Char) (rest : List Char) (h : rest.head? ≠ some '\'') :
    lexFrom (.strQ acc) rest = (lex rest).map (.str acc :: ·) := by
  cases rest with
  | nil => simp [lexFrom, lex, run, finish]
  | cons c cs =>
    have hc : c ≠ '\'' := by simpa using h
    simp only [lexFrom, lex, run_strQ acc c cs hc]
    cases finish (run St.top (c :: cs)).2 <;> simp

theorem lexFrom_append (st : St) (a b : List Char) :
    lexFrom st (a ++ b) = (lexFrom (run st a).2 b).map ((run st a).1 ++ ·) := by
  simp only [lexFrom, run_append]
  cases finish (run (run st a).2 b).2 <;> simp

theorem lexFrom_cons (st : St) (c : Char) (cs : List Char) :
    lexFrom st (c :: cs) = (lexFrom (step st c).2 cs).map ((step st c).1 ++ ·) := by
  simp only [lexFrom, run_cons]
  cases finish (run (step st c).2 cs).2 <;> simp

end Fs.Lex
