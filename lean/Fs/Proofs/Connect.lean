import Fs.Model.Connect
/-! Helper lemmas for C14: one lemma per rung of the connect ladder (db step / schema step / context step). -/
namespace Fs.Connect

theorem upperChar_idem (c : Char) : upperChar (upperChar c) = upperChar c := by
  by_cases h : upperChar c = c
  · rw [h, h]
  · revert h
    unfold upperChar
    split <;> intro h <;> first | rfl | exact absurd rfl h

theorem upper_idem (n : Name) : upper (upper n) = upper n := by
  simp [upper, upperChar_idem]

theorem upper_DB (o : Opts) : upper o.DB = o.DB := by
  unfold Opts.DB Opts.db
  cases o.database with
  | none => rfl
  | some n => simp [upper_idem]

theorem upper_SC (o : Opts) : upper o.SC = o.SC := by
  unfold Opts.SC Opts.sc
  cases o.schema with
  | none => rfl
  | some n => simp [upper_idem]

/-! ### catalog algebra -/

theorem dbExists_attachDb (w : World) (db db' : Name) (p : Bool) :
    dbExists (attachDb w db p) db' = (dbExists w db' || upper db == db') := by
  simp [dbExists, attachDb, List.any_append]

theorem dbExists_addSchema (w : World) (db s db' : Name) :
    dbExists (addSchema w db s) db' = dbExists w db' := by
  simp only [dbExists, addSchema, List.any_map]
  congr 1
  funext c
  simp only [Function.comp]
  split <;> rfl

theorem schemaExists_dbExists (w : World) (db s : Name) (h : schemaExists w db s = true) : dbExists w db = true := by
  simp only [schemaExists, dbExists, List.any_eq_true] at h ⊢
  obtain ⟨c, hc, hh⟩ := h
  exact ⟨c, hc, by simp only [Bool.and_eq_true] at hh; exact hh.1⟩

theorem schemaExists_addSchema_self (w : World) (db s : Name) (hs : upper s = s) (h : dbExists w db = true) :
    schemaExists (addSchema w db s) db s = true := by
  simp only [dbExists, List.any_eq_true] at h
  obtain ⟨c, hc, hh⟩ := h
  simp only [schemaExists, addSchema, List.any_map, List.any_eq_true]
  refine ⟨c, hc, ?_⟩
  simp only [Function.comp, hh, if_true, Bool.true_and, catHasSchema, List.any_append]
  simp [hs]

theorem attachDb_frame (w : World) (db : Name) (p : Bool) :
    (attachDb w db p).paths = w.paths ∧ (attachDb w db p).nextConn = w.nextConn := ⟨rfl, rfl⟩

theorem addSchema_frame (w : World) (db s : Name) :
    (addSchema w db s).paths = w.paths ∧ (addSchema w db s).nextConn = w.nextConn ∧ (addSchema w db s).disk = w.disk :=
  ⟨rfl, rfl, rfl⟩

/-! ### rung 1: the database step -/

theorem rung_db (o : Opts) (w : World) : stepDb o w = Spec.afterDb o w := rfl

/-- after rung 1 the database exists exactly when `Spec.dbAfter` says so -/
theorem dbExists_afterDb (o : Opts) (w : World) (hd : truthy o.db = true) :
    dbExists (Spec.afterDb o w) o.DB = Spec.dbAfter o w := by
  unfold Spec.afterDb Spec.createsDb Spec.dbAfter
  cases he : dbExists w o.DB <;> cases hc : o.createDb <;> simp [hd, he, dbExists_attachDb, upper_DB]

theorem afterDb_frame (o : Opts) (w : World) :
    (Spec.afterDb o w).paths = w.paths ∧ (Spec.afterDb o w).nextConn = w.nextConn := by
  unfold Spec.afterDb
  split
  · exact attachDb_frame _ _ _
  · exact ⟨rfl, rfl⟩

/-! ### rung 2: the schema step -/

def Spec.afterSchema (o : Opts) (w : World) : World :=
  if Spec.createsSchema o w then addSchema (Spec.afterDb o w) o.DB o.SC else Spec.afterDb o w

theorem rung_schema (o : Opts) (w : World) :
    stepSchema true o (Spec.afterDb o w) = some (Spec.afterSchema o w) := by
  unfold stepSchema Spec.afterSchema Spec.createsSchema
  cases hd : truthy o.db with
  | false => simp [Spec.dbAfter, hd]
  | true =>
    rw [dbExists_afterDb o w hd]
    cases o.createSchema <;> cases truthy o.sc <;> cases schemaExists (Spec.afterDb o w) o.DB o.SC <;>
      cases Spec.dbAfter o w <;> simp

theorem afterSchema_frame (o : Opts) (w : World) :
    (Spec.afterSchema o w).paths = w.paths ∧ (Spec.afterSchema o w).nextConn = w.nextConn := by
  unfold Spec.afterSchema
  split
  · exact ⟨(addSchema_frame _ _ _).1.trans (afterDb_frame o w).1, (addSchema_frame _ _ _).2.1.trans (afterDb_frame o w).2⟩
  · exact afterDb_frame o w

/-- after rung 2 the database still exists exactly when `Spec.dbAfter` says so -/
theorem dbExists_afterSchema (o : Opts) (w : World) (hd : truthy o.db = true) :
    dbExists (Spec.afterSchema o w) o.DB = Spec.dbAfter o w := by
  unfold Spec.afterSchema
  split
  · rw [dbExists_addSchema]; exact dbExists_afterDb o w hd
  · exact dbExists_afterDb o w hd

/-- after rung 2 the schema exists exactly when `Spec.schemaAfter` says so -/
theorem schemaExists_afterSchema (o : Opts) (w : World) (hd : truthy o.db = true) (hs : truthy o.sc = true) :
    schemaExists (Spec.afterSchema o w) o.DB o.SC = Spec.schemaAfter o w := by
  unfold Spec.afterSchema
  cases hc : Spec.createsSchema o w with
  | true =>
    simp only [if_true]
    have hc' := hc
    simp only [Spec.createsSchema, Bool.and_eq_true] at hc'
    have hdb : dbExists (Spec.afterDb o w) o.DB = true := by rw [dbExists_afterDb o w hd]; exact hc'.1.1.2
    rw [schemaExists_addSchema_self _ _ _ (upper_SC o) hdb]
    simp [Spec.schemaAfter, hc'.1.1.2, hs, hc'.1.1.1]
  | false =>
    simp only [Bool.false_eq_true, if_false]
    cases hse : schemaExists (Spec.afterDb o w) o.DB o.SC with
    | true =>
      have := schemaExists_dbExists _ _ _ hse
      rw [dbExists_afterDb o w hd] at this
      simp [Spec.schemaAfter, this, hs, hse]
    | false =>
      simp only [Spec.createsSchema, hs, hse] at hc
      cases hda : Spec.dbAfter o w <;> cases hcs : o.createSchema <;> simp [Spec.schemaAfter, hda, hcs, hse] at hc ⊢

/-! ### rung 3: the context step -/

theorem rung_context (o : Opts) (w : World) :
    stepContext o (Spec.afterSchema o w) =
      ({ Spec.afterSchema o w with
          paths := w.paths ++ [(w.nextConn,
            if Spec.schemaAfter o w then some (o.DB, o.SC) else if Spec.dbAfter o w then some (o.DB, MAIN) else none)],
          nextConn := w.nextConn + 1 },
       ⟨o.db, o.sc, Spec.dbAfter o w, Spec.schemaAfter o w, w.nextConn⟩) := by
  obtain ⟨hp, hn⟩ := afterSchema_frame o w
  unfold stepContext
  rw [hp, hn]
  cases hd : truthy o.db with
  | false => simp [Spec.schemaAfter, Spec.dbAfter, hd]
  | true =>
    rw [dbExists_afterSchema o w hd]
    cases hs : truthy o.sc with
    | false => cases hda : Spec.dbAfter o w <;> simp [Spec.schemaAfter, hs, hda]
    | true =>
      rw [schemaExists_afterSchema o w hd hs]
      cases hsa : Spec.schemaAfter o w with
      | true =>
        have : Spec.dbAfter o w = true := by
          simp only [Spec.schemaAfter, Bool.and_eq_true] at hsa; exact hsa.1.1
        simp [this]
      | false => cases hda : Spec.dbAfter o w <;> simp

end Fs.Connect
