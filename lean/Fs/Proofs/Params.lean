import Fs.Model.Params
import Fs.Proofs.Lex
/-! Helper lemmas for C08: escape, the literal round trip, `%` formatting, paramstyle snapshot. -/
namespace Fs.Params
open Fs.Lex

/-! ### the four sequential replaces are one pass -/

theorem replaceChar_cons_ne (c x : Char) (r xs : List Char) (h : x ≠ c) :
    replaceChar c r (x :: xs) = x :: replaceChar c r xs := by simp [replaceChar, h]

theorem replaceChar_cons_eq (c : Char) (r xs : List Char) :
    replaceChar c r (c :: xs) = r ++ replaceChar c r xs := by simp [replaceChar]

theorem escapeSeq_eq_escape (s : List Char) : escapeSeq s = escape s := by
  induction s with
  | nil => rfl
  | cons c cs ih =>
    unfold escapeSeq at ih ⊢
    unfold escape
    by_cases h1 : c = '\\'
    · subst h1; simp [replaceChar, ih]
    · by_cases h2 : c = '\n'
      · subst h2; simp [replaceChar, ih]
      · by_cases h3 : c = '\r'
        · subst h3; simp [replaceChar, ih]
        · by_cases h4 : c = '\''
          · subst h4; simp [replaceChar, ih]
          · simp [replaceChar, h1, h2, h3, h4, ih]

/-! ### tokenizer ∘ escape = id -/

theorem run_str_escape (acc s : List Char) : run (.str acc) (escape s) = ([], .str (acc ++ s)) := by
  induction s generalizing acc with
  | nil => simp [escape, run]
  | cons c cs ih =>
    unfold escape
    by_cases h1 : c = '\\'
    · subst h1; simp [run, step, unesc, ih]
    · by_cases h2 : c = '\n'
      · subst h2; simp [run, step, unesc, ih]
      · by_cases h3 : c = '\r'
        · subst h3; simp [run, step, unesc, ih]
        · by_cases h4 : c = '\''
          · subst h4; simp [run, step, unesc, ih]
          · simp [run, step, h1, h2, h3, h4, ih]

theorem step_str_quote (acc : List Char) : step (.str acc) '\'' = ([], .strQ acc) := by simp [step]

theorem lexFrom_str_escape (acc s rest : List Char) (h : rest.head? ≠ some '\'') :
    lexFrom (.str acc) (escape s ++ '\'' :: rest) = (lex rest).map (.str (acc ++ s) :: ·) := by
  rw [lexFrom_append, run_str_escape, lexFrom_cons, step_str_quote]
  simp only []
  rw [lexFrom_strQ _ rest h]
  cases lex rest <;> simp

/-- a quoted, escaped string read between tokens is exactly one STRING token with the original value,
    and what follows is read from a token start -/
theorem lexFrom_lit (st : St) (hb : st.boundary = true) (s post : List Char) (h : post.head? ≠ some '\'') :
    lexFrom st (quote (escape s) ++ post) = (lex post).map (fun b => pending st ++ .str s :: b) := by
  simp only [quote, List.cons_append, List.append_assoc, List.nil_append]
  rw [lexFrom_cons, step_boundary_quote st hb]
  simp only []
  rw [lexFrom_str_escape [] s post h]
  cases lex post <;> simp

/-! ### plain (unquoted) literal texts -/

/-- characters of `NULL`, `TRUE`, `FALSE`, `123`, `1.5`, `1e+300` -/
def isPlainChar (c : Char) : Bool := c.isAlphanum || c = '.' || c = '+'

theorem stepTop_plain (c : Char) (h : isPlainChar c = true) :
    stepTop c = ([.chr c], if c = '.' ∨ c = '+' then .top else .word) := by
  have hne : ∀ d ∈ ['\'', '"', '-', '/', '$', ';'], c ≠ d := by
    intro d hd hcd; subst hcd
    simp at hd
    rcases hd with rfl | rfl | rfl | rfl | rfl | rfl <;> simp [isPlainChar, Char.isAlphanum, Char.isAlpha, Char.isDigit, Char.isUpper, Char.isLower] at h
  have h1 := hne '\'' (by simp); have h2 := hne '"' (by simp); have h3 := hne '-' (by simp)
  have h4 := hne '/' (by simp); have h5 := hne '$' (by simp); have h6 := hne ';' (by simp)
  by_cases hd : c = '.'
  · subst hd; simp [stepTop, isWs, isSingle]
  · by_cases hp : c = '+'
    · subst hp; simp [stepTop, isWs, isSingle]
    · have ha : c.isAlphanum = true := by simpa [isPlainChar, hd, hp] using h
      have hws : isWs c = false := by
        simp only [Char.isAlphanum, Char.isAlpha, Char.isDigit, Char.isUpper, Char.isLower, Bool.or_eq_true,
          Bool.and_eq_true, decide_eq_true_eq] at ha
        simp only [isWs, Char.toNat]
        have : c.val.toNat = c.toNat := rfl
        simp only [UInt32.le_iff_toNat_le] at ha
        simp at ha ⊢
        omega
      have hs : isSingle c = false := by
        simp only [Char.isAlphanum, Char.isAlpha, Char.isDigit, Char.isUpper, Char.isLower, Bool.or_eq_true,
          Bool.and_eq_true, decide_eq_true_eq] at ha
        rw [Bool.eq_false_iff]
        intro hm
        simp only [isSingle, List.contains_eq_mem, List.mem_cons, List.not_mem_nil, or_false, decide_eq_true_eq] at hm
        rcases hm with rfl | rfl | rfl | rfl | rfl | rfl | rfl | rfl | rfl | rfl | rfl | rfl | rfl | rfl | rfl | rfl |
          rfl | rfl | rfl | rfl | rfl | rfl | rfl | rfl | rfl | rfl | rfl | rfl | rfl | rfl | rfl | rfl <;> simp at ha
      simp [stepTop, h1, h2, h3, h4, h5, h6, hws, hs, hd, hp]

theorem plain_ne (c : Char) (h : isPlainChar c = true) : c ≠ '$' ∧ c ≠ '-' ∧ c ≠ '\'' := by
  refine ⟨?_, ?_, ?_⟩ <;> (rintro rfl; simp [isPlainChar, Char.isAlphanum, Char.isAlpha, Char.isDigit, Char.isUpper, Char.isLower] at h)

/-- state outside every string, identifier and comment, with nothing pending -/
def _root_.Fs.Lex.St.outside (st : St) : Prop := st = .top ∨ st = .word

theorem step_outside_plain (st : St) (h : st.outside) (c : Char) (hc : isPlainChar c = true) :
    (step st c).1 = [.chr c] ∧ (step st c).2.outside := by
  have hs := stepTop_plain c hc
  rcases h with rfl | rfl
  · simp only [step, hs]; refine ⟨trivial, ?_⟩; split <;> simp [St.outside]
  · simp only [step, (plain_ne c hc).1, if_false, hs]; refine ⟨trivial, ?_⟩; split <;> simp [St.outside]

theorem run_plain (st : St) (h : st.outside) (t : List Char) (ht : ∀ c ∈ t, isPlainChar c = true) :
    (run st t).1 = t.map .chr ∧ (run st t).2.outside := by
  induction t generalizing st with
  | nil => exact ⟨rfl, h⟩
  | cons c cs ih =>
    have hc := step_outside_plain st h c (ht c (by simp))
    have := ih (step st c).2 hc.2 (fun d hd => ht d (by simp [hd]))
    simp [run, hc.1, this.1, this.2]

/-! ### `%` formatting = substitution of pieces -/

inductive Piece where
  | lit (cs : List Char)      -- text without `%`
  | pct                       -- `%%`
  | pos                       -- `%s`
  | key (k : List Char)       -- `%(k)s`
  deriving Repr

def Piece.render : Piece → List Char
  | .lit cs => cs
  | .pct => ['%', '%']
  | .pos => ['%', 's']
  | .key k => '%' :: '(' :: k ++ [')', 's']

def render : List Piece → List Char
  | [] => []
  | p :: ps => p.render ++ render ps

def Piece.wf : Piece → Prop
  | .lit cs => '%' ∉ cs
  | .key k => '(' ∉ k ∧ ')' ∉ k
  | _ => True

/-- what binding a sequence means: literal text copied, `%%` ↦ `%`, the i-th `%s` ↦ the i-th value,
    values inserted as they are; wrong argument count or a `%(k)s` is an error -/
def substSeq : List Piece → List (List Char) → Fmt
  | [], [] => .ok []
  | [], _ :: _ => .err
  | .lit cs :: ps, vs => (substSeq ps vs).app cs
  | .pct :: ps, vs => (substSeq ps vs).cons '%'
  | .pos :: ps, v :: vs => (substSeq ps vs).app v
  | .pos :: _, [] => .err
  | .key _ :: _, _ => .err

/-- what binding a dict means: `%(k)s` ↦ the value of `k` (error when missing) -/
def substMap (kv : List (List Char × List Char)) : List Piece → Fmt
  | [] => .ok []
  | .lit cs :: ps => (substMap kv ps).app cs
  | .pct :: ps => (substMap kv ps).cons '%'
  | .pos :: _ => .unsupported
  | .key k :: ps => match lookup k kv with
    | some v => (substMap kv ps).app v
    | none => .err

theorem Fmt.app_nil (f : Fmt) : f.app [] = f := by cases f <;> simp [Fmt.app]
theorem Fmt.app_cons (c : Char) (cs : List Char) (f : Fmt) : f.app (c :: cs) = (f.app cs).cons c := by
  cases f <;> simp [Fmt.app, Fmt.cons]

theorem fmtGo_lit (a : Args) (rest : List (List Char)) (cs tail : List Char) (h : '%' ∉ cs) :
    fmtGo .text a rest (cs ++ tail) = (fmtGo .text a rest tail).app cs := by
  induction cs with
  | nil => simp [Fmt.app_nil]
  | cons c cs ih =>
    have hc : c ≠ '%' := fun e => h (by simp [e])
    have := ih (fun hm => h (by simp [hm]))
    simp [fmtGo, hc, this, Fmt.app_cons]

theorem fmtGo_key (a : Args) (rest : List (List Char)) (acc k tail : List Char) (h1 : '(' ∉ k) (h2 : ')' ∉ k) :
    fmtGo (.key acc) a rest (k ++ ')' :: tail) = fmtGo (.keyEnd (acc ++ k)) a rest tail := by
  induction k generalizing acc with
  | nil => simp [fmtGo]
  | cons c cs ih =>
    have hc1 : c ≠ '(' := fun e => h1 (by simp [e])
    have hc2 : c ≠ ')' := fun e => h2 (by simp [e])
    have := ih (acc ++ [c]) (fun hm => h1 (by simp [hm])) (fun hm => h2 (by simp [hm]))
    simp [fmtGo, hc1, hc2, this]

theorem fmtGo_seq (all : List (List Char)) (ps : List Piece) (hw : ∀ p ∈ ps, p.wf) (rest : List (List Char)) :
    fmtGo .text (.seq all) rest (render ps) = substSeq ps rest := by
  induction ps generalizing rest with
  | nil => cases rest <;> simp [render, fmtGo, substSeq]
  | cons p ps ih =>
    have ih' := ih (fun q hq => hw q (by simp [hq]))
    have hp := hw p (by simp)
    cases p with
    | lit cs => simp only [render, Piece.render, substSeq]; rw [fmtGo_lit _ _ _ _ hp, ih']
    | pct => simp [render, Piece.render, substSeq, fmtGo, ih']
    | pos => cases rest <;> simp [render, Piece.render, substSeq, fmtGo, ih']
    | key k => simp [render, Piece.render, substSeq, fmtGo]

theorem fmtGo_map (kv : List (List Char × List Char)) (ps : List Piece) (hw : ∀ p ∈ ps, p.wf) (rest : List (List Char)) :
    fmtGo .text (.map kv) rest (render ps) = substMap kv ps := by
  induction ps with
  | nil => simp [render, fmtGo, substMap]
  | cons p ps ih =>
    have ih' := ih (fun q hq => hw q (by simp [hq]))
    have hp := hw p (by simp)
    cases p with
    | lit cs => simp only [render, Piece.render, substMap]; rw [fmtGo_lit _ _ _ _ hp, ih']
    | pct => simp [render, Piece.render, substMap, fmtGo, ih']
    | pos => simp [render, Piece.render, substMap, fmtGo]
    | key k =>
      simp only [render, Piece.render, substMap, List.cons_append, List.append_assoc]
      have := fmtGo_key (.map kv) rest [] k ('s' :: render ps) hp.1 hp.2
      simp only [List.nil_append] at this
      simp [this, fmtGo, ih']
      cases lookup k kv <;> simp

/-! ### paramstyle snapshot -/

theorem getLast?_mid {α} (A B : List α) (y x : α) : (A ++ y :: (B ++ [x])).getLast? = some x := by
  rw [show A ++ y :: (B ++ [x]) = (A ++ y :: B) ++ [x] by simp]
  first | exact List.getLast?_concat | simp [List.getLast?_append] | simp

def nconnects : List POp → Nat
  | [] => 0
  | .connect :: os => nconnects os + 1
  | _ :: os => nconnects os

theorem prun_append (w : PWorld) (a b : List POp) :
    prun w (a ++ b) = ((prun (prun w a).1 b).1, (prun w a).2 ++ (prun (prun w a).1 b).2) := by
  induction a generalizing w with
  | nil => simp [prun]
  | cons o os ih => simp [prun, ih]

theorem prun_conns_prefix (w : PWorld) (ops : List POp) :
    ∃ added, (prun w ops).1.conns = w.conns ++ added ∧ added.length = nconnects ops := by
  induction ops generalizing w with
  | nil => exact ⟨[], by simp [prun, nconnects]⟩
  | cons o os ih =>
    obtain ⟨ad, h1, h2⟩ := ih (pstep w o).1
    cases o with
    | setGlobal s => exact ⟨ad, by simpa [prun, pstep] using h1, by simpa [nconnects] using h2⟩
    | connect =>
      refine ⟨w.global :: ad, ?_, by simp [nconnects, h2]⟩
      simp only [pstep] at h1
      simp [prun, pstep, h1]
    | exec i => exact ⟨ad, by simpa [prun, pstep] using h1, by simpa [nconnects] using h2⟩

/-! ### DuckDB: lexer ∘ generator = id -/

theorem duckLex_gen (s rest : List Char) (hn : noNul s = true) (h : rest.head? ≠ some '\'') :
    duckLex (duckGen s ++ '\'' :: rest) = some (s, rest) := by
  induction s with
  | nil =>
    cases rest with
    | nil => simp [duckGen, duckLex]
    | cons r rs =>
      have : r ≠ '\'' := by simpa using h
      simp [duckGen, duckLex, this]
  | cons c cs ih =>
    have hc : c ≠ Char.ofNat 0 := by
      intro e; subst e; simp [noNul] at hn
    have hcs : noNul cs = true := by
      simp only [noNul, Bool.not_eq_true', List.contains_eq_mem, decide_eq_false_iff_not, List.mem_cons, not_or] at hn ⊢
      exact hn.2
    have ih' := ih hcs
    unfold duckGen
    split
    · next hq => subst hq; simp [duckLex, ih']
    · next hq =>
      cases hg : duckGen cs ++ '\'' :: rest with
      | nil => simp at hg
      | cons p tl =>
        simp only [List.cons_append, hg]
        rw [duckLex]
        simp [hc, hq, ← hg, ih']

end Fs.Params
