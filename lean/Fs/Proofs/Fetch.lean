import Fs.Model.Fetch
/-! Helper lemmas for C05 (statements of the property theorems live in `Fs/Props/C05.lean`). -/
namespace Fs.Fetch

/-- simulation relation between the code's cursor and the abstract read position -/
def Sim {α} (c : Cur α) (s : SCur α) : Prop :=
  c.rows? = s.res? ∧ c.arraysize = s.arraysize ∧ c.idx?.getD 0 = s.pos

theorem sim_step {α} (c : Cur α) (s : SCur α) (o : Op α) (h : Sim c s) :
    (step c o).1 = (sstep s o).1 ∧ Sim (step c o).2 (sstep s o).2 := by
  obtain ⟨hr, ha, hi⟩ := h
  cases o with
  | exec rs => simp [step, sstep, Sim, ha]
  | fail => simp [step, sstep, Sim, ha]
  | setAs n => simp [step, sstep, Sim, hr, hi]
  | pandas =>
    cases hrs : c.rows? with
    | none =>
      have : s.res? = none := by rw [← hr, hrs]
      simp [step, sstep, hrs, this, Sim, ha, hi]
    | some rs =>
      have hs : s.res? = some rs := by rw [← hr, hrs]
      simp [step, sstep, hrs, hs, Sim, ha, hi]
  | one =>
    cases hrs : c.rows? with
    | none =>
      have : s.res? = none := by rw [← hr, hrs]
      simp [step, sstep, fetchmany, hrs, this, Sim, ha, hi]
    | some rs =>
      have hs : s.res? = some rs := by rw [← hr, hrs]
      cases hidx : c.idx? with
      | none =>
        have hp : s.pos = 0 := by rw [← hi, hidx]; rfl
        simp [step, sstep, fetchmany, hrs, hs, Sim, ha, hidx, hp, List.head?_take, List.head?_eq_getElem?]
      | some j =>
        have hp : s.pos = j := by rw [← hi, hidx]; rfl
        simp [step, sstep, fetchmany, hrs, hs, Sim, ha, hidx, hp, List.head?_take, List.head?_drop]
  | many k =>
    cases hrs : c.rows? with
    | none =>
      have : s.res? = none := by rw [← hr, hrs]
      simp [step, sstep, fetchmany, hrs, this, Sim, ha, hi]
    | some rs =>
      have hs : s.res? = some rs := by rw [← hr, hrs]
      cases hidx : c.idx? with
      | none =>
        have hp : s.pos = 0 := by rw [← hi, hidx]; rfl
        simp [step, sstep, fetchmany, hrs, hs, Sim, ha, hidx, hp]
      | some j =>
        have hp : s.pos = j := by rw [← hi, hidx]; rfl
        simp [step, sstep, fetchmany, hrs, hs, Sim, ha, hidx, hp]
  | all =>
    cases hrs : c.rows? with
    | none =>
      have : s.res? = none := by rw [← hr, hrs]
      simp [step, sstep, hrs, this, Sim, ha, hi]
    | some rs =>
      have hs : s.res? = some rs := by rw [← hr, hrs]
      cases hidx : c.idx? with
      | none =>
        have hp : s.pos = 0 := by rw [← hi, hidx]; rfl
        by_cases hl : rs.length = 0
        · have : rs = [] := List.length_eq_zero_iff.mp hl
          subst this
          simp [step, sstep, fetchmany, hrs, hs, Sim, ha, hidx, hp]
        · simp [step, sstep, fetchmany, hrs, hs, Sim, ha, hidx, hp, hl]
      | some j =>
        have hp : s.pos = j := by rw [← hi, hidx]; rfl
        by_cases hl : rs.length = 0
        · have : rs = [] := List.length_eq_zero_iff.mp hl
          subst this
          simp [step, sstep, fetchmany, hrs, hs, Sim, ha, hidx, hp]
        · simp [step, sstep, fetchmany, hrs, hs, Sim, ha, hidx, hp, hl]
          rw [List.take_of_length_le (by simp)]

theorem sim_run {α} (c : Cur α) (s : SCur α) (ops : List (Op α)) (h : Sim c s) :
    (run c ops).1 = (srun s ops).1 ∧ Sim (run c ops).2 (srun s ops).2 := by
  induction ops generalizing c s with
  | nil => exact ⟨rfl, h⟩
  | cons o os ih =>
    have h1 := sim_step c s o h
    have h2 := ih _ _ h1.2
    simp only [run, srun]
    exact ⟨by rw [h1.1, h2.1], h2.2⟩

end Fs.Fetch
