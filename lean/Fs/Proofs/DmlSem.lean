import Fs.Proofs.Dml
/-! Helper lemmas for C04: meaning of `assign` / `place`, histories, no-op statements. -/
namespace Fs.Dml

theorem posOf_getElem (cs : List Nat) (h : cs.Nodup) (k : Nat) (hk : k < cs.length) : posOf cs[k] cs = some k := by
  induction cs generalizing k with
  | nil => cases hk
  | cons c cs ih =>
    simp only [List.nodup_cons] at h
    cases k with
    | zero => simp [posOf]
    | succ k =>
      simp only [List.length_cons, Nat.add_lt_add_iff_right] at hk
      have hne : c ≠ cs[k] := fun e => h.1 (e ▸ List.getElem_mem hk)
      simp [posOf, hne, ih h.2 k hk]

theorem posOf_none (cs : List Nat) (j : Nat) (h : j ∉ cs) : posOf j cs = none := by
  induction cs with
  | nil => rfl
  | cons c cs ih =>
    simp only [List.mem_cons, not_or] at h
    simp [posOf, Ne.symm h.1, ih h.2]

theorem assign_getElem? (sets : List (Nat × Expr)) (r : Row) (j : Nat) (hj : j < r.length) :
    (assign sets r)[j]? = some (match sets.find? (fun s => s.1 == j) with
      | some s => s.2.eval r
      | none => r[j]) := by
  simp only [assign, List.getElem?_map, List.getElem?_zipIdx, List.getElem?_eq_getElem hj]
  simp only [Option.map_some, Nat.zero_add, Option.some.injEq]
  cases sets.find? (fun s => s.1 == j) <;> rfl

theorem set_self (db : DB) (t : Nat) (tb : Table) (h : db[t]? = some tb) : db.set t tb = db := by
  apply List.ext_getElem?
  intro i
  by_cases hi : t = i
  · subst hi
    have hlt : t < db.length := by
      rcases Nat.lt_or_ge t db.length with h1 | h1
      · exact h1
      · rw [List.getElem?_eq_none h1] at h; cases h
    rw [List.getElem?_eq_getElem hlt] at h
    simp only [Option.some.injEq] at h
    simp [hlt, h]
  · simp [hi]

theorem filter_none (rows : List Row) (p : Row → Tri) (f : Row → Row) (h : ∀ r ∈ rows, p r ≠ .t) :
    rows.filter (fun r => ¬ p r = .t) = rows ∧ rows.countP (fun r => p r = .t) = 0 ∧
    rows.map (fun r => if p r = .t then f r else r) = rows := by
  refine ⟨?_, ?_, ?_⟩
  · apply List.filter_eq_self.mpr
    intro r hr; simpa using h r hr
  · apply List.countP_eq_zero.mpr
    intro r hr; simpa using h r hr
  · conv => rhs; rw [← List.map_id rows]
    apply List.map_congr_left
    intro r hr; simp [h r hr]

theorem length_split (rows : List Row) (p : Row → Tri) :
    rows.length = (rows.filter (fun r => ¬ p r = .t)).length + rows.countP (fun r => p r = .t) := by
  induction rows with
  | nil => rfl
  | cons r rs ih =>
    by_cases h : p r = .t <;> simp [h] at ih ⊢ <;> omega

/-! ### histories -/

theorem runWith_frame (db : DB) (ss : List Stmt) (j : Nat) (h : ∀ s ∈ ss, s.target ≠ j) :
    (runWith Spec.step db ss).2[j]? = db[j]? ∧ (runWith Spec.step db ss).2.length = db.length := by
  induction ss generalizing db with
  | nil => exact ⟨rfl, rfl⟩
  | cons s ss ih =>
    have hs := h s (by simp)
    have ht : ∀ s' ∈ ss, s'.target ≠ j := fun s' hs' => h s' (by simp [hs'])
    simp only [runWith]
    cases hstep : Spec.step db s with
    | error e => simpa using ih db ht
    | ok r =>
      obtain ⟨db', o⟩ := r
      obtain ⟨n, hap, _⟩ := (step_ok_iff db db' s o).mp hstep
      have fr := apply_frame db db' s n hap
      have := ih db' ht
      simp only []
      exact ⟨by rw [this.1, fr.2.1 j (Ne.symm hs)], by rw [this.2, fr.1]⟩

theorem runWith_length (db : DB) (ss : List Stmt) : (runWith Spec.step db ss).2.length = db.length := by
  induction ss generalizing db with
  | nil => rfl
  | cons s ss ih =>
    simp only [runWith]
    cases hstep : Spec.step db s with
    | error e => simpa using ih db
    | ok r =>
      obtain ⟨db', o⟩ := r
      obtain ⟨n, hap, _⟩ := (step_ok_iff db db' s o).mp hstep
      simp only []
      rw [ih db', (apply_frame db db' s n hap).1]

theorem runWith_wf (db : DB) (ss : List Stmt) (hwf : DB.wf db) : DB.wf (runWith Spec.step db ss).2 := by
  induction ss generalizing db with
  | nil => exact hwf
  | cons s ss ih =>
    simp only [runWith]
    cases hstep : Spec.step db s with
    | error e => simpa using ih db hwf
    | ok r =>
      obtain ⟨db', o⟩ := r
      obtain ⟨n, hap, _⟩ := (step_ok_iff db db' s o).mp hstep
      exact ih db' (apply_wf db db' s n hwf hap)

theorem runWith_outputs_length (f : DB → Stmt → Except Err (DB × Obs)) (db : DB) (ss : List Stmt) :
    (runWith f db ss).1.length = ss.length := by
  induction ss generalizing db with
  | nil => rfl
  | cons s ss ih =>
    simp only [runWith]
    cases f db s with
    | error e => simp [ih]
    | ok r => simp [ih]

end Fs.Dml
