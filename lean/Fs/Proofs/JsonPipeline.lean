import Fs.Proofs.JsonText
/-! C11: the rewrite pipeline on the named source shapes, and DuckDB's evaluation of the result. -/
namespace Fs.Json

/-! ### one-step unfoldings of `topDown` -/
section
variable (r : E → Option E)
theorem topDown_fire {e e' : E} (h : r e = some e') : topDown r e = e' := by rw [topDown.eq_def, h]
theorem topDown_col (h : r .col = none) : topDown r .col = .col := by rw [topDown.eq_def, h]
theorem topDown_lit (l) (h : r (.lit l) = none) : topDown r (.lit l) = .lit l := by rw [topDown.eq_def, h]
theorem topDown_jx (x p) (h : r (.jx x p) = none) : topDown r (.jx x p) = .jx (topDown r x) p := by rw [topDown.eq_def, h]
theorem topDown_jxs (x p) (h : r (.jxs x p) = none) : topDown r (.jxs x p) = .jxs (topDown r x) p := by rw [topDown.eq_def, h]
theorem topDown_bracket (x i) (h : r (.bracket x i) = none) : topDown r (.bracket x i) = .bracket (topDown r x) i := by
  rw [topDown.eq_def, h]
theorem topDown_paren (x) (h : r (.paren x) = none) : topDown r (.paren x) = .paren (topDown r x) := by rw [topDown.eq_def, h]
theorem topDown_parseJson (x) (h : r (.parseJson x) = none) : topDown r (.parseJson x) = .parseJson (topDown r x) := by
  rw [topDown.eq_def, h]
theorem topDown_cast (x t) (h : r (.cast x t) = none) : topDown r (.cast x t) = .cast (topDown r x) t := by rw [topDown.eq_def, h]
theorem topDown_upper (x) (h : r (.upper x) = none) : topDown r (.upper x) = .upper (topDown r x) := by rw [topDown.eq_def, h]
theorem topDown_lower (x) (h : r (.lower x) = none) : topDown r (.lower x) = .lower (topDown r x) := by rw [topDown.eq_def, h]
theorem topDown_trim (x) (h : r (.trim x) = none) : topDown r (.trim x) = .trim (topDown r x) := by rw [topDown.eq_def, h]
theorem topDown_arraySize (x) (h : r (.arraySize x) = none) : topDown r (.arraySize x) = .arraySize (topDown r x) := by
  rw [topDown.eq_def, h]
theorem topDown_caseLen (x) (h : r (.caseLen x) = none) : topDown r (.caseLen x) = .caseLen (topDown r x) := by rw [topDown.eq_def, h]
theorem topDown_bin (o a b) (h : r (.bin o a b) = none) : topDown r (.bin o a b) = .bin o (topDown r a) (topDown r b) := by
  rw [topDown.eq_def, h]
theorem topDown_not (x) (h : r (.not x) = none) : topDown r (.not x) = .not (topDown r x) := by rw [topDown.eq_def, h]
theorem topDown_isNull (x) (h : r (.isNull x) = none) : topDown r (.isNull x) = .isNull (topDown r x) := by rw [topDown.eq_def, h]
end

/-! ### extraction chains are fixed points of every pass but `json_extract_precedence` -/

theorem topDown_nav (r : E → Option E) (hc : r .col = none) (hj : ∀ x p, r (.jx x p) = none) (n : Nav) :
    topDown r n.toE = n.toE := by
  induction n with
  | col => exact topDown_col r hc
  | path n p ih => simp only [Nav.toE]; rw [topDown_jx r _ _ (hj _ _), ih]

theorem trim_nav (n : Nav) : topDown trimRule n.toE = n.toE := topDown_nav _ rfl (fun _ _ => rfl) n
theorem indices_nav (n : Nav) : topDown indicesRule n.toE = n.toE := topDown_nav _ rfl (fun _ _ => rfl) n
theorem arraySize_nav (n : Nav) : topDown arraySizeRule n.toE = n.toE := topDown_nav _ rfl (fun _ _ => rfl) n

theorem castAs_nav (n : Nav) : castAsVarchar n.toE = n.toE := by
  induction n with
  | col => rfl
  | path n p ih => simp only [Nav.toE, castAsVarchar, ih]

theorem casedAs_nav (n : Nav) : casedAsVarchar n.toE = n.toE := by
  induction n with
  | col => rfl
  | path n p ih => simp only [Nav.toE, casedAsVarchar, ih]

/-- what `json_extract_precedence` makes of a chain: the outermost extract is parenthesised, the inner ones are
    not visited (the replaced node is pruned) -/
def Nav.out : Nav → E
  | .col => .col
  | .path n p => .paren (.jx n.toE (.path p))

theorem prec_nav (n : Nav) : topDown precRule n.toE = n.out := by
  cases n with
  | col => exact topDown_col _ rfl
  | path n p => exact topDown_fire _ rfl

theorem arraySize_out (n : Nav) : topDown arraySizeRule n.out = n.out := by
  cases n with
  | col => exact topDown_col _ rfl
  | path n p =>
    simp only [Nav.out]
    rw [topDown_paren _ _ rfl, topDown_jx _ _ _ rfl, arraySize_nav]

/-! ### the pipeline on every use of an extracted value -/

/-- the rewritten access expression -/
def Acc.out : Acc → E
  | .nav n => n.out
  | .brk n i => if i.truthy then .paren (.jx n.toE (.raw (bracketPath i))) else .bracket n.out i

/-- the same with `->>` where the access is a `:`-path -/
def Acc.outScalar : Acc → E
  | .nav (.path n p) => .paren (.jxs n.toE (.path p))
  | a => a.out

theorem pipeline_bare (a : Acc) : pipeline a.toE = a.out := by
  cases a with
  | nav n =>
    simp only [pipeline, Acc.toE, Acc.out, trim_nav, indices_nav, castAs_nav, casedAs_nav, prec_nav, arraySize_out]
  | brk n i =>
    simp only [pipeline, Acc.toE, Acc.out]
    rw [topDown_bracket _ _ _ rfl, trim_nav]
    by_cases hi : i.truthy = true
    · rw [topDown_fire indicesRule (e' := .jx n.toE (.raw (bracketPath i))) (by simp [indicesRule, hi])]
      simp only [castAsVarchar, casedAsVarchar, castAs_nav, casedAs_nav, hi, if_true]
      rw [topDown_fire precRule (e' := .paren (.jx n.toE (.raw (bracketPath i)))) rfl]
      rw [topDown_paren _ _ rfl, topDown_jx _ _ _ rfl, arraySize_nav]
    · have hi' : i.truthy = false := by simpa using hi
      rw [topDown_bracket _ _ _ (by simp [indicesRule, hi']), indices_nav]
      simp only [castAsVarchar, casedAsVarchar, castAs_nav, casedAs_nav, hi', Bool.false_eq_true, if_false]
      rw [topDown_bracket _ _ _ rfl, prec_nav, topDown_bracket _ _ _ rfl, arraySize_out]

/-- the passes up to (excluding) `json_extract_cast_as_varchar` leave an access as it is, except for the
    subscript rewrite -/
def Acc.mid : Acc → E
  | .nav n => n.toE
  | .brk n i => if i.truthy then .jx n.toE (.raw (bracketPath i)) else .bracket n.toE i

theorem indices_acc (a : Acc) : topDown indicesRule a.toE = a.mid := by
  cases a with
  | nav n => exact indices_nav n
  | brk n i =>
    simp only [Acc.toE, Acc.mid]
    by_cases hi : i.truthy = true
    · rw [topDown_fire indicesRule (e' := .jx n.toE (.raw (bracketPath i))) (by simp [indicesRule, hi])]; simp [hi]
    · have hi' : i.truthy = false := by simpa using hi
      rw [topDown_bracket _ _ _ (by simp [indicesRule, hi']), indices_nav]; simp [hi']

theorem trim_acc (a : Acc) : topDown trimRule a.toE = a.toE := by
  cases a with
  | nav n => exact trim_nav n
  | brk n i => simp only [Acc.toE]; rw [topDown_bracket _ _ _ rfl, trim_nav]

theorem castAs_mid (a : Acc) : castAsVarchar a.mid = a.mid := by
  cases a with
  | nav n => exact castAs_nav n
  | brk n i => simp only [Acc.mid]; split <;> simp only [castAsVarchar, castAs_nav]

theorem casedAs_mid (a : Acc) : casedAsVarchar a.mid = a.mid := by
  cases a with
  | nav n => exact casedAs_nav n
  | brk n i => simp only [Acc.mid]; split <;> simp only [casedAsVarchar, casedAs_nav]

theorem prec_mid' (a : Acc) : topDown precRule a.mid = a.out := by
  cases a with
  | nav n => simp only [Acc.mid, Acc.out, prec_nav]
  | brk n i =>
    simp only [Acc.mid, Acc.out]
    split
    · rw [topDown_fire precRule (e' := .paren (.jx n.toE (.raw (bracketPath i)))) rfl]
    · rw [topDown_bracket _ _ _ rfl, prec_nav]

theorem arraySize_accout (a : Acc) : topDown arraySizeRule a.out = a.out := by
  cases a with
  | nav n => exact arraySize_out n
  | brk n i =>
    simp only [Acc.out]
    split
    · rw [topDown_paren _ _ rfl, topDown_jx _ _ _ rfl, arraySize_nav]
    · rw [topDown_bracket _ _ _ rfl, arraySize_out]

theorem prec_mid (a : Acc) : topDown arraySizeRule (topDown precRule a.mid) = a.out := by
  rw [prec_mid', arraySize_accout]

/-- scalar form of the middle stage -/
def Acc.midScalar : Acc → E
  | .nav (.path n p) => .jxs n.toE (.path p)
  | a => a.mid

theorem prec_midScalar (a : Acc) : topDown arraySizeRule (topDown precRule a.midScalar) = a.outScalar := by
  cases a with
  | nav n =>
    cases n with
    | col => exact prec_mid (.nav .col)
    | path n p =>
      simp only [Acc.midScalar, Acc.outScalar]
      rw [topDown_fire precRule (e' := .paren (.jxs n.toE (.path p))) rfl,
        topDown_paren _ _ rfl, topDown_jxs _ _ _ rfl, arraySize_nav]
  | brk n i => exact prec_mid (.brk n i)

theorem castAs_cast_mid (a : Acc) (t : Ty) : castAsVarchar (.cast a.mid t) = .cast a.midScalar t := by
  cases a with
  | nav n =>
    cases n with
    | col => rfl
    | path n p => simp only [Acc.mid, Acc.midScalar, Nav.toE, castAsVarchar, castAs_nav]
  | brk n i =>
    simp only [Acc.mid, Acc.midScalar]
    split <;> simp only [castAsVarchar, castAs_nav]

theorem casedAs_midScalar (a : Acc) : casedAsVarchar a.midScalar = a.midScalar := by
  cases a with
  | nav n =>
    cases n with
    | col => rfl
    | path n p => simp only [Acc.midScalar, casedAsVarchar, casedAs_nav]
  | brk n i => exact casedAs_mid (.brk n i)

theorem pipeline_cast (a : Acc) (t : Ty) : pipeline (.cast a.toE t) = .cast a.outScalar t := by
  simp only [pipeline]
  rw [topDown_cast _ _ _ (by cases t <;> rfl), trim_acc, topDown_cast _ _ _ rfl, indices_acc, castAs_cast_mid]
  simp only [casedAsVarchar, casedAs_midScalar]
  rw [topDown_cast _ _ _ rfl, topDown_cast _ _ _ rfl, prec_midScalar]

theorem casedAs_upper_mid (a : Acc) : casedAsVarchar (.upper a.mid) = .upper a.midScalar := by
  cases a with
  | nav n =>
    cases n with
    | col => rfl
    | path n p => simp only [Acc.mid, Acc.midScalar, Nav.toE, casedAsVarchar, casedAs_nav]
  | brk n i =>
    simp only [Acc.mid, Acc.midScalar]
    split <;> simp only [casedAsVarchar, casedAs_nav]

theorem casedAs_lower_mid (a : Acc) : casedAsVarchar (.lower a.mid) = .lower a.midScalar := by
  cases a with
  | nav n =>
    cases n with
    | col => rfl
    | path n p => simp only [Acc.mid, Acc.midScalar, Nav.toE, casedAsVarchar, casedAs_nav]
  | brk n i =>
    simp only [Acc.mid, Acc.midScalar]
    split <;> simp only [casedAsVarchar, casedAs_nav]

theorem pipeline_upper (a : Acc) : pipeline (.upper a.toE) = .upper a.outScalar := by
  simp only [pipeline]
  rw [topDown_upper _ _ rfl, trim_acc, topDown_upper _ _ rfl, indices_acc]
  simp only [castAsVarchar, castAs_mid, casedAs_upper_mid]
  rw [topDown_upper _ _ rfl, topDown_upper _ _ rfl, prec_midScalar]

theorem pipeline_lower (a : Acc) : pipeline (.lower a.toE) = .lower a.outScalar := by
  simp only [pipeline]
  rw [topDown_lower _ _ rfl, trim_acc, topDown_lower _ _ rfl, indices_acc]
  simp only [castAsVarchar, castAs_mid, casedAs_lower_mid]
  rw [topDown_lower _ _ rfl, topDown_lower _ _ rfl, prec_midScalar]

theorem trimRule_acc (a : Acc) : trimRule (.trim a.toE) = some (.trim (.cast a.toE .text)) := by
  cases a with
  | nav n => cases n <;> rfl
  | brk n i => rfl

/-- TRIM: `trim_cast_varchar` first wraps the operand in a cast, which `json_extract_cast_as_varchar` then sees -/
theorem pipeline_trim (a : Acc) : pipeline (.trim a.toE) = .trim (.cast a.outScalar .text) := by
  simp only [pipeline]
  rw [topDown_fire trimRule (trimRule_acc a)]
  rw [topDown_trim _ _ rfl, topDown_cast _ _ _ rfl, indices_acc]
  simp only [castAsVarchar]
  rw [show castAsVarchar (.cast a.mid .text) = .cast a.midScalar .text from castAs_cast_mid a .text]
  simp only [casedAsVarchar, casedAs_midScalar]
  rw [topDown_trim _ _ rfl, topDown_cast _ _ _ rfl, topDown_trim _ _ rfl, topDown_cast _ _ _ rfl, prec_midScalar]

theorem pipeline_arraySize (a : Acc) : pipeline (.arraySize a.toE) = .caseLen a.out := by
  simp only [pipeline]
  rw [topDown_arraySize _ _ rfl, trim_acc, topDown_arraySize _ _ rfl, indices_acc]
  simp only [castAsVarchar, casedAsVarchar, castAs_mid, casedAs_mid]
  rw [topDown_arraySize _ _ rfl]
  -- `array_size` does not descend into the node it created; nothing is left to rewrite there
  rw [topDown_fire arraySizeRule (e' := .caseLen (topDown precRule a.mid)) rfl, prec_mid']

end Fs.Json
