import Fs.Model.Crash
/-! Helper lemmas for C18 (`Fs/Props/C18.lean`). -/
namespace Fs.Crash

def Call.isQW : Call → Bool
  | .q => true
  | .w _ => true
  | _ => false

theorem run_append (e : Eng) (a b : List Call) : e.run (a ++ b) = (e.run a).run b := by
  simp [Eng.run, List.foldl_append]

theorem run_cons (e : Eng) (c : Call) (cs : List Call) : e.run (c :: cs) = (e.call c).run cs := rfl

/-- outside a transaction, reads and writes append their durable effects to the log at once -/
theorem run_qw_notx (cs : List Call) : ∀ (e : Eng), e.tx = none → (∀ c ∈ cs, c.isQW = true) →
    e.run cs = { disk := e.disk ++ cs.filterMap wOf, tx := none } := by
  induction cs with
  | nil => intro e h _; cases e; simp_all [Eng.run]
  | cons c cs ih =>
    intro e h hq
    have hc := hq c (by simp)
    rw [run_cons]
    cases c with
    | q => rw [ih (e.call .q) (by simp [Eng.call, h]) (fun c hc' => hq c (by simp [hc']))]; simp [Eng.call, List.filterMap_cons, wOf]
    | w x =>
      rw [ih (e.call (.w x)) (by simp [Eng.call, h]) (fun c hc' => hq c (by simp [hc']))]
      simp [Eng.call, h, wOf]
    | begin => simp [Call.isQW] at hc
    | commit => simp [Call.isQW] at hc
    | rollback => simp [Call.isQW] at hc
    | commitFail => simp [Call.isQW] at hc

/-- inside a transaction they only extend the buffer: the log is untouched -/
theorem run_qw_tx (cs : List Call) : ∀ (e : Eng) (b : List Eff), e.tx = some b → (∀ c ∈ cs, c.isQW = true) →
    e.run cs = { disk := e.disk, tx := some (b ++ cs.filterMap wOf) } := by
  induction cs with
  | nil => intro e b h _; cases e; simp_all [Eng.run]
  | cons c cs ih =>
    intro e b h hq
    have hc := hq c (by simp)
    rw [run_cons]
    cases c with
    | q => rw [ih (e.call .q) b (by simp [Eng.call, h]) (fun c hc' => hq c (by simp [hc']))]; simp [Eng.call, List.filterMap_cons, wOf]
    | w x =>
      rw [ih (e.call (.w x)) (b ++ [x]) (by simp [Eng.call, h]) (fun c hc' => hq c (by simp [hc']))]
      simp [Eng.call, h, wOf]
    | begin => simp [Call.isQW] at hc
    | commit => simp [Call.isQW] at hc
    | rollback => simp [Call.isQW] at hc
    | commitFail => simp [Call.isQW] at hc

theorem calls_qw (s : Stmt) (h : s.isTxCtl = false) : ∀ c ∈ calls s, c.isQW = true := by
  cases s with
  | connect a b s => cases a <;> cases b <;> simp [calls, Call.isQW]
  | createTable t c l => cases c <;> cases l <;> simp [calls, optCall, Call.isQW]
  | begin => simp [Stmt.isTxCtl] at h
  | commit => simp [Stmt.isTxCtl] at h
  | rollback => simp [Stmt.isTxCtl] at h
  | commitConflict => simp [Stmt.isTxCtl] at h
  | insertMany t rows =>
    intro c hc
    simp only [calls, List.mem_flatMap] at hc
    obtain ⟨r, _, hr⟩ := hc
    simp at hr
    rcases hr with rfl | rfl <;> rfl
  | _ => simp [calls, Call.isQW]

theorem flat_qw (b : List Stmt) (h : b.all (!·.isTxCtl) = true) : ∀ c ∈ flat b, c.isQW = true := by
  intro c hc
  simp only [flat, List.mem_flatMap] at hc
  obtain ⟨s, hs, hcs⟩ := hc
  have := List.all_eq_true.mp h s hs
  exact calls_qw s (by simpa using this) c hcs

theorem ok_body (b : List Stmt) (h : (b.all fun s => !s.isTxCtl && !s.isAttach) = true) : b.all (!·.isTxCtl) = true := by
  rw [List.all_eq_true] at *
  intro s hs
  have := h s hs
  simp only [Bool.and_eq_true] at this
  exact this.1

theorem flat_effs (b : List Stmt) : (flat b).filterMap wOf = b.flatMap effs := by
  induction b with
  | nil => rfl
  | cons s b ih => simp [flat, effs, List.filterMap_append] at *; rw [ih]

theorem flat_append (a b : List Stmt) : flat (a ++ b) = flat a ++ flat b := by simp [flat]

theorem take_qw (cs : List Call) (k : Nat) (h : ∀ c ∈ cs, c.isQW = true) : ∀ c ∈ cs.take k, c.isQW = true :=
  fun c hc => h c (List.mem_of_mem_take hc)

/-- a completed unit, started outside a transaction: exactly its effects are appended, and no transaction is left open -/
theorem unit_complete (u : TxUnit) (hu : u.ok = true) (e : Eng) (he : e.tx = none) :
    e.run (flat u.stmts) = { disk := e.disk ++ u.eff, tx := none } := by
  cases u with
  | auto s =>
    simp only [TxUnit.stmts, flat, List.flatMap_cons, List.flatMap_nil, List.append_nil, TxUnit.eff, effs]
    exact run_qw_notx _ e he (calls_qw s (by simpa [TxUnit.ok] using hu))
  | txc b =>
    have hb := flat_qw b (ok_body b (by simpa [TxUnit.ok] using hu))
    have : flat (TxUnit.txc b).stmts = [.begin] ++ flat b ++ [.commit] := by
      simp [TxUnit.stmts, flat, calls]
    rw [this, run_append, run_append]
    have h1 : e.run [.begin] = { disk := e.disk, tx := some [] } := by cases e; simp_all [Eng.run, Eng.call]
    rw [h1, run_qw_tx _ _ [] rfl hb]
    simp [Eng.run, Eng.call, TxUnit.eff, flat_effs]
  | txr b =>
    have hb := flat_qw b (ok_body b (by simpa [TxUnit.ok] using hu))
    have : flat (TxUnit.txr b).stmts = [.begin] ++ flat b ++ [.rollback] := by
      simp [TxUnit.stmts, flat, calls]
    rw [this, run_append, run_append]
    have h1 : e.run [.begin] = { disk := e.disk, tx := some [] } := by cases e; simp_all [Eng.run, Eng.call]
    rw [h1, run_qw_tx _ _ [] rfl hb]
    simp [Eng.run, Eng.call, TxUnit.eff]

  | txf b =>
    have hb := flat_qw b (ok_body b (by simpa [TxUnit.ok] using hu))
    have : flat (TxUnit.txf b).stmts = [.begin] ++ flat b ++ [.commitFail] := by
      simp [TxUnit.stmts, flat, calls]
    rw [this, run_append, run_append]
    have h1 : e.run [.begin] = { disk := e.disk, tx := some [] } := by cases e; simp_all [Eng.run, Eng.call]
    rw [h1, run_qw_tx _ _ [] rfl hb]
    simp [Eng.run, Eng.call, TxUnit.eff]

/-- a transaction block cut anywhere before its last call (the COMMIT/ROLLBACK) leaves the log untouched -/
theorem tx_prefix_disk (b : List Stmt) (last : Call) (hb : ∀ c ∈ flat b, c.isQW = true) (e : Eng) (he : e.tx = none)
    (k : Nat) (hk : k < ([Call.begin] ++ flat b ++ [last]).length) :
    (e.run (([Call.begin] ++ flat b ++ [last]).take k)).disk = e.disk := by
  cases k with
  | zero => simp [Eng.run]
  | succ k =>
    have hk' : k ≤ (flat b).length := by simp at hk; omega
    have : ([Call.begin] ++ flat b ++ [last]).take (k + 1) = Call.begin :: (flat b).take k := by
      simp [List.take_append, hk']
    rw [this, run_cons]
    have h1 : e.call .begin = { disk := e.disk, tx := some [] } := by cases e; simp_all [Eng.call]
    rw [h1, run_qw_tx _ _ [] rfl (take_qw _ k hb)]

/-- an interrupted unit, started outside a transaction: its durable prefix -/
theorem unit_partial (u : TxUnit) (hu : u.ok = true) (e : Eng) (he : e.tx = none) (k : Nat)
    (hk : k < (flat u.stmts).length) :
    (e.run ((flat u.stmts).take k)).disk = e.disk ++ u.partialEff k := by
  cases u with
  | auto s =>
    simp only [TxUnit.stmts, flat, List.flatMap_cons, List.flatMap_nil, List.append_nil, TxUnit.partialEff]
    rw [run_qw_notx _ e he (take_qw _ k (calls_qw s (by simpa [TxUnit.ok] using hu)))]
  | txc b =>
    have hb := flat_qw b (ok_body b (by simpa [TxUnit.ok] using hu))
    have h : flat (TxUnit.txc b).stmts = [.begin] ++ flat b ++ [.commit] := by simp [TxUnit.stmts, flat, calls]
    rw [h] at hk ⊢
    rw [tx_prefix_disk b .commit hb e he k hk]; simp [TxUnit.partialEff]
  | txr b =>
    have hb := flat_qw b (ok_body b (by simpa [TxUnit.ok] using hu))
    have h : flat (TxUnit.txr b).stmts = [.begin] ++ flat b ++ [.rollback] := by simp [TxUnit.stmts, flat, calls]
    rw [h] at hk ⊢
    rw [tx_prefix_disk b .rollback hb e he k hk]; simp [TxUnit.partialEff]

  | txf b =>
    have hb := flat_qw b (ok_body b (by simpa [TxUnit.ok] using hu))
    have h : flat (TxUnit.txf b).stmts = [.begin] ++ flat b ++ [.commitFail] := by simp [TxUnit.stmts, flat, calls]
    rw [h] at hk ⊢
    rw [tx_prefix_disk b .commitFail hb e he k hk]; simp [TxUnit.partialEff]

/-- **Crash characterisation** for all well-formed histories, all crash points, any starting log -/
theorem crash_char (us : List TxUnit) : ∀ (e : Eng) (k : Nat), e.tx = none → (∀ u ∈ us, u.ok = true) →
    recover (crash e (hist us) k) = e.disk ++ crashSpec us k := by
  induction us with
  | nil => intro e k _ _; simp [recover, crash, hist, flat, Eng.run, crashSpec]
  | cons u us ih =>
    intro e k he hok
    have hu := hok u (by simp)
    have hflat : flat (hist (u :: us)) = flat u.stmts ++ flat (hist us) := by simp [hist, flat_append]
    simp only [recover, crash, crashSpec]
    rw [hflat]
    by_cases hk : (flat u.stmts).length ≤ k
    · simp only [hk, if_true]
      rw [List.take_append, List.take_of_length_le hk, run_append, unit_complete u hu e he]
      have := ih { disk := e.disk ++ u.eff, tx := none } (k - (flat u.stmts).length) rfl (fun v hv => hok v (by simp [hv]))
      simp only [recover, crash] at this
      rw [this]; simp
    · simp only [hk, if_false]
      have hlt : k < (flat u.stmts).length := by omega
      have h0 : k - (flat u.stmts).length = 0 := by omega
      rw [List.take_append, h0, List.take_zero, List.append_nil]
      exact unit_partial u hu e he k hlt

/-- the durable log only grows -/
theorem disk_mono (cs : List Call) : ∀ e : Eng, e.disk <+: (e.run cs).disk := by
  induction cs with
  | nil => intro e; exact List.prefix_refl _
  | cons c cs ih =>
    intro e
    rw [run_cons]
    refine List.IsPrefix.trans ?_ (ih (e.call c))
    cases c with
    | q => exact List.prefix_refl _
    | w x => cases h : e.tx <;> simp [Eng.call, h]
    | begin => cases h : e.tx <;> simp [Eng.call, h]
    | commit => cases h : e.tx <;> simp [Eng.call, h]
    | rollback => simp [Eng.call]
    | commitFail => simp [Eng.call]

theorem dump_snoc_info (log : List Eff) (d : Nat) : dump (log ++ [.info d]) = dump log := by
  simp [dump, List.foldl_append, applyEff]

theorem dump_snoc_macros (log : List Eff) (d : Nat) : dump (log ++ [.macros d]) = dump log := by
  simp [dump, List.foldl_append, applyEff]

end Fs.Crash
