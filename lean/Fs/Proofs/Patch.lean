import Fs.Model.Patch
/-! Helper lemmas for C20 (patch part): environment algebra, the import step, the set-up loop invariant. -/
namespace Fs.Patch

/-! ### get / set / append -/

theorem get_set (e : Env) (k s : Slot) (v : Obj) :
    get (set e k v) s = if s = k then (get e k).map (fun _ => v) else get e s := by
  induction e with
  | nil => simp [set, get]
  | cons p e ih =>
    obtain ⟨k', v'⟩ := p
    simp only [set, List.map_cons] at ih ⊢
    by_cases hk : k' = k
    · subst hk
      by_cases hs : s = k'
      · subst hs; simp [get]
      · have : ¬ k' = s := fun h => hs h.symm
        simp only [get, if_true, this, if_false, hs]
        rw [ih]; simp [hs]
    · by_cases hs : s = k
      · subst hs
        simp only [hk, if_false, get, if_true]
        rw [ih]; simp
      · simp only [hk, if_false, get, hs]
        by_cases h3 : k' = s
        · simp [h3]
        · simp only [h3, if_false]; rw [ih]; simp [hs]

theorem get_append (e e' : Env) (s : Slot) :
    get (e ++ e') s = match get e s with | some o => some o | none => get e' s := by
  induction e with
  | nil => simp [get]
  | cons p e ih =>
    obtain ⟨k, v⟩ := p
    simp only [List.cons_append, get]
    by_cases h : k = s
    · simp [h]
    · simp [h, ih]

theorem get_append_some (e e' : Env) (s : Slot) (o : Obj) (h : get e s = some o) : get (e ++ e') s = some o := by
  rw [get_append, h]

theorem set_congr (e1 e2 : Env) (k : Slot) (v : Obj) (h : ∀ s, get e1 s = get e2 s) :
    ∀ s, get (set e1 k v) s = get (set e2 k v) s := by
  intro s; rw [get_set, get_set, h s, h k]

theorem unwind_congr (stk : List (Slot × Obj)) (e1 e2 : Env) (h : ∀ s, get e1 s = get e2 s) :
    ∀ s, get (unwind stk e1) s = get (unwind stk e2) s := by
  induction stk generalizing e1 e2 with
  | nil => simpa [unwind] using h
  | cons p r ih =>
    obtain ⟨k, o⟩ := p
    simp only [unwind]
    exact ih _ _ (set_congr e1 e2 k o h)

/-- leaving a `mock.patch` context undoes entering it -/
theorem set_set_restore (e : Env) (t : Slot) (m o : Obj) (h : get e t = some o) :
    ∀ s, get (set (set e t m) t o) s = get e s := by
  intro s
  simp only [get_set]
  by_cases hs : s = t
  · subst hs; simp [h]
  · simp [hs]

/-! ### imports only add, and never add a fakesnow mock that was not already somewhere -/

/-- `e` extends `base`: every attribute of `base` is unchanged, and every fakesnow mock in `e` already
    occurred somewhere in `base` -/
def Ext (base e : Env) : Prop :=
  (∀ s o, get base s = some o → get e s = some o) ∧
  (∀ s i f, get e s = some (.mock i f) → ∃ s', get base s' = some (.mock i f))

theorem Ext.refl (e : Env) : Ext e e := ⟨fun _ _ h => h, fun s _ _ h => ⟨s, h⟩⟩

theorem Ext.trans {a b c : Env} (h1 : Ext a b) (h2 : Ext b c) : Ext a c :=
  ⟨fun s o h => h2.1 s o (h1.1 s o h),
   fun s i f h => by obtain ⟨s', h'⟩ := h2.2 s i f h; exact h1.2 s' i f h'⟩

theorem get_bindings (e : Env) (m : Nat) (bs : List (Nat × Bind)) (s : Slot) (o : Obj)
    (h : get (bs.map fun p => ((m, p.1), evalBind e p.2)) s = some o) : ∃ b, o = evalBind e b := by
  induction bs with
  | nil => simp [get] at h
  | cons p bs ih =>
    simp only [List.map_cons, get] at h
    by_cases hk : (m, p.1) = s
    · simp only [hk, if_true, Option.some.injEq] at h
      exact ⟨p.2, h.symm⟩
    · simp only [hk, if_false] at h
      exact ih h

theorem evalBind_mock (e : Env) (b : Bind) (i : Nat) (f : Fake) (h : evalBind e b = .mock i f) :
    ∃ s', get e s' = some (.mock i f) := by
  cases b with
  | other k => simp [evalBind] at h
  | falsy => simp [evalBind] at h
  | userMock => simp [evalBind] at h
  | fromStd g =>
    simp only [evalBind] at h
    cases hg : get e (stdSlot g) with
    | none => rw [hg] at h; simp at h
    | some o => rw [hg] at h; simp at h; exact ⟨stdSlot g, by rw [hg, h]⟩

theorem importModule_ext (w w1 : World) (m : Nat) (h : importModule w m = some w1) :
    Ext w.env w1.env ∧ w1.nextInst = w.nextInst ∧ w1.closed = w.closed ∧ m ∈ w1.loaded ∧
    (∀ k, k ∈ w.loaded → k ∈ w1.loaded) := by
  unfold importModule at h
  by_cases hl : m ∈ w.loaded
  · simp only [hl, if_true, Option.some.injEq] at h
    subst h
    exact ⟨Ext.refl _, rfl, rfl, hl, fun _ hk => hk⟩
  · simp only [hl, if_false] at h
    cases hb : lookupMod w.importable m with
    | none => rw [hb] at h; simp at h
    | some bs =>
      rw [hb] at h
      simp only [Option.some.injEq] at h
      subst h
      refine ⟨⟨fun s o hs => get_append_some _ _ s o hs, ?_⟩, rfl, rfl, by simp, fun k hk => by simp [hk]⟩
      intro s i f hs
      simp only at hs
      rw [get_append] at hs
      cases hg : get w.env s with
      | some o => rw [hg] at hs; simp only [Option.some.injEq] at hs; subst hs; exact ⟨s, hg⟩
      | none =>
        rw [hg] at hs
        obtain ⟨b, hb'⟩ := get_bindings _ _ _ _ _ hs
        exact evalBind_mock _ b i f hb'.symm

theorem importModule_loaded (w : World) (m : Nat) (h : m ∈ w.loaded) : importModule w m = some w := by
  simp [importModule, h]

theorem importAll_ext (w : World) (ts : List Slot) :
    Ext w.env (importAll w ts).1.env ∧ (importAll w ts).1.nextInst = w.nextInst ∧
    (importAll w ts).1.closed = w.closed ∧
    ((importAll w ts).2 = true → ∀ t ∈ ts, t.1 ∈ (importAll w ts).1.loaded) := by
  induction ts generalizing w with
  | nil => exact ⟨Ext.refl _, rfl, rfl, fun _ t ht => by cases ht⟩
  | cons t ts ih =>
    simp only [importAll]
    cases hm : importModule w t.1 with
    | none => exact ⟨Ext.refl _, rfl, rfl, fun h => by simp at h⟩
    | some w1 =>
      obtain ⟨he, hn, hc, hmem, hmono⟩ := importModule_ext w w1 t.1 hm
      obtain ⟨ie, inn, ic, il⟩ := ih w1
      refine ⟨he.trans ie, by rw [inn, hn], by rw [ic, hc], ?_⟩
      intro hok t' ht'
      -- `loaded` only grows along importAll
      have mono : ∀ (w : World) (ts : List Slot) k, k ∈ w.loaded → k ∈ (importAll w ts).1.loaded := by
        intro w ts
        induction ts generalizing w with
        | nil => intro k hk; exact hk
        | cons t ts ih2 =>
          intro k hk
          simp only [importAll]
          cases hm2 : importModule w t.1 with
          | none => exact hk
          | some w2 => exact ih2 w2 k ((importModule_ext w w2 t.1 hm2).2.2.2.2 k hk)
      rcases List.mem_cons.mp ht' with rfl | h'
      · exact mono w1 ts _ hmem
      · exact il hok t' h'

/-! ### the set-up loop once every target module is loaded -/

/-- how a slot may change during set-up by instance `inst`: not at all, or from a real snowflake function
    to this instance's mock of it -/
def Rel (inst : Nat) (a b : Option Obj) : Prop :=
  b = a ∨ ∃ f, a = some (.real f) ∧ b = some (.mock inst f)

theorem Rel.trans {inst : Nat} {a b c : Option Obj} (h1 : Rel inst a b) (h2 : Rel inst b c) : Rel inst a c := by
  rcases h1 with rfl | ⟨f, ha, hb⟩
  · exact h2
  · rcases h2 with rfl | ⟨g, hb', _⟩
    · exact Or.inr ⟨f, ha, hb⟩
    · rw [hb] at hb'; simp at hb'

def isMockO : Option Obj → Bool
  | some o => o.isMock
  | none => false

theorem Rel.mock_stays {inst : Nat} {a b : Option Obj} (h : Rel inst a b) (ha : isMockO a = true) : isMockO b = true := by
  rcases h with rfl | ⟨f, ha', _⟩
  · exact ha
  · rw [ha'] at ha; simp [isMockO, Obj.isMock] at ha

theorem enterTarget_step (inst : Nat) (st : St) (t : Slot) (hl : t.1 ∈ st.w.loaded) (base : Env)
    (hJ : ∀ s, get (unwind st.stack st.w.env) s = get base s) :
    (∀ s, get (unwind (enterTarget inst st t).1.stack (enterTarget inst st t).1.w.env) s = get base s) ∧
    (enterTarget inst st t).1.w.loaded = st.w.loaded ∧
    (enterTarget inst st t).1.w.closed = st.w.closed ∧
    (enterTarget inst st t).1.w.nextInst = st.w.nextInst ∧
    (∀ s, Rel inst (get st.w.env s) (get (enterTarget inst st t).1.w.env s)) ∧
    ((enterTarget inst st t).2 = none → isMockO (get (enterTarget inst st t).1.w.env t) = true) := by
  unfold enterTarget
  rw [importModule_loaded _ _ hl]
  simp only
  cases hg : get st.w.env t with
  | none => exact ⟨hJ, rfl, rfl, rfl, fun _ => Or.inl rfl, fun h => by simp at h⟩
  | some o =>
    cases o with
    | real f =>
      refine ⟨?_, rfl, rfl, rfl, ?_, ?_⟩
      · intro s
        simp only [unwind]
        rw [unwind_congr st.stack _ st.w.env (set_set_restore st.w.env t _ _ hg) s]
        exact hJ s
      · intro s
        simp only [get_set]
        by_cases hs : s = t
        · subst hs; right; exact ⟨f, hg, by simp [hg]⟩
        · left; simp [hs]
      · intro _
        simp only [get_set, if_true, hg, Option.map_some, isMockO, Obj.isMock]
    | other k => exact ⟨hJ, rfl, rfl, rfl, fun _ => Or.inl rfl, fun h => by simp at h⟩
    | falsy => exact ⟨hJ, rfl, rfl, rfl, fun _ => Or.inl rfl, fun h => by simp at h⟩
    | mock i f => exact ⟨hJ, rfl, rfl, rfl, fun _ => Or.inl rfl, fun _ => by simp [hg, isMockO, Obj.isMock]⟩
    | userMock => exact ⟨hJ, rfl, rfl, rfl, fun _ => Or.inl rfl, fun _ => by simp [hg, isMockO, Obj.isMock]⟩

theorem enterAll_inv (inst : Nat) (ts : List Slot) (st : St) (hl : ∀ t ∈ ts, t.1 ∈ st.w.loaded) (base : Env)
    (hJ : ∀ s, get (unwind st.stack st.w.env) s = get base s) :
    (∀ s, get (unwind (enterAll inst st ts).1.stack (enterAll inst st ts).1.w.env) s = get base s) ∧
    (enterAll inst st ts).1.w.closed = st.w.closed ∧
    (enterAll inst st ts).1.w.nextInst = st.w.nextInst ∧
    (∀ s, Rel inst (get st.w.env s) (get (enterAll inst st ts).1.w.env s)) ∧
    ((enterAll inst st ts).2 = none → ∀ t ∈ ts, isMockO (get (enterAll inst st ts).1.w.env t) = true) := by
  induction ts generalizing st with
  | nil => exact ⟨hJ, rfl, rfl, fun _ => Or.inl rfl, fun _ t ht => by cases ht⟩
  | cons t ts ih =>
    obtain ⟨sJ, sl, sc, sn, sr, sm⟩ := enterTarget_step inst st t (hl t (by simp)) base hJ
    simp only [enterAll]
    cases hr : enterTarget inst st t with
    | mk st1 r =>
      rw [hr] at sJ sl sc sn sr sm
      simp only at sJ sl sc sn sr sm
      cases r with
      | some r => exact ⟨sJ, sc, sn, sr, fun h => by simp at h⟩
      | none =>
        simp only
        have hl1 : ∀ t' ∈ ts, t'.1 ∈ st1.w.loaded := fun t' ht' => by rw [sl]; exact hl t' (by simp [ht'])
        obtain ⟨iJ, ic, inn, ir, im⟩ := ih st1 hl1 sJ
        refine ⟨iJ, by rw [ic, sc], by rw [inn, sn], fun s => (sr s).trans (ir s), ?_⟩
        intro hok t' ht'
        rcases List.mem_cons.mp ht' with rfl | h'
        · exact (ir t').mock_stays (sm rfl)
        · exact im hok t' h'

/-- Summary of a run of the repaired `patch`: either it is refused and nothing happens, or there are the
    environment `base` after the pre-import and the interpreter state `st` at the end of set-up such that leaving
    the ExitStack from `st` gives `base` back, `base` extends the initial environment, and the run ends in
    `cleanup st`. -/
theorem patchRun_fixed_summary (w : World) (extras : List Slot) (x : Exit) :
    (guardOk w = false ∧ patchRun fixed w extras x = ⟨.refused, none, w⟩) ∨
    (guardOk w = true ∧ ∃ (base : Env) (st : St),
      Ext w.env base ∧
      (∀ s, get (unwind st.stack st.w.env) s = get base s) ∧
      st.w.closed = w.closed ∧
      (patchRun fixed w extras x).after = cleanup w.nextInst st ∧
      (patchRun fixed w extras x).outcome ≠ .refused ∧
      (∀ wi, (patchRun fixed w extras x).inside = some wi →
        wi = st.w ∧ (∀ s, Rel w.nextInst (get base s) (get st.w.env s)) ∧
        ∀ t ∈ targetsOf extras, isMockO (get st.w.env t) = true)) := by
  cases hg : guardOk w with
  | false => left; exact ⟨rfl, by simp [patchRun, hg]⟩
  | true =>
    right
    refine ⟨rfl, ?_⟩
    obtain ⟨ie, _, ic, il⟩ := importAll_ext { w with nextInst := w.nextInst + 1 } (targetsOf extras)
    cases hp : (importAll { w with nextInst := w.nextInst + 1 } (targetsOf extras)).2 with
    | false =>
      refine ⟨_, ⟨(importAll { w with nextInst := w.nextInst + 1 } (targetsOf extras)).1, []⟩, ie, fun _ => rfl, ic, ?_, ?_, ?_⟩
      · simp [patchRun, hg, fixed, hp]
      · simp [patchRun, hg, fixed, hp]
      · intro wi h; simp [patchRun, hg, fixed, hp] at h
    | true =>
      obtain ⟨eJ, ec, _, er, em⟩ := enterAll_inv w.nextInst (targetsOf extras)
        ⟨(importAll { w with nextInst := w.nextInst + 1 } (targetsOf extras)).1, []⟩ (il hp)
        (importAll { w with nextInst := w.nextInst + 1 } (targetsOf extras)).1.env (fun _ => rfl)
      cases hr : enterAll w.nextInst ⟨(importAll { w with nextInst := w.nextInst + 1 } (targetsOf extras)).1, []⟩
          (targetsOf extras) with
      | mk st r =>
        rw [hr] at eJ ec er em
        refine ⟨_, st, ie, eJ, by rw [ec, ic], ?_, ?_, ?_⟩
        · cases r <;> simp [patchRun, hg, fixed, hp, hr]
        · cases r <;> cases x <;> simp [patchRun, hg, fixed, hp, hr]
        · intro wi h
          cases r with
          | some r => simp [patchRun, hg, fixed, hp, hr] at h
          | none =>
            simp [patchRun, hg, fixed, hp, hr] at h
            exact ⟨h.symm, er, em rfl⟩

end Fs.Patch
