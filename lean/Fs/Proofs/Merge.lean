import Fs.Model.Merge
namespace Fs.Merge

/-- which clause (if any) applies to original target row t -/
def rowSrc (src : List SRow) (t : TRow) : Option SRow := src.find? (on t)
def rowOp (cs : List Clause) (src : List SRow) (t : TRow) : Option Nat :=
  match rowSrc src t with
  | none => none
  | some s => opM cs t s

theorem on_key {t t' : TRow} (h : t'.key = t.key) (s : SRow) : on t' s = on t s := by
  simp [on, h]

/-- a clause index returned by opM is a matched clause -/
theorem opM_matched {cs : List Clause} {t s i} (h : opM cs t s = some i) :
    ∃ c, cs[i]? = some c ∧ c.matched = true := by
  unfold opM at h
  have h1 := List.findIdx?_eq_some_iff_getElem.mp h
  obtain ⟨hlt, hp, _⟩ := h1
  refine ⟨cs[i], by simp [hlt], ?_⟩
  revert hp
  cases cs[i] <;> simp [Clause.matched]

theorem opN_insert {cs : List Clause} {s i} (h : opN cs s = some i) :
    ∃ c, cs[i]? = some c ∧ c.matched = false := by
  unfold opN at h
  have h1 := List.findIdx?_eq_some_iff_getElem.mp h
  obtain ⟨hlt, hp, _⟩ := h1
  refine ⟨cs[i], by simp [hlt], ?_⟩
  revert hp
  cases cs[i] <;> simp [Clause.matched]

end Fs.Merge

namespace Fs.Merge

def H1 (tgt : List TRow) (src : List SRow) : Prop :=
  ∀ t ∈ tgt, ∀ s ∈ src, ∀ s' ∈ src, on t s = true → on t s' = true → s = s'
def H2 (cs : List Clause) (tgt : List TRow) (src : List SRow) : Prop :=
  ∀ s ∈ src, ∀ t ∈ tgt, ∀ t' ∈ tgt, on t s = true → on t' s = true → opM cs t s = opM cs t' s

theorem mem_cands {cs tgt src} {k : Cand} :
    k ∈ cands cs tgt src ↔
      (∃ t ∈ tgt, k.s ∈ src ∧ on t k.s = true ∧ opM cs t k.s = some k.op) ∨
      (k.s ∈ src ∧ (∀ t ∈ tgt, on t k.s = false) ∧ opN cs k.s = some k.op) := by
  unfold cands
  simp only [List.mem_append, List.mem_flatMap, List.mem_filterMap, List.mem_filter, Option.map_eq_some_iff]
  constructor
  · rintro (⟨t, ht, s, ⟨hs, hon⟩, i, hi, rfl⟩ | ⟨s, ⟨hs, hno⟩, i, hi, rfl⟩)
    · exact Or.inl ⟨t, ht, hs, hon, hi⟩
    · refine Or.inr ⟨hs, ?_, hi⟩
      intro t ht
      simp only [Bool.not_eq_true', List.any_eq_false] at hno
      simpa using hno t ht
  · rintro (⟨t, ht, hs, hon, hi⟩ | ⟨hs, hno, hi⟩)
    · exact Or.inl ⟨t, ht, k.s, ⟨hs, hon⟩, k.op, hi, rfl⟩
    · refine Or.inr ⟨k.s, ⟨hs, ?_⟩, k.op, hi, rfl⟩
      simp only [Bool.not_eq_true', List.any_eq_false]
      intro t ht; simpa using hno t ht

/-- heart of the argument: a (key-preserving descendant of an) original row is hit at clause `i`
    exactly when its own clause is `i`. -/
theorem cand_char {cs tgt src} (h1 : H1 tgt src) (h2 : H2 cs tgt src)
    {t cur : TRow} (ht : t ∈ tgt) (hk : cur.key = t.key) (i : Nat) :
    (cands cs tgt src).any (fun k => on cur k.s && k.op == i) = (rowOp cs src t == some i) := by
  rw [Bool.eq_iff_iff]
  simp only [List.any_eq_true, Bool.and_eq_true, beq_iff_eq, on_key hk]
  constructor
  · rintro ⟨k, hkm, hon, rfl⟩
    rcases mem_cands.mp hkm with ⟨t', ht', hs, hon', hop⟩ | ⟨_, hno, _⟩
    · -- rowSrc finds some s0 with on t s0, equal to k.s by H1
      unfold rowOp rowSrc
      cases hf : src.find? (on t) with
      | none =>
        have := List.find?_eq_none.mp hf k.s hs
        simp [hon] at this
      | some s0 =>
        have hs0 : s0 ∈ src := List.mem_of_find?_eq_some hf
        have hon0 : on t s0 = true := List.find?_some hf
        have : s0 = k.s := h1 t ht s0 hs0 k.s hs hon0 hon
        subst this
        simp only
        rw [h2 k.s hs t ht t' ht' hon hon', hop]
    · simp [hno t ht] at hon
  · intro h
    unfold rowOp rowSrc at h
    cases hf : src.find? (on t) with
    | none => simp [hf] at h
    | some s0 =>
      simp only [hf] at h
      have hs0 : s0 ∈ src := List.mem_of_find?_eq_some hf
      have hon0 : on t s0 = true := List.find?_some hf
      refine ⟨⟨s0, i⟩, mem_cands.mpr (Or.inl ⟨t, ht, hs0, hon0, h⟩), hon0, rfl⟩

end Fs.Merge

namespace Fs.Merge

/-- the row inserted for candidate `k` (by the insert clause at its index) -/
def mkRow (cs : List Clause) (k : Cand) : TRow := mkRowAt cs k.op k.s

theorem mkRow_key (cs : List Clause) (k : Cand) : (mkRow cs k).key = k.s.key := by
  unfold mkRow mkRowAt
  split <;> rfl

/-- state of original row `t` after the clauses with index `< i` -/
def g (cs : List Clause) (src : List SRow) (i : Nat) (t : TRow) : Option TRow :=
  match rowOp cs src t, rowSrc src t with
  | some j, some s => if j < i then (match cs[j]? with | some c => applyM c t s | none => some t) else some t
  | _, _ => some t

/-- rows inserted by clause `j` -/
def insAt (cs : List Clause) (cd : List Cand) (j : Nat) : List TRow :=
  match cs[j]? with
  | some (Clause.nInsert _ _) => (cd.filter (fun k => k.op == j)).map (mkRow cs)
  | _ => []

/-- rows inserted by the insert clauses with index `< i` -/
def insUpTo (cs : List Clause) (cd : List Cand) (i : Nat) : List TRow :=
  (List.range i).flatMap (insAt cs cd)

theorem g_key {cs src i t cur} (h : g cs src i t = some cur) : cur.key = t.key := by
  unfold g at h
  split at h
  · split at h
    · split at h
      · next c _ => cases c <;> simp [applyM] at h <;> (try subst h) <;> rfl
      · simp at h; subst h; rfl
    · simp at h; subst h; rfl
  · simp at h; subst h; rfl

theorem insUpTo_succ (cs cd i) :
    insUpTo cs cd (i+1) = insUpTo cs cd i ++ insAt cs cd i := by
  simp [insUpTo, List.range_succ, List.flatMap_append]

theorem on_of_keys {t'' : TRow} {r : TRow} {s s' : SRow} (h1 : on t'' s' = true) (h2 : on r s' = true)
    (h3 : r.key = s.key) : on t'' s = true := by
  unfold on at *
  rw [h3] at h2
  cases ht : t''.key <;> cases hs' : s'.key <;> cases hs : s.key <;> simp_all

/-- an inserted row is never hit by a matched clause -/
theorem ins_not_hit {cs tgt src} {r : TRow} {i : Nat} {k : Cand}
    (hk : k ∈ cands cs tgt src) (hj : ∃ c, cs[k.op]? = some c ∧ c.matched = false)
    (hr : r = mkRow cs k) (hi : ∃ c, cs[i]? = some c ∧ c.matched = true) :
    (cands cs tgt src).any (fun k' => on r k'.s && k'.op == i) = false := by
  rw [List.any_eq_false]
  intro k' hk'
  simp only [Bool.and_eq_true, beq_iff_eq, not_and]
  intro hon hop
  -- k is in the unmatched part
  have hkN : ∀ t ∈ tgt, on t k.s = false := by
    rcases mem_cands.mp hk with ⟨t, ht, _, _, hop'⟩ | ⟨_, hno, _⟩
    · obtain ⟨c, hc, hm⟩ := opM_matched hop'
      obtain ⟨c', hc', hm'⟩ := hj
      rw [hc] at hc'; cases hc'; simp [hm] at hm'
    · exact hno
  rcases mem_cands.mp hk' with ⟨t'', ht'', _, hon'', _⟩ | ⟨_, _, hopN⟩
  · have : on t'' k.s = true := on_of_keys hon'' hon (by rw [hr]; exact mkRow_key cs k)
    simp [hkN t'' ht''] at this
  · obtain ⟨c, hc, hm⟩ := opN_insert hopN
    obtain ⟨c', hc', hm'⟩ := hi
    rw [hop] at hc; rw [hc] at hc'; cases hc'; simp [hm] at hm'

end Fs.Merge

namespace Fs.Merge

theorem g_succ_ne {cs src i t} (h : rowOp cs src t ≠ some i) : g cs src (i+1) t = g cs src i t := by
  unfold g
  split
  · next j s hj hs =>
    have hji : j ≠ i := fun e => h (e ▸ hj)
    by_cases hlt : j < i
    · have : j < i + 1 := by omega
      simp [hlt, this]
    · have : ¬ j < i + 1 := by omega
      simp [hlt, this]
  · rfl

theorem g_at {cs src i t} (h : rowOp cs src t = some i) : g cs src i t = some t := by
  unfold g
  split
  · next j s hj hs =>
    have : j = i := by rw [h] at hj; exact (Option.some.inj hj).symm
    subst this; simp
  · rfl

theorem rowOp_src {cs src t i} (h : rowOp cs src t = some i) :
    ∃ s, rowSrc src t = some s ∧ s ∈ src ∧ on t s = true ∧ opM cs t s = some i := by
  unfold rowOp at h
  cases hf : rowSrc src t with
  | none => simp [hf] at h
  | some s =>
    simp only [hf] at h
    exact ⟨s, rfl, List.mem_of_find?_eq_some hf, List.find?_some hf, h⟩

theorem g_succ_at {cs src i t c s} (h : rowOp cs src t = some i) (hs : rowSrc src t = some s)
    (hc : cs[i]? = some c) : g cs src (i+1) t = applyM c t s := by
  unfold g
  simp [h, hs, hc]

theorem cand_src {cs tgt src} {k : Cand} (h : k ∈ cands cs tgt src) : k.s ∈ src := by
  rcases mem_cands.mp h with ⟨_, _, hs, _, _⟩ | ⟨hs, _, _⟩ <;> exact hs

theorem filterMap_congr' {α β} {f g : α → Option β} {l : List α} (h : ∀ a ∈ l, f a = g a) :
    l.filterMap f = l.filterMap g := by
  induction l with
  | nil => rfl
  | cons a l ih =>
    simp only [List.filterMap_cons, h a (by simp)]
    rw [ih (fun b hb => h b (by simp [hb]))]

/-- A-part, delete clause -/
theorem stepA_delete {cs tgt src i k0} (h1 : H1 tgt src) (h2 : H2 cs tgt src)
    (hc : cs[i]? = some (Clause.mDelete k0)) :
    (tgt.filterMap (g cs src i)).filter
        (fun cur => !((cands cs tgt src).any fun k => on cur k.s && k.op == i))
      = tgt.filterMap (g cs src (i+1)) := by
  rw [List.filter_filterMap]
  apply filterMap_congr'
  intro t ht
  cases hg : g cs src i t with
  | none =>
    -- deleted earlier; rowOp t ≠ some i since g_at would give some
    have : rowOp cs src t ≠ some i := fun e => by rw [g_at e] at hg; cases hg
    rw [g_succ_ne this, hg]; rfl
  | some cur =>
    have hk := g_key hg
    simp only [Option.filter, cand_char h1 h2 ht hk i]
    by_cases hop : rowOp cs src t = some i
    · obtain ⟨s, hs, _, _, _⟩ := rowOp_src hop
      rw [g_succ_at hop hs hc]
      simp [hop, applyM]
    · rw [g_succ_ne hop, hg]
      have : (rowOp cs src t == some i) = false := by simpa using hop
      simp [this]

end Fs.Merge

namespace Fs.Merge

def upd (f : List Nat → List Nat → List Nat) (cd : List Cand) (i : Nat) (t : TRow) : TRow :=
  match cd.find? (fun k => on t k.s && k.op == i) with
  | some k => { t with vals := f t.vals k.s.vals } | none => t

theorem mutate_update (cd tgt i k0 f) : mutate cd tgt i (Clause.mUpdate k0 f) = tgt.map (upd f cd i) := rfl

/-- A-part, update clause -/
theorem stepA_update {cs tgt src i k0 f} (h1 : H1 tgt src) (h2 : H2 cs tgt src)
    (hc : cs[i]? = some (Clause.mUpdate k0 f)) :
    (tgt.filterMap (g cs src i)).map (upd f (cands cs tgt src) i) = tgt.filterMap (g cs src (i+1)) := by
  rw [List.map_filterMap]
  apply filterMap_congr'
  intro t ht
  cases hg : g cs src i t with
  | none =>
    have : rowOp cs src t ≠ some i := fun e => by rw [g_at e] at hg; cases hg
    rw [g_succ_ne this, hg]; rfl
  | some cur =>
    have hk := g_key hg
    have hchar := cand_char h1 h2 ht hk i
    by_cases hop : rowOp cs src t = some i
    · obtain ⟨s, hs, hsm, hon, _⟩ := rowOp_src hop
      rw [g_succ_at hop hs hc]
      have hcur : cur = t := by rw [g_at hop] at hg; exact (Option.some.inj hg).symm
      subst hcur
      simp only [Option.map, applyM, upd]
      cases hf : (cands cs tgt src).find? (fun k => on cur k.s && k.op == i) with
      | none =>
        have := List.find?_eq_none.mp hf
        rw [hop] at hchar
        simp only [beq_self_eq_true, List.any_eq_true] at hchar
        obtain ⟨k, hk1, hk2⟩ := hchar
        exact absurd hk2 (this k hk1)
      | some k =>
        have hkm : k ∈ cands cs tgt src := List.mem_of_find?_eq_some hf
        have hkp := List.find?_some hf
        simp only [Bool.and_eq_true, beq_iff_eq] at hkp
        have : s = k.s := h1 cur ht s hsm k.s (cand_src hkm) hon hkp.1
        subst this; rfl
    · rw [g_succ_ne hop, hg]
      have hfalse : (rowOp cs src t == some i) = false := by simpa using hop
      rw [hfalse] at hchar
      simp only [Option.map, upd]
      have : (cands cs tgt src).find? (fun k => on cur k.s && k.op == i) = none := by
        rw [List.find?_eq_none]
        intro k hk hp
        rw [List.any_eq_false] at hchar
        exact hchar k hk hp
      rw [this]

theorem mem_insUpTo {cs cd i r} (h : r ∈ insUpTo cs cd i) :
    ∃ k ∈ cd, r = mkRow cs k ∧ ∃ c, cs[k.op]? = some c ∧ c.matched = false := by
  unfold insUpTo at h
  simp only [List.mem_flatMap, List.mem_range] at h
  obtain ⟨j, _, hj⟩ := h
  unfold insAt at hj
  split at hj
  · next k0 mk0 hc =>
    simp only [List.mem_map, List.mem_filter, beq_iff_eq] at hj
    obtain ⟨k, ⟨hk, hop⟩, rfl⟩ := hj
    exact ⟨k, hk, rfl, Clause.nInsert k0 mk0, by rw [hop, hc], rfl⟩
  · simp at hj

theorem stepB_delete {cs tgt src i c} (hc : cs[i]? = some c) (hm : c.matched = true) :
    (insUpTo cs (cands cs tgt src) i).filter
        (fun cur => !((cands cs tgt src).any fun k => on cur k.s && k.op == i))
      = insUpTo cs (cands cs tgt src) i := by
  rw [List.filter_eq_self]
  intro r hr
  obtain ⟨k, hk, hrk, hj⟩ := mem_insUpTo hr
  simp [ins_not_hit hk hj hrk ⟨c, hc, hm⟩]

theorem stepB_update {cs tgt src i c} (f : List Nat → List Nat → List Nat) (hc : cs[i]? = some c) (hm : c.matched = true) :
    (insUpTo cs (cands cs tgt src) i).map (upd f (cands cs tgt src) i)
      = insUpTo cs (cands cs tgt src) i := by
  conv => rhs; rw [← List.map_id (insUpTo cs (cands cs tgt src) i)]
  apply List.map_congr_left
  intro r hr
  obtain ⟨k, hk, hrk, hj⟩ := mem_insUpTo hr
  have hnh := ins_not_hit hk hj hrk ⟨c, hc, hm⟩
  simp only [upd, id]
  have : (cands cs tgt src).find? (fun k' => on r k'.s && k'.op == i) = none := by
    rw [List.find?_eq_none]
    intro k' hk' hp
    rw [List.any_eq_false] at hnh
    exact hnh k' hk' hp
  rw [this]

end Fs.Merge

namespace Fs.Merge

theorem rowOp_matched {cs src t i} (h : rowOp cs src t = some i) : ∃ c, cs[i]? = some c ∧ c.matched = true := by
  obtain ⟨s, _, _, _, hop⟩ := rowOp_src h
  exact opM_matched hop

/-- the loop invariant -/
theorem implGo_inv {cs tgt src} (h1 : H1 tgt src) (h2 : H2 cs tgt src) :
    ∀ (rest : List Clause) (i : Nat), cs.drop i = rest → i ≤ cs.length →
      implGo (cands cs tgt src) rest i
          (tgt.filterMap (g cs src i) ++ insUpTo cs (cands cs tgt src) i)
        = tgt.filterMap (g cs src cs.length) ++ insUpTo cs (cands cs tgt src) cs.length := by
  intro rest
  induction rest with
  | nil =>
    intro i hd hle
    have : cs.length ≤ i := by
      have := congrArg List.length hd; simp at this; omega
    have : i = cs.length := by omega
    subst this; rfl
  | cons c rest ih =>
    intro i hd hle
    have hci : cs[i]? = some c := by
      have := congrArg (·[0]?) hd
      simpa [List.getElem?_drop] using this
    have hd' : cs.drop (i+1) = rest := by
      have : cs.drop (i+1) = (cs.drop i).drop 1 := by simp [List.drop_drop, Nat.add_comm]
      rw [this, hd]; rfl
    have hlt : i < cs.length := by
      rcases Nat.lt_or_ge i cs.length with h | h
      · exact h
      · rw [List.drop_eq_nil_of_le h] at hd; cases hd
    simp only [implGo]
    rw [← ih (i+1) hd' hlt]
    congr 1
    cases c with
    | mDelete k0 =>
      simp only [mutate, List.filter_append]
      rw [stepA_delete h1 h2 hci, stepB_delete hci rfl, insUpTo_succ]
      simp [insAt, hci]
    | mUpdate k0 f =>
      rw [mutate_update, List.map_append, stepA_update h1 h2 hci, stepB_update f hci rfl, insUpTo_succ]
      simp [insAt, hci]
    | nInsert k0 mk0 =>
      simp only [mutate]
      rw [insUpTo_succ, List.append_assoc]
      congr 1
      · apply filterMap_congr'
        intro t _
        symm; apply g_succ_ne
        intro e
        obtain ⟨c', hc', hm'⟩ := rowOp_matched e
        rw [hci] at hc'; cases hc'; simp [Clause.matched] at hm'
      · simp only [insAt, hci]
        congr 1
        apply List.map_congr_left
        intro k hk
        have hop : k.op = i := by simpa using (List.mem_filter.mp hk).2
        simp [mkRow, mkRowAt, hop, hci]

theorem g_zero {cs src t} : g cs src 0 t = some t := by
  unfold g; split <;> simp

theorem impl_eq {cs tgt src} (h1 : H1 tgt src) (h2 : H2 cs tgt src) :
    impl cs tgt src = tgt.filterMap (g cs src cs.length) ++ insUpTo cs (cands cs tgt src) cs.length := by
  have := implGo_inv h1 h2 cs 0 (by simp) (by omega)
  rw [← this]
  unfold impl
  congr 1
  have : tgt.filterMap (g cs src 0) = tgt := by
    rw [filterMap_congr' (g := some) (fun t _ => g_zero)]
    simp
  rw [this]; simp [insUpTo]

end Fs.Merge

namespace Fs.Merge
open List

theorem filter_partition {α} (p q : α → Bool) (l : List α) (hd : ∀ x ∈ l, ¬ (p x = true ∧ q x = true)) :
    (l.filter p ++ l.filter q).Perm (l.filter fun x => p x || q x) := by
  induction l with
  | nil => simp
  | cons x xs ih =>
    have ih' := ih (fun y hy => hd y (by simp [hy]))
    have hx := hd x (by simp)
    cases hp : p x <;> cases hq : q x
    · simpa [List.filter_cons, hp, hq] using ih'
    · simp only [List.filter_cons, hp, hq, Bool.false_or, Bool.false_eq_true, if_false, if_true]
      exact (List.perm_middle).trans (ih'.cons x)
    · simp only [List.filter_cons, hp, hq, Bool.true_or, Bool.false_eq_true, if_false, if_true, List.cons_append]
      exact ih'.cons x
    · exact absurd ⟨hp, hq⟩ hx

theorem bucket_lt {α} (f : α → Nat) (l : List α) (n : Nat) :
    ((List.range n).flatMap fun j => l.filter fun x => f x == j).Perm (l.filter fun x => decide (f x < n)) := by
  induction n with
  | zero => simp
  | succ n ih =>
    rw [List.range_succ, List.flatMap_append]
    simp only [List.flatMap_cons, List.flatMap_nil, List.append_nil]
    refine (ih.append_right _).trans ?_
    refine (filter_partition _ _ l ?_).trans ?_
    · intro x _ ⟨h1, h2⟩
      simp only [decide_eq_true_eq, beq_iff_eq] at h1 h2; omega
    · apply List.Perm.of_eq
      apply List.filter_congr
      intro x _
      rw [Bool.eq_iff_iff]
      simp only [Bool.or_eq_true, decide_eq_true_eq, beq_iff_eq]
      omega

theorem bucket {α} (f : α → Nat) (l : List α) (n : Nat) (h : ∀ x ∈ l, f x < n) :
    ((List.range n).flatMap fun j => l.filter fun x => f x == j).Perm l := by
  have := bucket_lt f l n
  rwa [List.filter_eq_self.mpr (by intro x hx; simpa using h x hx)] at this

end Fs.Merge

namespace Fs.Merge
open List

theorem opM_lt {cs t s i} (h : opM cs t s = some i) : i < cs.length := by
  unfold opM at h
  exact (List.findIdx?_eq_some_iff_getElem.mp h).1
theorem opN_lt {cs s i} (h : opN cs s = some i) : i < cs.length := by
  unfold opN at h
  exact (List.findIdx?_eq_some_iff_getElem.mp h).1

theorem g_len_eq_spec {cs src t} : g cs src cs.length t = specRow cs src t := by
  unfold g specRow rowOp rowSrc
  cases hf : src.find? (on t) with
  | none => simp
  | some s =>
    simp only
    cases ho : opM cs t s with
    | none => simp
    | some i => simp [opM_lt ho]

/-- the unmatched part of the candidates -/
def candsN (cs : List Clause) (tgt : List TRow) (src : List SRow) : List Cand :=
  (src.filter fun s => !(tgt.any fun t => on t s)).filterMap fun s => (opN cs s).map fun i => ⟨s, i⟩

theorem specInserts_eq {cs tgt src} : specInserts cs tgt src = (candsN cs tgt src).map (mkRow cs) := by
  unfold specInserts candsN
  rw [List.map_filterMap]
  apply filterMap_congr'
  intro s _
  cases opN cs s <;> simp [mkRow]

theorem insAt_eq {cs tgt src j} (hj : j < cs.length) :
    insAt cs (cands cs tgt src) j = ((candsN cs tgt src).filter fun k => k.op == j).map (mkRow cs) := by
  have hN : ∀ k ∈ candsN cs tgt src, ∃ c, cs[k.op]? = some c ∧ c.matched = false := by
    intro k hk
    simp only [candsN, List.mem_filterMap, Option.map_eq_some_iff] at hk
    obtain ⟨s, _, i, hi, rfl⟩ := hk
    exact opN_insert hi
  have hM : ∀ k ∈ (tgt.flatMap fun t => (src.filter (on t)).filterMap fun s => (opM cs t s).map fun i => (⟨s, i⟩ : Cand)),
      ∃ c, cs[k.op]? = some c ∧ c.matched = true := by
    intro k hk
    simp only [List.mem_flatMap, List.mem_filterMap, Option.map_eq_some_iff] at hk
    obtain ⟨t, _, s, _, i, hi, rfl⟩ := hk
    exact opM_matched hi
  unfold insAt
  have hc : cs[j]? = some cs[j] := by simp [hj]
  cases hcj : cs[j] with
  | nInsert k0 mk0 =>
    rw [hc, hcj]
    simp only
    congr 1
    show List.filter _ (_ ++ candsN cs tgt src) = _
    rw [List.filter_append]
    have : List.filter (fun k => k.op == j)
        (tgt.flatMap fun t => (src.filter (on t)).filterMap fun s => (opM cs t s).map fun i => (⟨s, i⟩ : Cand)) = [] := by
      rw [List.filter_eq_nil_iff]
      intro k hk hop
      simp only [beq_iff_eq] at hop
      obtain ⟨c, hc', hm⟩ := hM k hk
      rw [hop, hc, hcj] at hc'; cases hc'; simp [Clause.matched] at hm
    rw [this]; rfl
  | mDelete k0 =>
    rw [hc, hcj]
    simp only
    symm
    rw [List.map_eq_nil_iff, List.filter_eq_nil_iff]
    intro k hk hop
    simp only [beq_iff_eq] at hop
    obtain ⟨c, hc', hm⟩ := hN k hk
    rw [hop, hc, hcj] at hc'; cases hc'; simp [Clause.matched] at hm
  | mUpdate k0 f0 =>
    rw [hc, hcj]
    simp only
    symm
    rw [List.map_eq_nil_iff, List.filter_eq_nil_iff]
    intro k hk hop
    simp only [beq_iff_eq] at hop
    obtain ⟨c, hc', hm⟩ := hN k hk
    rw [hop, hc, hcj] at hc'; cases hc'; simp [Clause.matched] at hm

theorem ins_perm {cs tgt src} :
    (insUpTo cs (cands cs tgt src) cs.length).Perm (specInserts cs tgt src) := by
  rw [specInserts_eq]
  unfold insUpTo
  have : (List.range cs.length).flatMap (insAt cs (cands cs tgt src)) =
      ((List.range cs.length).flatMap fun j => (candsN cs tgt src).filter fun k => k.op == j).map (mkRow cs) := by
    rw [List.map_flatMap]
    have hcongr : ∀ (l : List Nat), (∀ j ∈ l, j < cs.length) →
        l.flatMap (insAt cs (cands cs tgt src)) =
        l.flatMap fun j => ((candsN cs tgt src).filter fun k => k.op == j).map (mkRow cs) := by
      intro l
      induction l with
      | nil => intro _; rfl
      | cons a l ih =>
        intro h
        simp only [List.flatMap_cons]
        rw [insAt_eq (h a (by simp)), ih (fun j hj => h j (by simp [hj]))]
    exact hcongr _ (fun j hj => List.mem_range.mp hj)
  rw [this]
  apply List.Perm.map
  apply bucket
  intro k hk
  simp only [candsN, List.mem_filterMap, Option.map_eq_some_iff] at hk
  obtain ⟨s, _, i, hi, rfl⟩ := hk
  exact opN_lt hi

/-- **C12_partial** (spike): under H1 (each target row joins at most one source row) and
    H2 (all target rows joining a source row select the same clause), the decomposition into
    candidates + per-clause DELETE/UPDATE/INSERT re-joined on the key equals MERGE semantics. -/
theorem merge_partial {cs tgt src} (h1 : H1 tgt src) (h2 : H2 cs tgt src) :
    (impl cs tgt src).Perm (spec cs tgt src) := by
  rw [impl_eq h1 h2]
  unfold spec
  rw [filterMap_congr' (g := specRow cs src) (fun t _ => g_len_eq_spec)]
  exact ins_perm.append_left _


end Fs.Merge
