import Fs.Proofs.Merge
/-! Counts reported by MERGE (`_counts`: COUNT_IF over merge_candidates) vs rows affected by MERGE semantics. -/
namespace Fs.Merge

theorem filter_le_one {α} (p : α → Bool) (l : List α) (h : (l.filter p).length ≤ 1) :
    l.filter p = (l.find? p).toList := by
  induction l with
  | nil => rfl
  | cons a l ih =>
    by_cases hp : p a = true
    · simp only [List.filter_cons, hp, if_true, List.find?_cons, Option.toList] at *
      simp only [List.length_cons] at h
      have : (l.filter p).length = 0 := by omega
      rw [List.length_eq_zero_iff.mp this]
    · have hp' : p a = false := by simpa using hp
      simp only [List.filter_cons, hp', List.find?_cons] at *
      simpa using ih h

def H1c (tgt : List TRow) (src : List SRow) : Prop := ∀ t ∈ tgt, (src.filter (on t)).length ≤ 1

theorem h1cb_iff {tgt src} : h1cb tgt src = true ↔ H1c tgt src := by
  simp [h1cb, H1c, List.all_eq_true]

theorem h1b_iff {tgt src} : h1b tgt src = true ↔ H1 tgt src := by
  unfold h1b H1
  simp only [List.all_eq_true, Bool.or_eq_true, Bool.not_eq_true', Bool.and_eq_false_iff, decide_eq_true_eq]
  constructor
  · intro h t ht s hs s' hs' h1 h2
    rcases h t ht s hs s' hs' with (h' | h') | h'
    · rw [h1] at h'; cases h'
    · rw [h2] at h'; cases h'
    · exact h'
  · intro h t ht s hs s' hs'
    by_cases h1 : on t s = true
    · by_cases h2 : on t s' = true
      · exact Or.inr (h t ht s hs s' hs' h1 h2)
      · exact Or.inl (Or.inr (by simpa using h2))
    · exact Or.inl (Or.inl (by simpa using h1))

theorem H1c_H1 {tgt src} (h : H1c tgt src) : H1 tgt src := by
  intro t ht s hs s' hs' h1 h2
  have hf := filter_le_one (on t) src (h t ht)
  have m1 : s ∈ src.filter (on t) := List.mem_filter.mpr ⟨hs, h1⟩
  have m2 : s' ∈ src.filter (on t) := List.mem_filter.mpr ⟨hs', h2⟩
  rw [hf] at m1 m2
  cases hfi : src.find? (on t) with
  | none => rw [hfi] at m1; simp at m1
  | some s0 =>
    rw [hfi] at m1 m2
    simp at m1 m2
    rw [m1, m2]

/-- the matched part of the candidates -/
def candsM (cs : List Clause) (tgt : List TRow) (src : List SRow) : List Cand :=
  tgt.flatMap fun t => (src.filter (on t)).filterMap fun s => (opM cs t s).map fun i => ⟨s, i⟩

theorem cands_split (cs tgt src) : cands cs tgt src = candsM cs tgt src ++ candsN cs tgt src := rfl

def kindAt (cs : List Clause) (k : Kind) (c : Cand) : Bool :=
  match cs[c.op]? with | some cl => cl.kind == k | none => false

def rowKind (cs : List Clause) (src : List SRow) (k : Kind) (t : TRow) : Bool :=
  match src.find? (on t) with
  | none => false
  | some s => match opM cs t s with
    | none => false
    | some i => match cs[i]? with
      | some c => c.kind == k
      | none => false

theorem row_count {cs src} (k : Kind) (t : TRow) :
    (((src.find? (on t)).toList.filterMap fun s => (opM cs t s).map fun i => (⟨s, i⟩ : Cand)).filter
        (kindAt cs k)).length = if rowKind cs src k t = true then 1 else 0 := by
  cases h1 : src.find? (on t) with
  | none => simp [rowKind, h1]
  | some s =>
    cases h2 : opM cs t s with
    | none => simp [rowKind, h1, h2]
    | some i =>
      cases h3 : cs[i]? with
      | none => simp [rowKind, h1, h2, h3, kindAt]
      | some c =>
        by_cases hk : (c.kind == k) = true
        · simp [rowKind, h1, h2, h3, kindAt, hk]
        · have : (c.kind == k) = false := by simpa using hk
          simp [rowKind, h1, h2, h3, kindAt, this]

theorem candsM_count {cs src} (k : Kind) (tgt : List TRow) (h : ∀ t ∈ tgt, (src.filter (on t)).length ≤ 1) :
    ((tgt.flatMap fun t => (src.filter (on t)).filterMap fun s => (opM cs t s).map fun i => (⟨s, i⟩ : Cand)).filter
        (kindAt cs k)).length = (tgt.filter (rowKind cs src k)).length := by
  induction tgt with
  | nil => rfl
  | cons t ts ih =>
    simp only [List.flatMap_cons, List.filter_append, List.length_append, List.filter_cons]
    rw [ih (fun t' ht' => h t' (by simp [ht']))]
    rw [filter_le_one (on t) src (h t (by simp)), row_count]
    split <;> simp <;> omega

theorem candsN_kind {cs tgt src} (k : Kind) :
    (candsN cs tgt src).filter (kindAt cs k) = if k = .ins then candsN cs tgt src else [] := by
  have hN : ∀ c ∈ candsN cs tgt src, kindAt cs k c = decide (k = .ins) := by
    intro c hc
    simp only [candsN, List.mem_filterMap, Option.map_eq_some_iff] at hc
    obtain ⟨s, _, i, hi, rfl⟩ := hc
    obtain ⟨cl, hcl, hm⟩ := opN_insert hi
    simp only [kindAt, hcl]
    cases cl <;> simp [Clause.matched] at hm
    cases k <;> simp [Clause.kind]
  split
  · next hk => subst hk; rw [List.filter_eq_self]; intro c hc; simp [hN c hc]
  · next hk => rw [List.filter_eq_nil_iff]; intro c hc; simp [hN c hc, hk]

theorem candsM_kind_ins {cs tgt src} : (candsM cs tgt src).filter (kindAt cs .ins) = [] := by
  rw [List.filter_eq_nil_iff]
  intro c hc
  simp only [candsM, List.mem_flatMap, List.mem_filterMap, Option.map_eq_some_iff] at hc
  obtain ⟨t, _, s, _, i, hi, rfl⟩ := hc
  obtain ⟨cl, hcl, hm⟩ := opM_matched hi
  simp only [kindAt, hcl]
  cases cl <;> simp [Clause.matched] at hm <;> simp [Clause.kind]

theorem rowKind_ins_false {cs src t} : rowKind cs src .ins t = false := by
  unfold rowKind
  cases src.find? (on t) with
  | none => rfl
  | some s =>
    simp only
    cases ho : opM cs t s with
    | none => rfl
    | some i =>
      obtain ⟨cl, hcl, hm⟩ := opM_matched ho
      simp only [hcl]
      cases cl <;> simp [Clause.matched] at hm <;> simp [Clause.kind]

/-- number of candidates of a kind = rows affected by MERGE semantics, when each target row joins at most
    one source row -/
theorem count_eq {cs tgt src} (h : H1c tgt src) (k : Kind) :
    ((cands cs tgt src).filter (kindAt cs k)).length = specCount cs tgt src k := by
  rw [cands_split, List.filter_append, List.length_append]
  cases k with
  | ins =>
    rw [candsM_kind_ins, candsN_kind]
    simp [specCount, specInserts_eq]
  | upd =>
    rw [candsN_kind]
    simp only [reduceCtorEq, if_false, List.length_nil, Nat.add_zero]
    exact candsM_count .upd tgt h
  | del =>
    rw [candsN_kind]
    simp only [reduceCtorEq, if_false, List.length_nil, Nat.add_zero]
    exact candsM_count .del tgt h

end Fs.Merge
