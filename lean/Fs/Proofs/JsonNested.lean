import Fs.Proofs.JsonPrec
/-! C11: a cast-of-path nested inside another cast-of-path — `PARSE_JSON(v:payload::varchar):k::t`
    (a document whose string value is itself JSON text). -/
namespace Fs.Json

/-- `PARSE_JSON(<chain>:p::varchar)` -/
def nestedInner (n : Nav) (p : Path) : E := .parseJson (.cast (.jx n.toE (.path p)) .text)

/-- what the pipeline makes of it: the INNER cast-of-path is rewritten to `->>` too (the outer rewrite edits in
    place, so the traversal goes on below it) -/
def nestedInnerOut (n : Nav) (p : Path) : E := .parseJson (.cast (.jxs n.toE (.path p)) .text)

theorem pipeline_nested_cast (n : Nav) (p q : Path) (t : Ty) :
    pipeline (.cast (.jx (nestedInner n p) (.path q)) t) = .cast (.paren (.jxs (nestedInnerOut n p) (.path q))) t := by
  simp only [pipeline, nestedInner, nestedInnerOut]
  rw [topDown_cast trimRule _ _ (by cases t <;> rfl), topDown_jx trimRule _ _ rfl, topDown_parseJson trimRule _ rfl,
    topDown_cast trimRule _ _ rfl, topDown_jx trimRule _ _ rfl, trim_nav]
  rw [topDown_cast indicesRule _ _ rfl, topDown_jx indicesRule _ _ rfl, topDown_parseJson indicesRule _ rfl,
    topDown_cast indicesRule _ _ rfl, topDown_jx indicesRule _ _ rfl, indices_nav]
  simp only [castAsVarchar, castAs_nav, casedAsVarchar, casedAs_nav]
  rw [topDown_cast precRule _ _ rfl,
    topDown_fire precRule (e' := .paren (.jxs (.parseJson (.cast (.jxs n.toE (.path p)) .text)) (.path q))) rfl]
  rw [topDown_cast arraySizeRule _ _ rfl, topDown_paren arraySizeRule _ rfl, topDown_jxs arraySizeRule _ _ rfl,
    topDown_parseJson arraySizeRule _ rfl, topDown_cast arraySizeRule _ _ rfl, topDown_jxs arraySizeRule _ _ rfl, arraySize_nav]

theorem pipeline_nested_bare (n : Nav) (p q : Path) :
    pipeline (.jx (nestedInner n p) (.path q)) = .paren (.jx (nestedInnerOut n p) (.path q)) := by
  simp only [pipeline, nestedInner, nestedInnerOut]
  rw [topDown_jx trimRule _ _ rfl, topDown_parseJson trimRule _ rfl, topDown_cast trimRule _ _ rfl, topDown_jx trimRule _ _ rfl, trim_nav]
  rw [topDown_jx indicesRule _ _ rfl, topDown_parseJson indicesRule _ rfl, topDown_cast indicesRule _ _ rfl,
    topDown_jx indicesRule _ _ rfl, indices_nav]
  simp only [castAsVarchar, castAs_nav, casedAsVarchar, casedAs_nav]
  rw [topDown_fire precRule (e' := .paren (.jx (.parseJson (.cast (.jxs n.toE (.path p)) .text)) (.path q))) rfl]
  rw [topDown_paren arraySizeRule _ rfl, topDown_jx arraySizeRule _ _ rfl, topDown_parseJson arraySizeRule _ rfl,
    topDown_cast arraySizeRule _ _ rfl, topDown_jxs arraySizeRule _ _ rfl, arraySize_nav]

/-- the inner part evaluates to the parsed text of the extracted (unquoted) string -/
theorem eval_nestedInnerOut (doc : Env) (n : Nav) (p : Path) :
    evalDuck doc (nestedInnerOut n p) = evalSpec doc (nestedInner n p) := by
  simp only [nestedInnerOut, nestedInner, evalDuck, evalSpec, eval_nav, arrow2, arrow_path, duckCast, specCast]
  rw [duckText_scalar _ (specNav_cases _ _)]

theorem nested_cast_correct (doc : Env) (n : Nav) (p q : Path) (t : Ty)
    (hc : castOK t (evalSpec doc (.jx (nestedInner n p) (.path q))) = true) :
    evalDuck doc (pipeline (.cast (.jx (nestedInner n p) (.path q)) t)) = evalSpec doc (.cast (.jx (nestedInner n p) (.path q)) t) := by
  rw [pipeline_nested_cast]
  simp only [evalDuck, evalSpec, eval_nestedInnerOut, arrow2, arrow_path] at hc ⊢
  exact duckCast_scalar t _ hc (specNav_cases _ _)

theorem nested_bare_correct (doc : Env) (n : Nav) (p q : Path) :
    evalDuck doc (pipeline (.jx (nestedInner n p) (.path q))) = evalSpec doc (.jx (nestedInner n p) (.path q)) := by
  rw [pipeline_nested_bare]
  simp only [evalDuck, evalSpec, eval_nestedInnerOut, arrow_path]

end Fs.Json
