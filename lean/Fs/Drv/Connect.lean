import Fs.Core.Wire
import Fs.Model.Connect
/-! Driver handler for the `connect` model (C14).

request:  run <attached> <disk> <opts;opts…>
  attached  `name|file|schemas;…` (or `[]`), schemas = `name=content,name=content` or `-`; names as code points
  disk      `name|schemas;…`
  opts      `db|schema|createDb|createSchema|dbPath` with `-` for an argument that is not given
reply:    impl=<outcomes>|<world>  spec=…  shipped=…
  outcomes  `;`-joined, each `ok,db,schema,dbset,scset` or `binder`;
  world     `attached#disk`, attached = `+`-joined `name:file:schema=content,…`, disk = `+`-joined names
-/
namespace Fs.Drv.Connect
open Fs.Wire Fs.Connect

def parseSchemas (s : String) : List (Name × Content) :=
  if s == "-" then [] else (s.splitOn ",").filterMap fun e => match e.splitOn "=" with
    | [n, c] => c.toNat?.map fun k => (decStr n, k)
    | _ => none

def parseAttached (s : String) : List Cat :=
  (decList s).filterMap fun e => match e.splitOn "|" with
    | [n, f, sc] => some { name := decStr n, file := decBool f, schemas := parseSchemas sc }
    | _ => none

def parseDisk (s : String) : List (Name × List (Name × Content)) :=
  (decList s).filterMap fun e => match e.splitOn "|" with
    | [n, sc] => some (decStr n, parseSchemas sc)
    | _ => none

def parseOpts (s : String) : Option Opts :=
  match s.splitOn "|" with
  | [d, sc, a, b, p] => some { database := decOptStr d, schema := decOptStr sc, createDb := decBool a, createSchema := decBool b, dbPath := decBool p }
  | _ => none

def encOutcome : Outcome → String
  | .binderError => "binder"
  | .bootstrapError => "bootstrap"
  | .ok s => s!"ok,{encOptStr s.database},{encOptStr s.schema},{encBool s.databaseSet},{encBool s.schemaSet}"

def encSchemas (l : List (Name × Content)) : String :=
  if l.isEmpty then "-" else ",".intercalate (l.map fun p => s!"{encStr p.1}={p.2}")

def encWorld (w : World) : String :=
  "+".intercalate (w.attached.map fun c => s!"{encStr c.name}:{encBool c.file}:{encSchemas c.schemas}") ++ "#" ++
  "+".intercalate (w.disk.map fun d => encStr d.1)

def runAll (f : Opts → World → Outcome × World) : List Opts → World → List Outcome × World
  | [], w => ([], w)
  | o :: os, w =>
    let r := f o w
    let rs := runAll f os r.2
    (r.1 :: rs.1, rs.2)

def encRun (r : List Outcome × World) : String :=
  ";".intercalate (r.1.map encOutcome) ++ "|" ++ encWorld r.2

def handle : List String → String
  | ["run", att, disk, opts] =>
    match (decList opts).mapM parseOpts with
    | none => "bad-opts"
    | some os =>
      let w : World := { attached := parseAttached att, disk := parseDisk disk, paths := [] }
      let impl := runAll connect os w
      -- region of the known finding: some connect of the run has to attach a database named like a built-in schema
      let key := if impl.1.any (fun o => o == Outcome.bootstrapError) then "C14/auto-create-db-named-like-builtin-schema" else "-"
      s!"impl={encRun impl}\tspec={encRun (runAll Spec.connect os w)}\tshipped={encRun (runAll connectShipped os w)}\tfinding={key}"
  | _ => "bad-op"

end Fs.Drv.Connect
