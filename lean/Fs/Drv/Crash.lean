import Fs.Core.Wire
import Fs.Model.Crash
/-! Driver handler for the `crash` model (C18).

Request:  `crash  run  <history>  <k|-|@i.n>`   (k = kill after k engine calls; `-` = run to the end, clean exit;
            `@i.n` = kill after statements 0..i-1 and the first n non-read engine calls of statement i – robust to
            added/removed read-only calls)
          `crash  run2  <history1>  <k1>  <history2>  <k2>`  (second process on the directory left by the first; the
            connect of history2 creates its schema iff the first process did not leave it)
  history := `;`-separated statements
     `N<mkDb><mkSchema>.<s>` connect(database 0, schema s) · `T<t>.<cmt|->.<len|->` CREATE TABLE · `D<t>` DROP TABLE ·
     `M<t>.<c>` COMMENT ON · `S<s>` CREATE SCHEMA · `V<v>` CREATE VIEW · `B<d>` CREATE DATABASE ·
     `i<t>.<k>.<v>` / `u<t>.<k>.<v>` / `d<t>.<k>` DML · `G<t>.<k1>.<v1>.<k2>.<v2>…` MERGE with those source rows · `e<t>.<k1>.<v1>.<k2>.<v2>…` executemany INSERT of
     those rows ·
     `q` SELECT · `b` / `c` / `r` · `x` COMMIT rejected by a commit-time conflict · `E` end of a `with conn:` block
Reply:    `calls=<per statement: string over q w b c r, statements separated by |>  total=<n>  impl=<dump>
           before=<dump>  after=<dump>  finding=<key|->  stmt=<index|->  j=<calls into it|->`
  dump   := `<files>/<schemas>/<tables>/<views>`; tables `+`-separated `id:cmt:len:k.v,k.v`
  `before`/`after` = the dumps at the statement boundaries around the kill point (the two states the property allows).
-/
namespace Fs.Drv.Crash
open Fs.Wire Fs.Crash

def nats (s : String) : Option (List Nat) := (s.splitOn ".").mapM (·.toNat?)

def optNat (s : String) : Option (Option Nat) := if s == "-" then some none else s.toNat?.map some

def pairs : List Nat → List (Nat × Nat)
  | a :: b :: r => (a, b) :: pairs r
  | _ => []

def parseStmt (s : String) : Option Stmt :=
  let tl := (s.drop 1).toString
  match s.front with
  | 'N' => match tl.splitOn "." with
    | [f, sc] => do
      let n ← sc.toNat?
      some (.connect ((f.take 1).toString == "1") ((f.drop 1).toString == "1") n)
    | _ => none
  | 'T' => match tl.splitOn "." with
    | [t, c, l] => do some (.createTable (← t.toNat?) (← optNat c) (← optNat l))
    | _ => none
  | 'D' => tl.toNat?.map .dropTable
  | 'M' => match nats tl with | some [t, c] => some (.commentOn t c) | _ => none
  | 'S' => tl.toNat?.map .createSchema
  | 'V' => match nats tl with | some [v] => some (.createView v) | some [v, c] => some (.createViewC v c) | _ => none
  | 'B' => (String.ofList (tl.toList.takeWhile Char.isDigit)).toNat?.map .createDatabase   -- `B<d>q`: the name written quoted (upper case)
  | 'i' => match nats tl with | some [t, k, v] => some (.dml t (.ins k v)) | _ => none
  | 'u' => match nats tl with | some [t, k, v] => some (.dml t (.upd k v)) | _ => none
  | 'd' => match nats tl with | some [t, k] => some (.dml t (.del k)) | _ => none
  | 'G' => match nats tl with | some (t :: r) => some (.merge t (pairs r)) | _ => none
  | 'e' => match nats tl with | some (t :: r) => some (.insertMany t (pairs r)) | _ => none
  | 'q' => some .select
  | 'b' => some .begin
  | 'c' => some .commit
  | 'r' => some .rollback
  | 'x' => some .commitConflict
  | 'E' => some .connExit
  | _ => none

def encCall : Call → String
  | .q => "q" | .w _ => "w" | .begin => "b" | .commit => "c" | .rollback => "r" | .commitFail => "x"

def encNats (l : List Nat) : String := ",".intercalate (l.map toString)

def encTbl (t : Tbl) : String :=
  s!"{t.id}:{encOptNat t.cmt}:{encOptNat t.len}:" ++ ",".intercalate (t.rows.map fun r => s!"{r.1}.{r.2}")

def encDump (d : Dump) : String :=
  s!"{encNats d.files}/{encNats d.schemas}/" ++ "+".intercalate (d.tables.map encTbl) ++ s!"/{encNats d.views}"

/-- number of calls of `cs` up to and including its `n`-th call that is not a read (0 for n = 0) -/
def posAfter : List Call → Nat → Nat
  | _, 0 => 0
  | [], _ => 0
  | .q :: cs, n => 1 + posAfter cs n
  | _ :: cs, n + 1 => 1 + posAfter cs n

/-- kill point given as `@<i>.<n>`: statements 0..i-1 completed, and the first `n` non-read calls of statement `i` -/
def addrK (h : List Stmt) (k : String) : Nat :=
  if k.front == '@' then
    match nats (k.drop 1).toString with
    | some [i, n] => (flat (h.take i)).length + (match h[i]? with | some s => posAfter (calls s) n | none => 0)
    | _ => 0
  else (decOptNat k).getD (flat h).length

def handle : List String → String
  | ["run", hist, k] =>
    match (decList hist).mapM parseStmt with
    | none => "bad-op"
    | some h =>
      let total := (flat h).length
      let kk := addrK h k
      let sp := split h kk
      let done := sp.1.length
      let j := sp.2
      let before := kk - j
      let after := match h[done]? with | some s => before + (calls s).length | none => before
      let key := match h[done]? with
        | some s => if j == 0 then "-" else
            -- a statement is torn only in autocommit: inside a transaction nothing is durable before COMMIT
            if (crash Eng.init h kk).tx.isSome then "-" else tornKey s j
        | none => "-"
      let callsStr := "|".intercalate (h.map fun s => String.join ((calls s).map encCall))
      s!"calls={callsStr}\ttotal={total}\timpl={encDump (dump (recover (crash Eng.init h kk)))}" ++
      s!"\tbefore={encDump (dump (recover (crash Eng.init h before)))}\tafter={encDump (dump (recover (crash Eng.init h after)))}" ++
      s!"\tfinding={key}\tstmt={done}\tj={j}"
  | ["run2", hist1, k1, hist2, k2] =>
    match (decList hist1).mapM parseStmt, (decList hist2).mapM parseStmt with
    | some h1, some h2 =>
      let log1 := recover (crash Eng.init h1 (addrK h1 k1))
      let e1 : Eng := { disk := log1, tx := none }
      -- the second process connects on whatever the first one left: it creates the schema only if it is not there
      let h2 := h2.map fun st => match st with
        | .connect mkDb _ sc => .connect mkDb (!(dump log1).schemas.contains sc) sc
        | st => st
      s!"mid={encDump (dump log1)}\timpl={encDump (dump (recover (crash e1 h2 (addrK h2 k2))))}"
    | _, _ => "bad-op"
  | _ => "bad-op"

end Fs.Drv.Crash
