import Fs.Core.Wire
import Fs.Model.Tx
/-! Driver handler for the `tx` model (C13).

Request:  `tx  run  <shared 0|1>  <init>  <events>`
  init   := tables separated by `|`, each a `,`-separated list of `k.v` rows (or empty)
  events := `;`-separated: `C` connect(database, schema) · `Cn` connect() without database/schema · `K<c>` conn.cursor() · `Kt<c>` conn.cursor() called on another thread · `Wn<c>`/`We<c>` a `with conn:` block of
            connection c ends normally / by an exception · `X<k>:<stmt>` cursor k executes ·
            `M<c>` conn.commit() · `R<c>` conn.rollback()
  stmt   := `b` BEGIN · `c` COMMIT · `r` ROLLBACK · `s<t>` select · `i<t>.<k>.<v>` · `d<t>.<k>` · `u<t>.<k>.<v>` ·
            `ft` missing table · `fc` missing column · `fr` run-time failure · `fm` MERGE whose clause fails to bind · `k` SELECT 1 · `m` COMMENT ON (binds, no row change) · `z<t>` TRUNCATE
Reply:    `impl=<obs;…>  spec=<obs;…>  env=<0|1>  finding=<key|->  fstep=<index|->`
  obs    := `-` (no statement ran) · `e` empty · `S` status row · `r<k.v,…>` rows · `n<count>` · `1` ·
            `Et`/`Ec` Snowflake 2003/2043 · `N` raw nested-BEGIN error · `X` raw run-time error · `A` raw aborted · `I` unspecified
-/
namespace Fs.Drv.Tx
open Fs.Wire Fs.Tx

def parseRow (s : String) : Option Row :=
  match s.splitOn "." with
  | [k, v] => do some ((← k.toNat?), (← v.toNat?))
  | _ => none

def parseTable (s : String) : List Row := if s.isEmpty then [] else (s.splitOn ",").filterMap parseRow

def parseInit (s : String) : Store :=
  let tbls := (s.splitOn "|").map parseTable
  fun t => tbls.getD t []

def nats (s : String) : Option (List Nat) := (s.splitOn ".").mapM (·.toNat?)

def parseStmt (s : String) : Option Stmt :=
  let tl := (s.drop 1).toString
  match s.front with
  | 'b' => some .begin
  | 'c' => some .commit
  | 'r' => some .rollback
  | 'k' => some .const
  | 'm' => some .touch
  | 'z' => tl.toNat?.map fun t => .dml t .clr
  | 's' => tl.toNat?.map .sel
  | 'i' => match nats tl with | some [t, k, v] => some (.dml t (.ins k v)) | _ => none
  | 'd' => match nats tl with | some [t, k] => some (.dml t (.del k)) | _ => none
  | 'u' => match nats tl with | some [t, k, v] => some (.dml t (.upd k v)) | _ => none
  | 'f' => match tl with | "t" => some (.failBind false) | "c" => some (.failBind true) | "r" => some .failRun | "m" => some .failMulti | _ => none
  | _ => none

def parseEv (s : String) : Option Ev :=
  let tl := (s.drop 1).toString
  match s.front with
  | 'C' => some (.connect (tl != "n"))
  | 'K' => if tl.front == 't' then (tl.drop 1).toString.toNat?.map (.cursor · true) else tl.toNat?.map (.cursor · false)
  | 'W' => ((tl.drop 1).toString.toNat?).map (.blockExit · (tl.front == 'e'))
  | 'M' => tl.toNat?.map .connCommit
  | 'R' => tl.toNat?.map .connRollback
  | 'X' => match tl.splitOn ":" with
    | [k, st] => do some (.exec (← k.toNat?) (← parseStmt st))
    | _ => none
  | _ => none

def encRows (l : List Row) : String := ",".intercalate (l.map fun r => s!"{r.1}.{r.2}")

def encObs : Option Obs → String
  | none => "-"
  | some .empty => "e"
  | some .status => "S"
  | some (.rows l) => "r" ++ encRows l
  | some (.count n) => s!"n{n}"
  | some .one => "1"
  | some (.sfErr false) => "Et"
  | some (.sfErr true) => "Ec"
  | some .rawNested => "N"
  | some .rawRun => "X"
  | some .rawAborted => "A"
  | some .ignored => "I"

/-- first event that lies in a known-defect region (evaluated along the code-model run) -/
def firstFinding (shared : Bool) (w : World) (i : Nat) : List Ev → String × Option Nat
  | [] => ("-", none)
  | e :: es =>
    let key := match e with
      | .exec k st => match w.curs[k]? with | some (_, d) => findingKey w.sys d st | none => "-"
      | _ => "-"
    if key != "-" then (key, some i) else firstFinding shared (World.step shared .duck w e).1 (i + 1) es

def handle : List String → String
  | ["run", shared, init, evs] =>
    match (decList evs).mapM parseEv with
    | none => "bad-op"
    | some es =>
      let sh := decBool shared
      let com := parseInit init
      let impl := (World.run sh .duck (World.init com) es).2
      let spec := (World.run false .ideal (World.init com) es).2
      let env := envOk (Sys.init com) (Book.trace ⟨0, []⟩ es)
      let f := firstFinding sh (World.init com) 0 es
      s!"impl={encList (impl.map encObs)}\tspec={encList (spec.map encObs)}\tenv={encBool env}\tfinding={f.1}\tfstep={encOptNat f.2}"
  | _ => "bad-op"

end Fs.Drv.Tx
