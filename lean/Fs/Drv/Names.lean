import Fs.Core.Wire
import Fs.Model.Names
/-!
Driver handler for the `names` model (C03).

request:  `names	hist	<op>;<op>;…`   with
  op    := `c,<d|->,<s|->,<cd 0|1>,<cs 0|1>`     connect(database, schema) on an instance with create_*_on_connect
         | `s,<i>,<stmt>`                        statement on connection i
  stmt  := `cd,<d>,<ifx>` | `dd,<d>` | `ud,<d>` | `ub,<x>` | `sc,<ifx>,<sref>` | `sd,<ifx>,<sref>` | `su,<sref>`
         | `w,<is|cs|cl|uf|du|mg>,<target tref>,<source tref>` (two-table statements)
         | `ii,<v>,<tref>` | `is,<tref>` (INSERT / SELECT through IDENTIFIER('…')) | `wp,<v>,<tref>` (write_pandas)
         | `tc,<t|v>,<v>,<ifx>,<tref>` | `td,<t|v>,<ifx>,<tref>` | `ti,<v>,<tref>` | `ts,<tref>` | `j,<tref>,<tref>` | `x`
  sref  := `<s>` | `<d>.<s>`        tref := `<n>` | `<s>.<n>` | `<d>.<s>.<n>`      (names are numbers)
reply:    `steps=<step>;<step>;…	final=<catalog>` one step per op:
  step  := `<impl res>~<spec res|?>~<key|->~<sess>!<sess>…`
  sess  := `<database>/<schema>/<path db>/<path schema>/<spec db|?>/<spec schema|?>`
  res   := `ok` | `r<v.v.v>` | `c<d|->/<s|->` | `e90105` | `e90106` | `e2043` | `e2003` | `eraw`
The specification side of a step is computed from the abstraction of the state the code model is in before the
step (one-step refinement, exactly the shape of `C03_refines`); it is `?` for a connection that is not coherent.
-/
namespace Fs.Drv.Names
open Fs.Wire Fs.Names

def pNat (s : String) : Option Nat := s.toNat?
def pOpt (s : String) : Option (Option Nat) := if s == "-" then some none else s.toNat?.map some

def pTRef (s : String) : Option TRef :=
  match (s.splitOn ".").mapM pNat with
  | some [n] => some (.q1 n)
  | some [a, n] => some (.q2 a n)
  | some [d, a, n] => some (.q3 d a n)
  | _ => none

def pSRef (s : String) : Option SRef :=
  match (s.splitOn ".").mapM pNat with
  | some [n] => some (.q1 n)
  | some [d, n] => some (.q2 d n)
  | _ => none

def pKind : String → Option Kind | "t" => some .table | "v" => some .view | _ => none

def pStmt : List String → Option Stmt
  | ["cd", d, i] => (pNat d).map fun d => .createDb d (i == "1")
  | ["dd", d] => (pNat d).map .dropDb
  | ["ud", d] => (pNat d).map .useDb
  | ["ub", d] => (pNat d).map .useBare
  | ["sc", i, r] => (pSRef r).map (.sch (.create (i == "1")))
  | ["sd", i, r] => (pSRef r).map (.sch (.drop (i == "1")))
  | ["su", r] => (pSRef r).map (.sch .use)
  | ["tc", k, v, i, r] => do let k ← pKind k; let v ← pNat v; let r ← pTRef r; pure (.tab (.create k v (i == "1")) r)
  | ["td", k, i, r] => do let k ← pKind k; let r ← pTRef r; pure (.tab (.drop k (i == "1")) r)
  | ["ti", v, r] => do let v ← pNat v; let r ← pTRef r; pure (.tab (.insert v) r)
  | ["ts", r] => (pTRef r).map (.tab .select)
  | ["j", a, b] => do let a ← pTRef a; let b ← pTRef b; pure (.join a b)
  | ["ii", v, r] => do let v ← pNat v; let r ← pTRef r; pure (.tabI (.insert v) r)
  | ["is", r] => (pTRef r).map (.tabI .select)
  | ["wp", v, r] => do let v ← pNat v; let r ← pTRef r; pure (.writePandas v r)
  | ["w", op, a, b] => do
    let op ← (match op with
      | "is" => some COp.insertSelect | "cs" => some .ctas | "cl" => some .clone
      | "uf" => some .updateFrom | "du" => some .deleteUsing | "mg" => some .merge | _ => none)
    let a ← pTRef a; let b ← pTRef b; pure (.two op a b)
  | ["x"] => some .selectCtx
  | _ => none

def pOp (s : String) : Option Op :=
  match s.splitOn "," with
  | ["c", d, sc, cd, cs] => do let d ← pOpt d; let sc ← pOpt sc; pure (.connect d sc (cd == "1") (cs == "1"))
  | "s" :: i :: rest => do let i ← pNat i; let st ← pStmt rest; pure (.stmt i st)
  | _ => none

def eOpt : Option Nat → String | none => "-" | some n => toString n

def eRes : Res → String
  | .ok => "ok"
  | .rows l => "r" ++ ".".intercalate (l.map toString)
  | .ctx d s => s!"c{eOpt d}/{eOpt s}"
  | .err .noDb => "e90105"
  | .err .noSchema => "e90106"
  | .err .binder => "e2043"
  | .err .catalog => "e2003"
  | .err .raw => "eraw"

def eSess (cat : Cat) (ss : Session) (spec : Option Ctx) : String :=
  let sp := match spec with
    | some x => if ss.coherent cat then s!"{eOpt x.db}/{eOpt x.schema}" else "?/?"
    | none => "?/?"
  s!"{eOpt ss.database}/{eOpt ss.schema}/{ss.path.1}/{ss.path.2}/{sp}"

/-- `newest`: the specification context of the last connection is shown even when that connection is not coherent
    (connect step: what connect should have reported) -/
def eSessions (w : World) (sw : Option SWorld) (newest : Bool := false) : String :=
  "!".intercalate (w.sessions.zipIdx.map fun (ss, j) =>
    let spec := sw.bind fun s => s.ctxs[j]?
    if newest && j + 1 == w.sessions.length then
      match spec with
      | some x => s!"{eOpt ss.database}/{eOpt ss.schema}/{ss.path.1}/{ss.path.2}/{eOpt x.db}/{eOpt x.schema}"
      | none => eSess w.cat ss none
    else eSess w.cat ss spec)

def eCat (c : Cat) : String :=
  let dbs := ",".intercalate (c.dbs.map toString)
  let ss := ",".intercalate (c.schemas.map fun p => s!"{p.1}.{p.2}")
  let os := ",".intercalate (c.objs.map fun o =>
    s!"{o.db}.{o.schema}.{o.name}:{if o.kind = .view then "v" else "t"}:{".".intercalate (o.rows.map toString)}")
  s!"{dbs}|{ss}|{os}"

/-- one op; returns the encoded step and the next world.  After an op the coherence of *every* connection
    decides whether its specification context is shown. -/
def stepOut (w : World) : Op → String × World
  | .connect d s cd cs =>
    let w' := Impl.connect w d s cd cs
    let sw := Spec.connect w.abs d s cd cs
    let key := match connectRegion w d s cd cs with | some k => k.name | none => "-"
    (s!"ok~ok~{key}~{eSessions w' (some sw) true}~{eCat w'.cat}~{eCat sw.cat}", w')
  | .stmt i st =>
    let r := Impl.step w i st
    let cohBefore := match w.sessions[i]? with | some ss => ss.coherent w.cat | none => true
    let sr := Spec.step w.abs i st
    let dbl := match w.sessions[i]? with | some ss => st.doubleFault w.cat ss.path | none => false
    let rkey := match region w i st with | some k => k.name | none => "-"
    let key := if st.unexplored then "unsupported"
               else if dbl && r.1 != .err .noDb && r.1 != .err .noSchema then rkey ++ "+anyerror" else rkey
    -- spec contexts: of a connection that was coherent before the step (others: `?`)
    let specCtx (j : Nat) : Option Ctx :=
      match w.sessions[j]? with
      | some sj => if sj.coherent w.cat && cohBefore then sr.2.ctxs[j]? else none
      | none => none
    let sess := "!".intercalate (r.2.sessions.zipIdx.map fun (ss, j) =>
      let sp := match specCtx j with | some x => s!"{eOpt x.db}/{eOpt x.schema}" | none => "?/?"
      s!"{eOpt ss.database}/{eOpt ss.schema}/{ss.path.1}/{ss.path.2}/{sp}")
    let specRes := if cohBefore then eRes sr.1 else "?"
    let specCat := if cohBefore then eCat sr.2.cat else "?"
    (s!"{eRes r.1}~{specRes}~{key}~{sess}~{eCat r.2.cat}~{specCat}", r.2)

def runOut (w : World) : List Op → List String
  | [] => []
  | o :: os => let r := stepOut w o; r.1 :: runOut r.2 os

def handle : List String → String
  | ["hist", ops] =>
    match (decList ops).mapM pOp with
    | none => "bad-op"
    | some os => s!"steps={encList (runOut World.init os)}"
  | _ => "bad-op"

end Fs.Drv.Names
