import Fs.Core.Wire
import Fs.Model.Fold
/-!
Driver handler for the `fold` model (C02).
  `fold	norm	<q><raw>;<q><raw>;…`   q = `u`|`q`, raw = code points  → `norm=<name>;<name>;…`
  `fold	find	<ref q+raw>	<stored names as quoted idents>`   → `duck=<name|->	sf=<name|->`
  `fold	var	<set ident>	<unset ident>` → `set=<key>	unset=<key>`
  `fold	then	<raw>`  → `delete=<0|1>`
-/
namespace Fs.Drv.Fold
open Fs.Wire Fs.Fold

def pIdent (s : String) : Ident :=
  let q := s.front == 'q'
  ⟨decStr (s.drop 1).toString.trimAscii.toString, q⟩

def handle : List String → String
  | ["norm", ids] => "norm=" ++ encList ((decList ids).map fun s => encStr (pIdent s).norm)
  | ["find", ref, stored] =>
    let st := (decList stored).map fun s => (pIdent s).norm
    let r := (pIdent ref).norm
    s!"duck={encOptStr (duckFind st r)}\tsf={encOptStr (sfFind st r)}"
  | ["var", a, b] => s!"set={encStr (setKey (pIdent a))}\tunset={encStr (unsetKey (pIdent b))}"
  | ["settag", raw] => s!"settag={encBool (rawHasSetTag (decStr raw))}"
  | ["then", raw] => s!"delete={encBool (thenIsDelete (decStr raw))}"
  | _ => "bad-op"

end Fs.Drv.Fold
