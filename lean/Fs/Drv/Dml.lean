import Fs.Core.Wire
import Fs.Model.DmlExec
/-!
Driver handler for the `dml` model (C04).

`run <tokens>`: tokens (space separated) =
    <ntables> { <arity> <nrows> <val…> } <nstmts> { <stmt> }
    val  := N | <int>
    stmt := I <t> <cols> <src> | U <t> <k> { <col> <expr> } <optpred> | D <t> <optpred> | T <t>
    cols := * | C <k> <i…>          src := V <w> <nrows> <val…> | S <src> <proj> <optpred>
    proj := * | P <k> <expr…>       expr := L <val> | C <i> | A <i> <int>
    optpred := - | W <pred>
    pred := k t|f|u | c <opnd> <op> <opnd> | n <opnd> | nn <opnd> | e <opnd> <opnd> | & <pred> <pred> | or <pred> <pred> | ! <pred>
    opnd := C <i> | L <val>         op := eq|ne|lt|le|gt|ge
  reply: impl=<json>	spec=<json>   json = {"obs":[…],"dbs":[[tables after each statement]…]}
`ddl <kind> <quoted> <name> <noop>`: reply impl=<text|-|raise>	spec=<text|->	finding=<key|->
-/
namespace Fs.Drv.Dml
open Fs.Wire Fs.Dml

abbrev P (α : Type) := List String → Option (α × List String)

def pNat : P Nat
  | t :: ts => t.toNat?.map (·, ts)
  | [] => none

def pInt : P Int
  | t :: ts => t.toInt?.map (·, ts)
  | [] => none

def pVal : P Val
  | "N" :: ts => some (none, ts)
  | t :: ts => t.toInt?.map (some ·, ts)
  | [] => none

def pMany {α} (p : P α) : Nat → P (List α)
  | 0, ts => some ([], ts)
  | n + 1, ts => do
    let (a, ts) ← p ts
    let (as, ts) ← pMany p n ts
    pure (a :: as, ts)

def pCounted {α} (p : P α) : P (List α) := fun ts => do
  let (n, ts) ← pNat ts
  pMany p n ts

def pOpnd : P Opnd
  | "C" :: ts => do let (i, ts) ← pNat ts; pure (.col i, ts)
  | "L" :: ts => do let (v, ts) ← pVal ts; pure (.lit v, ts)
  | _ => none

def pCmp : P Cmp
  | "eq" :: ts => some (.eq, ts) | "ne" :: ts => some (.ne, ts) | "lt" :: ts => some (.lt, ts)
  | "le" :: ts => some (.le, ts) | "gt" :: ts => some (.gt, ts) | "ge" :: ts => some (.ge, ts)
  | _ => none

def pPred : Nat → P Pred
  | 0, _ => none
  | fuel + 1, ts =>
    match ts with
    | "k" :: "t" :: ts => some (.const .t, ts)
    | "k" :: "f" :: ts => some (.const .f, ts)
    | "k" :: "u" :: ts => some (.const .u, ts)
    | "c" :: ts => do
      let (a, ts) ← pOpnd ts
      let (op, ts) ← pCmp ts
      let (b, ts) ← pOpnd ts
      pure (.cmp a op b, ts)
    | "n" :: ts => do let (a, ts) ← pOpnd ts; pure (.isNull a, ts)
    | "nn" :: ts => do let (a, ts) ← pOpnd ts; pure (.notNull a, ts)
    | "e" :: ts => do
      let (a, ts) ← pOpnd ts
      let (b, ts) ← pOpnd ts
      pure (.eqNull a b, ts)
    | "&" :: ts => do
      let (p, ts) ← pPred fuel ts
      let (q, ts) ← pPred fuel ts
      pure (.and p q, ts)
    | "or" :: ts => do
      let (p, ts) ← pPred fuel ts
      let (q, ts) ← pPred fuel ts
      pure (.or p q, ts)
    | "!" :: ts => do let (p, ts) ← pPred fuel ts; pure (.not p, ts)
    | _ => none

def pOptPred : P (Option Pred)
  | "-" :: ts => some (none, ts)
  | "W" :: ts => do let (p, ts) ← pPred (ts.length + 1) ts; pure (some p, ts)
  | _ => none

def pExpr : P Expr
  | "A" :: ts => do let (i, ts) ← pNat ts; let (k, ts) ← pInt ts; pure (.plus i k, ts)
  | ts => do let (o, ts) ← pOpnd ts; pure (.opnd o, ts)

def pRow (w : Nat) : P Row := pMany pVal w

def pTable : P Table := fun ts => do
  let (a, ts) ← pNat ts
  let (n, ts) ← pNat ts
  let (rows, ts) ← pMany (pRow a) n ts
  pure (⟨a, rows⟩, ts)

def pCols : P (Option (List Nat))
  | "*" :: ts => some (none, ts)
  | "C" :: ts => do let (cs, ts) ← pCounted pNat ts; pure (some cs, ts)
  | _ => none

def pProj : P (Option (List Expr))
  | "*" :: ts => some (none, ts)
  | "P" :: ts => do let (es, ts) ← pCounted pExpr ts; pure (some es, ts)
  | _ => none

def pSrc : P Src
  | "V" :: ts => do
    let (w, ts) ← pNat ts
    let (n, ts) ← pNat ts
    let (rows, ts) ← pMany (pRow w) n ts
    pure (.values w rows, ts)
  | "S" :: ts => do
    let (s, ts) ← pNat ts
    let (proj, ts) ← pProj ts
    let (p, ts) ← pOptPred ts
    pure (.select s proj p, ts)
  | _ => none

def pSet : P (Nat × Expr) := fun ts => do
  let (c, ts) ← pNat ts
  let (e, ts) ← pExpr ts
  pure ((c, e), ts)

def pStmt : P Stmt
  | "I" :: ts => do
    let (t, ts) ← pNat ts
    let (cols, ts) ← pCols ts
    let (src, ts) ← pSrc ts
    pure (.insert t cols src, ts)
  | "U" :: ts => do
    let (t, ts) ← pNat ts
    let (sets, ts) ← pCounted pSet ts
    let (p, ts) ← pOptPred ts
    pure (.update t sets p, ts)
  | "D" :: ts => do
    let (t, ts) ← pNat ts
    let (p, ts) ← pOptPred ts
    pure (.delete t p, ts)
  | "T" :: ts => do let (t, ts) ← pNat ts; pure (.truncate t, ts)
  | _ => none

def pCase : P (DB × List Stmt) := fun ts => do
  let (db, ts) ← pCounted pTable ts
  let (ss, ts) ← pCounted pStmt ts
  pure ((db, ss), ts)

/-! JSON output -/

def jList (xs : List String) : String := "[" ++ ",".intercalate xs ++ "]"
def jStr (s : String) : String := "\"" ++ s ++ "\""     -- only used on quote-free texts
def jVal : Val → String
  | none => "null"
  | some n => toString n
def jCell : Cell → String
  | .int n => toString n
  | .text s => jStr s
def jTable (tb : Table) : String := jList (tb.rows.map fun r => jList (r.map jVal))
def jDb (db : DB) : String := jList (db.map jTable)
def jObs : Except Err Obs → String
  | .error .catalog => jStr "catalog"
  | .error .binder => jStr "binder"
  | .ok o => "{\"names\":" ++ jList (o.names.map jStr) ++ ",\"rows\":" ++ jList (o.rows.map fun r => jList (r.map jCell))
      ++ ",\"rc\":" ++ toString o.rowcount ++ "}"

/-- run a history, recording the database after every statement -/
def trace (step : DB → Stmt → Except Err (DB × Obs)) (db : DB) : List Stmt → List (Except Err Obs × DB)
  | [] => []
  | s :: ss =>
    match step db s with
    | .error e => (.error e, db) :: trace step db ss
    | .ok (db', o) => (.ok o, db') :: trace step db' ss

def jTrace (tr : List (Except Err Obs × DB)) : String :=
  "{\"obs\":" ++ jList (tr.map (jObs ·.1)) ++ ",\"dbs\":" ++ jList (tr.map (jDb ·.2)) ++ "}"

def parseKind : String → Option DdlKind
  | "createDatabase" => some .createDatabase | "createSchema" => some .createSchema
  | "createTable" => some .createTable | "createView" => some .createView | "drop" => some .drop
  | "alter" => some .alter | "commentOnTable" => some .commentOnTable | "alterSetComment" => some .alterSetComment
  | "truncate" => some .truncate | "commentOnColumn" => some .commentOnColumn
  | _ => none

def handle : List String → String
  | ["run", toks] =>
    match pCase (toks.splitOn " ") with
    | some ((db, ss), []) =>
      s!"impl={jTrace (trace Impl.step db ss)}\tspec={jTrace (trace Spec.step db ss)}\told={jTrace (trace Impl.stepOld db ss)}"
    | _ => "bad-op"
  | ["ddl", kind, quoted, name, noop] =>
    match parseKind kind with
    | none => "bad-op"
    | some k =>
      let n : Ident := ⟨decStr name, decBool quoted⟩
      let impl := if statusSqlWellFormed k n then encOptStr (ddlStatus k n) else "raise"
      s!"impl={impl}\tspec={encOptStr (Spec.ddlStatus k n (decBool noop))}\tfinding={(ddlFinding k n (decBool noop)).getD "-"}"
  | ["ddlident", kind, lit] =>
    match parseKind kind with
    | none => "bad-op"
    | some k =>
      let l := decStr lit
      s!"impl={encOptStr (ddlStatus k (identifierArg l))}\tspec={encOptStr (Spec.ddlStatus k (Spec.identifierName l) false)}\tfinding={(ddlFindingIdentifier k l).getD "-"}"
  | _ => "bad-op"

end Fs.Drv.Dml
